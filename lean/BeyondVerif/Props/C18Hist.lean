import BeyondVerif.Lemmas.Jpl
/-!
# C18 — part 3: every public route, either direction, and histories of requests

The model (`Model/JplR.lean`) contains, besides `create_frames` / `get_orbit` / `Center.convert_to`:

* `propagate` for a propagator built by hand for the two ends of a segment (`JplPropagator(obj, frame)`): the sign
  that reverses a segment acts on position AND velocity;
* `Att`, `attOffset`, `stepOffsetD`, `centerToA`, `reframeA`: frames made from orbits (`Orbit.as_frame` /
  `orbit2frame`), the new centre hanging below the centre of the frame the orbit is expressed in, its offset being the
  propagated state expressed in that frame (`Center.offset_frame`, commit 261fb0a);
* `World`, `Op`, `step`, `run`: the caller's objects, modified in place, and requests repeated — the code keeps
  no memory between requests, so neither does the model.

Theorems:

* `spk_propagator_reverse` — a propagator for the reverse of a segment returns minus the propagator of the segment,
  all six components (no hypothesis on the segment values).
* `spk_propagator_either_direction` — whichever way the file stores the segment, position and velocity of the first
  body relative to the second, m and m/s.
* `spk_attached_frames` — conversions between any two frames, kernel bodies or frames made from orbits, add the
  difference of the positions of their centres.
* `spk_as_frame` — the frame made from the orbit of a body (as seen from either end of its segment, i.e. from a
  centre that is not the Earth; whatever frame the orbit had been re-framed to before) is centred on that body:
  conversions from and to it chain the segments.  `attach_potential_all`: the convention `AttPos` (the new centre is
  given the position of the orbit's body) can always be met.
* `history_independent` — the answer to a request is a function of the kernel and the segment values at the date of
  the request only: it is the same in every world (whatever objects the caller holds and however he modified them,
  whatever frames he attached).
* `inplace_is_copy` — `orb.frame = b` leaves in `orb` exactly what `orb.copy(frame=b)` returns.
* `object_tracks_body` — an object that holds the position of its body relative to the centre of its frame still does
  after `orb.frame = b`.
-/
namespace BeyondVerif.C18
open BeyondVerif.Node BeyondVerif.R.Jpl BeyondVerif.NumReal BeyondVerif.JplLemmas

theorem toSI_neg_one_eq (v : V6) : toSI (-1) v = vneg (toSI 1 v) := by
  funext i; simp only [toSI, vneg]; split <;> ring

/-- **Either direction, literally**: the propagator built for the reverse of a segment of the file
(`JplPropagator(centre, frame of the target)`) returns minus what the propagator of the segment returns — position and
velocity, for arbitrary segment values. -/
theorem spk_propagator_reverse (ps : Pairs) (seg : Nat → Nat → V6) (c t : Nat) (h : (c, t) ∈ ps) (h' : (t, c) ∉ ps) :
    propagate ps seg c t = negRes (propagate ps seg t c) := by
  have h1 : ps.contains (c, t) = true := contains_iff.mpr h
  have h2 : ¬ (ps.contains (t, c) = true) := fun hh => h' (contains_iff.mp hh)
  unfold propagate
  rw [if_pos h1, if_neg h2, if_pos h1]
  simp only [negRes, toSI_neg_one_eq]

/-- **Hand-made propagators, either direction**: whatever `JplPropagator(o, frame of c).propagate` returns is the
position and velocity of `o` relative to `c` in m, m/s, and the two bodies are the two ends of a segment. -/
theorem spk_propagator_either_direction (ps : Pairs) (seg : Nat → Nat → V6) (P : Nat → V6)
    (hP : Consistent ps seg P) (o c : Nat) (v : V6) (h : propagate ps seg o c = .ok v) :
    Linked ps o c ∧ v = si (P o - P c) := by
  have hl := propagate_ok_linked h
  rw [propagate_linked hP hl] at h
  exact ⟨hl, (Res.ok.inj h).symm⟩

/-- **Frames made from orbits**: between any two frames — kernel bodies or attached ones — a conversion adds the
difference of the positions of the two centres. -/
theorem spk_attached_frames (ps : Pairs) (att : List Att) (seg : Nat → Nat → V6) (P : Nat → V6)
    (hP : Consistent ps seg P) (hu : UniqueCenter ps) (hA : AttPos att P) (fuel a b : Nat) (x v : V6)
    (h : reframeA fuel ps att seg a b x = .ok v) : v = x + si (P a - P b) :=
  reframeA_ok hP hu hA h

/-- a name that no segment of the kernel mentions -/
def Fresh (ps : Pairs) (x : Nat) : Prop := ∀ p ∈ ps, p.1 ≠ x ∧ p.2 ≠ x

/-- giving a fresh name the position of the body of the orbit keeps the potential consistent with the kernel and
satisfies the convention `AttPos` — whatever frame the orbit was expressed in when `as_frame` was called -/
theorem attach_potential {ps : Pairs} {seg : Nat → Nat → V6} {P : Nat → V6} (hP : Consistent ps seg P)
    {x l o c : Nat} (hx : Fresh ps x) (hox : o ≠ x) :
    Consistent ps seg (Function.update P x (P o)) ∧ AttPos [⟨x, l, o, c⟩] (Function.update P x (P o)) := by
  refine ⟨?_, ?_⟩
  · intro c' t' hm
    rw [Function.update_of_ne (hx _ hm).2, Function.update_of_ne (hx _ hm).1]
    exact hP c' t' hm
  · intro t ht
    simp only [List.mem_singleton] at ht
    subst ht
    simp only
    rw [Function.update_self, Function.update_of_ne hox]

/-- any number of frames made from orbits: with fresh, pairwise distinct names that are not bodies of orbits, the
potential extends (so `AttPos` in `spk_attached_frames` / `history_independent` is a naming convention, not a restriction) -/
theorem attach_potential_all {ps : Pairs} {seg : Nat → Nat → V6} {P : Nat → V6} (hP : Consistent ps seg P)
    (att : List Att) (hx : ∀ t ∈ att, Fresh ps t.x) (hd : (att.map (·.x)).Nodup)
    (ho : ∀ t ∈ att, ∀ t' ∈ att, t.obj ≠ t'.x) :
    ∃ P', Consistent ps seg P' ∧ AttPos att P' ∧ ∀ n, (∀ t ∈ att, t.x ≠ n) → P' n = P n := by
  induction att with
  | nil => exact ⟨P, hP, (fun t ht => by simp at ht), fun _ _ => rfl⟩
  | cons t rest ih =>
    have hd' : t.x ∉ rest.map (·.x) ∧ (rest.map (·.x)).Nodup := by
      rw [List.map_cons] at hd; exact List.nodup_cons.mp hd
    obtain ⟨P1, hP1, hA1, hsame⟩ := ih (fun u hu => hx u (List.mem_cons_of_mem _ hu)) hd'.2
      (fun u hu u' hu' => ho u (List.mem_cons_of_mem _ hu) u' (List.mem_cons_of_mem _ hu'))
    have htx : Fresh ps t.x := hx t List.mem_cons_self
    refine ⟨Function.update P1 t.x (P1 t.obj), ?_, ?_, ?_⟩
    · intro c' t' hm
      rw [Function.update_of_ne (htx _ hm).2, Function.update_of_ne (htx _ hm).1]
      exact hP1 c' t' hm
    · intro u hu
      rcases List.mem_cons.mp hu with rfl | hu'
      · rw [Function.update_self, Function.update_of_ne (ho _ List.mem_cons_self _ List.mem_cons_self)]
      · have hne : u.x ≠ t.x := by
          intro he
          exact hd'.1 (by rw [← he]; exact List.mem_map_of_mem hu')
        rw [Function.update_of_ne hne, Function.update_of_ne (ho u hu t List.mem_cons_self)]
        exact hA1 u hu'
    · intro n hn
      rw [Function.update_of_ne (fun he => hn t List.mem_cons_self he.symm)]
      exact hsame n (fun u hu => hn u (List.mem_cons_of_mem _ hu))

/-- **`orb.as_frame(x)` is centred on the body of `orb`** — for the orbit of body `o` that a propagator returned
relative to `c` (either end of a segment: a centre that is not the Earth), made into a frame while expressed in the
frame of ANY body `l` (re-framed in place or copied before, or not: `l = c`), every kernel without doubly-centred
targets, every consistent set of segment values, every other body `b`, every fuel: a state vector `v0` given in the new
frame comes out in the frame of `b` displaced by `o` relative to `b`, and the other way round by `b` relative to `o`. -/
theorem spk_as_frame (ps : Pairs) (seg : Nat → Nat → V6) (P : Nat → V6) (hP : Consistent ps seg P)
    (hu : UniqueCenter ps) (x l o c : Nat) (hx : Fresh ps x) (hox : o ≠ x) (fuel b : Nat) (hb : b ≠ x) (v0 v : V6) :
    (reframeA fuel ps [⟨x, l, o, c⟩] seg x b v0 = .ok v → v = v0 + si (P o - P b)) ∧
    (reframeA fuel ps [⟨x, l, o, c⟩] seg b x v0 = .ok v → v = v0 + si (P b - P o)) := by
  obtain ⟨hP', hA⟩ := attach_potential (l := l) (c := c) hP hx hox
  have hx' : Function.update P x (P o) x = P o := Function.update_self ..
  have hb' : Function.update P x (P o) b = P b := Function.update_of_ne hb ..
  refine ⟨fun h => ?_, fun h => ?_⟩
  · rw [reframeA_ok hP' hu hA h, hx', hb']
  · rw [reframeA_ok hP' hu hA h, hx', hb']

/-! ## Histories -/

/-- what the property says a request returns; `none` for the requests that only look at / modify an object -/
noncomputable def specOf (P : Nat → Nat → V6) : Op → Option V6
  | .hand k o c => some (si (P k o - P k c))
  | .offset k a b => some (si (P k a - P k b))
  | .center k a b => some (si (P k a - P k b))
  | _ => none

theorem emit_ok {w w' : World} {k o c : Nat} {r : Res} {v : V6} (h : emit w k o c r = (w', .ok v)) :
    r = .ok v ∧ w'.att = w.att := by
  cases r with
  | ok u => simp only [emit, Prod.mk.injEq] at h; exact ⟨by rw [Res.ok.inj h.2], by rw [← h.1]⟩
  | unknownBody => simp [emit] at h
  | unknownFrame => simp [emit] at h
  | noRoute => simp [emit] at h
  | keyError => simp [emit] at h
  | noProvider => simp [emit] at h
  | fuel => simp [emit] at h

/-- **No memory between requests.** In EVERY world `w` — whatever objects the caller holds, whatever he wrote into them,
whatever (admissible) frames he attached — a request that returns a vector returns the vector the property states, a
function of the kernel and of the segment values at the date of the request only:
`get_orbit(a)` = a relative to the centre of its segment, a hand-made propagator = o relative to c, a re-framed zero
state vector and `Center.convert_to` = a relative to b.  None of these requests changes the attached frames. -/
theorem history_independent (ps : Pairs) (seg : Nat → Nat → Nat → V6) (P : Nat → Nat → V6)
    (hP : ∀ k, Consistent ps (seg k) (P k)) (hu : UniqueCenter ps) (fuel : Nat) (w w' : World)
    (hA : ∀ k, AttPos w.att (P k)) (v : V6) :
    (∀ k a, step fuel ps seg w (.get k a) = some (w', .ok v) →
        ∃ c, (c, a) ∈ ps ∧ v = si (P k a - P k c) ∧ w'.att = w.att) ∧
    (∀ op, specOf P op ≠ none → step fuel ps seg w op = some (w', .ok v) →
        specOf P op = some v ∧ w'.att = w.att) := by
  refine ⟨?_, ?_⟩
  · intro k a h
    simp only [step] at h
    cases hpc : propCenter ps a with
    | none => rw [hpc] at h; simp at h
    | some c =>
      rw [hpc] at h
      simp only [Option.some.injEq] at h
      obtain ⟨hr, hatt⟩ := emit_ok h
      have hm := propCenter_mem hpc
      rw [propagate_eq (hP k) hm] at hr
      exact ⟨c, hm, (Res.ok.inj hr).symm, hatt⟩
  · intro op hs h
    cases op with
    | hand k o c =>
      simp only [step, Option.some.injEq] at h
      obtain ⟨hr, hatt⟩ := emit_ok h
      obtain ⟨_, hv⟩ := spk_propagator_either_direction ps (seg k) (P k) (hP k) o c v hr
      exact ⟨by simp [specOf, hv], hatt⟩
    | offset k a b =>
      simp only [step, Option.some.injEq, Prod.mk.injEq] at h
      have := reframeA_ok (hP k) hu (hA k) h.2
      rw [vzero_eq, zero_add] at this
      exact ⟨by simp [specOf, this], by rw [← h.1]⟩
    | center k a b =>
      simp only [step, Option.some.injEq, Prod.mk.injEq] at h
      have := centerToA_ok (hP k) hu (hA k) h.2
      exact ⟨by simp [specOf, this], by rw [← h.1]⟩
    | get k a => simp [specOf] at hs
    | setFrame i b => simp [specOf] at hs
    | setVal i j x => simp [specOf] at hs
    | read i => simp [specOf] at hs
    | copyTo i b => simp [specOf] at hs
    | asFrame i x => simp [specOf] at hs
    | asFrameEph i x => simp [specOf] at hs

/-- **A read after an in-place write returns what a fresh object returns**: after `objs[i].frame = b` the object holds
exactly the vector `objs[i].copy(frame=b)` would have returned, and is in frame `b`. -/
theorem inplace_is_copy (fuel : Nat) (ps : Pairs) (seg : Nat → Nat → Nat → V6) (w w1 : World) (i b : Nat) (v : V6)
    (h : step fuel ps seg w (.setFrame i b) = some (w1, .ok v)) :
    (∃ w2, step fuel ps seg w (.copyTo i b) = some (w2, .ok v)) ∧
    step fuel ps seg w1 (.read i) = some (w1, .ok v) ∧
    (∃ o, w1.objs[i]? = some o ∧ o.frame = b) := by
  simp only [step] at h ⊢
  cases ho : w.objs[i]? with
  | none => rw [ho] at h; cases h
  | some o =>
    rw [ho] at h
    simp only at h ⊢
    cases hr : reframeA fuel ps w.att (seg o.date) o.frame b o.vec with
    | ok u =>
      rw [hr] at h
      simp only [Option.some.injEq, Prod.mk.injEq] at h
      obtain ⟨hw, hv⟩ := h
      have huv : u = v := Res.ok.inj hv
      subst huv
      have hi : i < w.objs.length := by
        rcases List.getElem?_eq_some_iff.mp ho with ⟨hi, _⟩; exact hi
      have hget : w1.objs[i]? = some { o with frame := b, vec := u } := by
        rw [← hw]; simp [List.getElem?_set_self hi]
      refine ⟨⟨_, rfl⟩, ?_, ⟨_, hget, rfl⟩⟩
      rw [hget]
    | unknownBody => rw [hr] at h; simp at h
    | unknownFrame => rw [hr] at h; simp at h
    | noRoute => rw [hr] at h; simp at h
    | keyError => rw [hr] at h; simp at h
    | noProvider => rw [hr] at h; simp at h
    | fuel => rw [hr] at h; simp at h

/-- **In-place conversion keeps the body**: an object holding its body's position relative to the centre of its frame
(as every answer of `get_orbit` / a hand-made propagator does) holds, after `orb.frame = b`, the body's position relative
to `b` — the vector chained along the segments from `b` to the body. -/
theorem object_tracks_body (ps : Pairs) (seg : Nat → Nat → Nat → V6) (P : Nat → Nat → V6)
    (hP : ∀ k, Consistent ps (seg k) (P k)) (hu : UniqueCenter ps) (fuel : Nat) (w w1 : World)
    (hA : ∀ k, AttPos w.att (P k)) (i b : Nat) (o : Obj) (ho : w.objs[i]? = some o)
    (hgood : o.vec = si (P o.date o.obj - P o.date o.frame)) (v : V6)
    (h : step fuel ps seg w (.setFrame i b) = some (w1, .ok v)) :
    v = si (P o.date o.obj - P o.date b) := by
  simp only [step] at h
  rw [ho] at h
  simp only at h
  cases hr : reframeA fuel ps w.att (seg o.date) o.frame b o.vec with
  | ok u =>
    rw [hr] at h
    simp only [Option.some.injEq, Prod.mk.injEq] at h
    have huv : u = v := Res.ok.inj h.2
    subst huv
    rw [reframeA_ok (hP o.date) hu (hA o.date) hr, hgood, ← si_add]
    congr 1; abel
  | unknownBody => rw [hr] at h; simp at h
  | unknownFrame => rw [hr] at h; simp at h
  | noRoute => rw [hr] at h; simp at h
  | keyError => rw [hr] at h; simp at h
  | noProvider => rw [hr] at h; simp at h
  | fuel => rw [hr] at h; simp at h

/-! ## Non-vacuity -/

/-- the Moon's orbit (seen from the Earth-Moon barycentre, not from the Earth) made into frame 1000000: the hypotheses
of `spk_as_frame` hold and the routing finds the way from the new frame to the Earth -/
example : Fresh [(0, 3), (3, 399), (3, 301)] 1000000 := by
  intro p hp
  simp only [List.mem_cons, List.not_mem_nil, or_false] at hp
  rcases hp with rfl | rfl | rfl <;> decide

/-- a frame made from the Moon's orbit after the orbit was re-framed to the Sun-less kernel's body 399: still routed -/
example : ∃ g, build 10 (linkHistA [(0, 3), (3, 399), (3, 301)] [⟨1000000, 399, 301, 3⟩]) = some g ∧
    path 10 g 1000000 3 = .ok [1000000, 399, 3] := ⟨_, rfl, by decide⟩

example : ∃ g, build 10 (linkHistA [(0, 3), (3, 399), (3, 301)] [⟨1000000, 3, 301, 3⟩]) = some g ∧
    path 10 g 1000000 399 = .ok [1000000, 3, 399] := ⟨_, rfl, by decide⟩

/-- the reverse propagator of a concrete segment: hypotheses of `spk_propagator_reverse` -/
example : ((3, 301) ∈ [(0, 3), (3, 399), (3, 301)]) ∧ ((301, 3) ∉ [(0, 3), (3, 399), (3, 301)]) := by decide

end BeyondVerif.C18
