import BeyondVerif.Generated.DateSrc
import BeyondVerif.Props.C03b

/-!
# C03, fifth part — the model is the source

`Generated/DateSrc.lean` is written on every run by a dedicated translator (`harness/props/C03.py: date_src`) from the AST of
`beyond/dates/date.py`: the two normalisation statements of `Date.__init__`, `_convert_to_scale`, the `divmod` of `__add__`
and the arguments of its single constructor call, the five comparisons and `__hash__`, and `DateRange.__contains__`, the
operator selection and loop of `__iter__`, `__len__`.  The translator refuses every other shape (a second `return` in
`__add__`, a comparison on something else than `_datetime`, a `change_scale` that does not go through
`self.datetime + timedelta(seconds=offset)` and the constructor, …).  The theorems below say that the hand-written model of
`Model/Date.lean`, which every other theorem of C03 is about, *is* that translation; a changed formula, guard or branch in the
source changes the generated term and breaks them.
-/
namespace BeyondVerif.C03
open BeyondVerif.Date BeyondVerif.Generated.DateSrc

/-- the constructor's `d += int((s + offset) // 86400); s = (s + offset) % 86400.0` is `normalise` -/
theorem src_normalise (d s off : Int) : normaliseSrc d s off = normalise d s off := rfl

/-- `_convert_to_scale` is `Date.toScale` -/
theorem src_toScale (x : Date) : toScaleSrc x = x.toScale := rfl

/-- `__add__` is the constructor on `(self.d + int(days), sec)` with `days, sec = divmod(total_seconds + self.s, 86400)` -/
theorem src_add (env : Env) (x : Date) (tUs : Int) :
    add cfg env x tUs = mk cfg env x.scale (addSplitSrc x.toScale.1 x.toScale.2 (tUs * 10)).1 (addSplitSrc x.toScale.1 x.toScale.2 (tUs * 10)).2 := rfl

/-- the comparisons and the hash key are those of `_datetime` -/
theorem src_cmp : ltSrc = Date.lt ∧ leSrc = Date.le ∧ eqSrc = Date.eq ∧ gtSrc = Date.gt ∧ geSrc = Date.ge ∧ hashKeySrc = Date.hashKey :=
  ⟨rfl, rfl, rfl, rfl, rfl, rfl⟩

/-- `DateRange.__contains__`, every branch -/
theorem src_contains (r : Range) (x : Int) : containsSrc r x = r.contains x := by
  unfold containsSrc Range.contains
  by_cases h : r.step < 0 <;> cases hi : r.incl <;> simp [h]

/-- the operator `__iter__` selects and applies to `self.stop` -/
theorem src_cond (r : Range) (x : Int) : condSrc r x = r.cond x := by
  unfold condSrc Range.cond
  by_cases h : r.step > 0 <;> cases hi : r.incl <;> simp [h]

/-- `__len__` -/
theorem src_len (r : Range) : lenSrc r = r.len := rfl

/-- **iteration, length and membership of the translated methods agree**, for both step signs, inclusive or not, with no
fuel hypothesis: stated on the generated definitions -/
theorem src_range_agree (r : Range) (hs : r.step ≠ 0) :
    ∃ l, r.iter (r.len.toNat + 1) = some l ∧ (l.length : Int) = max (lenSrc r) 0 ∧
      (∀ x ∈ l, containsSrc r x = true ∧ condSrc r x = true) := by
  obtain ⟨l, hl, _, hlen, hmem⟩ := range_iter_terminates r hs
  refine ⟨l, hl, ?_, fun x hx => ?_⟩
  · rw [src_len, hlen]; omega
  · rw [src_contains, src_cond]; exact hmem x hx

example : containsSrc ⟨10, 0, -3, false⟩ 0 = false ∧ containsSrc ⟨10, 0, -3, false⟩ 10 = true ∧ containsSrc ⟨10, 0, -3, true⟩ 0 = true := by decide

end BeyondVerif.C03
