import BeyondVerif.Model.Ccsds
/-!
C13 — CCSDS OPM/OEM/OMM/TDM messages round-trip in KVN and XML.

Theorems about the structural model `Model/Ccsds.lean` (tied to beyond/io/ccsds by the regenerated
tables and by the exact correspondence run).
-/
namespace BeyondVerif.C13
open BeyondVerif.Ccsds BeyondVerif.Generated

/-! ## The dict builder inverts the emitters for every list length -/

/-- what `xml2dict` leaves under a tag after seeing the values `vs` of its siblings, in order -/
def promote : List Val → Option Val
  | [] => none
  | [v] => some v
  | v :: w :: r => some (.list (v :: w :: r))

def accD (t : String) (vs : List Val) (d : Dict) : Dict :=
  match promote vs with
  | none => d
  | some x => d ++ [(t, x)]

theorem lookup_append_single (d : Dict) (t : String) (v : Val) (h : d.lookup t = none) :
    (d ++ [(t, v)]).lookup t = some v := by
  induction d with
  | nil => simp [List.lookup]
  | cons kv r ih =>
    obtain ⟨k, x⟩ := kv
    simp only [List.cons_append, List.lookup_cons] at h ⊢
    split at h
    · exact absurd h (by simp)
    · rename_i hk
      simp [hk, ih h]

theorem lookup_append_other (d : Dict) (t k : String) (v : Val) (h : k ≠ t) :
    (d ++ [(t, v)]).lookup k = d.lookup k := by
  induction d with
  | nil =>
    have : (k == t) = false := by simpa using h
    simp [List.lookup, this]
  | cons kv r ih =>
    obtain ⟨k', x⟩ := kv
    simp only [List.cons_append, List.lookup_cons]
    split <;> simp_all

theorem setKey_append_single (d : Dict) (t : String) (v w : Val) (h : d.lookup t = none) :
    setKey (d ++ [(t, v)]) t w = d ++ [(t, w)] := by
  induction d with
  | nil => simp [setKey]
  | cons kv r ih =>
    obtain ⟨k, x⟩ := kv
    simp only [List.lookup_cons] at h
    split at h
    · exact absurd h (by simp)
    · rename_i hk
      have hne : k ≠ t := by
        intro e; subst e; simp at hk
      simp [setKey, hne, ih h]

theorem addChild_acc (t : String) (d : Dict) (hd : d.lookup t = none) (pre : List Val) (v : Val)
    (hpre : ∀ p ∈ pre, p.isList = false) : addChild (accD t pre d) t v = accD t (pre ++ [v]) d := by
  match pre, hpre with
  | [], _ => simp [accD, promote, addChild, hd]
  | [p], hp =>
    have hp' : p.isList = false := hp p (by simp)
    simp only [accD, promote, addChild, lookup_append_single d t p hd, List.cons_append, List.nil_append]
    cases p with
    | list xs => simp [Val.isList] at hp'
    | field a b => simp [setKey_append_single d t _ _ hd]
    | dict kvs => simp [setKey_append_single d t _ _ hd]
  | p :: q :: r, _ =>
    simp [accD, promote, addChild, lookup_append_single d t _ hd, setKey_append_single d t _ _ hd]

/-- **Core fact, every list length.** A run of `n` sibling elements with the same tag `t` whose own
conversions are `vs` leaves `promote vs` under `t`: the value itself for one sibling, the list for two
or more — whatever `n` is, and without touching the other keys. -/
theorem recurseKids_group (t : String) (d : Dict) (hd : d.lookup t = none) :
    ∀ (es : List Elem) (vs pre : List Val) (rest : List Elem),
      (∀ e ∈ es, e.tag = t) → es.map recurse = vs.map some → (∀ v ∈ pre ++ vs, v.isList = false) →
      recurseKids (es ++ rest) (accD t pre d) = recurseKids rest (accD t (pre ++ vs) d) := by
  intro es
  induction es with
  | nil =>
    intro vs pre rest _ hval _
    cases vs with
    | nil => simp
    | cons v vs => simp at hval
  | cons e es ih =>
    intro vs pre rest htag hval hnl
    cases vs with
    | nil => simp at hval
    | cons v vs =>
      simp only [List.map_cons, List.cons.injEq] at hval
      have hte : e.tag = t := htag e (by simp)
      have hpre : ∀ p ∈ pre, p.isList = false := fun p hp => hnl p (by simp [hp])
      have hassoc : pre ++ [v] ++ vs = pre ++ v :: vs := by simp
      rw [List.cons_append, recurseKids, hval.1]
      dsimp only
      rw [hte, addChild_acc t d hd pre v hpre]
      have := ih vs (pre ++ [v]) rest (fun x hx => htag x (by simp [hx])) hval.2
        (by rw [hassoc]; exact hnl)
      rw [hassoc] at this
      exact this

/-- the readers' iteration over such a group: with the wrap-a-lone-dict idiom every length works, without
it every length except one -/
theorem iterGroup_promote (wrap : Bool) (e : Err) (vs : List Val) (hnl : ∀ v ∈ vs, v.isList = false)
    (h : wrap = true ∨ vs.length ≠ 1) (x : Val) (hx : promote vs = some x) : iterGroup wrap e x = .ok vs := by
  match vs, hnl, h, hx with
  | [], _, _, hx => simp [promote] at hx
  | [v], hnl, h, hx =>
    simp only [promote, Option.some.injEq] at hx
    subst hx
    have hw : wrap = true := by
      rcases h with h | h
      · exact h
      · simp at h
    have hv := hnl v (by simp)
    cases v with
    | list xs => simp [Val.isList] at hv
    | field a b => simp [iterGroup, hw]
    | dict kvs => simp [iterGroup, hw]
  | v :: w :: r, _, _, hx =>
    simp only [promote, Option.some.injEq] at hx
    subst hx
    rfl

/-- … and without the idiom a lone sub-dict (one state vector, one covariance, one observation) or a lone
`Field` (one user-defined parameter) makes the reader fail, whatever its content -/
theorem iterGroup_single_fails (e : Err) :
    (∀ k v rest, iterGroup false e (.dict ((k, v) :: rest)) = .error e) ∧ (∀ t a, iterGroup false e (.field t a) = .error e) :=
  ⟨fun _ _ _ => rfl, fun _ _ => rfl⟩

/-- **`xml2dict` inverts the group emitter for every length** (clause "1..N points, 0..N covariances,
0..k maneuvers, user-defined fields" at the level of the dict builder): a non-empty run of same-tag
siblings appended to the children already converted into `d` is read back by the readers' iteration as
exactly the list of their values, provided the reader wraps a lone value or the run is not of length one. -/
theorem xml_group_roundtrip (t : String) (d : Dict) (hd : d.lookup t = none) (es : List Elem) (vs : List Val)
    (wrap : Bool) (e : Err) (hne : es ≠ []) (htag : ∀ x ∈ es, x.tag = t) (hval : es.map recurse = vs.map some)
    (hnl : ∀ v ∈ vs, v.isList = false) (h : wrap = true ∨ vs.length ≠ 1) :
    ∃ D x, recurseKids es d = some D ∧ D.lookup t = some x ∧ iterGroup wrap e x = .ok vs ∧
      ∀ k, k ≠ t → D.lookup k = d.lookup k := by
  have hlen : vs ≠ [] := by
    intro hv; subst hv
    cases es with
    | nil => exact hne rfl
    | cons a b => simp at hval
  have hg := recurseKids_group t d hd es vs [] [] htag hval (by simpa using hnl)
  simp only [List.append_nil, List.nil_append, recurseKids] at hg
  have hacc0 : accD t [] d = d := rfl
  rw [hacc0] at hg
  obtain ⟨x, hx⟩ : ∃ x, promote vs = some x := by
    match vs, hlen with
    | [v], _ => exact ⟨v, rfl⟩
    | v :: w :: r, _ => exact ⟨_, rfl⟩
  refine ⟨d ++ [(t, x)], x, ?_, lookup_append_single d t x hd, iterGroup_promote wrap e vs hnl h x hx, ?_⟩
  · rw [hg]; simp [accD, hx]
  · intro k hk; exact lookup_append_other d t k x hk

example : ∃ D x, recurseKids [Elem.leaf "a" [] (.s "1"), .leaf "a" [] (.s "2"), .leaf "a" [] (.s "3")] [] = some D ∧
    D.lookup "a" = some x ∧ iterGroup false .typeError x = .ok [.field (.s "1") [], .field (.s "2") [], .field (.s "3") []] ∧
    ∀ k, k ≠ "a" → D.lookup k = ([] : Dict).lookup k :=
  xml_group_roundtrip "a" [] rfl _ _ false .typeError (by simp) (by simp [Elem.tag]) (by simp [recurse]) (by simp [Val.isList]) (by simp)

/-! ## Regenerated tables: covariance keys, frames, aliases, units -/

/-- the 6×6 matrix of keys read by `load_cov` is symmetric and its lower triangle is, entry by entry,
the key the writers use for `cov[i, j]`, j ≤ i — so every written value lands at both `[i, j]` and `[j, i]` -/
theorem covRead_matches_writers :
    (∀ i, i < 6 → ∀ j, j < 6 → (covRead[i]!)[j]! = (covRead[j]!)[i]!) ∧
    (∀ i, i < 6 → ∀ j, j ≤ i → (covRead[i]!)[j]! = covKey i j) ∧ covKeys.length = 21 ∧ covKeys.Nodup := by
  decide

/-- the OEM KVN reader names the values of a covariance row of length `i+1` by exactly the writers' keys of row `i` -/
theorem oemCovRows_match_writers : oemCovRowKeys = covWriteKeys := by decide

/-- frame and centre: for each registered frame — the ten Earth-centred ones and every frame centred elsewhere that the library can
create (solar-system bodies, bodies of the JPL kernels, Lagrange points; table regenerated from the live objects) — what the writers
print as CENTER_NAME / REF_FRAME is mapped back to the frame's own name by the readers' centre rule (`REF_FRAME` for the Earth,
`CENTER_NAME.title().replace(" ", "")` looked up in the registry otherwise) -/
theorem frames_roundtrip : ∀ f ∈ frameTable, centreRule f.2.1 f.2.2 = .ok f.1 := by decide

example : 10 ≤ frameTable.length ∧ ("SolarSystemBarycenter", "SOLAR SYSTEM BARYCENTER", "EME2000") ∈ frameTable := by decide

/-- covariance frame tags: own frame (absent), QSW (written RSW) and TNW all come back -/
theorem cov_frame_alias_roundtrip :
    ∀ f ∈ ["QSW", "TNW"], aliasIn covAliasIn.1 covAliasIn.2 (aliasOut covAliasOut f) = f := by decide

/-- maneuver frame tags: QSW (written RSW) and TNW both come back.  (Until /repo b4d12f5 the readers had no alias
table and only the TNW half held — then `man_frame_alias_roundtrip_partial`.) -/
theorem man_frame_alias_roundtrip :
    ∀ f ∈ ["QSW", "TNW"], aliasIn manAliasIn.1 manAliasIn.2 (aliasOut manAliasOut f) = f := by decide

/-- every unit the writers attach is one `decode_unit` accepts -/
theorem written_units_known :
    (∀ k ∈ svKeys, unitNames.contains (svUnit k) = true) ∧
    (∀ ku ∈ kepKeys ++ ommElemKeys ++ ommTleKeys, ∀ u, ku.2 = some u → unitNames.contains u = true) ∧
    unitNames.contains "s" = true := by decide

/-! ## Components, for every value of their fields -/

/-- frame a maneuver comes back with: the written tag through the readers' alias, `None` when it equals the orbit's frame -/
def manFrameBack (own : String) (m : Man) : Option String :=
  let f := aliasIn manAliasIn.1 manAliasIn.2 (manFrameOut own m)
  if f ≠ own then some f else none

/-- the dict `xml2dict` builds for one `maneuverParameters` element -/
def manDict (own : String) (m : Man) : Dict :=
  (match m.comment with | some c => [("COMMENT", Val.field (.s c) [])] | none => []) ++
  [("MAN_EPOCH_IGNITION", .field m.epoch []), ("MAN_DURATION", .field (.n m.dur) [("units", "s")]),
   ("MAN_DELTA_MASS", .field (.s "-0.001") [("units", "kg")]), ("MAN_REF_FRAME", .field (.s (manFrameOut own m)) [])] ++
  (["MAN_DV_1", "MAN_DV_2", "MAN_DV_3"].zip m.dv).map fun (k, v) => (k, Val.field v [("units", "km/s")])

/-- **Maneuver block, XML** (epoch, duration, delta-v, comment restored; frame through the alias tables):
for every maneuver with three delta-v components and non-empty texts, `xml2dict` turns the written
`maneuverParameters` element into `manDict`, and the loader's maneuver code reads `manDict` back as the
maneuver itself, its frame being `manFrameBack`. -/
theorem man_xml_roundtrip (own : String) (dur : Int) (epoch a b c : Txt) (frame comment : Option String)
    (he : epoch ≠ .s "") (ha : a ≠ .s "") (hb : b ≠ .s "") (hc : c ≠ .s "") (hcm : comment ≠ some "")
    (hf : manFrameOut own ⟨dur, epoch, frame, comment, [a, b, c]⟩ ≠ "") :
    recurse (manXml own ⟨dur, epoch, frame, comment, [a, b, c]⟩) = some (.dict (manDict own ⟨dur, epoch, frame, comment, [a, b, c]⟩)) ∧
    loadMan own (manDict own ⟨dur, epoch, frame, comment, [a, b, c]⟩) =
      .ok ⟨dur, epoch, manFrameBack own ⟨dur, epoch, frame, comment, [a, b, c]⟩, comment, [a, b, c]⟩ := by
  cases comment with
  | none =>
    constructor
    · simp [manXml, manDict, recurse, recurseKids, leafS, he, ha, hb, hc, hf, addChild, Elem.tag, List.lookup]
    · simp [loadMan, manDict, textOf, getItem, Val.text, decodeUnit, strOf, unitNames, manFrameBack, List.lookup, bind, Except.bind, pure, Except.pure]
  | some cm =>
    have hcm' : cm ≠ "" := fun h => hcm (by rw [h])
    constructor
    · simp [manXml, manDict, recurse, recurseKids, leafS, he, ha, hb, hc, hf, hcm', addChild, Elem.tag, List.lookup]
    · simp [loadMan, manDict, textOf, getItem, Val.text, decodeUnit, strOf, unitNames, manFrameBack, List.lookup, bind, Except.bind, pure, Except.pure]

/-- well-formed maneuver: three non-empty delta-v texts, non-empty epoch, comment absent or non-empty -/
def ManWf (own : String) (m : Man) : Prop :=
  (∃ a b c, m.dv = [a, b, c] ∧ a ≠ .s "" ∧ b ≠ .s "" ∧ c ≠ .s "") ∧ m.epoch ≠ .s "" ∧ m.comment ≠ some "" ∧ manFrameOut own m ≠ ""

theorem man_xml_roundtrip' (own : String) (m : Man) (h : ManWf own m) :
    recurse (manXml own m) = some (.dict (manDict own m)) ∧
    loadMan own (manDict own m) = .ok { m with frame := manFrameBack own m } := by
  obtain ⟨dur, epoch, frame, comment, dv⟩ := m
  obtain ⟨⟨a, b, c, hdv, ha, hb, hc⟩, he, hcm, hf⟩ := h
  simp only at hdv he hcm
  subst hdv
  exact man_xml_roundtrip own dur epoch a b c frame comment he ha hb hc hcm hf

theorem mapM_asDict (ds : List Dict) : (ds.map Val.dict).mapM asDict = (.ok ds : R (List Dict)) := by
  induction ds with
  | nil => rfl
  | cons d r ih => simp [List.mapM_cons, asDict, ih, bind, Except.bind, pure, Except.pure]

theorem mapM_loadMan (own : String) (ms : List Man) (hwf : ∀ m ∈ ms, ManWf own m) :
    (ms.map (manDict own)).mapM (loadMan own) = (.ok (ms.map fun m => { m with frame := manFrameBack own m }) : R (List Man)) := by
  induction ms with
  | nil => rfl
  | cons m r ih =>
    have h1 := (man_xml_roundtrip' own m (hwf m (by simp))).2
    have h2 := ih (fun x hx => hwf x (by simp [hx]))
    simp [List.mapM_cons, h1, h2, bind, Except.bind, pure, Except.pure]

/-- **Maneuvers, XML, every number k ≥ 1 of them, either kind, any frame tag** (clause "maneuvers (epoch,
duration, delta-v, frame, comment)"): the `maneuverParameters` elements written for `ms` after the children
already converted into `d` are read back by `opm._loads_xml`'s maneuver code as `ms`, each frame going through
`manFrameBack`.  Holds for the reader as it is (`wrapOpmManeuver = true`, regenerated) for every k. -/
theorem mans_xml_roundtrip (own : String) (ms : List Man) (hwf : ∀ m ∈ ms, ManWf own m) (hne : ms ≠ [])
    (d : Dict) (hd : d.lookup "maneuverParameters" = none) :
    ∃ D x, recurseKids (ms.map (manXml own)) d = some D ∧ D.lookup "maneuverParameters" = some x ∧
      (iterGroup wrapOpmManeuver .typeError x >>= fun xs => xs.mapM asDict >>= fun raws => raws.mapM (loadMan own))
        = .ok (ms.map fun m => { m with frame := manFrameBack own m }) := by
  obtain ⟨D, x, h1, h2, h3, _⟩ := xml_group_roundtrip "maneuverParameters" d hd (ms.map (manXml own))
    ((ms.map (manDict own)).map Val.dict) wrapOpmManeuver .typeError (by simpa using hne)
    (by intro e he; simp only [List.mem_map] at he; obtain ⟨m, _, rfl⟩ := he; simp [manXml, Elem.tag])
    (by
      simp only [List.map_map]
      apply List.map_congr_left
      intro m hm
      simp [(man_xml_roundtrip' own m (hwf m hm)).1])
    (by intro v hv; simp only [List.mem_map] at hv; obtain ⟨_, _, rfl⟩ := hv; rfl)
    (Or.inl (by decide))
  refine ⟨D, x, h1, h2, ?_⟩
  rw [h3]
  show ((List.map Val.dict (List.map (manDict own) ms)).mapM asDict >>= fun raws => raws.mapM (loadMan own)) = _
  rw [mapM_asDict]
  exact mapM_loadMan own ms hwf

/-- the frame tag of a maneuver survives — own frame (`None`), QSW and TNW — for each registered orbit frame -/
theorem manFrameBack_table : ∀ own ∈ frameTable.map (·.1), ∀ fr ∈ [none, some "QSW", some "TNW"],
    manFrameBack own ⟨0, .s "", fr, none, []⟩ = fr := by decide

theorem manFrameBack_ok (own : String) (m : Man) (hown : own ∈ frameTable.map (·.1))
    (hf : m.frame = none ∨ m.frame = some "QSW" ∨ m.frame = some "TNW") : manFrameBack own m = m.frame := by
  have h : manFrameBack own m = manFrameBack own ⟨0, .s "", m.frame, none, []⟩ := rfl
  rw [h]
  exact manFrameBack_table own hown m.frame (by rcases hf with h | h | h <;> simp [h])

example : ManWf "EME2000" ⟨0, .s "t", some "TNW", some "burn", [.s "1", .s "2", .s "3"]⟩ := by
  refine ⟨⟨_, _, _, rfl, ?_, ?_, ?_⟩, ?_, ?_, ?_⟩ <;> decide

end BeyondVerif.C13
