import BeyondVerif.Model.Ccsds
/-!
C13 — CCSDS OPM/OEM/OMM/TDM messages round-trip in KVN and XML.

Theorems about the structural model `Model/Ccsds.lean` (tied to beyond/io/ccsds by the regenerated
tables and by the exact correspondence run).
-/
namespace BeyondVerif.C13
open BeyondVerif.Ccsds BeyondVerif.Generated

/-! ## The dict builder inverts the emitters for every list length -/

/-- what `xml2dict` leaves under a tag after seeing the values `vs` of its siblings, in order -/
def promote : List Val → Option Val
  | [] => none
  | [v] => some v
  | v :: w :: r => some (.list (v :: w :: r))

def accD (t : String) (vs : List Val) (d : Dict) : Dict :=
  match promote vs with
  | none => d
  | some x => d ++ [(t, x)]

theorem lookup_append_single (d : Dict) (t : String) (v : Val) (h : d.lookup t = none) :
    (d ++ [(t, v)]).lookup t = some v := by
  induction d with
  | nil => simp [List.lookup]
  | cons kv r ih =>
    obtain ⟨k, x⟩ := kv
    simp only [List.cons_append, List.lookup_cons] at h ⊢
    split at h
    · exact absurd h (by simp)
    · rename_i hk
      simp [hk, ih h]

theorem lookup_append_other (d : Dict) (t k : String) (v : Val) (h : k ≠ t) :
    (d ++ [(t, v)]).lookup k = d.lookup k := by
  induction d with
  | nil =>
    have : (k == t) = false := by simpa using h
    simp [List.lookup, this]
  | cons kv r ih =>
    obtain ⟨k', x⟩ := kv
    simp only [List.cons_append, List.lookup_cons]
    split <;> simp_all

theorem setKey_append_single (d : Dict) (t : String) (v w : Val) (h : d.lookup t = none) :
    setKey (d ++ [(t, v)]) t w = d ++ [(t, w)] := by
  induction d with
  | nil => simp [setKey]
  | cons kv r ih =>
    obtain ⟨k, x⟩ := kv
    simp only [List.lookup_cons] at h
    split at h
    · exact absurd h (by simp)
    · rename_i hk
      have hne : k ≠ t := by
        intro e; subst e; simp at hk
      simp [setKey, hne, ih h]

theorem addChild_acc (t : String) (d : Dict) (hd : d.lookup t = none) (pre : List Val) (v : Val)
    (hpre : ∀ p ∈ pre, p.isList = false) : addChild (accD t pre d) t v = accD t (pre ++ [v]) d := by
  match pre, hpre with
  | [], _ => simp [accD, promote, addChild, hd]
  | [p], hp =>
    have hp' : p.isList = false := hp p (by simp)
    simp only [accD, promote, addChild, lookup_append_single d t p hd, List.cons_append, List.nil_append]
    cases p with
    | list xs => simp [Val.isList] at hp'
    | field a b => simp [setKey_append_single d t _ _ hd]
    | dict kvs => simp [setKey_append_single d t _ _ hd]
  | p :: q :: r, _ =>
    simp [accD, promote, addChild, lookup_append_single d t _ hd, setKey_append_single d t _ _ hd]

/-- **Core fact, every list length.** A run of `n` sibling elements with the same tag `t` whose own
conversions are `vs` leaves `promote vs` under `t`: the value itself for one sibling, the list for two
or more — whatever `n` is, and without touching the other keys. -/
theorem recurseKids_group (t : String) (d : Dict) (hd : d.lookup t = none) :
    ∀ (es : List Elem) (vs pre : List Val) (rest : List Elem),
      (∀ e ∈ es, e.tag = t) → es.map recurse = vs.map some → (∀ v ∈ pre ++ vs, v.isList = false) →
      recurseKids (es ++ rest) (accD t pre d) = recurseKids rest (accD t (pre ++ vs) d) := by
  intro es
  induction es with
  | nil =>
    intro vs pre rest _ hval _
    cases vs with
    | nil => simp
    | cons v vs => simp at hval
  | cons e es ih =>
    intro vs pre rest htag hval hnl
    cases vs with
    | nil => simp at hval
    | cons v vs =>
      simp only [List.map_cons, List.cons.injEq] at hval
      have hte : e.tag = t := htag e (by simp)
      have hpre : ∀ p ∈ pre, p.isList = false := fun p hp => hnl p (by simp [hp])
      have hassoc : pre ++ [v] ++ vs = pre ++ v :: vs := by simp
      rw [List.cons_append, recurseKids, hval.1]
      dsimp only
      rw [hte, addChild_acc t d hd pre v hpre]
      have := ih vs (pre ++ [v]) rest (fun x hx => htag x (by simp [hx])) hval.2
        (by rw [hassoc]; exact hnl)
      rw [hassoc] at this
      exact this

/-- the readers' iteration over such a group: with the wrap-a-lone-dict idiom every length works, without
it every length except one -/
theorem iterGroup_promote (wrap : Bool) (e : Err) (vs : List Val) (hnl : ∀ v ∈ vs, v.isList = false)
    (h : wrap = true ∨ vs.length ≠ 1) (x : Val) (hx : promote vs = some x) : iterGroup wrap e x = .ok vs := by
  match vs, hnl, h, hx with
  | [], _, _, hx => simp [promote] at hx
  | [v], hnl, h, hx =>
    simp only [promote, Option.some.injEq] at hx
    subst hx
    have hw : wrap = true := by
      rcases h with h | h
      · exact h
      · simp at h
    have hv := hnl v (by simp)
    cases v with
    | list xs => simp [Val.isList] at hv
    | field a b => simp [iterGroup, hw]
    | dict kvs => simp [iterGroup, hw]
  | v :: w :: r, _, _, hx =>
    simp only [promote, Option.some.injEq] at hx
    subst hx
    rfl

/-- … and without the idiom a lone sub-dict (one state vector, one covariance, one observation) or a lone
`Field` (one user-defined parameter) makes the reader fail, whatever its content -/
theorem iterGroup_single_fails (e : Err) :
    (∀ k v rest, iterGroup false e (.dict ((k, v) :: rest)) = .error e) ∧ (∀ t a, iterGroup false e (.field t a) = .error e) :=
  ⟨fun _ _ _ => rfl, fun _ _ => rfl⟩

/-- **`xml2dict` inverts the group emitter for every length** (clause "1..N points, 0..N covariances,
0..k maneuvers, user-defined fields" at the level of the dict builder): a non-empty run of same-tag
siblings appended to the children already converted into `d` is read back by the readers' iteration as
exactly the list of their values, provided the reader wraps a lone value or the run is not of length one. -/
theorem xml_group_roundtrip (t : String) (d : Dict) (hd : d.lookup t = none) (es : List Elem) (vs : List Val)
    (wrap : Bool) (e : Err) (hne : es ≠ []) (htag : ∀ x ∈ es, x.tag = t) (hval : es.map recurse = vs.map some)
    (hnl : ∀ v ∈ vs, v.isList = false) (h : wrap = true ∨ vs.length ≠ 1) :
    ∃ D x, recurseKids es d = some D ∧ D.lookup t = some x ∧ iterGroup wrap e x = .ok vs ∧
      ∀ k, k ≠ t → D.lookup k = d.lookup k := by
  have hlen : vs ≠ [] := by
    intro hv; subst hv
    cases es with
    | nil => exact hne rfl
    | cons a b => simp at hval
  have hg := recurseKids_group t d hd es vs [] [] htag hval (by simpa using hnl)
  simp only [List.append_nil, List.nil_append, recurseKids] at hg
  have hacc0 : accD t [] d = d := rfl
  rw [hacc0] at hg
  obtain ⟨x, hx⟩ : ∃ x, promote vs = some x := by
    match vs, hlen with
    | [v], _ => exact ⟨v, rfl⟩
    | v :: w :: r, _ => exact ⟨_, rfl⟩
  refine ⟨d ++ [(t, x)], x, ?_, lookup_append_single d t x hd, iterGroup_promote wrap e vs hnl h x hx, ?_⟩
  · rw [hg]; simp [accD, hx]
  · intro k hk; exact lookup_append_other d t k x hk

example : ∃ D x, recurseKids [Elem.leaf "a" [] (.s "1"), .leaf "a" [] (.s "2"), .leaf "a" [] (.s "3")] [] = some D ∧
    D.lookup "a" = some x ∧ iterGroup false .typeError x = .ok [.field (.s "1") [], .field (.s "2") [], .field (.s "3") []] ∧
    ∀ k, k ≠ "a" → D.lookup k = ([] : Dict).lookup k :=
  xml_group_roundtrip "a" [] rfl _ _ false .typeError (by simp) (by simp [Elem.tag]) (by simp [recurse]) (by simp [Val.isList]) (by simp)

end BeyondVerif.C13
