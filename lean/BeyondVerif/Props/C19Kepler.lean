import BeyondVerif.Props.C19
import BeyondVerif.Props.C19Geom
import Mathlib.Analysis.SpecialFunctions.Trigonometric.Basic
import Mathlib.Analysis.SpecialFunctions.Trigonometric.Inverse
import Mathlib.Tactic.Linarith
import Mathlib.Tactic.FieldSimp
import Mathlib.Tactic.Ring
import Mathlib.Tactic.LinearCombination
import Mathlib.Tactic.Positivity

/-!
# C19 — mission-design helpers (part 3): the Lambert solution solves Kepler's problem

The velocities returned by `_lambert` are such that the state (r₀, v₀) and the requested transfer
time satisfy **Kepler's universal equation** with universal anomaly χ = √(y/C) and z = α χ²
(α = 2/r₀ − v₀²/µ, the reciprocal semi-major axis of the returned orbit).  With
`lambert_fg_universal` (f, g, ġ are the universal-variable Lagrange coefficients for that χ) and
`lambert_fg` (r₁ = f r₀ + g v₀) this is the statement "two-body propagation of the returned state
for the requested time arrives at the target", modulo the classical fact that the
universal-variable formulation is the two-body flow (not formalised).
All of `lamC lamS lamY lamF lamA lamFG` are translated from beyond/utils/lambert.py on every run.
-/
namespace BeyondVerif.C19
open BeyondVerif.R BeyondVerif.NumReal

/-! ## Stumpff functions -/

theorem lamC_pos {z : ℝ} (hz : 0 < z) : lamC z = (1 - Real.cos (Real.sqrt z)) / z := by
  simp only [lamC, gt_iff_lt, if_pos hz]

theorem lamC_neg {z : ℝ} (hz : z < 0) : lamC z = (Real.cosh (Real.sqrt (-z)) - 1) / (-z) := by
  simp only [lamC, gt_iff_lt, if_neg (not_lt.mpr hz.le), if_pos hz]

theorem lamC_zero : lamC 0 = 1 / 2 := by
  simp only [lamC, gt_iff_lt, lt_irrefl, if_false]

theorem lamS_pos {z : ℝ} (hz : 0 < z) :
    lamS z = (Real.sqrt z - Real.sin (Real.sqrt z)) / Real.sqrt z ^ 3 := by
  simp only [lamS, gt_iff_lt, if_pos hz]

theorem lamS_neg {z : ℝ} (hz : z < 0) :
    lamS z = (Real.sinh (Real.sqrt (-z)) - Real.sqrt (-z)) / Real.sqrt (-z) ^ 3 := by
  simp only [lamS, gt_iff_lt, if_neg (not_lt.mpr hz.le), if_pos hz]

theorem lamS_zero : lamS 0 = 1 / 6 := by
  simp only [lamS, gt_iff_lt, lt_irrefl, if_false]

/-- the identity between the Stumpff functions `_C`, `_S` of lambert.py (all three branches z > 0, z < 0, z = 0) behind `z = α χ²` -/
theorem stumpff_identity (z : ℝ) : (1 - z * lamS z) ^ 2 = lamC z * (2 - z * lamC z) := by
  rcases lt_trichotomy z 0 with hz | hz | hz
  · rw [lamC_neg hz, lamS_neg hz]
    obtain ⟨x, hx, rfl⟩ : ∃ x : ℝ, 0 < x ∧ z = -(x ^ 2) :=
      ⟨Real.sqrt (-z), Real.sqrt_pos.mpr (by linarith), by rw [Real.sq_sqrt (by linarith)]; ring⟩
    rw [neg_neg, Real.sqrt_sq hx.le]
    have h := Real.cosh_sq x
    have hx' : x ≠ 0 := hx.ne'
    field_simp
    linear_combination (-1 : ℝ) * h
  · subst hz
    rw [lamC_zero, lamS_zero]; norm_num
  · rw [lamC_pos hz, lamS_pos hz]
    obtain ⟨x, hx, rfl⟩ : ∃ x : ℝ, 0 < x ∧ z = x ^ 2 :=
      ⟨Real.sqrt z, Real.sqrt_pos.mpr hz, (Real.sq_sqrt hz.le).symm⟩
    rw [Real.sqrt_sq hx.le]
    have h := Real.sin_sq_add_cos_sq x
    have hx' : x ≠ 0 := hx.ne'
    field_simp
    linear_combination h

/-! ## The transfer angle and the constant `A` -/

/-- `A² = r₀ r₁ (1 + cos Δθ)` for the `A` of `_lambert` (non-degenerate transfer angle) -/
theorem lamA_sq (nr0 nr1 dθ : ℝ) (h : Real.cos dθ ≠ 1) (hn : 0 ≤ nr0 * nr1) :
    lamA nr0 nr1 dθ ^ 2 = nr0 * nr1 * (1 + Real.cos dθ) := by
  have hc : 0 < 1 - Real.cos dθ := by
    rcases (Real.cos_le_one dθ).lt_or_eq with h' | h'
    · linarith
    · exact absurd h' h
  have hs := Real.sin_sq_add_cos_sq dθ
  simp only [lamA, sin, cos, sqrt]
  rw [mul_pow, Real.sq_sqrt (div_nonneg hn hc.le)]
  have hc' : 1 - Real.cos dθ ≠ 0 := hc.ne'
  field_simp
  linear_combination (nr0 * nr1) * hs



theorem norm_pos_of_dot_ne (a : V3) (h : V3.dot a a ≠ 0) : 0 < V3.norm a :=
  Real.sqrt_pos.mpr (lt_of_le_of_ne (dot_self_nonneg a) (Ne.symm h))


theorem cos_angle_bounds (r0 r1 : V3) (h0 : V3.dot r0 r0 ≠ 0) (h1 : V3.dot r1 r1 ≠ 0) :
    -1 ≤ V3.dot r0 r1 / (V3.norm r0 * V3.norm r1) ∧ V3.dot r0 r1 / (V3.norm r0 * V3.norm r1) ≤ 1 := by
  have hp : 0 < V3.norm r0 * V3.norm r1 := mul_pos (norm_pos_of_dot_ne r0 h0) (norm_pos_of_dot_ne r1 h1)
  have hsq : V3.dot r0 r1 ^ 2 ≤ (V3.norm r0 * V3.norm r1) ^ 2 := by
    rw [mul_pow, norm_sq, norm_sq]; exact dot_sq_le r0 r1
  obtain ⟨hlo, hhi⟩ := abs_le_of_sq_le_sq' hsq hp.le
  rw [le_div_iff₀ hp, div_le_iff₀ hp]
  constructor <;> linarith

/-- **the direction / way selection of `_lambert`, as it is in the source today** (`lamDthetaSrc` is translated from the
statements of `_lambert` before `A = …` on every run): `arccos` of the normalised dot product, replaced by its complement
to 2π when a prograde request meets `cr[2] < 0` (strict) or a retrograde request meets `cr[2] >= 0` (non-strict) — so
that at `cr[2] = 0` (transfer plane containing the z axis) a branch IS taken.  Every theorem below about `lamDtheta`
goes through this equation; a source whose selection has another shape (e.g. a `sign(cr[2])` factor, zero at
`cr[2] = 0`) does not satisfy it and the build fails. -/
theorem lamDtheta_eq (r0 r1 : V3) (pro : Bool) :
    lamDtheta r0 r1 pro =
      if pro = true ∧ (V3.cross r0 r1).z < 0 then 2 * Real.pi - Real.arccos (V3.dot r0 r1 / (V3.norm r0 * V3.norm r1))
      else if pro = false ∧ (V3.cross r0 r1).z ≥ 0 then 2 * Real.pi - Real.arccos (V3.dot r0 r1 / (V3.norm r0 * V3.norm r1))
      else Real.arccos (V3.dot r0 r1 / (V3.norm r0 * V3.norm r1)) := by
  have hz : r0.x * r1.y - r0.y * r1.x = (V3.cross r0 r1).z := rfl
  have hd : r0.x * r1.x + r0.y * r1.y + r0.z * r1.z = V3.dot r0 r1 := rfl
  unfold lamDtheta lamDthetaSrc
  simp only [powi, sqrt, acos, pi, norm_expand, hz, hd, Bool.not_eq_true]

/-- whatever branch (prograde / retrograde, short / long way) selects the transfer angle, its cosine is `r₀·r₁ / (|r₀||r₁|)` -/
theorem lamDtheta_cos (r0 r1 : V3) (pro : Bool) (h0 : V3.dot r0 r0 ≠ 0) (h1 : V3.dot r1 r1 ≠ 0) :
    Real.cos (lamDtheta r0 r1 pro) = V3.dot r0 r1 / (V3.norm r0 * V3.norm r1) := by
  obtain ⟨hlo, hhi⟩ := cos_angle_bounds r0 r1 h0 h1
  rw [lamDtheta_eq]
  split_ifs <;> simp only [Real.cos_two_pi_sub, Real.cos_arccos hlo hhi]

/-- positions that are not collinear (`r₀ × r₁ ≠ 0` **as a vector** — any of its components may vanish) have the
cosine of their angle strictly inside (-1, 1) -/
theorem cos_angle_strict (r0 r1 : V3) (h0 : V3.dot r0 r0 ≠ 0) (h1 : V3.dot r1 r1 ≠ 0)
    (hcr : V3.dot (V3.cross r0 r1) (V3.cross r0 r1) ≠ 0) :
    -1 < V3.dot r0 r1 / (V3.norm r0 * V3.norm r1) ∧ V3.dot r0 r1 / (V3.norm r0 * V3.norm r1) < 1 := by
  have hp : 0 < V3.norm r0 * V3.norm r1 := mul_pos (norm_pos_of_dot_ne r0 h0) (norm_pos_of_dot_ne r1 h1)
  have hpos : 0 < V3.dot (V3.cross r0 r1) (V3.cross r0 r1) := lt_of_le_of_ne (dot_self_nonneg _) (Ne.symm hcr)
  have hsq : V3.dot r0 r1 ^ 2 < (V3.norm r0 * V3.norm r1) ^ 2 := by
    rw [mul_pow, norm_sq, norm_sq]
    have := cross_dot_self r0 r1
    linarith
  obtain ⟨hlo, hhi⟩ := abs_lt_of_sq_lt_sq' hsq hp.le
  rw [lt_div_iff₀ hp, div_lt_iff₀ hp]
  constructor <;> linarith

/-- the unsigned angle between two non-collinear positions is strictly between 0 and π -/
theorem arccos_angle_strict (r0 r1 : V3) (h0 : V3.dot r0 r0 ≠ 0) (h1 : V3.dot r1 r1 ≠ 0)
    (hcr : V3.dot (V3.cross r0 r1) (V3.cross r0 r1) ≠ 0) :
    0 < Real.arccos (V3.dot r0 r1 / (V3.norm r0 * V3.norm r1)) ∧ Real.arccos (V3.dot r0 r1 / (V3.norm r0 * V3.norm r1)) < Real.pi := by
  obtain ⟨hlo, hhi⟩ := cos_angle_strict r0 r1 h0 h1 hcr
  exact ⟨Real.arccos_pos.mpr hhi, Real.arccos_lt_pi.mpr hlo⟩

/-- **the transfer angle is a proper one for every non-collinear geometry**: whenever `r₀ × r₁ ≠ 0` as a vector —
in particular when its z component is exactly zero — and for either request, `0 < Δθ < 2π` and `Δθ ≠ π`
(so `sin Δθ ≠ 0`, `cos Δθ ≠ 1`: `A` is finite and non-zero, see `lambert_A_ne_zero`). -/
theorem lamDtheta_range (r0 r1 : V3) (pro : Bool) (h0 : V3.dot r0 r0 ≠ 0) (h1 : V3.dot r1 r1 ≠ 0)
    (hcr : V3.dot (V3.cross r0 r1) (V3.cross r0 r1) ≠ 0) :
    0 < lamDtheta r0 r1 pro ∧ lamDtheta r0 r1 pro < 2 * Real.pi ∧ lamDtheta r0 r1 pro ≠ Real.pi := by
  obtain ⟨hlo, hhi⟩ := arccos_angle_strict r0 r1 h0 h1 hcr
  have hpi := Real.pi_pos
  rw [lamDtheta_eq]
  split_ifs <;> refine ⟨by linarith, by linarith, fun h => ?_⟩ <;> linarith

/-- **the two requests are the two ways round**: for every geometry the prograde and the retrograde transfer angles
add up to a full turn — also at `cr[2] = 0`, where a selection through `sign(cr[2])` gives the same angle twice
(`Witness/C19.lean`). -/
theorem lamDtheta_two_ways (r0 r1 : V3) : lamDtheta r0 r1 true + lamDtheta r0 r1 false = 2 * Real.pi := by
  rw [lamDtheta_eq, lamDtheta_eq]
  by_cases h : (V3.cross r0 r1).z < 0
  · have h' : ¬ (V3.cross r0 r1).z ≥ 0 := not_le.mpr h
    simp [h, h']
  · have h' : (V3.cross r0 r1).z ≥ 0 := not_lt.mp h
    simp [h, h']

/-- the sign of `sin Δθ` is the one the request asks for: with `n = (r₀ × r₁) / (|r₀||r₁| sin Δθ)` the unit normal of the
transfer orbit, `n_z = cr[2] / (|r₀||r₁| sin Δθ)` is ≥ 0 for a prograde request and ≤ 0 for a retrograde one, and it is
non-zero whenever `cr[2]` is. -/
theorem lamDtheta_direction (r0 r1 : V3) (pro : Bool) (h0 : V3.dot r0 r0 ≠ 0) (h1 : V3.dot r1 r1 ≠ 0)
    (hcr : V3.dot (V3.cross r0 r1) (V3.cross r0 r1) ≠ 0) :
    (pro = true → 0 ≤ (V3.cross r0 r1).z * Real.sin (lamDtheta r0 r1 pro)) ∧
    (pro = false → (V3.cross r0 r1).z * Real.sin (lamDtheta r0 r1 pro) ≤ 0) ∧
    ((V3.cross r0 r1).z ≠ 0 → (V3.cross r0 r1).z * Real.sin (lamDtheta r0 r1 pro) ≠ 0) ∧
    Real.sin (lamDtheta r0 r1 pro) ≠ 0 := by
  obtain ⟨hlo, hhi⟩ := arccos_angle_strict r0 r1 h0 h1 hcr
  have hs : 0 < Real.sin (Real.arccos (V3.dot r0 r1 / (V3.norm r0 * V3.norm r1))) := Real.sin_pos_of_pos_of_lt_pi hlo hhi
  rw [lamDtheta_eq]
  split_ifs with c1 c2
  · rw [Real.sin_two_pi_sub]
    refine ⟨fun _ => by nlinarith [c1.2], fun hp => by simp [c1.1] at hp, fun _ => by nlinarith [c1.2], by linarith⟩
  · rw [Real.sin_two_pi_sub]
    refine ⟨fun hp => by simp [c2.1] at hp, fun _ => by nlinarith [c2.2], fun hz => ?_, by linarith⟩
    have : 0 < (V3.cross r0 r1).z := lt_of_le_of_ne c2.2 (Ne.symm hz)
    nlinarith
  · cases pro
    · have hz : (V3.cross r0 r1).z < 0 := by
        by_contra hge; exact c2 ⟨rfl, not_lt.mp hge⟩
      refine ⟨fun hp => by simp at hp, fun _ => by nlinarith, fun _ => by nlinarith, hs.ne'⟩
    · have hz : 0 ≤ (V3.cross r0 r1).z := by
        by_contra hlt; exact c1 ⟨rfl, not_le.mp hlt⟩
      refine ⟨fun _ => mul_nonneg hz hs.le, fun hp => by simp at hp, fun hne => ?_, hs.ne'⟩
      have : 0 < (V3.cross r0 r1).z := lt_of_le_of_ne hz (Ne.symm hne)
      exact (mul_pos this hs).ne'

/-- `A² = |r₀||r₁| + r₀·r₁` for the `A` computed by `_lambert`, for all four direction/way cases -/
theorem lambert_A_sq (r0 r1 : V3) (pro : Bool) (h0 : V3.dot r0 r0 ≠ 0) (h1 : V3.dot r1 r1 ≠ 0)
    (hnc : V3.dot r0 r1 ≠ V3.norm r0 * V3.norm r1) :
    (lamA (V3.norm r0) (V3.norm r1) (lamDtheta r0 r1 pro)) ^ 2
      = V3.norm r0 * V3.norm r1 + V3.dot r0 r1 := by
  have hp : 0 < V3.norm r0 * V3.norm r1 := mul_pos (norm_pos_of_dot_ne r0 h0) (norm_pos_of_dot_ne r1 h1)
  have hcos := lamDtheta_cos r0 r1 pro h0 h1
  have hne : Real.cos (lamDtheta r0 r1 pro) ≠ 1 := by
    rw [hcos]; intro h
    rw [div_eq_one_iff_eq hp.ne'] at h
    exact hnc h
  rw [lamA_sq _ _ _ hne hp.le, hcos, mul_add, mul_one, mul_div_cancel₀ _ hp.ne']

/-! ## The Lambert solution solves Kepler's universal equation -/

theorem dot_smul_sub_self (k f : ℝ) (r0 r1 : V3) :
    V3.dot (V3.smul k (V3.sub r1 (V3.smul f r0))) (V3.smul k (V3.sub r1 (V3.smul f r0)))
      = k ^ 2 * (V3.dot r1 r1 - 2 * f * V3.dot r0 r1 + f ^ 2 * V3.dot r0 r0) := by
  cases r0; cases r1; simp only [V3.dot, V3.smul, V3.sub]; ring

theorem dot_smul_sub (k f : ℝ) (r0 r1 : V3) :
    V3.dot r0 (V3.smul k (V3.sub r1 (V3.smul f r0))) = k * (V3.dot r0 r1 - f * V3.dot r0 r0) := by
  cases r0; cases r1; simp only [V3.dot, V3.smul, V3.sub]; ring

/-- energy relation `α χ² = z`, over plain reals -/
theorem kepler_E_real (n0 A w sc sy sm n1 d z : ℝ) (hn0 : n0 ≠ 0) (hA0 : A ≠ 0) (hsc : sc ≠ 0)
    (hsy : sy ≠ 0) (hsm : sm ≠ 0)
    (hn1 : n1 = sy ^ 2 - n0 + A * w) (hd : d = A ^ 2 - n0 * n1) (hz : z = (2 - w ^ 2) / sc ^ 2) :
    (2 / n0 - ((sm / (A * sy)) ^ 2 * (n1 ^ 2 - 2 * (1 - sy ^ 2 / n0) * d + (1 - sy ^ 2 / n0) ^ 2 * n0 ^ 2)) / sm ^ 2)
      * (sy / sc) ^ 2 = z := by
  subst hd hn1 hz
  field_simp
  ring

/-- Kepler's universal equation, over plain reals -/
theorem kepler_K_real (n0 A w sc sy sm n1 d z S α dt : ℝ) (hn0 : n0 ≠ 0) (hA0 : A ≠ 0) (hsc : sc ≠ 0)
    (hsy : sy ≠ 0) (hsm : sm ≠ 0)
    (hn1 : n1 = sy ^ 2 - n0 + A * w) (hd : d = A ^ 2 - n0 * n1)
    (hE : α * (sy / sc) ^ 2 = z) (hzS : z * S = 1 - w * sc)
    (hF : (sy / sc) ^ 3 * S + A * sy - sm * dt = 0) :
    sm * dt = (sm / (A * sy)) * (d - (1 - sy ^ 2 / n0) * n0 ^ 2) / sm * (sy / sc) ^ 2 * sc ^ 2
      + (1 - α * n0) * (sy / sc) ^ 3 * S + n0 * (sy / sc) := by
  have h1 : α * (sy / sc) ^ 3 * S = (1 - w * sc) * (sy / sc) := by
    linear_combination (sy / sc * S) * hE + (sy / sc) * hzS
  have h2 : (sm / (A * sy)) * (d - (1 - sy ^ 2 / n0) * n0 ^ 2) / sm * (sy / sc) ^ 2 * sc ^ 2
      + n0 * (sy / sc) * w * sc = A * sy := by
    subst hd hn1
    field_simp
    ring
  linear_combination (-1 : ℝ) * hF + n0 * h1 - h2

/-- **The returned departure state solves Kepler's universal equation for the requested time**:
if `F(z) = 0` then, with χ = √(y/C) and α = 2/|r₀| − |v₀|²/µ of the *returned* velocity,
(E) α χ² = z and (K) √µ Δt = (r₀·v₀/√µ) χ² C(z) + (1 − α r₀) χ³ S(z) + r₀ χ. -/
theorem lambert_solves_universal_kepler (r0 r1 : V3) (A z dt mu : ℝ)
    (hA : A ^ 2 = V3.norm r0 * V3.norm r1 + V3.dot r0 r1) (hA0 : A ≠ 0) (hmu : 0 < mu)
    (hC : 0 < lamC z) (hy : 0 < lamY (V3.norm r0) (V3.norm r1) A z)
    (hr0 : 0 < V3.norm r0)
    (hF : lamF (V3.norm r0) (V3.norm r1) A z dt mu = 0) :
    let v0 := (lamVel (V3.norm r0) (V3.norm r1) A z mu r0 r1).1
    let χ := Real.sqrt (lamY (V3.norm r0) (V3.norm r1) A z / lamC z)
    let α := 2 / V3.norm r0 - V3.dot v0 v0 / mu
    α * χ ^ 2 = z ∧
    Real.sqrt mu * dt = V3.dot r0 v0 / Real.sqrt mu * χ ^ 2 * lamC z
      + (1 - α * V3.norm r0) * χ ^ 3 * lamS z + V3.norm r0 * χ := by
  intro v0 χ α
  have hd0 : V3.dot r0 r0 = V3.norm r0 ^ 2 := (norm_sq r0).symm
  have hd1 : V3.dot r1 r1 = V3.norm r1 ^ 2 := (norm_sq r1).symm
  have hv0 : v0 = V3.smul (1 / (A * Real.sqrt (|lamY (V3.norm r0) (V3.norm r1) A z| / mu)))
      (V3.sub r1 (V3.smul (1 - lamY (V3.norm r0) (V3.norm r1) A z / V3.norm r0) r0)) := rfl
  have hyexp : lamY (V3.norm r0) (V3.norm r1) A z
      = V3.norm r0 + V3.norm r1 + A * (z * lamS z - 1) / Real.sqrt (lamC z) := rfl
  have hq : 0 ≤ lamY (V3.norm r0) (V3.norm r1) A z / lamC z := div_nonneg hy.le hC.le
  have hF' : χ ^ 3 * lamS z + A * Real.sqrt (lamY (V3.norm r0) (V3.norm r1) A z) - Real.sqrt mu * dt = 0 := by
    have h1 : Real.rpow (lamY (V3.norm r0) (V3.norm r1) A z / lamC z) 1.5 = χ ^ 3 := rpow_three_half _ hq
    rw [← h1]; simpa [lamF] using hF
  have hst := stumpff_identity z
  have hχ : χ = Real.sqrt (lamY (V3.norm r0) (V3.norm r1) A z) / Real.sqrt (lamC z) :=
    Real.sqrt_div hy.le _
  have hginv : 1 / (A * Real.sqrt (|lamY (V3.norm r0) (V3.norm r1) A z| / mu))
      = Real.sqrt mu / (A * Real.sqrt (lamY (V3.norm r0) (V3.norm r1) A z)) := by
    rw [abs_of_pos hy, Real.sqrt_div hy.le]
    have := (Real.sqrt_pos.mpr hy).ne'
    have := (Real.sqrt_pos.mpr hmu).ne'
    field_simp
  rw [hginv] at hv0
  have hsy2 : lamY (V3.norm r0) (V3.norm r1) A z = Real.sqrt (lamY (V3.norm r0) (V3.norm r1) A z) ^ 2 :=
    (Real.sq_sqrt hy.le).symm
  have hsc2 : lamC z = Real.sqrt (lamC z) ^ 2 := (Real.sq_sqrt hC.le).symm
  have hsm2 : mu = Real.sqrt mu ^ 2 := (Real.sq_sqrt hmu.le).symm
  have hsy := (Real.sqrt_pos.mpr hy).ne'
  have hsc := (Real.sqrt_pos.mpr hC).ne'
  have hsm := (Real.sqrt_pos.mpr hmu).ne'
  have hα : α = 2 / V3.norm r0 - V3.dot v0 v0 / mu := rfl
  clear_value v0 χ α
  generalize Real.sqrt (lamY (V3.norm r0) (V3.norm r1) A z) = sy at *
  generalize Real.sqrt (lamC z) = sc at *
  generalize Real.sqrt mu = sm at *
  generalize V3.norm r0 = n0 at *
  generalize V3.norm r1 = n1 at *
  generalize hdd : V3.dot r0 r1 = d at *
  -- w := (1 - z S) / sc
  have hw2 : ((1 - z * lamS z) / sc) ^ 2 = 2 - z * sc ^ 2 := by
    rw [div_pow, hst, hsc2]; field_simp
  have hz : z = (2 - ((1 - z * lamS z) / sc) ^ 2) / sc ^ 2 := by
    rw [hw2]; field_simp; ring
  have hn1 : n1 = sy ^ 2 - n0 + A * ((1 - z * lamS z) / sc) := by
    rw [← hsy2, hyexp]; ring
  have hd : d = A ^ 2 - n0 * n1 := by linarith
  have hzS : z * lamS z = 1 - (1 - z * lamS z) / sc * sc := by field_simp; ring
  have hvv : V3.dot v0 v0 = (sm / (A * sy)) ^ 2 *
      (n1 ^ 2 - 2 * (1 - sy ^ 2 / n0) * d + (1 - sy ^ 2 / n0) ^ 2 * n0 ^ 2) := by
    rw [hv0, dot_smul_sub_self, hd0, hd1, hsy2, hdd]
  have hrv : V3.dot r0 v0 = (sm / (A * sy)) * (d - (1 - sy ^ 2 / n0) * n0 ^ 2) := by
    rw [hv0, dot_smul_sub, hd0, hsy2, hdd]
  have hE : α * χ ^ 2 = z := by
    rw [hα, hvv, hχ, hsm2]
    exact kepler_E_real n0 A _ sc sy sm n1 d z hr0.ne' hA0 hsc hsy hsm hn1 hd hz
  refine ⟨hE, ?_⟩
  rw [hχ] at hE hF' ⊢
  rw [hrv, hsc2]
  exact kepler_K_real n0 A _ sc sy sm n1 d z (lamS z) α dt hr0.ne' hA0 hsc hsy hsm hn1 hd hE hzS hF'

/-- the same with the `A` actually computed by `_lambert` from the transfer angle -/
theorem lambert_solves_universal_kepler_dtheta (r0 r1 : V3) (pro : Bool) (z dt mu : ℝ)
    (h0 : V3.dot r0 r0 ≠ 0) (h1 : V3.dot r1 r1 ≠ 0)
    (hnc : V3.dot r0 r1 ≠ V3.norm r0 * V3.norm r1)
    (hA0 : lamA (V3.norm r0) (V3.norm r1) (lamDtheta r0 r1 pro) ≠ 0) (hmu : 0 < mu) (hC : 0 < lamC z)
    (hy : 0 < lamY (V3.norm r0) (V3.norm r1) (lamA (V3.norm r0) (V3.norm r1) (lamDtheta r0 r1 pro)) z)
    (hF : lamF (V3.norm r0) (V3.norm r1) (lamA (V3.norm r0) (V3.norm r1) (lamDtheta r0 r1 pro)) z dt mu = 0) :
    let A := lamA (V3.norm r0) (V3.norm r1) (lamDtheta r0 r1 pro)
    let v0 := (lamVel (V3.norm r0) (V3.norm r1) A z mu r0 r1).1
    let χ := Real.sqrt (lamY (V3.norm r0) (V3.norm r1) A z / lamC z)
    let α := 2 / V3.norm r0 - V3.dot v0 v0 / mu
    α * χ ^ 2 = z ∧
    Real.sqrt mu * dt = V3.dot r0 v0 / Real.sqrt mu * χ ^ 2 * lamC z
      + (1 - α * V3.norm r0) * χ ^ 3 * lamS z + V3.norm r0 * χ :=
  lambert_solves_universal_kepler r0 r1 _ z dt mu (lambert_A_sq r0 r1 pro h0 h1 hnc) hA0 hmu hC hy
    (norm_pos_of_dot_ne r0 h0) hF

/-- **`A` is finite and non-zero for every non-collinear geometry, either request** (the hypotheses `hnc`, `hA0` of
`lambert_solves_universal_kepler_dtheta` are consequences of `r₀ × r₁ ≠ 0`), and it has the sign of `sin Δθ`. -/
theorem lambert_A_ne_zero (r0 r1 : V3) (pro : Bool) (h0 : V3.dot r0 r0 ≠ 0) (h1 : V3.dot r1 r1 ≠ 0)
    (hcr : V3.dot (V3.cross r0 r1) (V3.cross r0 r1) ≠ 0) :
    lamA (V3.norm r0) (V3.norm r1) (lamDtheta r0 r1 pro) ≠ 0 ∧
    0 < lamA (V3.norm r0) (V3.norm r1) (lamDtheta r0 r1 pro) * Real.sin (lamDtheta r0 r1 pro) := by
  have hp : 0 < V3.norm r0 * V3.norm r1 := mul_pos (norm_pos_of_dot_ne r0 h0) (norm_pos_of_dot_ne r1 h1)
  have hsin := (lamDtheta_direction r0 r1 pro h0 h1 hcr).2.2.2
  have hc : 0 < 1 - Real.cos (lamDtheta r0 r1 pro) := by
    rw [lamDtheta_cos r0 r1 pro h0 h1]; linarith [(cos_angle_strict r0 r1 h0 h1 hcr).2]
  have hq : 0 < Real.sqrt (V3.norm r0 * V3.norm r1 / (1 - Real.cos (lamDtheta r0 r1 pro))) :=
    Real.sqrt_pos.mpr (div_pos hp hc)
  have hs2 : 0 < Real.sin (lamDtheta r0 r1 pro) ^ 2 := by positivity
  simp only [lamA, sin, cos, sqrt]
  refine ⟨mul_ne_zero hsin hq.ne', ?_⟩
  nlinarith [mul_pos hs2 hq]

/-- `lambert_solves_universal_kepler_dtheta` with its geometric hypotheses reduced to "the positions are not collinear":
**for every `r₀ × r₁ ≠ 0` (whatever its z component) and either request**, a zero of `F` with `y > 0`, `C > 0` gives a
departure state solving Kepler's universal equation for the requested time. -/
theorem lambert_solves_universal_kepler_noncollinear (r0 r1 : V3) (pro : Bool) (z dt mu : ℝ)
    (h0 : V3.dot r0 r0 ≠ 0) (h1 : V3.dot r1 r1 ≠ 0)
    (hcr : V3.dot (V3.cross r0 r1) (V3.cross r0 r1) ≠ 0) (hmu : 0 < mu) (hC : 0 < lamC z)
    (hy : 0 < lamY (V3.norm r0) (V3.norm r1) (lamA (V3.norm r0) (V3.norm r1) (lamDtheta r0 r1 pro)) z)
    (hF : lamF (V3.norm r0) (V3.norm r1) (lamA (V3.norm r0) (V3.norm r1) (lamDtheta r0 r1 pro)) z dt mu = 0) :
    let A := lamA (V3.norm r0) (V3.norm r1) (lamDtheta r0 r1 pro)
    let v0 := (lamVel (V3.norm r0) (V3.norm r1) A z mu r0 r1).1
    let χ := Real.sqrt (lamY (V3.norm r0) (V3.norm r1) A z / lamC z)
    let α := 2 / V3.norm r0 - V3.dot v0 v0 / mu
    α * χ ^ 2 = z ∧
    Real.sqrt mu * dt = V3.dot r0 v0 / Real.sqrt mu * χ ^ 2 * lamC z
      + (1 - α * V3.norm r0) * χ ^ 3 * lamS z + V3.norm r0 * χ := by
  have hp : 0 < V3.norm r0 * V3.norm r1 := mul_pos (norm_pos_of_dot_ne r0 h0) (norm_pos_of_dot_ne r1 h1)
  have hnc : V3.dot r0 r1 ≠ V3.norm r0 * V3.norm r1 := by
    intro h
    have := (cos_angle_strict r0 r1 h0 h1 hcr).2
    rw [h, div_self hp.ne'] at this
    exact lt_irrefl _ this
  exact lambert_solves_universal_kepler_dtheta r0 r1 pro z dt mu h0 h1 hnc (lambert_A_ne_zero r0 r1 pro h0 h1 hcr).1 hmu hC hy hF

/-- **the returned departure velocity goes round the way that was requested**: the z component of the angular momentum
`r₀ × v₀` of the returned state is ≥ 0 for a prograde request and ≤ 0 for a retrograde one (non-collinear positions,
`y(z) > 0`, `µ > 0`; `z` any value of the iteration variable). -/
theorem lambert_v0_direction (r0 r1 : V3) (pro : Bool) (z mu : ℝ)
    (h0 : V3.dot r0 r0 ≠ 0) (h1 : V3.dot r1 r1 ≠ 0)
    (hcr : V3.dot (V3.cross r0 r1) (V3.cross r0 r1) ≠ 0) (hmu : 0 < mu)
    (hy : 0 < lamY (V3.norm r0) (V3.norm r1) (lamA (V3.norm r0) (V3.norm r1) (lamDtheta r0 r1 pro)) z) :
    let A := lamA (V3.norm r0) (V3.norm r1) (lamDtheta r0 r1 pro)
    let v0 := (lamVel (V3.norm r0) (V3.norm r1) A z mu r0 r1).1
    (pro = true → 0 ≤ (V3.cross r0 v0).z) ∧ (pro = false → (V3.cross r0 v0).z ≤ 0) := by
  intro A v0
  obtain ⟨hA0, hAs⟩ := lambert_A_ne_zero r0 r1 pro h0 h1 hcr
  obtain ⟨hpro, hretro, _, hsin⟩ := lamDtheta_direction r0 r1 pro h0 h1 hcr
  set s := Real.sin (lamDtheta r0 r1 pro) with hs
  set c := (V3.cross r0 r1).z with hc
  have hq : 0 < Real.sqrt (|lamY (V3.norm r0) (V3.norm r1) A z| / mu) :=
    Real.sqrt_pos.mpr (div_pos (abs_pos.mpr hy.ne') hmu)
  -- (r0 × v0).z = c / g with g = A * sqrt(|y|/mu)
  have hz : (V3.cross r0 v0).z = c / (A * Real.sqrt (|lamY (V3.norm r0) (V3.norm r1) A z| / mu)) := by
    simp only [v0, lamVel, lamFG, V3.cross, V3.smul, V3.sub, hc, absR, sqrt]
    field_simp
    ring
  have hA2 : 0 < A ^ 2 := by positivity
  have hs2 : 0 < s ^ 2 := by positivity
  -- c * A has the sign of c * s because A * s > 0
  have key : ∀ x : ℝ, c / (A * x) = (c * s) * (A * s) / (A ^ 2 * s ^ 2 * x) := by
    intro x
    by_cases hx : x = 0
    · simp [hx]
    · field_simp
  rw [hz, key]
  have hden : 0 < A ^ 2 * s ^ 2 * Real.sqrt (|lamY (V3.norm r0) (V3.norm r1) A z| / mu) := by positivity
  constructor
  · intro hp
    exact div_nonneg (mul_nonneg (hpro hp) hAs.le) hden.le
  · intro hp
    exact div_nonpos_of_nonpos_of_nonneg (mul_nonpos_of_nonpos_of_nonneg (hretro hp) hAs.le) hden.le

example : (1 - (0 : ℝ) * lamS 0) ^ 2 = lamC 0 * (2 - 0 * lamC 0) := stumpff_identity 0

example : lamA 1 1 Real.pi ^ 2 = 1 * 1 * (1 + Real.cos Real.pi) :=
  lamA_sq 1 1 Real.pi (by rw [Real.cos_pi]; norm_num) (by norm_num)

/-- a transfer plane containing the z axis (`cr[2] = 0` exactly) satisfies the hypotheses of the theorems above -/
example : V3.dot (V3.cross ⟨1, 0, 0⟩ ⟨0, 0, 1⟩) (V3.cross ⟨1, 0, 0⟩ ⟨0, 0, 1⟩) ≠ 0 ∧ (V3.cross ⟨1, 0, 0⟩ ⟨0, 0, 1⟩).z = 0 := by
  simp [V3.dot, V3.cross]

end BeyondVerif.C19
