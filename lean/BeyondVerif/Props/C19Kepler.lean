import BeyondVerif.Props.C19
import BeyondVerif.Props.C19Geom
import Mathlib.Analysis.SpecialFunctions.Trigonometric.Basic
import Mathlib.Analysis.SpecialFunctions.Trigonometric.Inverse
import Mathlib.Tactic.Linarith
import Mathlib.Tactic.FieldSimp
import Mathlib.Tactic.Ring
import Mathlib.Tactic.LinearCombination

/-!
# C19 — mission-design helpers (part 3): the Lambert solution solves Kepler's problem

The velocities returned by `_lambert` are such that the state (r₀, v₀) and the requested transfer
time satisfy **Kepler's universal equation** with universal anomaly χ = √(y/C) and z = α χ²
(α = 2/r₀ − v₀²/µ, the reciprocal semi-major axis of the returned orbit).  With
`lambert_fg_universal` (f, g, ġ are the universal-variable Lagrange coefficients for that χ) and
`lambert_fg` (r₁ = f r₀ + g v₀) this is the statement "two-body propagation of the returned state
for the requested time arrives at the target", modulo the classical fact that the
universal-variable formulation is the two-body flow (not formalised).
All of `lamC lamS lamY lamF lamA lamFG` are translated from beyond/utils/lambert.py on every run.
-/
namespace BeyondVerif.C19
open BeyondVerif.R BeyondVerif.NumReal

/-! ## Stumpff functions -/

theorem lamC_pos {z : ℝ} (hz : 0 < z) : lamC z = (1 - Real.cos (Real.sqrt z)) / z := by
  simp only [lamC, gt_iff_lt, if_pos hz]

theorem lamC_neg {z : ℝ} (hz : z < 0) : lamC z = (Real.cosh (Real.sqrt (-z)) - 1) / (-z) := by
  simp only [lamC, gt_iff_lt, if_neg (not_lt.mpr hz.le), if_pos hz]

theorem lamC_zero : lamC 0 = 1 / 2 := by
  simp only [lamC, gt_iff_lt, lt_irrefl, if_false]

theorem lamS_pos {z : ℝ} (hz : 0 < z) :
    lamS z = (Real.sqrt z - Real.sin (Real.sqrt z)) / Real.sqrt z ^ 3 := by
  simp only [lamS, gt_iff_lt, if_pos hz]

theorem lamS_neg {z : ℝ} (hz : z < 0) :
    lamS z = (Real.sinh (Real.sqrt (-z)) - Real.sqrt (-z)) / Real.sqrt (-z) ^ 3 := by
  simp only [lamS, gt_iff_lt, if_neg (not_lt.mpr hz.le), if_pos hz]

theorem lamS_zero : lamS 0 = 1 / 6 := by
  simp only [lamS, gt_iff_lt, lt_irrefl, if_false]

/-- the identity between the Stumpff functions `_C`, `_S` of lambert.py (all three branches z > 0, z < 0, z = 0) behind `z = α χ²` -/
theorem stumpff_identity (z : ℝ) : (1 - z * lamS z) ^ 2 = lamC z * (2 - z * lamC z) := by
  rcases lt_trichotomy z 0 with hz | hz | hz
  · rw [lamC_neg hz, lamS_neg hz]
    obtain ⟨x, hx, rfl⟩ : ∃ x : ℝ, 0 < x ∧ z = -(x ^ 2) :=
      ⟨Real.sqrt (-z), Real.sqrt_pos.mpr (by linarith), by rw [Real.sq_sqrt (by linarith)]; ring⟩
    rw [neg_neg, Real.sqrt_sq hx.le]
    have h := Real.cosh_sq x
    have hx' : x ≠ 0 := hx.ne'
    field_simp
    linear_combination (-1 : ℝ) * h
  · subst hz
    rw [lamC_zero, lamS_zero]; norm_num
  · rw [lamC_pos hz, lamS_pos hz]
    obtain ⟨x, hx, rfl⟩ : ∃ x : ℝ, 0 < x ∧ z = x ^ 2 :=
      ⟨Real.sqrt z, Real.sqrt_pos.mpr hz, (Real.sq_sqrt hz.le).symm⟩
    rw [Real.sqrt_sq hx.le]
    have h := Real.sin_sq_add_cos_sq x
    have hx' : x ≠ 0 := hx.ne'
    field_simp
    linear_combination h

/-! ## The transfer angle and the constant `A` -/

/-- `A² = r₀ r₁ (1 + cos Δθ)` for the `A` of `_lambert` (non-degenerate transfer angle) -/
theorem lamA_sq (nr0 nr1 dθ : ℝ) (h : Real.cos dθ ≠ 1) (hn : 0 ≤ nr0 * nr1) :
    lamA nr0 nr1 dθ ^ 2 = nr0 * nr1 * (1 + Real.cos dθ) := by
  have hc : 0 < 1 - Real.cos dθ := by
    rcases (Real.cos_le_one dθ).lt_or_eq with h' | h'
    · linarith
    · exact absurd h' h
  have hs := Real.sin_sq_add_cos_sq dθ
  simp only [lamA, sin, cos, sqrt]
  rw [mul_pow, Real.sq_sqrt (div_nonneg hn hc.le)]
  have hc' : 1 - Real.cos dθ ≠ 0 := hc.ne'
  field_simp
  linear_combination (nr0 * nr1) * hs



theorem norm_pos_of_dot_ne (a : V3) (h : V3.dot a a ≠ 0) : 0 < V3.norm a :=
  Real.sqrt_pos.mpr (lt_of_le_of_ne (dot_self_nonneg a) (Ne.symm h))


theorem cos_angle_bounds (r0 r1 : V3) (h0 : V3.dot r0 r0 ≠ 0) (h1 : V3.dot r1 r1 ≠ 0) :
    -1 ≤ V3.dot r0 r1 / (V3.norm r0 * V3.norm r1) ∧ V3.dot r0 r1 / (V3.norm r0 * V3.norm r1) ≤ 1 := by
  have hp : 0 < V3.norm r0 * V3.norm r1 := mul_pos (norm_pos_of_dot_ne r0 h0) (norm_pos_of_dot_ne r1 h1)
  have hsq : V3.dot r0 r1 ^ 2 ≤ (V3.norm r0 * V3.norm r1) ^ 2 := by
    rw [mul_pow, norm_sq, norm_sq]; exact dot_sq_le r0 r1
  obtain ⟨hlo, hhi⟩ := abs_le_of_sq_le_sq' hsq hp.le
  rw [le_div_iff₀ hp, div_le_iff₀ hp]
  constructor <;> linarith

/-- whatever branch (prograde / retrograde, short / long way) selects the transfer angle, its cosine is `r₀·r₁ / (|r₀||r₁|)` -/
theorem lamDtheta_cos (r0 r1 : V3) (pro : Bool) (h0 : V3.dot r0 r0 ≠ 0) (h1 : V3.dot r1 r1 ≠ 0) :
    Real.cos (lamDtheta r0 r1 pro) = V3.dot r0 r1 / (V3.norm r0 * V3.norm r1) := by
  obtain ⟨hlo, hhi⟩ := cos_angle_bounds r0 r1 h0 h1
  simp only [lamDtheta, acos, pi]
  split_ifs <;> simp only [Real.cos_two_pi_sub, Real.cos_arccos hlo hhi]

/-- `A² = |r₀||r₁| + r₀·r₁` for the `A` computed by `_lambert`, for all four direction/way cases -/
theorem lambert_A_sq (r0 r1 : V3) (pro : Bool) (h0 : V3.dot r0 r0 ≠ 0) (h1 : V3.dot r1 r1 ≠ 0)
    (hnc : V3.dot r0 r1 ≠ V3.norm r0 * V3.norm r1) :
    (lamA (V3.norm r0) (V3.norm r1) (lamDtheta r0 r1 pro)) ^ 2
      = V3.norm r0 * V3.norm r1 + V3.dot r0 r1 := by
  have hp : 0 < V3.norm r0 * V3.norm r1 := mul_pos (norm_pos_of_dot_ne r0 h0) (norm_pos_of_dot_ne r1 h1)
  have hcos := lamDtheta_cos r0 r1 pro h0 h1
  have hne : Real.cos (lamDtheta r0 r1 pro) ≠ 1 := by
    rw [hcos]; intro h
    rw [div_eq_one_iff_eq hp.ne'] at h
    exact hnc h
  rw [lamA_sq _ _ _ hne hp.le, hcos, mul_add, mul_one, mul_div_cancel₀ _ hp.ne']

/-! ## The Lambert solution solves Kepler's universal equation -/

theorem dot_smul_sub_self (k f : ℝ) (r0 r1 : V3) :
    V3.dot (V3.smul k (V3.sub r1 (V3.smul f r0))) (V3.smul k (V3.sub r1 (V3.smul f r0)))
      = k ^ 2 * (V3.dot r1 r1 - 2 * f * V3.dot r0 r1 + f ^ 2 * V3.dot r0 r0) := by
  cases r0; cases r1; simp only [V3.dot, V3.smul, V3.sub]; ring

theorem dot_smul_sub (k f : ℝ) (r0 r1 : V3) :
    V3.dot r0 (V3.smul k (V3.sub r1 (V3.smul f r0))) = k * (V3.dot r0 r1 - f * V3.dot r0 r0) := by
  cases r0; cases r1; simp only [V3.dot, V3.smul, V3.sub]; ring

/-- energy relation `α χ² = z`, over plain reals -/
theorem kepler_E_real (n0 A w sc sy sm n1 d z : ℝ) (hn0 : n0 ≠ 0) (hA0 : A ≠ 0) (hsc : sc ≠ 0)
    (hsy : sy ≠ 0) (hsm : sm ≠ 0)
    (hn1 : n1 = sy ^ 2 - n0 + A * w) (hd : d = A ^ 2 - n0 * n1) (hz : z = (2 - w ^ 2) / sc ^ 2) :
    (2 / n0 - ((sm / (A * sy)) ^ 2 * (n1 ^ 2 - 2 * (1 - sy ^ 2 / n0) * d + (1 - sy ^ 2 / n0) ^ 2 * n0 ^ 2)) / sm ^ 2)
      * (sy / sc) ^ 2 = z := by
  subst hd hn1 hz
  field_simp
  ring

/-- Kepler's universal equation, over plain reals -/
theorem kepler_K_real (n0 A w sc sy sm n1 d z S α dt : ℝ) (hn0 : n0 ≠ 0) (hA0 : A ≠ 0) (hsc : sc ≠ 0)
    (hsy : sy ≠ 0) (hsm : sm ≠ 0)
    (hn1 : n1 = sy ^ 2 - n0 + A * w) (hd : d = A ^ 2 - n0 * n1)
    (hE : α * (sy / sc) ^ 2 = z) (hzS : z * S = 1 - w * sc)
    (hF : (sy / sc) ^ 3 * S + A * sy - sm * dt = 0) :
    sm * dt = (sm / (A * sy)) * (d - (1 - sy ^ 2 / n0) * n0 ^ 2) / sm * (sy / sc) ^ 2 * sc ^ 2
      + (1 - α * n0) * (sy / sc) ^ 3 * S + n0 * (sy / sc) := by
  have h1 : α * (sy / sc) ^ 3 * S = (1 - w * sc) * (sy / sc) := by
    linear_combination (sy / sc * S) * hE + (sy / sc) * hzS
  have h2 : (sm / (A * sy)) * (d - (1 - sy ^ 2 / n0) * n0 ^ 2) / sm * (sy / sc) ^ 2 * sc ^ 2
      + n0 * (sy / sc) * w * sc = A * sy := by
    subst hd hn1
    field_simp
    ring
  linear_combination (-1 : ℝ) * hF + n0 * h1 - h2

/-- **The returned departure state solves Kepler's universal equation for the requested time**:
if `F(z) = 0` then, with χ = √(y/C) and α = 2/|r₀| − |v₀|²/µ of the *returned* velocity,
(E) α χ² = z and (K) √µ Δt = (r₀·v₀/√µ) χ² C(z) + (1 − α r₀) χ³ S(z) + r₀ χ. -/
theorem lambert_solves_universal_kepler (r0 r1 : V3) (A z dt mu : ℝ)
    (hA : A ^ 2 = V3.norm r0 * V3.norm r1 + V3.dot r0 r1) (hA0 : A ≠ 0) (hmu : 0 < mu)
    (hC : 0 < lamC z) (hy : 0 < lamY (V3.norm r0) (V3.norm r1) A z)
    (hr0 : 0 < V3.norm r0)
    (hF : lamF (V3.norm r0) (V3.norm r1) A z dt mu = 0) :
    let v0 := (lamVel (V3.norm r0) (V3.norm r1) A z mu r0 r1).1
    let χ := Real.sqrt (lamY (V3.norm r0) (V3.norm r1) A z / lamC z)
    let α := 2 / V3.norm r0 - V3.dot v0 v0 / mu
    α * χ ^ 2 = z ∧
    Real.sqrt mu * dt = V3.dot r0 v0 / Real.sqrt mu * χ ^ 2 * lamC z
      + (1 - α * V3.norm r0) * χ ^ 3 * lamS z + V3.norm r0 * χ := by
  intro v0 χ α
  have hd0 : V3.dot r0 r0 = V3.norm r0 ^ 2 := (norm_sq r0).symm
  have hd1 : V3.dot r1 r1 = V3.norm r1 ^ 2 := (norm_sq r1).symm
  have hv0 : v0 = V3.smul (1 / (A * Real.sqrt (|lamY (V3.norm r0) (V3.norm r1) A z| / mu)))
      (V3.sub r1 (V3.smul (1 - lamY (V3.norm r0) (V3.norm r1) A z / V3.norm r0) r0)) := rfl
  have hyexp : lamY (V3.norm r0) (V3.norm r1) A z
      = V3.norm r0 + V3.norm r1 + A * (z * lamS z - 1) / Real.sqrt (lamC z) := rfl
  have hq : 0 ≤ lamY (V3.norm r0) (V3.norm r1) A z / lamC z := div_nonneg hy.le hC.le
  have hF' : χ ^ 3 * lamS z + A * Real.sqrt (lamY (V3.norm r0) (V3.norm r1) A z) - Real.sqrt mu * dt = 0 := by
    have h1 : Real.rpow (lamY (V3.norm r0) (V3.norm r1) A z / lamC z) 1.5 = χ ^ 3 := rpow_three_half _ hq
    rw [← h1]; simpa [lamF] using hF
  have hst := stumpff_identity z
  have hχ : χ = Real.sqrt (lamY (V3.norm r0) (V3.norm r1) A z) / Real.sqrt (lamC z) :=
    Real.sqrt_div hy.le _
  have hginv : 1 / (A * Real.sqrt (|lamY (V3.norm r0) (V3.norm r1) A z| / mu))
      = Real.sqrt mu / (A * Real.sqrt (lamY (V3.norm r0) (V3.norm r1) A z)) := by
    rw [abs_of_pos hy, Real.sqrt_div hy.le]
    have := (Real.sqrt_pos.mpr hy).ne'
    have := (Real.sqrt_pos.mpr hmu).ne'
    field_simp
  rw [hginv] at hv0
  have hsy2 : lamY (V3.norm r0) (V3.norm r1) A z = Real.sqrt (lamY (V3.norm r0) (V3.norm r1) A z) ^ 2 :=
    (Real.sq_sqrt hy.le).symm
  have hsc2 : lamC z = Real.sqrt (lamC z) ^ 2 := (Real.sq_sqrt hC.le).symm
  have hsm2 : mu = Real.sqrt mu ^ 2 := (Real.sq_sqrt hmu.le).symm
  have hsy := (Real.sqrt_pos.mpr hy).ne'
  have hsc := (Real.sqrt_pos.mpr hC).ne'
  have hsm := (Real.sqrt_pos.mpr hmu).ne'
  have hα : α = 2 / V3.norm r0 - V3.dot v0 v0 / mu := rfl
  clear_value v0 χ α
  generalize Real.sqrt (lamY (V3.norm r0) (V3.norm r1) A z) = sy at *
  generalize Real.sqrt (lamC z) = sc at *
  generalize Real.sqrt mu = sm at *
  generalize V3.norm r0 = n0 at *
  generalize V3.norm r1 = n1 at *
  generalize hdd : V3.dot r0 r1 = d at *
  -- w := (1 - z S) / sc
  have hw2 : ((1 - z * lamS z) / sc) ^ 2 = 2 - z * sc ^ 2 := by
    rw [div_pow, hst, hsc2]; field_simp
  have hz : z = (2 - ((1 - z * lamS z) / sc) ^ 2) / sc ^ 2 := by
    rw [hw2]; field_simp; ring
  have hn1 : n1 = sy ^ 2 - n0 + A * ((1 - z * lamS z) / sc) := by
    rw [← hsy2, hyexp]; ring
  have hd : d = A ^ 2 - n0 * n1 := by linarith
  have hzS : z * lamS z = 1 - (1 - z * lamS z) / sc * sc := by field_simp; ring
  have hvv : V3.dot v0 v0 = (sm / (A * sy)) ^ 2 *
      (n1 ^ 2 - 2 * (1 - sy ^ 2 / n0) * d + (1 - sy ^ 2 / n0) ^ 2 * n0 ^ 2) := by
    rw [hv0, dot_smul_sub_self, hd0, hd1, hsy2, hdd]
  have hrv : V3.dot r0 v0 = (sm / (A * sy)) * (d - (1 - sy ^ 2 / n0) * n0 ^ 2) := by
    rw [hv0, dot_smul_sub, hd0, hsy2, hdd]
  have hE : α * χ ^ 2 = z := by
    rw [hα, hvv, hχ, hsm2]
    exact kepler_E_real n0 A _ sc sy sm n1 d z hr0.ne' hA0 hsc hsy hsm hn1 hd hz
  refine ⟨hE, ?_⟩
  rw [hχ] at hE hF' ⊢
  rw [hrv, hsc2]
  exact kepler_K_real n0 A _ sc sy sm n1 d z (lamS z) α dt hr0.ne' hA0 hsc hsy hsm hn1 hd hE hzS hF'

/-- the same with the `A` actually computed by `_lambert` from the transfer angle -/
theorem lambert_solves_universal_kepler_dtheta (r0 r1 : V3) (pro : Bool) (z dt mu : ℝ)
    (h0 : V3.dot r0 r0 ≠ 0) (h1 : V3.dot r1 r1 ≠ 0)
    (hnc : V3.dot r0 r1 ≠ V3.norm r0 * V3.norm r1)
    (hA0 : lamA (V3.norm r0) (V3.norm r1) (lamDtheta r0 r1 pro) ≠ 0) (hmu : 0 < mu) (hC : 0 < lamC z)
    (hy : 0 < lamY (V3.norm r0) (V3.norm r1) (lamA (V3.norm r0) (V3.norm r1) (lamDtheta r0 r1 pro)) z)
    (hF : lamF (V3.norm r0) (V3.norm r1) (lamA (V3.norm r0) (V3.norm r1) (lamDtheta r0 r1 pro)) z dt mu = 0) :
    let A := lamA (V3.norm r0) (V3.norm r1) (lamDtheta r0 r1 pro)
    let v0 := (lamVel (V3.norm r0) (V3.norm r1) A z mu r0 r1).1
    let χ := Real.sqrt (lamY (V3.norm r0) (V3.norm r1) A z / lamC z)
    let α := 2 / V3.norm r0 - V3.dot v0 v0 / mu
    α * χ ^ 2 = z ∧
    Real.sqrt mu * dt = V3.dot r0 v0 / Real.sqrt mu * χ ^ 2 * lamC z
      + (1 - α * V3.norm r0) * χ ^ 3 * lamS z + V3.norm r0 * χ :=
  lambert_solves_universal_kepler r0 r1 _ z dt mu (lambert_A_sq r0 r1 pro h0 h1 hnc) hA0 hmu hC hy
    (norm_pos_of_dot_ne r0 h0) hF

example : (1 - (0 : ℝ) * lamS 0) ^ 2 = lamC 0 * (2 - 0 * lamC 0) := stumpff_identity 0

example : lamA 1 1 Real.pi ^ 2 = 1 * 1 * (1 + Real.cos Real.pi) :=
  lamA_sq 1 1 Real.pi (by rw [Real.cos_pi]; norm_num) (by norm_num)

end BeyondVerif.C19
