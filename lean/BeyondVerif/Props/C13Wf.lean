import BeyondVerif.Props.C13Groups
import BeyondVerif.Props.C13Omm
/-!
C13: well-formedness predicates shared by the whole-message theorems for OEM and TDM (both encodings)
and for the KVN encodings of OPM and OMM.  They describe the objects the writers can be given:
non-empty texts (an empty text is not a value in either encoding), a registered frame (Earth-centred or not), the six
coordinates, the 21 covariance values, distinct epochs inside one ephemeris (the readers attach a
covariance block to the point with the same epoch), at most nine participants on a path.
-/
namespace BeyondVerif.C13
open BeyondVerif.Ccsds BeyondVerif.Generated

/-- a segment of an OEM: an ephemeris with its interpolation settings -/
structure SegWf (s : Seg) : Prop where
  frame : s.frame ∈ frameTable.map (·.1)
  name : s.name ≠ ""
  id : s.id ≠ ""
  scale : s.scale ≠ ""
  method : s.method ≠ ""
  order : s.order ≠ some (.s "")
  points_ne : s.points ≠ []
  points : ∀ p ∈ s.points, PointWf p
  covs : ∀ p ∈ s.points, ∀ c, p.cov = some c → CovWf c
  nodup : (s.points.map (·.epoch)).Nodup

/-- the four measurement classes the writer knows and the readers accept -/
def obsKinds : List String := ["Range", "Doppler", "Azimut", "Elevation"]

structure TdmWf (m : Tdm) : Prop where
  scale : m.scale ≠ ""
  obs_ne : m.obs ≠ []
  obs : ∀ o ∈ m.obs, o.epoch ≠ .s "" ∧ o.value ≠ .s "" ∧ o.kind ∈ obsKinds
  path : ∀ o ∈ m.obs, o.path ≠ [] ∧ (∀ p ∈ o.path, p ≠ "") ∧ (dedup o.path).length ≤ 9

/-- user-defined fields come from a Python dict: distinct names; values are non-empty texts -/
def UdKvnWf (ud : Option (List (String × String))) : Prop :=
  ∀ kvs, ud = some kvs → (kvs.map (·.1)).Nodup ∧ ∀ kv ∈ kvs, kv.2 ≠ ""

def segEx : Seg :=
  ⟨"SAT", "2020-001A", "EME2000", "UTC", "LAGRANGE", some (.s "8"), [⟨.s "t0", [.s "1", .s "2", .s "3", .s "4", .s "5", .s "6"], none⟩]⟩

example : SegWf segEx :=
  { frame := by decide, name := by decide, id := by decide, scale := by decide, method := by decide, order := by decide,
    points_ne := by simp [segEx],
    points := by
      intro p hp
      simp only [segEx, List.mem_cons, List.not_mem_nil, or_false] at hp
      subst hp
      exact ⟨by decide, _, _, _, _, _, _, rfl, by decide, by decide, by decide, by decide, by decide, by decide⟩
    covs := by
      intro p hp c hc
      simp only [segEx, List.mem_cons, List.not_mem_nil, or_false] at hp
      subst hp
      cases hc
    nodup := by simp [segEx] }

def tdmEx : Tdm := ⟨"UTC", [⟨"Range", ["STA", "SAT", "STA"], .s "t0", .s "1.0"⟩]⟩

example : TdmWf tdmEx :=
  { scale := by decide, obs_ne := by simp [tdmEx],
    obs := by
      intro o ho
      simp only [tdmEx, List.mem_cons, List.not_mem_nil, or_false] at ho
      subst ho
      exact ⟨by decide, by decide, by decide⟩
    path := by
      intro o ho
      simp only [tdmEx, List.mem_cons, List.not_mem_nil, or_false] at ho
      subst ho
      exact ⟨by decide, by decide, by decide⟩ }

end BeyondVerif.C13
