import BeyondVerif.Lemmas.Calendar
import BeyondVerif.Generated.Sgp4BetaR
import BeyondVerif.Generated.Sgp4WrapBind
import BeyondVerif.Generated.Sgp4BetaInst
import Mathlib.Tactic.LinearCombination
import Mathlib.Tactic.NormNum
import Mathlib.Tactic.FieldSimp
import Mathlib.Tactic.Positivity
import Mathlib.Tactic.NormNum.OfScientific

/-!
# C07 — SGP4 propagation equals the reference SGP4 theory

Part 1, the default propagator (`beyond/propagators/sgp4.py`, model `Model/Sgp4Wrap.lean`, the third-party library being
a parameter):

* `wrapper_eq_reference`: for EVERY library, every TLE text ℓ the regeneration reproduces (C12's `parse_write_id`, here a
  hypothesis) and every date, the wrapper returns exactly 1000 × what the library returns for the original lines ℓ and the
  UTC calendar tuple of the date's instant; `wrapper_timedelta` for the `timedelta` argument.
* `fields_valid`, `fields_denote_instant`: the tuple is a valid civil date/time and denotes the instant exactly
  (CPython's `ymd2ord`, integer microseconds): nothing is lost by the formatting, for all dates from year 1 on.
* `fields_jday`: for years 1901–2099 (the TLE epoch window 1957–2056 ± 30 d lies inside) the Julian-day formula the library
  itself applies to the tuple (`sgp4.ext.jday`) gives, in exact arithmetic, the Julian day number of that instant's day.
* `time_resolution`: any double within half a microsecond of the six-place seconds text gives a tuple that denotes the
  instant to less than one microsecond.

Part 2, the native implementation (`beyond/propagators/sgp4beta.py`, `Generated/Sgp4BetaR.lean`, translated from the Python
AST on every run):

* `beta_frame_orthonormal`: for all angles the position is `rk·r_e·1000` times a unit vector U, the velocity is
  `(rdotk·U + rfdotk·V)·r_e·k_e/60·1000` with V a unit vector orthogonal to U: |r| = |rk|·r_e·1000, r·v = rk·rdotk·(…).
* `beta_kepler_residual`: whenever the Kepler loop is left through `break` at `E`, the residual of Kepler's equation
  `U = E - axN sin E + ayN cos E` is below `1e-12·|1 - ayN sin E - axN cos E|`, for every fuel; `beta_kepler_fuel`:
  the source's loop count is 10.
* `beta_gravity_constants`: the regenerated constants are Vallado's WGS-72 set and `k_e` (an expression in the source)
  is within 1e-9 of 0.0743669161.

* `beta_a0_reference` / `beta_a0_kepler_law`: the cached semi-major axis and mean motion of the setter satisfy the
  reference implementation's relation `ao = (xke / no'')^(2/3)`, i.e. `no''·ao^(3/2) = k_e` (Vallado's `initl`).

NOT a theorem (oracle only, see evidence): "the native model equals the reference within 1 cm" — it compares two
floating-point programs, one of them third-party.

History: until /repo commit 565c5a9 the setter recovered `a0''` with Spacetrack Report 3's truncated series
`a0/(1 - δ0)`; `beta_a0_reference` was false of that code (the two differ at second order in δ0 ≈ 1e-3·…, 2e-11 relative)
and the oracle found 2–20 cm after 2–4 weeks (finding C07-native-a0-series, now fixed).  The theorem is stated about the
regenerated `sgp4Init`, so it stops checking if the series returns.
-/
namespace BeyondVerif.C07
open BeyondVerif.Sgp4Wrap

/-! ## Part 1: the wrapper -/

/-- Clause 1 (default propagator = reference, exact part).  `parse ℓ` is the orbit built from the TLE text ℓ; if the text
regeneration reproduces ℓ, the wrapper's result is `scale` (×1000) applied to the library's result for ℓ and the UTC
tuple of the instant — for every library. -/
theorem wrapper_eq_reference {Orbit Lines Sat K : Type} (w : Wrapper Orbit Lines Sat K) (parse : Lines → Orbit) (ℓ : Lines)
    (hregen : w.regen (parse ℓ) = ℓ) (us : Nat) :
    w.run (parse ℓ) us =
      ((w.propagate (w.twoline2rv ℓ) (utcFields us)).1 ++ (w.propagate (w.twoline2rv ℓ) (utcFields us)).2).map w.scale := by
  simp only [Wrapper.run, hregen]

example : (⟨fun (o : Nat) => o + 1, fun l => l * 2, fun s f => ([(s : Int) + f.year], [(f.secUs : Int)]), fun x => x * 1000⟩ :
    Wrapper Nat Nat Nat Int).run 4 63745056123456789 = [2031000, 3456789000] := by decide +kernel

/-- `propagate(timedelta)` is `propagate(epoch + timedelta)` -/
theorem wrapper_timedelta {Orbit Lines Sat K : Type} (w : Wrapper Orbit Lines Sat K) (o : Orbit) (epochUs : Nat) (δ : Int)
    (h : 0 ≤ (epochUs : Int) + δ) : ∃ us : Nat, (us : Int) = epochUs + δ ∧ w.runDelta o epochUs δ = w.run o us :=
  ⟨((epochUs : Int) + δ).toNat, Int.toNat_of_nonneg h, rfl⟩

/-- Clause 1 with the date as an INSTANT: whatever the epoch of the element set, whatever Earth-orientation data the date carries, the
library is asked for the UTC clock reading of the requested instant (`tai − off`, `off` = TAI − UTC on the date's own day) — the epoch
does not enter. -/
theorem wrapper_instant_eq_reference {Orbit Lines Sat K : Type} (w : Wrapper Orbit Lines Sat K) (parse : Lines → Orbit) (ℓ : Lines)
    (hregen : w.regen (parse ℓ) = ℓ) (tai off : Int) (us : Nat) (hus : (us : Int) = tai - off) :
    w.runInstant (parse ℓ) tai off =
      ((w.propagate (w.twoline2rv ℓ) (utcFields us)).1 ++ (w.propagate (w.twoline2rv ℓ) (utcFields us)).2).map w.scale := by
  have h : (utcReading tai off).toNat = us := by unfold utcReading; omega
  simp only [Wrapper.runInstant, Wrapper.run, hregen, h]

/-- Locating the date by "UTC datetime of the epoch + elapsed time since the epoch" gives the UTC reading of the date **iff** TAI − UTC
is the same at the epoch and at the date: across an inserted second the two differ, by exactly the number of inserted seconds
(`elapsed_route_error`).  (The reference locates the date by UTC calendar arithmetic, so only `utcReading` is "that instant" for it.) -/
theorem elapsed_route_eq_iff (taiEpoch offEpoch tai off : Int) :
    elapsedRoute taiEpoch offEpoch tai = utcReading tai off ↔ offEpoch = off := by
  unfold elapsedRoute utcReading; omega

theorem elapsed_route_error (taiEpoch offEpoch tai off : Int) :
    elapsedRoute taiEpoch offEpoch tai - utcReading tai off = off - offEpoch := by
  unfold elapsedRoute utcReading; omega

/-- element set of 2016-12-31T12:00:00 UTC (TAI − UTC = 36 s), request 2017-01-01T00:30:00 UTC (37 s): the wrapper hands 00:30:00 to the
library, the elapsed route would hand 00:30:01 -/
example : utcFields (utcReading 63618827437000000 37000000).toNat = ⟨2017, 1, 1, 0, 30, 0⟩ ∧
    utcFields (elapsedRoute 63618782436000000 36000000 63618827437000000).toNat = ⟨2017, 1, 1, 0, 30, 1000000⟩ := by decide +kernel

/-- the tuple is a valid civil date and time of day -/
theorem fields_valid (us : Nat) :
    1 ≤ (utcFields us).year ∧ 1 ≤ (utcFields us).month ∧ (utcFields us).month ≤ 12 ∧ 1 ≤ (utcFields us).day
      ∧ (utcFields us).day ≤ daysInMonth (leapB (utcFields us).year) (utcFields us).month
      ∧ (utcFields us).hour < 24 ∧ (utcFields us).minute < 60 ∧ (utcFields us).secUs < 60000000 := by
  obtain ⟨h1, h2, h3, h4, h5, _⟩ := ord2ymd_spec (us / usPerDay + 1) (Nat.le_add_left 1 _)
  simp only [utcFields, usPerDay] at *
  refine ⟨h1, h2, h3, h4, h5, ?_, ?_, ?_⟩ <;> omega

/-- Clause "at that instant" (exact part): reading the tuple back as a civil date (CPython's `ymd2ord`) and time of day
gives the instant's microsecond count exactly — the formatting `%Y %m %d %H %M %S.%f` loses nothing. -/
theorem fields_denote_instant (us : Nat) :
    (ymd2ord (utcFields us).year (utcFields us).month (utcFields us).day - 1) * usPerDay
      + (utcFields us).hour * 3600000000 + (utcFields us).minute * 60000000 + (utcFields us).secUs = us := by
  obtain ⟨_, _, _, _, _, h6⟩ := ord2ymd_spec (us / usPerDay + 1) (Nat.le_add_left 1 _)
  simp only [utcFields, usPerDay] at *
  rw [h6]
  omega

example : utcFields 63745056123456789 = ⟨2021, 1, 1, 0, 2, 3456789⟩ := by rfl

private theorem shift_const (q l j c c' : Nat) (hc : c + 1 = c') (key : l = q + 1 + c + j) : l = q + c' + j := by omega

/-- The library's own reading of the tuple (`sgp4.ext.jday`, integer part, exact arithmetic): for years 1901–2099 it is the
Julian day number of the instant's day (`us / usPerDay` days after 0001-01-01 = JD 1721425.5). -/
theorem fields_jday (us : Nat) (hy : 1901 ≤ (utcFields us).year) (hy' : (utcFields us).year ≤ 2099) :
    jdayLhs (utcFields us).year (utcFields us).month (utcFields us).day
      = us / usPerDay + 1721425 + jdaySub (utcFields us).year (utcFields us).month := by
  have ey : (utcFields us).year = (ord2ymd (us / usPerDay + 1)).1 := rfl
  have em : (utcFields us).month = (ord2ymd (us / usPerDay + 1)).2.1 := rfl
  have ed : (utcFields us).day = (ord2ymd (us / usPerDay + 1)).2.2 := rfl
  obtain ⟨_, h2, h3, _, _, h6⟩ := ord2ymd_spec (us / usPerDay + 1) (Nat.le_add_left 1 _)
  rw [ey] at hy hy'
  have key := jday_ymd2ord _ _ (ord2ymd (us / usPerDay + 1)).2.2 hy hy' h2 h3
  rw [h6] at key
  rw [ey, em, ed]
  exact shift_const _ _ _ 1721424 1721425 (by norm_num) key

example : 1901 ≤ (utcFields 63745056123456789).year ∧ (utcFields 63745056123456789).year ≤ 2099 := by
  have : utcFields 63745056123456789 = ⟨2021, 1, 1, 0, 2, 3456789⟩ := by rfl
  rw [this]; exact ⟨by norm_num, by norm_num⟩

/-- Clause "within the library's time resolution", formatting part: a seconds value within half a microsecond of the
six-place text (every correctly rounded double of it is within 2⁻⁴⁸ s) gives a tuple that denotes the instant, in seconds
since 0001-01-01, to less than one microsecond. -/
theorem time_resolution (us : Nat) (s : ℝ) (hs : |s - ((utcFields us).secUs : ℝ) / 1000000| < 1 / 2000000) :
    |(((ymd2ord (utcFields us).year (utcFields us).month (utcFields us).day - 1) * 86400 + (utcFields us).hour * 3600
        + (utcFields us).minute * 60 : Nat) : ℝ) + s - (us : ℝ) / 1000000| < 1 / 1000000 := by
  have h := fields_denote_instant us
  have h' : ((us : Nat) : ℝ) = (((ymd2ord (utcFields us).year (utcFields us).month (utcFields us).day - 1) * usPerDay
      + (utcFields us).hour * 3600000000 + (utcFields us).minute * 60000000 + (utcFields us).secUs : Nat) : ℝ) := by rw [h]
  rw [h']
  simp only [usPerDay]
  push_cast
  rw [abs_lt] at hs ⊢
  constructor <;> linarith [hs.1, hs.2]

/-! ### The wrapper as a state machine: replies do not depend on the history -/

/-- what a kept satellite record must satisfy: it was built by the setter from SOME values with the remembered key -/
def BoundInv {V Key Lines Sat K : Type} (m : Machine V Key Lines Sat K) (b : Option (Bound Key Sat)) : Prop :=
  ∀ bb, b = some bb → ∃ v0, bb.key = m.stateKey v0 ∧ bb.sat = m.twoline2rv (m.regen v0)

theorem step_spec {V Key Lines Sat K : Type} [DecidableEq Key] (m : Machine V Key Lines Sat K)
    (hkey : ∀ v v', m.stateKey v = m.stateKey v' →
      ∀ f, m.propagate (m.twoline2rv (m.regen v)) f = m.propagate (m.twoline2rv (m.regen v')) f)
    (b : Option (Bound Key Sat)) (hb : BoundInv m b) (v : V) (us : Nat) :
    (m.step b v us).2.2 = m.toWrapper.run v us ∧ BoundInv m (some (m.step b v us).1) := by
  cases b with
  | none =>
    refine ⟨rfl, ?_⟩
    intro bb h
    exact ⟨v, by cases h; rfl, by cases h; rfl⟩
  | some bb =>
    obtain ⟨v0, hk, hs⟩ := hb bb rfl
    by_cases hne : m.stateKey v ≠ bb.key
    · have e : m.step (some bb) v us = (m.bind v, true, m.toWrapper.run v us) := by
        simp only [Machine.step, Machine.bind, Wrapper.run]
        rw [if_pos hne]
      rw [e]
      refine ⟨rfl, ?_⟩
      intro b' h
      exact ⟨v, by cases h; rfl, by cases h; rfl⟩
    · have heq : m.stateKey v = bb.key := not_not.mp hne
      have e : m.step (some bb) v us = (bb, false, ((m.propagate bb.sat (utcFields us)).1 ++ (m.propagate bb.sat (utcFields us)).2).map m.scale) := by
        simp only [Machine.step]
        rw [if_neg hne]
      rw [e]
      refine ⟨?_, ?_⟩
      · simp only [Wrapper.run]
        rw [hs, hkey v0 v (by rw [← hk, heq])]
      · intro b' h
        exact ⟨v0, by cases h; exact hk, by cases h; exact hs⟩

/-- Clause "returns … the state given by the reference for that TLE", for a MUTABLE orbit: whatever in-place edits and
propagations came before (any history, any record already kept), every reply is the reply of a fresh propagator given the
values the orbit holds at that call — provided the key `Sgp4._state` compares determines what the library answers for the
regenerated text (`hkey`; its syntactic side is `bind_key_covers_regen`, its numeric side — label fields do not move the
state — is an oracle family). -/
theorem history_reply_eq_fresh {V Key Lines Sat K : Type} [DecidableEq Key] (m : Machine V Key Lines Sat K)
    (hkey : ∀ v v', m.stateKey v = m.stateKey v' →
      ∀ f, m.propagate (m.twoline2rv (m.regen v)) f = m.propagate (m.twoline2rv (m.regen v')) f) :
    ∀ (ops : List (Op V)) (b : Option (Bound Key Sat)) (v : V), BoundInv m b →
      ∀ x ∈ m.history b v ops, x.2.2 = m.toWrapper.run x.1 x.2.1 := by
  intro ops
  induction ops with
  | nil => intro b v _ x hx; simp [Machine.history] at hx
  | cons op rest ih =>
    intro b v hb x hx
    cases op with
    | edit f => exact ih b (f v) hb x (by simpa [Machine.history] using hx)
    | propagate us =>
      obtain ⟨h1, h2⟩ := step_spec m hkey b hb v us
      simp only [Machine.history, List.mem_cons] at hx
      rcases hx with rfl | hx
      · exact h1
      · exact ih _ v h2 x hx

/-- … in particular from a new orbit object (nothing bound) -/
theorem history_reply_eq_fresh_new {V Key Lines Sat K : Type} [DecidableEq Key] (m : Machine V Key Lines Sat K)
    (hkey : ∀ v v', m.stateKey v = m.stateKey v' →
      ∀ f, m.propagate (m.twoline2rv (m.regen v)) f = m.propagate (m.twoline2rv (m.regen v')) f)
    (ops : List (Op V)) (v : V) : ∀ x ∈ m.history none v ops, x.2.2 = m.toWrapper.run x.1 x.2.1 :=
  history_reply_eq_fresh m hkey ops none v (by intro bb h; cases h)

/-- the hypothesis is satisfiable and the statement has content: in the driver's machine a label-only edit (same key, new
version) keeps the record of the old version, a key change rebuilds it -/
example : idMachine.history none (1, 1) [Op.propagate 0, Op.edit (fun _ => (1, 2)), Op.propagate 0, Op.edit (fun _ => (2, 3)), Op.propagate 0]
    = [((1, 1), 0, [1]), ((1, 2), 0, [1]), ((2, 3), 0, [3])] := by decide

/-- The syntactic side of `hkey`, over the sets regenerated from sgp4.py and tle.py on every run: every value `Tle.from_orbit`
reads of the orbit is a label field or is determined by what `Sgp4._state` compares (so an in-place edit of any input of the
satellite record changes the key and the setter runs again); and the class has no member besides the four the model stands for
(their statement lists are compared by the extractor, which refuses any other shape). -/
theorem bind_key_covers_regen :
    (∀ r ∈ fromOrbitReads, r ∈ labelReads ∨ ∀ k ∈ coveredBy r, k ∈ stateKeyReads)
      ∧ sgp4Members = ["orbit", "orbit.setter", "_state", "propagate"] := by decide

/-! ### The native propagator as objects: several instances alive, any interleaving -/
section NativeInstances
open BeyondVerif.Sgp4Inst

theorem native_bind_consistent {O I T K : Type} (m : Native O I T K) (s : State O I) (hs : Consistent m s) (i : Nat) (o : O) :
    Consistent m (Sgp4Inst.bind m s i o) := by
  intro j o' c h
  simp only [Sgp4Inst.bind] at h
  by_cases hj : j = i
  · rw [if_pos hj] at h
    cases h
    rfl
  · rw [if_neg hj] at h
    exact hs j o' c h

/-- a fresh instance bound to `o` answers `prop o (init o) t` — wherever the `Init` object lives -/
theorem native_fresh_reply {O I T K : Type} (m : Native O I T K) (st : Storage) (o : O) (t : T) :
    reply m st (Sgp4Inst.bind m State.empty 0 o) 0 t = some (m.prop o (m.init o) t) := by
  cases st <;> simp [reply, Sgp4Inst.bind]

/-- Clause "the native implementation returns the same state …", for OBJECTS: with the constants kept per instance (what the
source does: `Init()` is created by the setter, `native_init_per_instance`), the reply of an instance after ANY interleaving of
bindings, re-bindings and propagations of any number of instances is the reply of a fresh instance bound to the orbit that
instance is bound to at that call. -/
theorem native_reply_eq_fresh {O I T K : Type} (m : Native O I T K) :
    ∀ (ops : List (Sgp4Inst.Op O T)) (s : State O I), Consistent m s →
      ∀ x ∈ run m Storage.perInstance s ops, x.2.2.2 = x.2.2.1.map (fun o => m.prop o (m.init o) x.2.1) := by
  intro ops
  induction ops with
  | nil => intro s _ x hx; simp [run] at hx
  | cons op rest ih =>
    intro s hs x hx
    cases op with
    | bind i o => exact ih _ (native_bind_consistent m s hs i o) x (by simpa [run] using hx)
    | propagate i t =>
      simp only [run, List.mem_cons] at hx
      rcases hx with rfl | hx
      · simp only [reply, boundOrbit]
        cases hb : s.bound i with
        | none => rfl
        | some oc =>
          obtain ⟨o, c⟩ := oc
          have := hs i o c hb
          subst this
          rfl
      · exact ih s hs x hx

theorem native_reply_eq_fresh_new {O I T K : Type} (m : Native O I T K) (ops : List (Sgp4Inst.Op O T)) :
    ∀ x ∈ run m Storage.perInstance State.empty ops, x.2.2.2 = x.2.2.1.map (fun o => m.prop o (m.init o) x.2.1) :=
  native_reply_eq_fresh m ops State.empty (by intro i o c h; simp [State.empty] at h)

/-- the storage hypothesis is needed: with ONE `Init` object for the class, binding a second instance changes what the first answers
(elements of orbit 1, constants of orbit 2) -/
example : run idNative Storage.shared State.empty [Sgp4Inst.Op.bind 0 1, Sgp4Inst.Op.bind 1 2, Sgp4Inst.Op.propagate 0 0]
    = [(0, 0, some 1, some (1, 2))] := by decide
example : run idNative Storage.perInstance State.empty [Sgp4Inst.Op.bind 0 1, Sgp4Inst.Op.bind 1 2, Sgp4Inst.Op.propagate 0 0]
    = [(0, 0, some 1, some (1, 1))] := by decide

/-- … and the source is in the per-instance case, as read from the AST of sgp4beta.py on every run: `Init()` is created inside the
setter and bound to `self._init`, and everything `propagate` reads of `self` is assigned on the instance by the setter. -/
theorem native_init_per_instance :
    BeyondVerif.Sgp4BetaInst.initStorage = Storage.perInstance
      ∧ ∀ a ∈ BeyondVerif.Sgp4BetaInst.propagateSelfReads, a = "__class__" ∨ a ∈ BeyondVerif.Sgp4BetaInst.setterSelfWrites := by decide

end NativeInstances

/-! ## Part 2: the native implementation (formulas translated from sgp4beta.py) -/
open BeyondVerif.R

/-- Clause "returns the state … in TEME", geometric part: for all angles and magnitudes the last piece of
`Sgp4Beta.propagate` (`sgp4Frame`, regenerated from the source) returns position `K·U` and velocity `W·(rdotk·U + rfdotk·V)`
with U, V orthonormal, `K = rk·r_e·1000`, `W = r_e·k_e/60·1000`: the radius is |K|, the radial velocity `W·rdotk`,
the speed² `W²(rdotk² + rfdotk²)`. -/
theorem beta_frame_orthonormal (ik Ωk uk r_e rk rdotk rfdotk k_e : ℝ) :
    ∃ x y z vx vy vz : ℝ, sgp4Frame ik Ωk uk r_e rk rdotk rfdotk k_e = [x, y, z, vx, vy, vz]
      ∧ x ^ 2 + y ^ 2 + z ^ 2 = (rk * r_e * 1000) ^ 2
      ∧ x * vx + y * vy + z * vz = (rk * r_e * 1000) * (rdotk * (r_e * k_e / 60 * 1000))
      ∧ vx ^ 2 + vy ^ 2 + vz ^ 2 = (rdotk ^ 2 + rfdotk ^ 2) * (r_e * k_e / 60 * 1000) ^ 2 := by
  have h1 := Real.sin_sq_add_cos_sq Ωk
  have h2 := Real.sin_sq_add_cos_sq ik
  have h3 := Real.sin_sq_add_cos_sq uk
  have e60 : (60.0 : ℝ) = 60 := by norm_num
  refine ⟨_, _, _, _, _, _, rfl, ?_, ?_, ?_⟩
  · simp only [NumReal.sin, NumReal.cos]
    linear_combination (rk * r_e * 1000) ^ 2 * ((Real.sin uk ^ 2 * Real.cos ik ^ 2 + Real.cos uk ^ 2) * h1 + Real.sin uk ^ 2 * h2 + h3)
  · simp only [NumReal.sin, NumReal.cos, e60]
    linear_combination (rk * r_e * 1000) * (r_e * k_e / 60 * 1000) *
      (rdotk * ((Real.sin uk ^ 2 * Real.cos ik ^ 2 + Real.cos uk ^ 2) * h1 + Real.sin uk ^ 2 * h2 + h3)
        + rfdotk * (Real.sin uk * Real.cos uk * ((Real.cos ik ^ 2 - 1) * h1 + h2)))
  · simp only [NumReal.sin, NumReal.cos, e60]
    linear_combination (r_e * k_e / 60 * 1000) ^ 2 *
      (rdotk ^ 2 * ((Real.sin uk ^ 2 * Real.cos ik ^ 2 + Real.cos uk ^ 2) * h1 + Real.sin uk ^ 2 * h2 + h3)
        + 2 * rdotk * rfdotk * (Real.sin uk * Real.cos uk * ((Real.cos ik ^ 2 - 1) * h1 + h2))
        + rfdotk ^ 2 * ((Real.cos uk ^ 2 * Real.cos ik ^ 2 + Real.sin uk ^ 2) * h1 + Real.cos uk ^ 2 * h2 + h3))

example : ∃ v, sgp4Frame 0.9 4.3 2.1 6378.135 1.05 0.001 1.02 0.0743669161 = v ∧ v.length = 6 := ⟨_, rfl, rfl⟩

/-- Clause "Kepler's equation is solved": for EVERY fuel and start value, if the loop of `Sgp4Beta.propagate` (regenerated
from the source) is left through `break` at `E`, the Newton correction at `E` — the residual of
`U = E - axN sin E + ayN cos E` divided by its derivative — is below 1e-12 in absolute value. -/
theorem beta_kepler_residual (axN U ayN : ℝ) : ∀ (fuel : Nat) (E0 E : ℝ), keplerLoop axN U ayN fuel E0 = (E, true) →
    |(U - ayN * Real.cos E + axN * Real.sin E - E) / (1 - ayN * Real.sin E - axN * Real.cos E)| < 1.0e-12 := by
  intro fuel
  induction fuel with
  | zero => intro E0 E h; simp [keplerLoop] at h
  | succ k ih =>
    intro E0 E h
    unfold keplerLoop at h
    simp only at h
    split at h
    · next hc =>
      have hE : E0 = E := by simpa using congrArg Prod.fst h
      subst hE
      simp only [NumReal.absR, NumReal.sin, NumReal.cos] at hc
      exact hc
    · exact ih _ _ h

/-- … hence the residual itself is below `1e-12·|1 - ayN sin E - axN cos E|` (≤ 1e-12·(1 + e_L)) -/
theorem beta_kepler_residual_abs (axN U ayN : ℝ) (fuel : Nat) (E0 E : ℝ) (h : keplerLoop axN U ayN fuel E0 = (E, true))
    (hden : 1 - ayN * Real.sin E - axN * Real.cos E ≠ 0) :
    |U - ayN * Real.cos E + axN * Real.sin E - E| < 1.0e-12 * |1 - ayN * Real.sin E - axN * Real.cos E| := by
  have := beta_kepler_residual axN U ayN fuel E0 E h
  rw [abs_div, div_lt_iff₀ (abs_pos.mpr hden)] at this
  exact this

/-- the loop can be left through `break`: with `axN = ayN = 0` the first correction is 0 -/
example : keplerLoop 0 1 0 10 1 = (1, true) := by
  unfold keplerLoop
  simp [NumReal.absR, NumReal.sin, NumReal.cos]
  norm_num

/-- Clause "WGS-72": the constants regenerated from the class selected by `Sgp4Beta.MODEL` are the reference's WGS-72 set
(`sgp4.earth_gravity.wgs72`: mu, radiusearthkm, j2, j3, j4), and `k_e`, an expression in the source, is
`60/sqrt(r_e³/µ)` = 0.0743669161 to 1e-9 (Vallado's `xke`). -/
theorem beta_gravity_constants :
    gravityModelName = "WGS72" ∧ g_μ_e = 398600.8 ∧ g_r_e = 6378.135 ∧ g_j2 = 0.001082616 ∧ g_j3 = -0.00000253881
      ∧ g_j4 = -0.00000165597 ∧ g_k_e = 60 / Real.sqrt (6378.135 ^ 3 / 398600.8) ∧ |g_k_e - 0.0743669161| < 1e-9 := by
  have hk : g_k_e = 60 / Real.sqrt (6378.135 ^ 3 / 398600.8) := by
    simp only [g_k_e, g_r_e, g_μ_e, NumReal.sqrt, NumReal.powi]; norm_num
  refine ⟨rfl, by simp only [g_μ_e], by simp only [g_r_e], by simp only [g_j2], by simp only [g_j3], by simp only [g_j4], hk, ?_⟩
  rw [hk]
  have hlo : (806.810381 : ℝ) < Real.sqrt (6378.135 ^ 3 / 398600.8) := by
    rw [Real.lt_sqrt (by norm_num)]; norm_num
  have hhi : Real.sqrt (6378.135 ^ 3 / 398600.8) < (806.810383 : ℝ) := by
    rw [Real.sqrt_lt' (by norm_num)]; norm_num
  have hpos : (0 : ℝ) < Real.sqrt (6378.135 ^ 3 / 398600.8) := by linarith
  generalize Real.sqrt (6378.135 ^ 3 / 398600.8) = r at *
  have c1 : (60 : ℝ) < (0.0743669161 + 1e-9) * 806.810381 := by norm_num
  have c2 : (0.0743669161 - 1e-9) * 806.810383 < (60 : ℝ) := by norm_num
  have m1 : (0.0743669161 + 1e-9) * 806.810381 < (0.0743669161 + 1e-9) * r := mul_lt_mul_of_pos_left hlo (by norm_num)
  have m2 : (0.0743669161 - 1e-9) * r < (0.0743669161 - 1e-9) * 806.810383 := mul_lt_mul_of_pos_left hhi (by norm_num)
  rw [abs_lt]
  constructor
  · rw [lt_sub_iff_add_lt, lt_div_iff₀ hpos]; linarith
  · rw [sub_lt_iff_lt_add, div_lt_iff₀ hpos]; linarith

/-- Clause "the native implementation returns the same state as the reference", the one relation of the initialisation
that is not a truncated series: for ALL elements the cached `a0` (index 2 of `sgp4Init`, regenerated from the setter) is
`(k_e / n0'')^(2/3)` of the cached un-Kozai'd mean motion `n0''` (index 3) — exactly the reference's
`ao = pow(xke / no_unkozai, x2o3)`. -/
theorem beta_a0_reference (i0 Ω0 e0 ω0 M0 n0 bstar : ℝ) :
    (sgp4Init i0 Ω0 e0 ω0 M0 n0 bstar).getD 2 0
      = Real.rpow (g_k_e / (sgp4Init i0 Ω0 e0 ω0 M0 n0 bstar).getD 3 0) (2 / 3) := by
  simp only [sgp4Init, sgp4InitKozai, sgp4InitS, sgp4InitDrag, sgp4InitEcc, sgp4InitD, sgp4InitDot, List.getD_cons_succ, List.getD_cons_zero]

/-- … hence Kepler's third law in the reference's units, `n0''·a0^(3/2) = k_e`, whenever `n0''` is positive -/
theorem beta_a0_kepler_law (i0 Ω0 e0 ω0 M0 n0 bstar : ℝ) (hn : 0 < (sgp4Init i0 Ω0 e0 ω0 M0 n0 bstar).getD 3 0) :
    (sgp4Init i0 Ω0 e0 ω0 M0 n0 bstar).getD 3 0 * Real.rpow ((sgp4Init i0 Ω0 e0 ω0 M0 n0 bstar).getD 2 0) (3 / 2) = g_k_e := by
  have hk : (0 : ℝ) < g_k_e := by
    have := beta_gravity_constants.2.2.2.2.2.2.2
    rw [abs_lt] at this
    have h' : (0.0743669161 : ℝ) - 1e-9 > 0 := by norm_num
    linarith [this.1]
  rw [beta_a0_reference]
  generalize (sgp4Init i0 Ω0 e0 ω0 M0 n0 bstar).getD 3 0 = n at hn ⊢
  have hx : 0 ≤ g_k_e / n := le_of_lt (div_pos hk hn)
  have : Real.rpow (Real.rpow (g_k_e / n) (2 / 3)) (3 / 2) = g_k_e / n := by
    show ((g_k_e / n) ^ ((2 : ℝ) / 3)) ^ ((3 : ℝ) / 2) = g_k_e / n
    rw [← Real.rpow_mul hx]
    norm_num
  rw [this]
  field_simp

/-- the hypothesis is satisfiable: ISS-like elements give a positive `n0''` … checked numerically by the correspondence run;
here: the list has the twenty entries the composition pattern-matches on -/
example : (sgp4Init 0.9 4.3 0.0007 2.2 5.6 0.00113 0.0001).length = 20 := rfl

end BeyondVerif.C07
