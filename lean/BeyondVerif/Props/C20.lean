import BeyondVerif.Lemmas.Node
import BeyondVerif.Model.NodeSpec
import BeyondVerif.Generated.Graphs

/-!
# C20 — conversion routing is correct for every registration order

Property theorems about the model of `beyond/utils/node.py` (`Model/Node.lean`).

* `path_valid_chain` : for EVERY history of `+` operations (any graph, cyclic or not, any order,
  any orientation) and every pair, a path that is returned starts at the source, ends at the goal
  and only follows links that were actually inserted.
* `unknown_iff_no_route` : `Unknown` is reported exactly when the source's table has no entry.
* `forms_routing_exact`, `scales_routing_exact`, `orient_routing_exact` : for the three built-in
  graphs, *regenerated from the source on every run in execution order*, the incremental tables
  route every ordered pair along a simple chain of existing links (the graphs are trees, so that
  chain is the unique one) — `decide`, re-proved on each run.
* `small_forests_exact` : every insertion order and orientation of every labelled forest on 4
  nodes (all 768 maximal histories and their prefixes) routes exactly (kernel `decide`; a finite
  part of the property's own finite quantifier, the rest of it is enumerated on the real code).

`forest_routes_exact` for forests of arbitrary size is proved in `Props/C20Forest.lean`.  False of the
current code and therefore not stated as a theorem: "a shortest chain in general" — see
`Witness/C20.lean`.
-/
namespace BeyondVerif.C20
open BeyondVerif.Node

def linked (hist : List (Nat × Nat)) (u v : Nat) : Prop := (u, v) ∈ hist ∨ (v, u) ∈ hist

theorem mem_addNbr {ns : List Nat} {v x : Nat} : x ∈ addNbr ns v ↔ x ∈ ns ∨ x = v := by
  unfold addNbr
  split
  · next h =>
    have hv : v ∈ ns := by simpa using h
    constructor
    · intro hx; exact Or.inl hx
    · rintro (hx | hx)
      · exact hx
      · exact hx ▸ hv
  · simp

theorem link_nbrs {fuel : Nat} {g g' : Graph} {a b : Nat} (h : link fuel g a b = some g') (u v : Nat) :
    v ∈ (get g' u).nbrs ↔ v ∈ (get g u).nbrs ∨ (u = a ∧ v = b) ∨ (u = b ∧ v = a) := by
  unfold link at h
  simp only [Option.map_eq_some_iff] at h
  obtain ⟨⟨g1, vis⟩, hup, rfl⟩ := h
  rw [get_update_nbrs _ _ _ _ _ _ hup u]
  rw [get_set]
  by_cases hub : u = b
  · subst hub
    simp only [if_true]
    rw [mem_addNbr, get_set]
    by_cases hua : u = a
    · subst hua; simp only [if_true]; rw [mem_addNbr]; tauto
    · simp only [hua, if_false]; tauto
  · simp only [hub, if_false]
    rw [get_set]
    by_cases hua : u = a
    · subst hua; simp only [if_true]; rw [mem_addNbr]; tauto
    · simp only [hua, if_false]; tauto

/-- the neighbour sets are exactly the links inserted so far — for every history -/
theorem nbrs_iff_linked (fuel : Nat) (hist : List (Nat × Nat)) (g : Graph)
    (h : build fuel hist = some g) (u v : Nat) : v ∈ (get g u).nbrs ↔ linked hist u v := by
  unfold build at h
  have key : ∀ (l : List (Nat × Nat)) (g0 : Graph) (h0 : List (Nat × Nat)) (g : Graph),
      (∀ u v, v ∈ (get g0 u).nbrs ↔ linked h0 u v) →
      l.foldl (fun og e => og.bind (fun g => link fuel g e.1 e.2)) (some g0) = some g →
      ∀ u v, v ∈ (get g u).nbrs ↔ linked (h0 ++ l) u v := by
    intro l
    induction l with
    | nil => intro g0 h0 g hg h u v; simp at h; subst h; simpa using hg u v
    | cons e rest ih =>
      intro g0 h0 g hg h u v
      simp only [List.foldl_cons, Option.bind_some] at h
      cases hl : link fuel g0 e.1 e.2 with
      | none =>
        rw [hl] at h
        have : ∀ (l : List (Nat × Nat)), l.foldl (fun og e => og.bind (fun g => link fuel g e.1 e.2)) (none : Option Graph) = none := by
          intro l; induction l with
          | nil => rfl
          | cons _ _ ih => simpa using ih
        rw [this] at h; cases h
      | some g1 =>
        rw [hl] at h
        have := ih g1 (h0 ++ [e]) g (by
          intro u v
          rw [link_nbrs hl, hg]
          unfold linked
          simp only [List.mem_append, List.mem_singleton, Prod.ext_iff]
          tauto) h u v
        simpa using this
  have := key hist [] [] g (by intro u v; simp [Node.get, linked]) h u v
  simpa using this

theorem set_nbrs_routes (g : Graph) (a u : Nat) (ns : List Nat) :
    (get (set g a { get g a with nbrs := ns }) u).routes = (get g u).routes := by
  rw [get_set]; split
  · next h => subst h; rfl
  · rfl

theorem set_nbrs_nbrs (g : Graph) (a b u v : Nat) (h : v ∈ (get g u).nbrs) :
    v ∈ (get (set g a { get g a with nbrs := addNbr (get g a).nbrs b }) u).nbrs := by
  rw [get_set]; split
  · next h' => subst h'; exact mem_addNbr.mpr (Or.inl h)
  · exact h

theorem dirInv_link {fuel : Nat} {g g' : Graph} {a b : Nat} (hg : DirInv g) (h : link fuel g a b = some g') :
    DirInv g' := by
  unfold link at h
  simp only [Option.map_eq_some_iff] at h
  obtain ⟨⟨g1, vis⟩, hup, rfl⟩ := h
  refine update_preserves DirInv (fun g u h => dirInv_refresh h u) _ _ _ _ _ _ ?_ hup
  intro u r hr
  rw [set_nbrs_routes, set_nbrs_routes] at hr
  exact set_nbrs_nbrs _ _ _ _ _ (set_nbrs_nbrs _ _ _ _ _ (hg u r hr))

/-- after any history, every routing-table direction is a neighbour of the table's owner -/
theorem dirInv_build (fuel : Nat) (hist : List (Nat × Nat)) (g : Graph) (h : build fuel hist = some g) :
    DirInv g := by
  unfold build at h
  have key : ∀ (l : List (Nat × Nat)) (g0 g : Graph), DirInv g0 →
      l.foldl (fun og e => og.bind (fun g => link fuel g e.1 e.2)) (some g0) = some g → DirInv g := by
    intro l
    induction l with
    | nil => intro g0 g hg h; simp at h; subst h; exact hg
    | cons e rest ih =>
      intro g0 g hg h
      simp only [List.foldl_cons, Option.bind_some] at h
      cases hl : link fuel g0 e.1 e.2 with
      | none =>
        rw [hl] at h
        have : ∀ (l : List (Nat × Nat)), l.foldl (fun og e => og.bind (fun g => link fuel g e.1 e.2)) (none : Option Graph) = none := by
          intro l; induction l with
          | nil => rfl
          | cons _ _ ih => simpa using ih
        rw [this] at h; cases h
      | some g1 => rw [hl] at h; exact ih g1 g (dirInv_link hg hl) h
  exact key hist [] g (by intro u r hr; simp [Node.get] at hr) h

theorem lookupRoute_some {rs : List Route} {t : Nat} {r : Route} (h : lookupRoute rs t = some r) :
    r ∈ rs ∧ r.target = t := by
  unfold lookupRoute at h
  exact ⟨List.mem_of_find?_eq_some h, by simpa using List.find?_some h⟩

/-- the `while` loop of `path`: whatever it returns is a chain of neighbour hops ending at the goal -/
theorem walk_chain {g : Graph} (hg : DirInv g) (goal : Nat) :
    ∀ (fuel cur : Nat) (acc p : List Nat),
      (cur :: acc).IsChain (fun a b => a ∈ (get g b).nbrs) →
      walk g goal fuel cur (cur :: acc) = .ok p →
      p.IsChain (fun a b => b ∈ (get g a).nbrs) ∧ p.getLast? = some goal ∧
        p.head? = (cur :: acc).getLast? := by
  intro fuel
  induction fuel with
  | zero => intro cur acc p _ h; simp [walk] at h
  | succ fuel ih =>
    intro cur acc p hc h
    unfold walk at h
    split at h
    · cases h
    · next r hr =>
      obtain ⟨hmem, _⟩ := lookupRoute_some hr
      have hdir := hg cur r hmem
      have hc' : (r.dir :: cur :: acc).IsChain (fun a b => a ∈ (get g b).nbrs) :=
        List.IsChain.cons_cons hdir hc
      split at h
      · next hgoal =>
        cases h
        refine ⟨List.isChain_reverse.mpr ?_, ?_, ?_⟩
        · exact hc'
        · simp [hgoal]
        · simp [List.head?_reverse, List.getLast?_cons]
      · have := ih r.dir (cur :: acc) p hc' h
        refine ⟨this.1, this.2.1, ?_⟩
        rw [this.2.2]
        simp [List.getLast?_cons_cons]

/-- **Every returned path is a chain of existing links from the source to the goal**, for every
history of link insertions — any graph, any order, any orientation, any fuel. -/
theorem path_valid_chain (fuel fuel' : Nat) (hist : List (Nat × Nat)) (g : Graph)
    (hb : build fuel hist = some g) (s t : Nat) (p : List Nat)
    (hp : path fuel' g s t = .ok p) :
    p.head? = some s ∧ p.getLast? = some t ∧ p.IsChain (linked hist) := by
  have hg := dirInv_build fuel hist g hb
  unfold path at hp
  split at hp
  · next h => cases hp; subst h; simp
  · split at hp
    · cases hp
    · have := walk_chain hg t fuel' s [] p (by simp) hp
      refine ⟨by simpa using this.2.2, this.2.1, ?_⟩
      refine List.IsChain.imp ?_ this.1
      intro a b hab
      exact (nbrs_iff_linked fuel hist g hb a b).mp hab

/-- `Unknown` is reported exactly when the source holds no table entry for the goal -/
theorem unknown_iff_no_route (fuel : Nat) (g : Graph) (s t : Nat) :
    path fuel g s t = .unknown ↔ (t ≠ s ∧ lookupRoute (get g s).routes t = none) := by
  unfold path
  split
  · next h => simp [h]
  · next h =>
    split
    · next hn => simp [h, hn]
    · next r hr =>
      simp only [hr, ne_eq, h, not_false_eq_true, true_and]
      constructor
      · intro hw
        -- walk never returns `.unknown`
        exfalso
        have : ∀ (fuel cur : Nat) (acc : List Nat), walk g t fuel cur acc ≠ .unknown := by
          intro fuel
          induction fuel with
          | zero => intro cur acc; simp [walk]
          | succ fuel ih =>
            intro cur acc; unfold walk
            split
            · simp
            · split
              · simp
              · exact ih _ _
        exact this _ _ _ hw
      · intro hn; cases hn

/-! ## Built-in graphs, regenerated from the source in execution order -/

open BeyondVerif.Generated in
theorem forms_routing_exact :
    (isForestHist formsN formsHist && (formsHist.length + 1 == formsN) && routingExact formsN formsHist) = true := by
  decide

open BeyondVerif.Generated in
theorem scales_routing_exact :
    (isForestHist scalesN scalesHist && (scalesHist.length + 1 == scalesN) && routingExact scalesN scalesHist) = true := by
  decide

open BeyondVerif.Generated in
theorem orient_routing_exact :
    (isForestHist orientN orientHist && (orientHist.length + 1 == orientN) && routingExact orientN orientHist) = true := by
  decide

/-- every insertion order and orientation of every labelled forest on ≤ 4 nodes -/
theorem small_forests_exact : (allForestsOK 2 && allForestsOK 3 && allForestsOK 4) = true := by
  decide +kernel

/-- non-vacuity: a concrete history meeting the hypotheses of `path_valid_chain` -/
example : ∃ g, build 6 [(0, 1), (1, 2), (3, 2)] = some g ∧ path 6 g 0 3 = .ok [0, 1, 2, 3] := by
  refine ⟨_, rfl, ?_⟩; decide

end BeyondVerif.C20
