import BeyondVerif.Props.C03

/-!
# C03, second part — what the three roundings of `change_scale` do, the TDB term between its `mjd` arguments,
# the step of UT1 at UTC midnight, termination of `DateRange.__iter__`

* `changeScale_decomp` — the exact error budget of `change_scale`: the instant moves by the three `timedelta` roundings
  (`_s`, `_offset`, the offset) plus the disagreement of the three offsets.
* `changeScale_drift_tdb`, `changeScale_instant_bound_all`, `changeScale_observed_us` — **all 36 pairs, TDB included**, with
  explicit numbers: the TDB−TT term enters only through one difference of its values at two `mjd` arguments less than 200 s
  apart, at most one tick (`TdbSlow`, proved of the translated formula over ℝ in `Props/C03c.lean`); the instant moves by at
  most 1.6 µs in the date's internal representation and **by at most one microsecond in what the API can observe**
  (`date2 - date1`, the comparisons, the hash key are all functions of `_datetime`, whole microseconds).
* `to_ut1_record`, `to_ut1_step`, `to_ut1_same_day`, `to_ut1_safe_zone` — the open finding `ut1-step-at-utc-midnight` as a theorem:
  a conversion **to UT1** carries the record found at `g − e₀.ut1`, where `g` is the UT1 reading and `e₀` the record of the day
  number of `g`; the instant moves by exactly `UT1−UTC(own day) − UT1−UTC(that day)` (± 1 µs of rounding): by nothing when that
  day is the date's own UTC day — always when the UTC reading is further from midnight than the two days' UT1−UTC differ —
  and by the whole difference otherwise.  A conversion *from* UT1 to a uniform scale never moves the instant by more than the
  roundings, whatever record the result carries (`from_ut1_keeps_instant`).
* `range_iter_terminates`, `range_iter_total`, `range_fuel_irrelevant` — `__iter__` returns within `len + 1` evaluations of
  its condition; the iteration theorems of `Props/C03.lean` hold unconditionally (∃ fuel, and every larger fuel agrees).
-/
namespace BeyondVerif.C03
open BeyondVerif.Date BeyondVerif.Generated

/-- the error of one `timedelta(seconds=…)` rounding, in ticks: `10·roundUs t − t ∈ [−5, 5]` -/
def rerr (t : Int) : Int := 10 * roundUs t - t

theorem rerr_bound (t : Int) : -5 ≤ rerr t ∧ rerr t ≤ 5 := roundUs_bound t

/-- a date as the constructor builds it: `WF`, and `_offset` is `scale.offset` **at the date's own clock reading**
`inst − _offset` (the `mjd` the constructor was given) with the date's own record -/
structure Built (env : Env) (x : Date) : Prop where
  wf : WF cfg env x
  off_at : offset cfg env x.scale cfg.ref (x.inst - x.off) x.eop = .ok x.off

theorem mk_built {env : Env} {sc : Nat} {d s : Int} {x : Date} (h : mk cfg env sc d s = .ok x) : Built env x :=
  ⟨(mk_spec h).1, mk_off_at h⟩

theorem ofDatetime_built {env : Env} {sc : Nat} {us : Int} {x : Date} (h : ofDatetime cfg env sc us = .ok x) : Built env x :=
  mk_built h

theorem add_built {env : Env} {x y : Date} {t : Int} (h : add cfg env x t = .ok y) : Built env y := mk_built h

/-- **the error budget of `change_scale`, exactly**: the new date is built from the clock reading
`datetime + timedelta(seconds=offset)` (both rounded to the microsecond), and its instant differs from the original by the
three rounding errors and by `drift = _offset(new date) + offset − _offset(old date)` -/
theorem changeScale_decomp {env : Env} {x y : Date} {new : Nat} (h : changeScale cfg env x new = .ok y) :
    ∃ off, offset cfg env x.scale new x.inst x.eop = .ok off ∧ Built env y ∧ y.scale = new ∧
      eopFor cfg env new (y.inst - y.off) = .ok y.eop ∧
      y.inst - y.off = 10 * (x.datetime + roundUs off) ∧
      y.inst - x.inst = rerr x.s - rerr x.off + rerr off + (y.off + off - x.off) := by
  unfold changeScale at h
  split at h
  · cases h
  · next off ho =>
    obtain ⟨hw, hs, hi⟩ := ofDatetime_spec h
    have he := ofDatetime_eop h
    have e : y.inst - y.off = 10 * (x.datetime + roundUs off) := by omega
    refine ⟨off, ho, ofDatetime_built h, hs, by rw [e]; exact he, e, ?_⟩
    simp only [Date.datetime, Date.datetimeRef, Date.inst, rerr, DUS, D] at *
    omega

/-! ## the TDB term between the `mjd` arguments -/

/-- what the theorems below need of the TDB−TT term (in ticks, as a function of the numerator of its `mjd` argument):
never more than 1.7 ms, and two arguments less than 200 s apart give values at most one tick apart.  Proved of the formula
translated from `Timescale._scale_tdb_minus_tt`, rounded to ticks, in `Props/C03c.lean` (`tdbTicksR_slow`): its slope is below
2.9e-5 s per day, i.e. 0.67 tick in 200 s. -/
structure TdbSlow (tdb : Int → Int) : Prop where
  bound : ∀ n, -17000 ≤ tdb n ∧ tdb n ≤ 17000
  slow : ∀ n m, n - m ≤ 2000000000 → m - n ≤ 2000000000 → tdb n - tdb m ≤ 1 ∧ tdb m - tdb n ≤ 1

example : TdbSlow (fun _ => 12345) := ⟨fun _ => by omega, fun _ _ _ _ => by omega⟩

def chkTdbPat (a b : Nat) : Bool :=
  match coefAB cfg a b, coefAB cfg b cfg.ref, coefAB cfg a cfg.ref with
  | some p, some q, some r =>
    decide (r = p.add q ∧ ((p.tdb = 0 ∧ q.tdb = 0) ∨ (p.tdb = 1 ∧ q.tdb = -1) ∨ (p.tdb = -1 ∧ q.tdb = 0) ∨ (p.tdb = 0 ∧ q.tdb = -1)))
  | _, _, _ => false

/-- on the regenerated scale graph the TDB−TT term enters the three offsets of a conversion `a → b` (`a → b`, `b → TAI`,
`a → TAI`) in one of four patterns, in each of which it cancels up to ONE difference of two of its values -/
theorem tdb_pattern : ∀ a ∈ allIx, ∀ b ∈ allIx, ∃ p q, coefAB cfg a b = some p ∧ coefAB cfg b cfg.ref = some q ∧
    coefAB cfg a cfg.ref = some (p.add q) ∧
    ((p.tdb = 0 ∧ q.tdb = 0) ∨ (p.tdb = 1 ∧ q.tdb = -1) ∨ (p.tdb = -1 ∧ q.tdb = 0) ∨ (p.tdb = 0 ∧ q.tdb = -1)) := by
  have h : ∀ a ∈ allIx, ∀ b ∈ allIx, chkTdbPat a b = true := by decide
  intro a ha b hb
  have := h a ha b hb
  unfold chkTdbPat at this
  split at this
  · next p q r hp hq hr =>
    obtain ⟨e, hpat⟩ := of_decide_eq_true this
    exact ⟨p, q, hp, hq, by rw [hr, e], hpat⟩
  · cases this

/-- **the drift of a conversion whose result carries the same EOP record** is one difference of the TDB−TT term at two of the
three `mjd` arguments involved (the old date's own clock reading, its TAI reading, the new date's own clock reading), or zero -/
theorem changeScale_drift_tdb {env : Env} {x y : Date} {new : Nat} {off : Int} (hsc : x.scale ∈ allIx) (hnew : new ∈ allIx)
    (hx : Built env x) (hy : Built env y) (hys : y.scale = new)
    (ho : offset cfg env x.scale new x.inst x.eop = .ok off) (hrec : y.eop = x.eop) :
    y.off + off - x.off = 0 ∨
    y.off + off - x.off = env.tdb x.inst - env.tdb (y.inst - y.off) ∨
    y.off + off - x.off = env.tdb (x.inst - x.off) - env.tdb x.inst ∨
    y.off + off - x.off = env.tdb (x.inst - x.off) - env.tdb (y.inst - y.off) := by
  obtain ⟨p, q, hp, hq, hr, hpat⟩ := tdb_pattern _ hsc _ hnew
  have hxo := hx.off_at
  have hyo := hy.off_at
  rw [hys] at hyo
  rw [offset_eq_eval hp] at ho
  rw [offset_eq_eval hq] at hyo
  rw [offset_eq_eval hr] at hxo
  have ho := Except.ok.inj ho
  have hyo := Except.ok.inj hyo
  have hxo := Except.ok.inj hxo
  rw [hrec] at hyo
  simp only [Coef.eval, Coef.add] at ho hyo hxo
  rcases hpat with ⟨a, b⟩ | ⟨a, b⟩ | ⟨a, b⟩ | ⟨a, b⟩
  · left; rw [a] at ho hxo; rw [b] at hyo hxo; linarith
  · right; left; rw [a] at ho hxo; rw [b] at hyo hxo; linarith
  · right; right; left; rw [a] at ho hxo; rw [b] at hyo hxo; linarith
  · right; right; right; rw [a] at ho hxo; rw [b] at hyo hxo; linarith

/-- … hence at most one tick, when the offsets to TAI are below 90 s (they are below 70 s for every scale and date of the tables) -/
theorem changeScale_drift_le_one {env : Env} {x y : Date} {new : Nat} (hsc : x.scale ∈ allIx) (hnew : new ∈ allIx)
    (hx : Built env x) (htdb : TdbSlow env.tdb) (hxo : -900000000 ≤ x.off ∧ x.off ≤ 900000000)
    (h : changeScale cfg env x new = .ok y) (hyo : -900000000 ≤ y.off ∧ y.off ≤ 900000000) (hrec : y.eop = x.eop) :
    ∃ off, offset cfg env x.scale new x.inst x.eop = .ok off ∧
      -1 ≤ y.off + off - x.off ∧ y.off + off - x.off ≤ 1 ∧
      y.inst - x.inst = rerr x.s - rerr x.off + rerr off + (y.off + off - x.off) := by
  obtain ⟨off, ho, hy, hys, _, _, hd⟩ := changeScale_decomp h
  refine ⟨off, ho, ?_⟩
  have a := rerr_bound x.s
  have b := rerr_bound x.off
  have c := rerr_bound off
  have b1 := htdb.bound x.inst
  have b2 := htdb.bound (y.inst - y.off)
  have b3 := htdb.bound (x.inst - x.off)
  rcases changeScale_drift_tdb hsc hnew hx hy hys ho hrec with e | e | e | e
  · rw [e]; omega
  · have := htdb.slow x.inst (y.inst - y.off) (by omega) (by omega)
    rw [e] at hd ⊢; omega
  · have := htdb.slow (x.inst - x.off) x.inst (by omega) (by omega)
    rw [e] at hd ⊢; omega
  · have := htdb.slow (x.inst - x.off) (y.inst - y.off) (by omega) (by omega)
    rw [e] at hd ⊢; omega

/-- **same instant, all 36 pairs of scales, TDB included, explicit numbers**: when the converted date carries the EOP record
of the original one, its instant — the internal `(_d, _s)`, finer than a microsecond — differs by at most 1.6 µs: three
roundings of half a microsecond and one tick of the TDB−TT term.  (1.5 µs is reached: `Witness/C03.lean
three_roundings_exceed_1us`.) -/
theorem changeScale_instant_bound_all {env : Env} {x y : Date} {new : Nat} (hsc : x.scale ∈ allIx) (hnew : new ∈ allIx)
    (hx : Built env x) (htdb : TdbSlow env.tdb) (hxo : -900000000 ≤ x.off ∧ x.off ≤ 900000000)
    (h : changeScale cfg env x new = .ok y) (hyo : -900000000 ≤ y.off ∧ y.off ≤ 900000000) (hrec : y.eop = x.eop) :
    -16 ≤ y.inst - x.inst ∧ y.inst - x.inst ≤ 16 := by
  obtain ⟨off, _, h1, h2, hd⟩ := changeScale_drift_le_one hsc hnew hx htdb hxo h hyo hrec
  have a := rerr_bound x.s
  have b := rerr_bound x.off
  have c := rerr_bound off
  omega

/-- **"the same instant within one microsecond, the resolution of the conversion"** — the clause of the property as the
API can observe it: `converted - original` (what `Date.__sub__` returns, what `==`, `<`, `hash` look at: `_datetime`, whole
microseconds) is −1, 0 or +1 µs, for all 36 pairs of scales -/
theorem changeScale_observed_us {env : Env} {x y : Date} {new : Nat} (hsc : x.scale ∈ allIx) (hnew : new ∈ allIx)
    (hx : Built env x) (htdb : TdbSlow env.tdb) (hxo : -900000000 ≤ x.off ∧ x.off ≤ 900000000)
    (h : changeScale cfg env x new = .ok y) (hyo : -900000000 ≤ y.off ∧ y.off ≤ 900000000) (hrec : y.eop = x.eop) :
    -1 ≤ subDate y x ∧ subDate y x ≤ 1 := by
  obtain ⟨off, _, h1, h2, hd⟩ := changeScale_drift_le_one hsc hnew hx htdb hxo h hyo hrec
  have b := rerr_bound x.off
  have c := rerr_bound off
  have d := rerr_bound y.s
  have e : 10 * subDate y x = (y.inst - x.inst) + rerr y.s - rerr x.s := by
    simp only [subDate, Date.datetimeRef, Date.inst, rerr, D, DUS]; omega
  omega

/-! ## the step of UT1 at UTC midnight, quantified -/

theorem ut1_ne_utc : ix "UT1" ≠ cfg.utc := by decide

/-- **which record a conversion to UT1 carries**: with `g` the UT1 clock reading the new date is built from, `e₀` the
record of the day number of `g`, the new date carries the record found at `g − e₀.ut1` (the constructor's UTC reading) —
which is `e₀` itself when that is the same day -/
theorem to_ut1_record {env : Env} {x y : Date} {e0 eU : Eop} {off : Int}
    (h : changeScale cfg env x (ix "UT1") = .ok y) (ho : offset cfg env x.scale (ix "UT1") x.inst x.eop = .ok off)
    (h0 : eopRaw env (10 * (x.datetime + roundUs off)) = some e0)
    (hU : eopRaw env (10 * (x.datetime + roundUs off) - e0.ut1Utc) = some eU)
    (hl : taiUtcAt env.leap (10 * (x.datetime + roundUs off) - e0.ut1Utc) = taiUtcAt env.leap (10 * (x.datetime + roundUs off))) :
    y.eop = eU := by
  obtain ⟨off', ho', _, _, he, hg, _⟩ := changeScale_decomp h
  rw [ho] at ho'
  have : off' = off := (Except.ok.inj ho').symm
  subst this
  rw [hg] at he
  have hoU : offset cfg env (ix "UT1") cfg.utc (10 * (x.datetime + roundUs off')) e0 = .ok (-e0.ut1Utc) := by
    rw [offset_eq_eval (p := ⟨0, 0, -1, 0⟩) (by decide)]; simp [Coef.eval]
  exact eopFor_record he h0 hoU (by rw [← sub_eq_add_neg]; exact hU) (by rw [← sub_eq_add_neg]; exact hl) ut1_ne_utc

def chkToUt1 (a : Nat) : Bool :=
  match coefAB cfg a (ix "UT1"), coefAB cfg a cfg.ref with
  | some p, some r => decide (r = p.add ⟨0, 1, -1, 0⟩ ∧ p.tdb = 0 ∧ p.ut1 = 1 ∧ r.ut1 = 0 ∧ r.c % 10 = 0)
  | _, _ => false

/-- **the instant moves by exactly the difference of the two records' UT1−UTC** (and TAI−UTC), up to one microsecond of
rounding: a date in UTC, TAI, TT or GPS converted to UT1, the result carrying the record `y.eop` -/
theorem to_ut1_step {env : Env} {x y : Date} (hsc : x.scale ∈ uniformIx) (hx : Built env x)
    (htai : x.eop.taiUtc % 10 = 0) (h : changeScale cfg env x (ix "UT1") = .ok y) :
    -10 ≤ y.inst - x.inst - ((x.eop.ut1Utc - y.eop.ut1Utc) - (x.eop.taiUtc - y.eop.taiUtc)) ∧
    y.inst - x.inst - ((x.eop.ut1Utc - y.eop.ut1Utc) - (x.eop.taiUtc - y.eop.taiUtc)) ≤ 10 := by
  obtain ⟨off, ho, hy, hys, _, _, hd⟩ := changeScale_decomp h
  have hc : ∀ a ∈ uniformIx, chkToUt1 a = true := by decide
  have := hc _ hsc
  unfold chkToUt1 at this
  split at this
  · next p r hp hr =>
    obtain ⟨e, pt, pu, ru, rc⟩ := of_decide_eq_true this
    have hxo := hx.off_at
    have hyo := hy.off_at
    rw [hys, offset_eq_eval (p := ⟨0, 1, -1, 0⟩) (by decide)] at hyo
    rw [offset_eq_eval hp] at ho
    rw [offset_eq_eval hr] at hxo
    have ho := Except.ok.inj ho
    have hyo := Except.ok.inj hyo
    have hxo := Except.ok.inj hxo
    have e2 := congrArg Coef.c e
    have e3 := congrArg Coef.tai e
    have e4 := congrArg Coef.tdb e
    simp only [Coef.eval, Coef.add] at ho hyo hxo e2 e3 e4
    rw [pt, pu] at ho
    rw [ru] at hxo
    have rt : r.tdb = 0 := by omega
    rw [rt] at hxo
    obtain ⟨k, hk⟩ : ∃ k, x.eop.taiUtc = 10 * k := ⟨x.eop.taiUtc / 10, by omega⟩
    have hx10 : x.off % 10 = 0 := by
      rw [← hxo, hk]
      have : r.tai * (10 * k) = 10 * (r.tai * k) := by ring
      simp only [zero_mul, add_zero, this]; omega
    have ex : rerr x.off = 0 := by have := roundUs_exact hx10; simp only [rerr]; omega
    have a := rerr_bound x.s
    have c := rerr_bound off
    have hdr : y.off + off - x.off = (x.eop.ut1Utc - y.eop.ut1Utc) - (x.eop.taiUtc - y.eop.taiUtc) := by
      have e5 : r.tai = p.tai + 1 := by omega
      rw [← hyo, ← ho, ← hxo, e5, e2]
      ring
    rw [hdr, ex] at hd
    omega
  · cases this

/-- … **by nothing** (one microsecond of rounding) when the result carries the record of the original date -/
theorem to_ut1_same_day {env : Env} {x y : Date} (hsc : x.scale ∈ uniformIx) (hx : Built env x)
    (htai : x.eop.taiUtc % 10 = 0) (h : changeScale cfg env x (ix "UT1") = .ok y) (hrec : y.eop = x.eop) :
    -10 ≤ y.inst - x.inst ∧ y.inst - x.inst ≤ 10 := by
  have := to_ut1_step hsc hx htai h
  rw [hrec] at this
  omega

/-- the second reading of the constructor, `g − e₀.ut1`, is the UTC reading of the original UTC date moved by the
difference of the two UT1−UTC values and at most one microsecond of rounding -/
theorem to_ut1_second_reading {env : Env} {x : Date} (e0 : Eop) (hsc : x.scale = cfg.utc) (hx : Built env x)
    (htai : x.eop.taiUtc % 10 = 0) {off : Int} (ho : offset cfg env x.scale (ix "UT1") x.inst x.eop = .ok off) :
    -10 ≤ 10 * (x.datetime + roundUs off) - e0.ut1Utc - (clock x + (x.eop.ut1Utc - e0.ut1Utc)) ∧
    10 * (x.datetime + roundUs off) - e0.ut1Utc - (clock x + (x.eop.ut1Utc - e0.ut1Utc)) ≤ 10 := by
  have hxo := hx.off_at
  rw [hsc, offset_eq_eval (p := ⟨0, 1, 0, 0⟩) (by decide)] at hxo
  rw [hsc, offset_eq_eval (p := ⟨0, 0, 1, 0⟩) (by decide)] at ho
  have ho := Except.ok.inj ho
  have hxo := Except.ok.inj hxo
  simp only [Coef.eval] at ho hxo
  have hx10 : x.off % 10 = 0 := by omega
  have ex := roundUs_exact hx10
  have a := roundUs_bound x.s
  have c := roundUs_bound off
  simp only [clock, Date.datetime, Date.datetimeRef, Date.inst, DUS, D] at *
  omega

/-- **the safe zone**: a UTC date whose reading is further from both midnights than `m + 1 µs`, where `m` bounds the
difference between the UT1−UTC of its own day and of the day the UT1 reading falls on, converts to UT1 with its own record —
so (by `to_ut1_same_day`) the instant does not move.  Inside that band it moves by the whole difference (`to_ut1_step`;
`Witness/C03.lean utc_midnight_band_changes_instant`, `band_edge_is_sharp`). -/
theorem to_ut1_safe_zone {env : Env} {x y : Date} {e0 eU : Eop} {off m : Int} (hsc : x.scale = cfg.utc) (hx : Built env x)
    (htai : x.eop.taiUtc % 10 = 0) (h : changeScale cfg env x (ix "UT1") = .ok y)
    (ho : offset cfg env x.scale (ix "UT1") x.inst x.eop = .ok off)
    (h0 : eopRaw env (10 * (x.datetime + roundUs off)) = some e0)
    (hU : eopRaw env (10 * (x.datetime + roundUs off) - e0.ut1Utc) = some eU)
    (hl : taiUtcAt env.leap (10 * (x.datetime + roundUs off) - e0.ut1Utc) = taiUtcAt env.leap (10 * (x.datetime + roundUs off)))
    (hown : eopRaw env (clock x) = some x.eop) (hl' : taiUtcAt env.leap (10 * (x.datetime + roundUs off) - e0.ut1Utc) = taiUtcAt env.leap (clock x))
    (hm : -m ≤ x.eop.ut1Utc - e0.ut1Utc ∧ x.eop.ut1Utc - e0.ut1Utc ≤ m) (hpos : 0 ≤ clock x)
    (hzone : m + 10 ≤ clock x % D ∧ clock x % D + m + 10 < D) :
    y.eop = x.eop ∧ -10 ≤ y.inst - x.inst ∧ y.inst - x.inst ≤ 10 := by
  have hrec := to_ut1_record h ho h0 hU hl
  have hsr := to_ut1_second_reading e0 hsc hx htai ho
  set r := 10 * (x.datetime + roundUs off) - e0.ut1Utc with hr
  have hday : Int.tdiv r D = Int.tdiv (clock x) D := by
    have h1 := Int.emod_add_mul_ediv (clock x) D
    have hr0 : 0 ≤ r := by
      have := Int.emod_nonneg (clock x) (show D ≠ 0 by decide)
      have := Int.mul_nonneg (show (0 : Int) ≤ D by decide) (Int.ediv_nonneg hpos (show (0 : Int) ≤ D by decide))
      omega
    rw [Int.tdiv_eq_ediv_of_nonneg hr0, Int.tdiv_eq_ediv_of_nonneg hpos]
    simp only [D] at *
    omega
  have he : eU = x.eop := records_agree hU hown hday hl'
  have hsu : x.scale ∈ uniformIx := by rw [hsc]; decide
  rw [he] at hrec
  exact ⟨hrec, to_ut1_same_day hsu hx htai h hrec⟩

def chkFromUt1 (b : Nat) : Bool :=
  match coefAB cfg (ix "UT1") b, coefAB cfg b cfg.ref with
  | some p, some q => decide (p.add q = ⟨0, 1, -1, 0⟩ ∧ q.ut1 = 0 ∧ q.tdb = 0 ∧ p.tdb = 0)
  | _, _ => false

/-- **a conversion from UT1 to UTC, TAI, TT or GPS keeps the instant whatever record the result carries** (same TAI−UTC):
the UT1 date's own record defines its instant; the ambiguity of a UT1 clock reading near UTC midnight arises when a UT1 date
is *built*, not when it is converted -/
theorem from_ut1_keeps_instant {env : Env} {x y : Date} {new : Nat} (hsc : x.scale = ix "UT1") (hnew : new ∈ uniformIx)
    (hx : Built env x) (h : changeScale cfg env x new = .ok y) (hleap : y.eop.taiUtc = x.eop.taiUtc) :
    -15 ≤ y.inst - x.inst ∧ y.inst - x.inst ≤ 15 := by
  obtain ⟨off, ho, hy, hys, _, _, hd⟩ := changeScale_decomp h
  have hc : ∀ b ∈ uniformIx, chkFromUt1 b = true := by decide
  have := hc _ hnew
  unfold chkFromUt1 at this
  split at this
  · next p q hp hq =>
    obtain ⟨e, qu, qt, pt⟩ := of_decide_eq_true this
    have hxo := hx.off_at
    have hyo := hy.off_at
    rw [hys, offset_eq_eval hq] at hyo
    rw [hsc, offset_eq_eval hp] at ho
    rw [hsc, offset_eq_eval (p := ⟨0, 1, -1, 0⟩) (by decide)] at hxo
    have ho := Except.ok.inj ho
    have hyo := Except.ok.inj hyo
    have hxo := Except.ok.inj hxo
    have e1 := congrArg Coef.c e
    have e2 := congrArg Coef.tai e
    have e3 := congrArg Coef.ut1 e
    simp only [Coef.eval, Coef.add] at ho hyo hxo e1 e2 e3
    rw [qu, qt, hleap] at hyo
    rw [pt] at ho
    have hdr : y.off + off - x.off = 0 := by
      have e4 : p.ut1 = -1 := by omega
      have e5 : q.tai = 1 - p.tai := by omega
      have e6 : q.c = -p.c := by omega
      rw [← hyo, ← ho, ← hxo, e4, e5, e6]
      ring
    have a := rerr_bound x.s
    have b := rerr_bound x.off
    have c := rerr_bound off
    omega
  · cases this

/-! ## `DateRange.__iter__` terminates -/

/-- **the loop ends within `len + 1` evaluations of its condition**, and what it yields is the arithmetic progression of
`len` dates, each `in` the range — no fuel hypothesis left -/
theorem range_iter_terminates (r : Range) (hs : r.step ≠ 0) :
    ∃ l, r.iter (r.len.toNat + 1) = some l ∧
      l = (List.range r.len.toNat).map (fun (k : Nat) => r.start + (k : Int) * r.step) ∧ l.length = r.len.toNat ∧
      ∀ x ∈ l, r.contains x = true ∧ r.cond x = true := by
  obtain ⟨l, hl⟩ := iterFrom_fuel r hs (r.len.toNat + 1) r.start (by rw [lenFrom_start]; omega)
  exact ⟨l, hl, range_iter_is_progression r hs _ l hl, range_len_eq_length_iter r hs _ l hl, range_mem_of_iter r hs _ l hl⟩

/-- every fuel above `len` gives the same list: the `fuel` argument of the model is immaterial -/
theorem range_fuel_irrelevant (r : Range) (hs : r.step ≠ 0) (fuel : Nat) (hf : r.len.toNat < fuel) :
    r.iter fuel = r.iter (r.len.toNat + 1) := by
  obtain ⟨l, hl, _⟩ := range_iter_terminates r hs
  obtain ⟨l', hl'⟩ := iterFrom_fuel r hs fuel r.start (by rw [lenFrom_start]; exact hf)
  have e1 := range_iter_is_progression r hs _ l hl
  have e2 := range_iter_is_progression r hs _ l' hl'
  unfold Range.iter
  rw [hl', e2]
  unfold Range.iter at hl
  rw [hl, e1]

/-- **`DateRange` as a whole**: every range the constructor accepts iterates, in finitely many steps, over exactly
`len(range)` dates `start + k·step`, all `in` the range -/
theorem range_iter_total (start stop step : Int) (incl : Bool) (r : Range) (h : Range.make start stop step incl = .ok r) :
    ∃ fuel l, r.iter fuel = some l ∧ (l.length : Int) = r.len ∧ 0 ≤ r.len ∧
      (∀ (k : Nat) (hk : k < l.length), l[k] = start + (k : Int) * step) ∧ ∀ x ∈ l, r.contains x = true := by
  have hs : step ≠ 0 ∧ r = ⟨start, stop, step, incl⟩ ∧ sign (stop - start) = sign step := by
    unfold Range.make at h
    split at h
    · cases h
    · split at h
      · cases h
      · next h1 h2 => exact ⟨h1, by cases h; rfl, by simpa using h2⟩
  obtain ⟨hs0, hr, hsg⟩ := hs
  have hstep : r.step ≠ 0 := by rw [hr]; exact hs0
  obtain ⟨l, hl, hp, hlen, hmem⟩ := range_iter_terminates r hstep
  have hnn : 0 ≤ r.len := by
    have hc := (sign_eq_iff _ _).mp hsg
    rw [hr]
    simp only [Range.len, ceilDiv]
    by_cases hpos : 0 < step
    · have h0 : 0 ≤ stop - start := hc.mpr (by omega)
      simp only [hpos, if_true]
      have : (-(stop - start)) / step ≤ 0 := by
        apply Int.ediv_nonpos_of_nonpos_of_neg <;> omega
      split <;> omega
    · have hneg : step < 0 := by omega
      have h0 : ¬ (0 ≤ stop - start) := fun h => by have := hc.mp h; omega
      simp only [hpos, if_false]
      have : (stop - start) / (-step) ≤ 0 := by
        apply Int.ediv_nonpos_of_nonpos_of_neg <;> omega
      split <;> omega
  refine ⟨r.len.toNat + 1, l, hl, by rw [hlen]; omega, hnn, ?_, fun x hx => (hmem x hx).1⟩
  intro k hk
  subst hp
  simp [hr]

example : ∃ l, (Range.mk 10 0 (-3) false).iter ((Range.mk 10 0 (-3) false).len.toNat + 1) = some l ∧ l = [10, 7, 4, 1] := ⟨_, by decide, rfl⟩

/-! ## non-vacuity: the hypotheses above are met by the concrete dates of `Props/C03.lean` -/

theorem ok_of_okOf {r : Except Err Date} {x : Date} (h : okOf r = some x) : r = .ok x := by
  cases r with
  | ok y => simp [okOf] at h; rw [h]
  | error e => simp [okOf] at h

/-- `x0` (2015-03-04T12:00:00 UTC in the eleven-day database `envEx`) is `Built`; its conversions to UT1 and TT are what
`changeScale_observed_us` and `to_ut1_safe_zone` speak about -/
theorem x0_built : Built envEx x0 := ofDatetime_built (sc := ix "UTC") (us := 4932187200000000) (ok_of_okOf (by decide))

theorem x0_to_ut1 : changeScale cfg envEx x0 (ix "UT1") = .ok yUT1 := ok_of_okOf (by decide)

example : -1 ≤ subDate yUT1 x0 ∧ subDate yUT1 x0 ≤ 1 :=
  changeScale_observed_us (by decide) (by decide) x0_built ⟨fun _ => by simp [envEx], fun _ _ _ _ => by simp [envEx]⟩
    (by decide) x0_to_ut1 (by decide) (by decide)

/-- the hypotheses of `to_ut1_safe_zone` at noon: the UT1 reading falls on the same day, `m` = 0 suffices -/
example : yUT1.eop = x0.eop ∧ -10 ≤ yUT1.inst - x0.inst ∧ yUT1.inst - x0.inst ≤ 10 :=
  to_ut1_safe_zone (e0 := x0.eop) (eU := x0.eop) (off := -5351835) (m := 0) (by decide) x0_built (by decide) x0_to_ut1
    (by decide) (by decide) (by decide) (by decide) (by decide) (by decide) (by decide) (by decide) (by decide)

end BeyondVerif.C03
