import BeyondVerif.Props.C06

/-!
# C06 — the adaptive step-size controller of `_make_step` (RKF54, DOPRI54)

What the property claims per step, made precise on the model (`KN.makeStep` on the regenerated tableaux, `KN.stepScale`,
`KN.maxIter`):

* **what is guaranteed per accepted step is the embedded ESTIMATE**: `‖h (b − b*)·k‖[:3] ≤ tol`
  (`adaptive_accepts_within_tol`, `current_tol_bounds_accepted_step`).  The estimate is the difference of the order-5 and the
  order-4 solution of the pair (`rkf54_b_order5 / rkf54_bstar_order4`, `dopri54_…`), i.e. asymptotically (h → 0) the local
  error of the order-4 solution; the propagated order-5 solution is more accurate by one power of `h`.  "True local error
  ≤ small multiple of tol" is therefore an asymptotic statement; it is searched by the oracle (`≤ 2 tol` per step), not proved.
* **the loop can only shrink** (`step_scale_shrinks`), **by at least the factor `2^{-1/(s−1)}` per rejected pass**
  (`step_scale_contracts`), also through the rounding of `timedelta` to whole microseconds (`usRound_close`);
* **the loop ends within its fuel** whenever the estimate is below the tolerance for all `|h| ≤ h*` — which is what an
  `O(h^{q+1})` estimate provides, `h* = (tol/K)^{1/m}` — and `θ^fuel |h| + fuel·0.5 µs ≤ h*` (`adaptive_terminates`,
  `adaptive_terminates_of_order`).  With `MAX_ITER = 10`, `s = 6`: `θ¹⁰ = 1/4` — ten passes guarantee only a factor 4 in the
  worst case, although each rejected pass usually shrinks by much more.
-/
noncomputable section
namespace BeyondVerif.C06
open BeyondVerif.R BeyondVerif.R.KN BeyondVerif.NumReal

/-- `timedelta * float` rounds to the nearest microsecond: at most half a microsecond away -/
theorem usRound_close (x : ℝ) : |usRound x - x| ≤ 1 / 2000000 := by
  have e : (0.5 : ℝ) = 1 / 2 := by norm_num
  have h1 := Int.floor_le (x * 1000000 + 0.5)
  have h2 := Int.lt_floor_add_one (x * 1000000 + 0.5)
  simp only [usRound, floorR]
  rw [e] at h1 h2 ⊢
  rw [abs_le]
  constructor
  · rw [le_sub_iff_add_le, le_div_iff₀ (by norm_num)]
    linarith
  · rw [sub_le_iff_le_add, div_le_iff₀ (by norm_num)]
    linarith

/-- rounding to microseconds is monotone -/
theorem usRound_mono {x y : ℝ} (h : x ≤ y) : usRound x ≤ usRound y := by
  simp only [usRound, floorR]
  apply div_le_div_of_nonneg_right _ (by norm_num)
  exact_mod_cast Int.floor_le_floor (by linarith)

/-- the worst-case contraction factor of one rejected pass: `(1/2)^{1/(s−1)}`, `s` = number of stages -/
def shrinkFactor (bb : List ℝ) : ℝ := (1 / 2 : ℝ) ^ ((1 : ℝ) / ((bb.length : ℝ) - 1))

theorem shrinkFactor_pos (bb : List ℝ) : 0 < shrinkFactor bb := Real.rpow_pos_of_pos (by norm_num) _

theorem shrinkFactor_lt_one (bb : List ℝ) (hs : 2 ≤ bb.length) : shrinkFactor bb < 1 := by
  have hn : (2 : ℝ) ≤ (bb.length : ℝ) := by exact_mod_cast hs
  exact Real.rpow_lt_one (by norm_num) (by norm_num) (one_div_pos.mpr (by linarith))

/-- **a rejected pass contracts the step by at least `(1/2)^{1/(s−1)}`**, whatever its sign (forward: `0 < h ≤ self.step`;
backward: `h < 0`; also `h = 0`), and never exceeds `self.step` -/
theorem step_scale_contracts (maxStep h tol ε : ℝ) (bb : List ℝ) (htol : 0 < tol) (hε : tol < ε) (hmax : 0 < maxStep)
    (hle : h ≤ maxStep) (hs : 2 ≤ bb.length) :
    |stepScale maxStep h tol ε bb| ≤ shrinkFactor bb * |h| ∧ stepScale maxStep h tol ε bb ≤ maxStep := by
  have hε0 : 0 < ε := lt_trans htol hε
  have hq0 : 0 < tol / (2 * ε) := by positivity
  have hq2 : tol / (2 * ε) ≤ 1 / 2 := by
    rw [div_le_iff₀ (by positivity)]; linarith
  have hn : (2 : ℝ) ≤ (bb.length : ℝ) := by exact_mod_cast hs
  have he : 0 < (1 : ℝ) / ((bb.length : ℝ) - 1) := one_div_pos.mpr (by linarith)
  set ρ := (tol / (2 * ε)) ^ ((1 : ℝ) / ((bb.length : ℝ) - 1)) with hρ
  have hρ0 : 0 < ρ := Real.rpow_pos_of_pos hq0 _
  have hρθ : ρ ≤ shrinkFactor bb := Real.rpow_le_rpow hq0.le hq2 he.le
  have hθ1 : shrinkFactor bb < 1 := shrinkFactor_lt_one bb hs
  have hlt : h * ρ < maxStep := by
    rcases le_or_gt h 0 with h0 | h0
    · have : h * ρ ≤ 0 := mul_nonpos_of_nonpos_of_nonneg h0 hρ0.le
      linarith
    · have : h * ρ < h := by nlinarith
      linarith
  rw [step_scale_law, if_pos hlt]
  refine ⟨?_, hlt.le⟩
  rw [abs_mul, abs_of_pos hρ0, mul_comm]
  exact mul_le_mul_of_nonneg_right hρθ (abs_nonneg _)

/-- **the step-size loop of `_make_step` ends within its fuel**: if the embedded estimate is within the tolerance for every
`|h| ≤ h*` and `θ^fuel |h| + fuel · 0.5 µs ≤ h*` (`θ` = `shrinkFactor`), `fuel + 1` passes return a step — the `for … else`
branch (RuntimeError "No convergence in step size") is not taken.  `self.step` is a `timedelta` (a whole number of
microseconds: `usRound maxStep = maxStep`), the trial step does not exceed it. -/
theorem adaptive_terminates (f : ℝ → List ℝ → List ℝ) (tb : Tableau) (bs : List ℝ) (hb : tb.bstar = some bs)
    (hs : 2 ≤ tb.b.length) (maxStep tol t : ℝ) (y : List ℝ) (htol : 0 < tol) (hmax : 0 < maxStep)
    (hus : usRound maxStep = maxStep) (hstar : ℝ)
    (hacc : ∀ h, |h| ≤ hstar → errEst tb bs h (rkKs f tb t y h) ≤ tol) :
    ∀ (fuel : Nat) (h : ℝ), h ≤ maxStep → shrinkFactor tb.b ^ fuel * |h| + fuel * (1 / 2000000) ≤ hstar →
      ∃ r, makeStep f tb maxStep tol t y (fuel + 1) h = some r := by
  have hθ0 := shrinkFactor_pos tb.b
  have hθ1 := shrinkFactor_lt_one tb.b hs
  intro fuel
  induction fuel with
  | zero =>
    intro h _ hh
    refine ⟨_, accepted_at_once f tb bs hb maxStep tol t y 0 h (hacc h ?_)⟩
    simpa using hh
  | succ n ih =>
    intro h hle hh
    by_cases hok : errEst tb bs h (rkKs f tb t y h) ≤ tol
    · exact ⟨_, accepted_at_once f tb bs hb maxStep tol t y (n + 1) h hok⟩
    · have hrej : makeStep f tb maxStep tol t y (n + 1 + 1) h
          = makeStep f tb maxStep tol t y (n + 1)
              (usRound (stepScale maxStep h tol (errEst tb bs h (rkKs f tb t y h)) tb.b)) := by
        conv_lhs => rw [makeStep]
        simp only [hb, hok, if_false]
      rw [hrej]
      obtain ⟨hc, hm⟩ := step_scale_contracts maxStep h tol _ tb.b htol (not_le.1 hok) hmax hle hs
      set h' := usRound (stepScale maxStep h tol (errEst tb bs h (rkKs f tb t y h)) tb.b) with hh'
      have hle' : h' ≤ maxStep := by rw [← hus]; exact usRound_mono hm
      have hclose := usRound_close (stepScale maxStep h tol (errEst tb bs h (rkKs f tb t y h)) tb.b)
      have habs : |h'| ≤ shrinkFactor tb.b * |h| + 1 / 2000000 := by
        have := abs_sub_abs_le_abs_sub h' (stepScale maxStep h tol (errEst tb bs h (rkKs f tb t y h)) tb.b)
        linarith
      apply ih h' hle'
      have hpow1 : shrinkFactor tb.b ^ n ≤ 1 := pow_le_one₀ hθ0.le hθ1.le
      have hpow0 : 0 ≤ shrinkFactor tb.b ^ n := pow_nonneg hθ0.le n
      have e1 : shrinkFactor tb.b ^ n * |h'| ≤ shrinkFactor tb.b ^ n * (shrinkFactor tb.b * |h| + 1 / 2000000) :=
        mul_le_mul_of_nonneg_left habs hpow0
      have e2 : shrinkFactor tb.b ^ n * (1 / 2000000) ≤ 1 / 2000000 := by nlinarith
      have e3 : shrinkFactor tb.b ^ (n + 1) = shrinkFactor tb.b ^ n * shrinkFactor tb.b := pow_succ _ _
      push_cast at hh
      rw [e3] at hh
      nlinarith

/-- **termination from the order of the estimate**: if the estimate is `O(h^m)`, `errEst(h) ≤ K |h|^m` (`K > 0`, `m ≥ 1`; for
the embedded pairs `m = q + 1 = 5` asymptotically), the loop ends within `fuel + 1` passes as soon as
`θ^fuel |h| + fuel · 0.5 µs ≤ (tol/K)^{1/m}` -/
theorem adaptive_terminates_of_order (f : ℝ → List ℝ → List ℝ) (tb : Tableau) (bs : List ℝ) (hb : tb.bstar = some bs)
    (hs : 2 ≤ tb.b.length) (maxStep tol t : ℝ) (y : List ℝ) (htol : 0 < tol) (hmax : 0 < maxStep)
    (hus : usRound maxStep = maxStep) (K : ℝ) (m : ℕ) (hK : 0 < K) (hm : m ≠ 0)
    (hest : ∀ h, errEst tb bs h (rkKs f tb t y h) ≤ K * |h| ^ m)
    (fuel : Nat) (h : ℝ) (hle : h ≤ maxStep)
    (hh : shrinkFactor tb.b ^ fuel * |h| + fuel * (1 / 2000000) ≤ (tol / K) ^ ((m : ℝ)⁻¹)) :
    ∃ r, makeStep f tb maxStep tol t y (fuel + 1) h = some r := by
  refine adaptive_terminates f tb bs hb hs maxStep tol t y htol hmax hus ((tol / K) ^ ((m : ℝ)⁻¹)) ?_ fuel h hle hh
  intro h' hh'
  have h0 : 0 ≤ tol / K := by positivity
  have h1 : |h'| ^ m ≤ ((tol / K) ^ ((m : ℝ)⁻¹)) ^ m := pow_le_pow_left₀ (abs_nonneg _) hh' m
  rw [Real.rpow_inv_natCast_pow h0 hm] at h1
  calc errEst tb bs h' (rkKs f tb t y h') ≤ K * |h'| ^ m := hest h'
    _ ≤ K * (tol / K) := mul_le_mul_of_nonneg_left h1 hK.le
    _ = tol := by field_simp

/-! ## Non-vacuity -/

example : shrinkFactor butcher_rkf54.b ^ 10 = 1 / 4 := by
  have : ((butcher_rkf54.b.length : ℝ) - 1) = 5 := by simp [butcher_rkf54]; norm_num
  rw [shrinkFactor, this, ← Real.rpow_natCast, ← Real.rpow_mul (by norm_num)]
  rw [show (1 : ℝ) / 5 * ((10 : ℕ) : ℝ) = ((2 : ℕ) : ℝ) by norm_num, Real.rpow_natCast]
  norm_num

example : |usRound (1 / 3) - 1 / 3| ≤ 1 / 2000000 := usRound_close _
/-- `self.step = 60 s` is a whole number of microseconds -/
example : usRound 60 = 60 := by
  simp only [usRound, floorR]
  rw [show (60 : ℝ) * 1000000 + 0.5 = ((60000000 : ℤ) : ℝ) + 0.5 by norm_num]
  rw [Int.floor_intCast_add]
  norm_num
/-- a field at rest: every estimate is 0, every trial step is accepted, the hypotheses of `adaptive_terminates` hold -/
example : ∃ r, makeStep (fun _ _ => [0, 0, 0]) butcher_rkf54 60 (1 / 1000) 0 [1, 2, 3] (maxIter) 60 = some r := by
  have hus : usRound 60 = 60 := by
    simp only [usRound, floorR]
    rw [show (60 : ℝ) * 1000000 + 0.5 = ((60000000 : ℤ) : ℝ) + 0.5 by norm_num, Int.floor_intCast_add]
    norm_num
  refine adaptive_terminates _ butcher_rkf54 _ rfl (by simp [butcher_rkf54]) 60 (1 / 1000) 0 [1, 2, 3] (by norm_num)
    (by norm_num) hus (shrinkFactor butcher_rkf54.b ^ 9 * |(60 : ℝ)| + 9 * (1 / 2000000)) ?_ 9 60 le_rfl (by norm_num)
  intro h _
  simp [errEst, rkKs, rkStages, lincomb, butcher_rkf54, vsub, KN.smul, vadd, vnorm, sumsq]

end BeyondVerif.C06
