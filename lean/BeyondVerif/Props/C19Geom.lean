import BeyondVerif.Model.MissionR
import Mathlib.Tactic.Ring
import Mathlib.Tactic.FieldSimp
import Mathlib.Tactic.Linarith
import Mathlib.Tactic.Positivity
import Mathlib.Tactic.NormNum
import Mathlib.Tactic.LinearCombination

/-!
# C19 — mission-design helpers (part 2): beta angle and B-plane

Theorems over ℝ about `betaAngle` and `bplane` of lean/templates/Mission.tpl (hand-written from
beyond/utils/beta.py and beyond/utils/interplanetary.py, tied to the code by the correspondence run).
-/
namespace BeyondVerif.C19
open BeyondVerif.R BeyondVerif.NumReal

/-! ## 3-vector facts -/

theorem dot_comm (a b : V3) : V3.dot a b = V3.dot b a := by simp [V3.dot]; ring
theorem dot_self_nonneg (a : V3) : 0 ≤ V3.dot a a := by
  simp only [V3.dot]; nlinarith [sq_nonneg a.x, sq_nonneg a.y, sq_nonneg a.z]
theorem norm_sq (a : V3) : V3.norm a ^ 2 = V3.dot a a := Real.sq_sqrt (dot_self_nonneg a)
theorem norm_nonneg (a : V3) : 0 ≤ V3.norm a := Real.sqrt_nonneg _
theorem norm_pos (a : V3) (h : V3.dot a a ≠ 0) : 0 < V3.norm a :=
  Real.sqrt_pos.mpr (lt_of_le_of_ne (dot_self_nonneg a) (Ne.symm h))

/-- Cauchy–Schwarz -/
theorem dot_sq_le (a b : V3) : V3.dot a b ^ 2 ≤ V3.dot a a * V3.dot b b := by
  simp only [V3.dot]
  nlinarith [sq_nonneg (a.x * b.y - a.y * b.x), sq_nonneg (a.y * b.z - a.z * b.y), sq_nonneg (a.z * b.x - a.x * b.z)]

/-- Lagrange: |a × b|² = |a|²|b|² − (a·b)² -/
theorem cross_dot_self (a b : V3) : V3.dot (V3.cross a b) (V3.cross a b) = V3.dot a a * V3.dot b b - V3.dot a b ^ 2 := by
  simp only [V3.dot, V3.cross]; ring
theorem cross_perp_left (a b : V3) : V3.dot (V3.cross a b) a = 0 := by simp only [V3.dot, V3.cross]; ring
theorem cross_perp_right (a b : V3) : V3.dot (V3.cross a b) b = 0 := by simp only [V3.dot, V3.cross]; ring
theorem dot_sdiv (a b : V3) (k m : ℝ) : V3.dot (V3.sdiv a k) (V3.sdiv b m) = V3.dot a b / (k * m) := by
  simp only [V3.dot, V3.sdiv]; ring
theorem dot_smul_left (k : ℝ) (a b : V3) : V3.dot (V3.smul k a) b = k * V3.dot a b := by
  simp only [V3.dot, V3.smul]; ring
theorem dot_smul_right (k : ℝ) (a b : V3) : V3.dot a (V3.smul k b) = k * V3.dot a b := by
  simp only [V3.dot, V3.smul]; ring

theorem norm_smul_of_nonneg (k : ℝ) (a : V3) (hk : 0 ≤ k) : V3.norm (V3.smul k a) = k * V3.norm a := by
  simp only [V3.norm, sqrt]
  rw [dot_smul_left, dot_smul_right, ← mul_assoc, Real.sqrt_mul (mul_self_nonneg k), Real.sqrt_mul_self hk]

/-- `a / |a|` is a unit vector -/
theorem unit_sdiv (a : V3) (h : V3.dot a a ≠ 0) : V3.dot (V3.sdiv a (V3.norm a)) (V3.sdiv a (V3.norm a)) = 1 := by
  have hp := norm_pos a h
  rw [dot_sdiv, ← sq, norm_sq]; field_simp

/-! ## Beta angle -/

/-- `np.clip(x, -1, 1)` is inside [-1, 1] for every real `x`: since fix 1d112fc the arcsine of `beta` is
never evaluated outside its domain, **for any input** (history: before the fix the double-precision
quotient could be 1 + 1 ulp for a body on the orbit normal and `beta` was NaN — finding
C19-beta-normal-nan, now fixed) -/
theorem beta_clip_in_domain (x : ℝ) : -1 ≤ clipR x (-1) 1 ∧ clipR x (-1) 1 ≤ 1 := by
  unfold clipR; split_ifs <;> constructor <;> linarith

theorem clip_of_mem (x : ℝ) (h0 : -1 ≤ x) (h1 : x ≤ 1) : clipR x (-1) 1 = x := by
  unfold clipR; rw [if_neg (by linarith), if_neg (by linarith)]

/-- over ℝ the quotient is inside [-1, 1] anyway (Cauchy–Schwarz): the clip changes nothing but rounding -/
theorem beta_arg_in_domain (p v ref : V3) (hw : V3.dot (V3.cross p v) (V3.cross p v) ≠ 0) (hr : V3.dot ref ref ≠ 0) :
    |V3.dot (V3.cross p v) ref / (V3.norm (V3.cross p v) * V3.norm ref)| ≤ 1 := by
  have h1 := norm_pos _ hw
  have h2 := norm_pos _ hr
  rw [abs_div, abs_of_pos (mul_pos h1 h2), div_le_one (mul_pos h1 h2)]
  have h := Real.abs_le_sqrt (dot_sq_le (V3.cross p v) ref)
  rwa [Real.sqrt_mul (dot_self_nonneg _)] at h

theorem norm_expand (a : V3) : Real.sqrt (a.x ^ 2 + a.y ^ 2 + a.z ^ 2) = V3.norm a := by
  simp only [V3.norm, V3.dot, sqrt]; congr 1; ring

/-- **the arithmetic of `beta`, as it is in the source today** (`betaSrc` is translated from beyond/utils/beta.py on every
run): the arcsine of the clipped quotient `w·ref / (|w||ref|)`, `w = p × v` -/
theorem betaAngle_eq (p v ref : V3) :
    betaAngle p v ref
      = Real.arcsin (clipR (V3.dot (V3.cross p v) ref / (V3.norm (V3.cross p v) * V3.norm ref)) (-1) 1) := by
  have hw : Real.sqrt ((p.y * v.z - p.z * v.y) ^ 2 + (p.z * v.x - p.x * v.z) ^ 2 + (p.x * v.y - p.y * v.x) ^ 2)
      = V3.norm (V3.cross p v) := norm_expand (V3.cross p v)
  have hd : (p.y * v.z - p.z * v.y) * ref.x + (p.z * v.x - p.x * v.z) * ref.y + (p.x * v.y - p.y * v.x) * ref.z
      = V3.dot (V3.cross p v) ref := rfl
  unfold betaAngle betaSrc
  simp only [powi, sqrt, asin, hw, hd, norm_expand]

/-- … and the two vectors it works on are the cartesian state of the orbit and the position of the body at the orbit's
date in the orbit's frame (the statements of `beta` around the arithmetic, regenerated as text) -/
theorem beta_environment : betaEnv = ["if isinstance(ref, str):\n    ref = get_body(ref)", "orb = orb.copy(form='cartesian')",
    "ref_pos = np.asarray(ref.propagate(orb.date).copy(frame=orb.frame)[:3])"] := by decide

/-- **The beta angle lies in [-90°, 90°]** (all inputs) -/
theorem beta_range (p v ref : V3) : -(pi / 2) ≤ betaAngle p v ref ∧ betaAngle p v ref ≤ pi / 2 := by
  rw [betaAngle_eq]
  exact ⟨Real.neg_pi_div_two_le_arcsin _, Real.arcsin_le_pi_div_two _⟩

/-- **Beta is the elevation of the body above the orbit plane**: its sine is the projection of the
unit direction of the body on the unit normal `w/|w|`, `w = p × v`; equivalently beta is 90° minus the
angle between the body direction and the normal. -/
theorem beta_is_elevation (p v ref : V3) (hw : V3.dot (V3.cross p v) (V3.cross p v) ≠ 0) (hr : V3.dot ref ref ≠ 0) :
    Real.sin (betaAngle p v ref)
        = V3.dot (V3.sdiv (V3.cross p v) (V3.norm (V3.cross p v))) (V3.sdiv ref (V3.norm ref)) ∧
    betaAngle p v ref
        = pi / 2 - Real.arccos (V3.dot (V3.sdiv (V3.cross p v) (V3.norm (V3.cross p v))) (V3.sdiv ref (V3.norm ref))) := by
  have hd := abs_le.mp (beta_arg_in_domain p v ref hw hr)
  rw [dot_sdiv]
  constructor
  · rw [betaAngle_eq, clip_of_mem _ hd.1 hd.2, Real.sin_arcsin hd.1 hd.2]
  · rw [betaAngle_eq, clip_of_mem _ hd.1 hd.2, Real.arcsin_eq_pi_div_two_sub_arccos]

example : V3.dot (V3.cross ⟨1, 0, 0⟩ ⟨0, 1, 0⟩) (V3.cross ⟨1, 0, 0⟩ ⟨0, 1, 0⟩) ≠ 0 := by
  simp [V3.dot, V3.cross]

/-! ## B-plane -/

/-- the eccentricity vector lies in the orbit plane -/
theorem ecc_perp_h (mu : ℝ) (r v : V3) : V3.dot (eccVec mu r v) (V3.cross r v) = 0 := by
  simp only [eccVec, V3.dot, V3.cross, V3.sub, V3.sdiv, V3.smul]; ring

/-- abstract form of `S`: for orthonormal `u, w` and `c² + s² = 1`, `c u + s (w × u)` is a unit vector perpendicular to `w` -/
theorem S_unit_aux (u w : V3) (c s : ℝ) (hu : V3.dot u u = 1) (hw : V3.dot w w = 1) (huw : V3.dot u w = 0) (hcs : c ^ 2 + s ^ 2 = 1) :
    let S := V3.add (V3.smul c u) (V3.smul s (V3.cross w u))
    V3.dot S S = 1 ∧ V3.dot S w = 0 := by
  intro S
  have hL := cross_dot_self w u
  have hwu : V3.dot w u = 0 := by rw [dot_comm]; exact huw
  rw [hu, hw, hwu] at hL
  have e1 : V3.dot S S = c ^ 2 * V3.dot u u + s ^ 2 * V3.dot (V3.cross w u) (V3.cross w u) + 2 * c * s * V3.dot (V3.cross w u) u := by
    simp only [S, V3.dot, V3.add, V3.smul, V3.cross]; ring
  have e2 : V3.dot S w = c * V3.dot u w + s * V3.dot (V3.cross w u) w := by
    simp only [S, V3.dot, V3.add, V3.smul, V3.cross]; ring
  constructor
  · rw [e1, hu, hL, cross_perp_right]; linarith
  · rw [e2, huw, cross_perp_left]; ring

section bplane
variable (mu aAbs : ℝ) (r v : V3)

/-- hypotheses shared by the B-plane theorems: a hyperbolic state (`e > 1`) with non-zero angular momentum -/
structure Hyper : Prop where
  he : 1 < V3.norm (eccVec mu r v)
  hh : V3.dot (V3.cross r v) (V3.cross r v) ≠ 0

variable {mu r v}

theorem Hyper.e_ne (H : Hyper mu r v) : V3.dot (eccVec mu r v) (eccVec mu r v) ≠ 0 := by
  intro h
  have : V3.norm (eccVec mu r v) = 0 := by simp [V3.norm, sqrt, h]
  have := H.he; linarith

theorem Hyper.cs (H : Hyper mu r v) :
    Real.cos (Real.arccos (1 / V3.norm (eccVec mu r v))) = 1 / V3.norm (eccVec mu r v) ∧
    Real.sin (Real.arccos (1 / V3.norm (eccVec mu r v))) = Real.sqrt (V3.norm (eccVec mu r v) ^ 2 - 1) / V3.norm (eccVec mu r v) := by
  have he := H.he
  have hp : 0 < V3.norm (eccVec mu r v) := by linarith
  have h1 : 1 / V3.norm (eccVec mu r v) ≤ 1 := by rw [div_le_one hp]; exact he.le
  have h0 : -1 ≤ 1 / V3.norm (eccVec mu r v) := by
    have h : 0 < 1 / V3.norm (eccVec mu r v) := by positivity
    linarith
  refine ⟨Real.cos_arccos h0 h1, ?_⟩
  rw [Real.sin_arccos]
  have : 1 - (1 / V3.norm (eccVec mu r v)) ^ 2 = (V3.norm (eccVec mu r v) ^ 2 - 1) / V3.norm (eccVec mu r v) ^ 2 := by
    field_simp
  rw [this, Real.sqrt_div' _ (by positivity), Real.sqrt_sq hp.le]

/-- unit eccentricity vector and unit angular momentum are orthonormal -/
theorem Hyper.frame (H : Hyper mu r v) :
    let eh := V3.sdiv (eccVec mu r v) (V3.norm (eccVec mu r v))
    let hh := V3.sdiv (V3.cross r v) (V3.norm (V3.cross r v))
    V3.dot eh eh = 1 ∧ V3.dot hh hh = 1 ∧ V3.dot eh hh = 0 := by
  intro eh hh
  refine ⟨unit_sdiv _ H.e_ne, unit_sdiv _ H.hh, ?_⟩
  simp only [eh, hh]; rw [dot_sdiv, ecc_perp_h]; simp

/-- **S is a unit vector perpendicular to the angular momentum** -/
theorem bplane_S_unit (H : Hyper mu r v) :
    V3.dot (bplane mu aAbs r v).S (bplane mu aAbs r v).S = 1 ∧ V3.dot (bplane mu aAbs r v).S (V3.cross r v) = 0 := by
  obtain ⟨h1, h2, h3⟩ := H.frame
  obtain ⟨hc, hs⟩ := H.cs
  have hcs : Real.cos (Real.arccos (1 / V3.norm (eccVec mu r v))) ^ 2 + Real.sin (Real.arccos (1 / V3.norm (eccVec mu r v))) ^ 2 = 1 := by
    rw [add_comm]; exact Real.sin_sq_add_cos_sq _
  obtain ⟨a, b⟩ := S_unit_aux _ _ _ _ h1 h2 h3 hcs
  refine ⟨a, ?_⟩
  have hn := norm_pos _ H.hh
  have : V3.dot (bplane mu aAbs r v).S (V3.sdiv (V3.cross r v) (V3.norm (V3.cross r v))) = 0 := b
  have e : V3.dot (bplane mu aAbs r v).S (V3.sdiv (V3.cross r v) (V3.norm (V3.cross r v)))
      = V3.dot (bplane mu aAbs r v).S (V3.cross r v) / V3.norm (V3.cross r v) := by
    simp only [V3.dot, V3.sdiv]; ring
  rw [e, div_eq_zero_iff] at this
  rcases this with h | h
  · exact h
  · exact absurd h hn.ne'

/-- **S is the direction of the incoming asymptote.**  In the perifocal basis `P = ê`, `Q = ĥ × ê` the
velocity at true anomaly ν is `(µ/h) (−sin ν P + (e + cos ν) Q)`; at the limiting anomaly of the
incoming branch, `ν∞ = −arccos(−1/e)`, the vector `−sin ν∞ P + (e + cos ν∞) Q` equals `√(e² − 1) · S`,
a positive multiple of `S`; and `S = P/e + Q √(e² − 1)/e`. -/
theorem bplane_S_asymptote (H : Hyper mu r v) :
    let en := V3.norm (eccVec mu r v)
    let P := V3.sdiv (eccVec mu r v) en
    let Q := V3.cross (V3.sdiv (V3.cross r v) (V3.norm (V3.cross r v))) P
    let νinf := -Real.arccos (-1 / en)
    (bplane mu aAbs r v).S = V3.add (V3.smul (1 / en) P) (V3.smul (Real.sqrt (en ^ 2 - 1) / en) Q) ∧
    V3.add (V3.smul (-Real.sin νinf) P) (V3.smul (en + Real.cos νinf) Q) = V3.smul (Real.sqrt (en ^ 2 - 1)) (bplane mu aAbs r v).S ∧
    0 < Real.sqrt (en ^ 2 - 1) := by
  intro en P Q νinf
  obtain ⟨hc, hs⟩ := H.cs
  have he := H.he
  have hp : 0 < en := by simp only [en]; linarith
  have hpos : 0 < en ^ 2 - 1 := by simp only [en]; nlinarith
  have hS : (bplane mu aAbs r v).S = V3.add (V3.smul (1 / en) P) (V3.smul (Real.sqrt (en ^ 2 - 1) / en) Q) := by
    show bpS en P _ = _
    simp only [bpS, cos, sin, acos]
    rw [hc, hs]
  refine ⟨hS, ?_, Real.sqrt_pos.mpr hpos⟩
  have h1 : -1 / en ≤ 1 := by rw [div_le_one hp]; linarith
  have h0 : -1 ≤ -1 / en := by rw [le_div_iff₀ hp]; linarith
  have hcos : Real.cos νinf = -1 / en := by simp only [νinf]; rw [Real.cos_neg, Real.cos_arccos h0 h1]
  have hsin : -Real.sin νinf = Real.sqrt (en ^ 2 - 1) / en := by
    simp only [νinf]; rw [Real.sin_neg, neg_neg, Real.sin_arccos]
    have : 1 - (-1 / en) ^ 2 = (en ^ 2 - 1) / en ^ 2 := by field_simp
    rw [this, Real.sqrt_div' _ (by positivity), Real.sqrt_sq hp.le]
  have hsq : Real.sqrt (en ^ 2 - 1) ^ 2 = en ^ 2 - 1 := Real.sq_sqrt hpos.le
  rw [hS, hcos, hsin]
  simp only [V3.add, V3.smul, V3.mk.injEq]
  refine ⟨?_, ?_, ?_⟩ <;> field_simp
  · linear_combination (-Q.x) * hsq
  · linear_combination (-Q.y) * hsq
  · linear_combination (-Q.z) * hsq

/-- **(S, T, R) is an orthonormal triad** (whenever `S` is not along the pole `N = (0,0,1)`, where `T` is undefined) -/
theorem bplane_orthonormal (H : Hyper mu r v)
    (hSN : V3.dot (V3.cross (bplane mu aAbs r v).S ⟨0, 0, 1⟩) (V3.cross (bplane mu aAbs r v).S ⟨0, 0, 1⟩) ≠ 0) :
    let b := bplane mu aAbs r v
    V3.dot b.S b.S = 1 ∧ V3.dot b.T b.T = 1 ∧ V3.dot b.Rv b.Rv = 1 ∧
    V3.dot b.S b.T = 0 ∧ V3.dot b.S b.Rv = 0 ∧ V3.dot b.T b.Rv = 0 := by
  intro b
  have hS : V3.dot b.S b.S = 1 := (bplane_S_unit (aAbs := aAbs) H).1
  have hT : V3.dot b.T b.T = 1 := unit_sdiv _ hSN
  have hST : V3.dot b.S b.T = 0 := by
    show V3.dot b.S (V3.sdiv (V3.cross b.S ⟨0, 0, 1⟩) _) = 0
    simp only [V3.dot, V3.sdiv, V3.cross]; ring
  have hR : V3.dot b.Rv b.Rv = 1 := by
    show V3.dot (V3.cross b.S b.T) (V3.cross b.S b.T) = 1
    rw [cross_dot_self, hS, hT, hST]; norm_num
  refine ⟨hS, hT, hR, hST, ?_, ?_⟩
  · show V3.dot b.S (V3.cross b.S b.T) = 0
    rw [dot_comm]; exact cross_perp_left _ _
  · show V3.dot b.T (V3.cross b.S b.T) = 0
    rw [dot_comm]; exact cross_perp_right _ _

/-- **B is perpendicular to S and to the angular momentum** -/
theorem bplane_B_perp :
    V3.dot (bplane mu aAbs r v).B (bplane mu aAbs r v).S = 0 ∧ V3.dot (bplane mu aAbs r v).B (V3.cross r v) = 0 ∧
    (bplane mu aAbs r v).h = V3.cross r v := by
  refine ⟨?_, ?_, rfl⟩
  · show V3.dot (bpB aAbs _ (bplane mu aAbs r v).S _) (bplane mu aAbs r v).S = 0
    simp only [bpB, V3.dot, V3.smul, V3.cross]; ring
  · show V3.dot (bpB aAbs _ (bplane mu aAbs r v).S (V3.sdiv (V3.cross r v) _)) (V3.cross r v) = 0
    simp only [bpB, V3.dot, V3.smul, V3.cross, V3.sdiv]; ring

/-- **|B| is the impact parameter |a| √(e² − 1)** -/
theorem bplane_B_norm (H : Hyper mu r v) (ha : 0 ≤ aAbs) :
    V3.norm (bplane mu aAbs r v).B = aAbs * Real.sqrt (V3.norm (eccVec mu r v) ^ 2 - 1) := by
  obtain ⟨h1, h2, h3⟩ := H.frame
  obtain ⟨hS, hSh⟩ := bplane_S_unit (aAbs := aAbs) H
  have hn := norm_pos _ H.hh
  set S := (bplane mu aAbs r v).S with hSdef
  set hh := V3.sdiv (V3.cross r v) (V3.norm (V3.cross r v)) with hhdef
  have hShh : V3.dot S hh = 0 := by
    have e : V3.dot S hh = V3.dot S (V3.cross r v) / V3.norm (V3.cross r v) := by
      simp only [hhdef, V3.dot, V3.sdiv]; ring
    rw [e, hSh]; simp
  have hc : V3.dot (V3.cross S hh) (V3.cross S hh) = 1 := by
    rw [cross_dot_self, hS, h2, hShh]; norm_num
  have hB : (bplane mu aAbs r v).B = V3.smul (aAbs * Real.sqrt (V3.norm (eccVec mu r v) ^ 2 - 1)) (V3.cross S hh) := rfl
  have hk : 0 ≤ aAbs * Real.sqrt (V3.norm (eccVec mu r v) ^ 2 - 1) := mul_nonneg ha (Real.sqrt_nonneg _)
  have hn1 : V3.norm (V3.cross S hh) = 1 := by simp only [V3.norm, sqrt]; rw [hc]; simp
  rw [hB, norm_smul_of_nonneg _ _ hk, hn1, mul_one]

end bplane

/-- the hypotheses are satisfiable: r = (1,0,0), v = (0,2,0), µ = 1 gives e = (3,0,0), h = (0,0,2) -/
example : Hyper 1 ⟨1, 0, 0⟩ ⟨0, 2, 0⟩ := by
  have e : eccVec 1 ⟨1, 0, 0⟩ ⟨0, 2, 0⟩ = ⟨3, 0, 0⟩ := by
    simp [eccVec, V3.norm, V3.dot, V3.sub, V3.sdiv, V3.smul, powi]; norm_num
  refine ⟨?_, ?_⟩
  · rw [e]; simp [V3.norm, V3.dot]
  · simp [V3.dot, V3.cross]

end BeyondVerif.C19
