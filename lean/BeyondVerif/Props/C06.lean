import BeyondVerif.Model.RKR
import Mathlib.Tactic.NormNum
import Mathlib.Tactic.Ring
import Mathlib.Tactic.FieldSimp
import Mathlib.Tactic.Linarith
import Mathlib.Analysis.SpecialFunctions.Pow.Real

/-!
# C06 — numerical propagation converges to the true two-body solution

Everything below is about `BeyondVerif.R.KN` — the four Butcher tableaux, `bodyAccel`, `stepScale`, `maxIter`
**translated from beyond/propagators/keplernum.py on every run** (Generated/KeplerNumR.lean) and the explicit
Runge–Kutta step built on them (Model/RKR.lean, tied to `KeplerNum._make_step/_accel` by the correspondence run).
A changed coefficient, exponent or sign in the source makes these proofs fail.

What is *not* formalised: the classical theorem "order conditions up to p ⇒ local error O(h^{p+1}) ⇒ global
convergence at order p" (Butcher; Hairer–Nørsett–Wanner II.2–II.3).  Proved here are its hypotheses (all rooted-tree
order conditions on the regenerated tableaux) and two formal consequences for the modelled step itself
(exact quadrature of polynomial right-hand sides; Taylor polynomial of `exp` on the linear test equation).
-/
namespace BeyondVerif.C06
open BeyondVerif.R BeyondVerif.R.KN BeyondVerif.NumReal

/-! ## Rooted trees and order conditions -/

/-- rooted trees by Butcher product: `leaf` = τ, `graft t u` = `t` with `u` attached to its root as a further child -/
inductive T
  | leaf
  | graft (t u : T)
open T

def T.order : T → Nat
  | leaf => 1
  | graft t u => t.order + u.order

/-- density γ(t): γ(τ)=1, γ([t₁…t_m]) = |t| γ(t₁)…γ(t_m); in Butcher-product form γ(t∘u) = γ(t) γ(u) |t∘u| / |t| -/
noncomputable def T.gamma : T → ℝ
  | leaf => 1
  | graft t u => t.gamma * u.gamma * ((t.order + u.order : Nat) : ℝ) / (t.order : ℝ)

/-- the rows of `a` as the code uses them, completed to `s` rows (`euler` has `a = array([])`) -/
def padRows : List (List ℝ) → Nat → List (List ℝ)
  | _, 0 => []
  | [], n + 1 => [] :: padRows [] n
  | r :: rs, n + 1 => r :: padRows rs n

/-- dot product truncating to the shorter list: entries `a i j` with `j ≥ i` are absent from the source = 0 -/
def dot : List ℝ → List ℝ → ℝ
  | x :: a, y :: b => x * y + dot a b
  | _, _ => 0

/-- elementary weights Φ_i(t), i = 1…s -/
noncomputable def phi (A : List (List ℝ)) : T → List ℝ
  | leaf => A.map (fun _ => 1)
  | graft t u => List.zipWith (fun x row => x * dot row (phi A u)) (phi A t) A

/-- the order condition of the tree `t` for weights `b`: Σ bᵢ Φᵢ(t) = 1/γ(t) -/
def OrderCond (tb : Tableau) (b : List ℝ) (t : T) : Prop :=
  dot b (phi (padRows tb.a b.length) t) = 1 / t.gamma

/-! the 17 rooted trees with at most 5 vertices (1 + 1 + 2 + 4 + 9), in bracket notation -/
def t1 := leaf                                    -- τ
def t2 := graft leaf leaf                         -- [τ]
def t3a := graft t2 leaf                          -- [τ τ]
def t3b := graft leaf t2                          -- [[τ]]
def t4a := graft t3a leaf                         -- [τ τ τ]
def t4b := graft t2 t2                            -- [τ [τ]]
def t4c := graft leaf t3a                         -- [[τ τ]]
def t4d := graft leaf t3b                         -- [[[τ]]]
def t5a := graft t4a leaf                         -- [τ τ τ τ]
def t5b := graft t3a t2                           -- [τ τ [τ]]
def t5c := graft t2 t3a                           -- [τ [τ τ]]
def t5d := graft t2 t3b                           -- [τ [[τ]]]
def t5e := graft t3b t2                           -- [[τ] [τ]]
def t5f := graft leaf t4a                         -- [[τ τ τ]]
def t5g := graft leaf t4b                         -- [[τ [τ]]]
def t5h := graft leaf t4c                         -- [[[τ τ]]]
def t5i := graft leaf t4d                         -- [[[[τ]]]]

def treesUpTo : Nat → List T
  | 0 => []
  | 1 => [t1]
  | 2 => [t1, t2]
  | 3 => [t1, t2, t3a, t3b]
  | 4 => [t1, t2, t3a, t3b, t4a, t4b, t4c, t4d]
  | _ => [t1, t2, t3a, t3b, t4a, t4b, t4c, t4d, t5a, t5b, t5c, t5d, t5e, t5f, t5g, t5h, t5i]

/-- the listed trees have the orders claimed and the classical densities 1,2,3,6,4,8,12,24,5,10,15,30,20,20,40,60,120 -/
theorem trees_orders_gammas :
    (treesUpTo 5).map T.order = [1, 2, 3, 3, 4, 4, 4, 4, 5, 5, 5, 5, 5, 5, 5, 5, 5] ∧
    (treesUpTo 5).map T.gamma = [1, 2, 3, 6, 4, 8, 12, 24, 5, 10, 15, 30, 20, 20, 40, 60, 120] := by
  constructor
  · decide
  · simp only [treesUpTo, List.map, t1, t2, t3a, t3b, t4a, t4b, t4c, t4d, t5a, t5b, t5c, t5d, t5e, t5f, t5g, t5h, t5i,
      T.gamma, T.order]
    norm_num

/-- a method has order `p` (as far as the order conditions go) when every tree with ≤ p vertices satisfies its condition -/
def HasOrder (tb : Tableau) (b : List ℝ) (p : Nat) : Prop := ∀ t ∈ treesUpTo p, OrderCond tb b t

macro "order_conditions" tb:ident : tactic => `(tactic| (
  intro t ht
  simp only [treesUpTo, List.mem_cons, List.not_mem_nil, or_false] at ht
  rcases ht with h | h | h | h | h | h | h | h | h | h | h | h | h | h | h | h | h <;> subst h <;>
  (simp only [OrderCond, $tb:ident, t1, t2, t3a, t3b, t4a, t4b, t4c, t4d, t5a, t5b, t5c, t5d, t5e, t5f, t5g, t5h, t5i,
      phi, padRows, List.length, List.map, List.zipWith, dot, T.gamma, T.order]
   norm_num)))

/-- **Euler has order 1** -/
theorem euler_order1 : HasOrder butcher_euler butcher_euler.b 1 := by
  intro t ht
  simp only [treesUpTo, List.mem_cons, List.not_mem_nil, or_false] at ht
  subst ht
  simp only [OrderCond, butcher_euler, t1, phi, padRows, List.length, List.map, dot, T.gamma]
  norm_num

/-- **RK4 has order 4**: all 8 order conditions -/
theorem rk4_order4 : HasOrder butcher_rk4 butcher_rk4.b 4 := by
  intro t ht
  simp only [treesUpTo, List.mem_cons, List.not_mem_nil, or_false] at ht
  rcases ht with rfl | rfl | rfl | rfl | rfl | rfl | rfl | rfl <;>
  (simp only [OrderCond, butcher_rk4, t1, t2, t3a, t3b, t4a, t4b, t4c, t4d,
      phi, padRows, List.length, List.map, List.zipWith, dot, T.gamma, T.order]
   norm_num)

set_option maxRecDepth 8000 in
/-- **RKF54: the propagated solution (weights `b`) has order 5**: all 17 order conditions -/
theorem rkf54_b_order5 : HasOrder butcher_rkf54 butcher_rkf54.b 5 := by
  order_conditions butcher_rkf54

macro "order_conditions4" tb:ident : tactic => `(tactic| (
  intro t ht
  simp only [treesUpTo, List.mem_cons, List.not_mem_nil, or_false] at ht
  rcases ht with h | h | h | h | h | h | h | h <;> subst h <;>
  (simp only [OrderCond, $tb:ident, t1, t2, t3a, t3b, t4a, t4b, t4c, t4d,
      phi, padRows, List.length, List.map, List.zipWith, dot, T.gamma, T.order]
   norm_num)))

set_option maxRecDepth 8000 in
/-- **RKF54: the embedded solution (weights `b_star`, used only for the error estimate) has order 4** -/
theorem rkf54_bstar_order4 (bs : List ℝ) (h : butcher_rkf54.bstar = some bs) : HasOrder butcher_rkf54 bs 4 := by
  simp only [butcher_rkf54, Option.some.injEq] at h
  subst h
  order_conditions4 butcher_rkf54

set_option maxRecDepth 8000 in
/-- **DOPRI54: the propagated solution (weights `b`) has order 5**: all 17 order conditions -/
theorem dopri54_b_order5 : HasOrder butcher_dopri54 butcher_dopri54.b 5 := by
  order_conditions butcher_dopri54

set_option maxRecDepth 8000 in
/-- **DOPRI54: the embedded solution (weights `b_star`) has order 4** -/
theorem dopri54_bstar_order4 (bs : List ℝ) (h : butcher_dopri54.bstar = some bs) : HasOrder butcher_dopri54 bs 4 := by
  simp only [butcher_dopri54, Option.some.injEq] at h
  subst h
  order_conditions4 butcher_dopri54

/-! ## Shape of the tableaux, for every integrator the class offers -/

/-- every entry of `BUTCHER` is one of the four regenerated tables -/
theorem butcher_cases (name : String) (tb : Tableau) (h : butcher name = some tb) :
    tb = butcher_euler ∨ tb = butcher_rk4 ∨ tb = butcher_rkf54 ∨ tb = butcher_dopri54 := by
  unfold butcher at h
  split at h <;> simp_all

/-- row `i` of `a` has exactly `i` entries (so `a @ ks` never mismatches: the code would raise), `b`, `c` (and `b_star`)
have one entry per stage, and `a` has one row per stage (or is empty for the one-stage method) -/
def WellFormed (tb : Tableau) : Prop :=
  tb.a.map List.length = List.range tb.a.length ∧ tb.c.length = tb.b.length ∧ 0 < tb.b.length ∧
  (tb.a.length = tb.b.length ∨ (tb.a = [] ∧ tb.b.length = 1)) ∧ ∀ bs, tb.bstar = some bs → bs.length = tb.b.length

/-- **every integrator**: the table is well formed -/
theorem tableaux_wellformed (name : String) (tb : Tableau) (h : butcher name = some tb) : WellFormed tb := by
  rcases butcher_cases name tb h with rfl | rfl | rfl | rfl <;>
  simp [WellFormed, butcher_euler, butcher_rk4, butcher_rkf54, butcher_dopri54, List.range_succ]

def sumL : List ℝ → ℝ
  | x :: a => x + sumL a
  | [] => 0

/-- **every integrator**: cᵢ = Σⱼ aᵢⱼ (the stage abscissae are consistent with the stage weights) -/
theorem row_sums (name : String) (tb : Tableau) (h : butcher name = some tb) :
    tb.c = (padRows tb.a tb.b.length).map sumL := by
  rcases butcher_cases name tb h with rfl | rfl | rfl | rfl <;>
  simp only [butcher_euler, butcher_rk4, butcher_rkf54, butcher_dopri54, padRows, List.length, List.map, sumL,
    List.cons.injEq, and_true] <;>
  norm_num

/-- **DOPRI54 is first-same-as-last**: the last row of `a` is `b` (without its final 0) and the last abscissa is 1, so the
last stage derivative of a step is the first of the next -/
theorem dopri_fsal_row :
    butcher_dopri54.a.getLast? = some (butcher_dopri54.b.take 6) ∧ butcher_dopri54.b.drop 6 = [0] ∧
    butcher_dopri54.c.getLast? = some 1 := by
  simp [butcher_dopri54]

/-! ## The force model: Newtonian attraction is central and conservative -/

/-- the translated loop body is Newton's law: `µ (p − r) / |p − r|³` -/
theorem accel_newton (mu px py pz pvx pvy pvz x y z vx vy vz : ℝ) :
    bodyAccel mu [px, py, pz, pvx, pvy, pvz] [x, y, z, vx, vy, vz] =
      [mu * (px - x) / (Real.sqrt ((px - x) * (px - x) + ((py - y) * (py - y) + ((pz - z) * (pz - z) + 0)))) ^ 3,
       mu * (py - y) / (Real.sqrt ((px - x) * (px - x) + ((py - y) * (py - y) + ((pz - z) * (pz - z) + 0)))) ^ 3,
       mu * (pz - z) / (Real.sqrt ((px - x) * (px - x) + ((py - y) * (py - y) + ((pz - z) * (pz - z) + 0)))) ^ 3] := by
  simp [bodyAccel, vsub, smul, vdivs, vnorm, sumsq]

def cross : List ℝ → List ℝ → List ℝ
  | [a, b, c], [x, y, z] => [b * z - c * y, c * x - a * z, a * y - b * x]
  | _, _ => []

/-- **the attraction of a body is central**: (r − p) × a = 0, for every position (no hypothesis: also at r = p, where the
code divides by zero and the model's `x/0 = 0` plays no role) — angular momentum about the body is a first integral -/
theorem accel_central (mu px py pz pvx pvy pvz x y z vx vy vz : ℝ) :
    cross [x - px, y - py, z - pz] (bodyAccel mu [px, py, pz, pvx, pvy, pvz] [x, y, z, vx, vy, vz]) = [0, 0, 0] := by
  rw [accel_newton]
  simp only [cross, List.cons.injEq, and_true]
  refine ⟨?_, ?_, ?_⟩ <;> ring

/-- **energy is a first integral of the modelled field** (central body at rest at `p`): with `ρ = |r − p| ≠ 0`,
`v · a + µ ((r − p) · v) / ρ³ = 0`, i.e. d/dt (v²/2 − µ/ρ) = 0 along `r' = v, v' = a` -/
theorem accel_energy (mu px py pz x y z vx vy vz : ℝ) :
    let a := bodyAccel mu [px, py, pz, 0, 0, 0] [x, y, z, vx, vy, vz]
    let rho := Real.sqrt ((x - px) ^ 2 + (y - py) ^ 2 + (z - pz) ^ 2)
    dot [vx, vy, vz] a + mu * dot [x - px, y - py, z - pz] [vx, vy, vz] / rho ^ 3 = 0 := by
  intro a rho
  have hr : Real.sqrt ((px - x) * (px - x) + ((py - y) * (py - y) + ((pz - z) * (pz - z) + 0))) = rho := by
    congr 1; ring
  simp only [a, accel_newton, hr, dot]
  ring

/-! ## The generic step: formal consequences of the order conditions -/

/-- **fixed-step methods do exactly one pass**: without `b_star` the step is accepted as it is -/
theorem fixed_step_single (f : ℝ → List ℝ → List ℝ) (tb : Tableau) (hb : tb.bstar = none) (maxStep tol t : ℝ) (y : List ℝ)
    (fuel : Nat) (h : ℝ) : makeStep f tb maxStep tol t y (fuel + 1) h = some (h, rkOnce f tb t y h) := by
  simp [makeStep, hb, rkOnce]

/-- **an adaptive step is only ever accepted with its embedded error estimate within the tolerance**, and the state
returned is the plain Runge–Kutta step of the accepted size (∀ fuel; "returned a value" is the hypothesis) -/
theorem adaptive_accepts_within_tol (f : ℝ → List ℝ → List ℝ) (tb : Tableau) (bs : List ℝ) (hb : tb.bstar = some bs)
    (maxStep tol t : ℝ) (y : List ℝ) :
    ∀ (fuel : Nat) (h h' : ℝ) (y' : List ℝ), makeStep f tb maxStep tol t y fuel h = some (h', y') →
      errEst tb bs h' (rkKs f tb t y h') ≤ tol ∧ y' = rkOnce f tb t y h' := by
  intro fuel
  induction fuel with
  | zero => intro h h' y' hh; simp [makeStep] at hh
  | succ n ih =>
    intro h h' y' hh
    simp only [makeStep, hb] at hh
    split_ifs at hh with hc
    · simp only [Option.some.injEq, Prod.mk.injEq] at hh
      obtain ⟨rfl, rfl⟩ := hh
      exact ⟨hc, rfl⟩
    · exact ih _ _ _ hh

/-- **no convergence is only ever reported after `MAX_ITER` rejected passes**: with fuel left and an estimate within the
tolerance the step is accepted at once -/
theorem accepted_at_once (f : ℝ → List ℝ → List ℝ) (tb : Tableau) (bs : List ℝ) (hb : tb.bstar = some bs)
    (maxStep tol t : ℝ) (y : List ℝ) (fuel : Nat) (h : ℝ) (hok : errEst tb bs h (rkKs f tb t y h) ≤ tol) :
    makeStep f tb maxStep tol t y (fuel + 1) h = some (h, rkOnce f tb t y h) := by
  simp [makeStep, hb, hok, rkOnce]

/-! ### exact quadrature (bushy-tree conditions) -/

/-- **Euler integrates constants exactly** (degree < 1) -/
theorem quadrature_exact_euler (c0 t y h : ℝ) :
    rkOnce (fun _ _ => [c0]) butcher_euler t [y] h = [y + c0 * h] := by
  simp only [rkOnce, rkKs, rkStages, rkCombine, lincomb, butcher_euler, List.drop, List.map, vadd, smul,
    List.cons.injEq, and_true]
  ring

/-- **one RK4 step integrates `y' = g(t)` exactly for every polynomial `g` of degree < 4**, for every step size (also
negative): the result is `y + G(t+h) − G(t)` with `G' = g` -/
theorem quadrature_exact_rk4 (c0 c1 c2 c3 t y h : ℝ) :
    let G : ℝ → ℝ := fun s => c0 * s + c1 * s ^ 2 / 2 + c2 * s ^ 3 / 3 + c3 * s ^ 4 / 4
    rkOnce (fun s _ => [c0 + c1 * s + c2 * s ^ 2 + c3 * s ^ 3]) butcher_rk4 t [y] h = [y + (G (t + h) - G t)] := by
  simp only [rkOnce, rkKs, rkStages, rkCombine, lincomb, butcher_rk4, List.drop, List.map, vadd, smul,
    List.cons_append, List.nil_append, List.cons.injEq, and_true]
  ring

/-- **one RKF54 step integrates `y' = g(t)` exactly for every polynomial `g` of degree < 5** -/
theorem quadrature_exact_rkf54 (c0 c1 c2 c3 c4 t y h : ℝ) :
    let G : ℝ → ℝ := fun s => c0 * s + c1 * s ^ 2 / 2 + c2 * s ^ 3 / 3 + c3 * s ^ 4 / 4 + c4 * s ^ 5 / 5
    rkOnce (fun s _ => [c0 + c1 * s + c2 * s ^ 2 + c3 * s ^ 3 + c4 * s ^ 4]) butcher_rkf54 t [y] h
      = [y + (G (t + h) - G t)] := by
  simp only [rkOnce, rkKs, rkStages, rkCombine, lincomb, butcher_rkf54, List.drop, List.map, vadd, smul,
    List.cons_append, List.nil_append, List.cons.injEq, and_true]
  ring

/-- **one DOPRI54 step integrates `y' = g(t)` exactly for every polynomial `g` of degree < 5** -/
theorem quadrature_exact_dopri54 (c0 c1 c2 c3 c4 t y h : ℝ) :
    let G : ℝ → ℝ := fun s => c0 * s + c1 * s ^ 2 / 2 + c2 * s ^ 3 / 3 + c3 * s ^ 4 / 4 + c4 * s ^ 5 / 5
    rkOnce (fun s _ => [c0 + c1 * s + c2 * s ^ 2 + c3 * s ^ 3 + c4 * s ^ 4]) butcher_dopri54 t [y] h
      = [y + (G (t + h) - G t)] := by
  simp only [rkOnce, rkKs, rkStages, rkCombine, lincomb, butcher_dopri54, List.drop, List.map, vadd, smul,
    List.cons_append, List.nil_append, List.cons.injEq, and_true]
  ring

/-! ### the linear test equation `y' = λ y` (tall-tree conditions): the step multiplies by the Taylor polynomial of `exp` -/

theorem linear_test_euler (lam t y h : ℝ) :
    rkOnce (fun _ u => smul lam u) butcher_euler t [y] h = [y * (1 + h * lam)] := by
  simp only [rkOnce, rkKs, rkStages, rkCombine, lincomb, butcher_euler, List.drop, List.map, vadd, smul,
    List.cons.injEq, and_true]
  ring

/-- **RK4 on `y' = λ y`: one step multiplies by 1 + z + z²/2 + z³/6 + z⁴/24, z = hλ** (the degree-4 Taylor polynomial of eᶻ) -/
theorem linear_test_rk4 (lam t y h : ℝ) :
    rkOnce (fun _ u => smul lam u) butcher_rk4 t [y] h
      = [y * (1 + h * lam + (h * lam) ^ 2 / 2 + (h * lam) ^ 3 / 6 + (h * lam) ^ 4 / 24)] := by
  simp only [rkOnce, rkKs, rkStages, rkCombine, lincomb, butcher_rk4, List.drop, List.map, vadd, smul,
    List.cons_append, List.nil_append, List.cons.injEq, and_true]
  ring

/-- **RKF54 / DOPRI54 on `y' = λ y`: the step multiplies by the degree-5 Taylor polynomial of eᶻ plus a z⁶ term** -/
theorem linear_test_order5 : ∃ cF cD : ℝ, ∀ lam t y h : ℝ,
    rkOnce (fun _ u => smul lam u) butcher_rkf54 t [y] h
      = [y * (1 + h * lam + (h * lam) ^ 2 / 2 + (h * lam) ^ 3 / 6 + (h * lam) ^ 4 / 24 + (h * lam) ^ 5 / 120 + cF * (h * lam) ^ 6)] ∧
    rkOnce (fun _ u => smul lam u) butcher_dopri54 t [y] h
      = [y * (1 + h * lam + (h * lam) ^ 2 / 2 + (h * lam) ^ 3 / 6 + (h * lam) ^ 4 / 24 + (h * lam) ^ 5 / 120 + cD * (h * lam) ^ 6)] := by
  refine ⟨1 / 2080, 1 / 600, fun lam t y h => ⟨?_, ?_⟩⟩
  · simp only [rkOnce, rkKs, rkStages, rkCombine, lincomb, butcher_rkf54, List.drop, List.map, vadd, smul,
      List.cons_append, List.nil_append, List.cons.injEq, and_true]
    ring
  · simp only [rkOnce, rkKs, rkStages, rkCombine, lincomb, butcher_dopri54, List.drop, List.map, vadd, smul,
      List.cons_append, List.nil_append, List.cons.injEq, and_true]
    ring

/-! ## The step-size update -/

/-- **the step-size law**, as translated from the source: `min(self.step, h · (tol / 2ε)^{1/(s−1)})` -/
theorem step_scale_law (maxStep h tol ε : ℝ) (bb : List ℝ) :
    stepScale maxStep h tol ε bb
      = if h * (tol / (2 * ε)) ^ ((1 : ℝ) / ((bb.length : ℝ) - 1)) < maxStep
        then h * (tol / (2 * ε)) ^ ((1 : ℝ) / ((bb.length : ℝ) - 1)) else maxStep := by
  simp [stepScale, minR, lenR]

/-- **a rejected forward step is strictly reduced and stays positive** (so the loop of `_make_step` can only shrink):
the estimate exceeded the tolerance (`tol < ε`), the method has at least two stages -/
theorem step_scale_shrinks (maxStep h tol ε : ℝ) (bb : List ℝ) (htol : 0 < tol) (hε : tol < ε) (hh : 0 < h)
    (hmax : h ≤ maxStep) (hs : 2 ≤ bb.length) :
    0 < stepScale maxStep h tol ε bb ∧ stepScale maxStep h tol ε bb < h := by
  have hε0 : 0 < ε := lt_trans htol hε
  have hq0 : 0 < tol / (2 * ε) := by positivity
  have hq1 : tol / (2 * ε) < 1 := by rw [div_lt_one (by positivity)]; linarith
  have hn : (2 : ℝ) ≤ (bb.length : ℝ) := by exact_mod_cast hs
  have he : 0 < (1 : ℝ) / ((bb.length : ℝ) - 1) := by apply one_div_pos.mpr; linarith
  have hp0 : 0 < (tol / (2 * ε)) ^ ((1 : ℝ) / ((bb.length : ℝ) - 1)) := Real.rpow_pos_of_pos hq0 _
  have hp1 : (tol / (2 * ε)) ^ ((1 : ℝ) / ((bb.length : ℝ) - 1)) < 1 := Real.rpow_lt_one hq0.le hq1 he
  have hlt : h * (tol / (2 * ε)) ^ ((1 : ℝ) / ((bb.length : ℝ) - 1)) < h := by nlinarith
  rw [step_scale_law, if_pos (lt_of_lt_of_le hlt hmax)]
  exact ⟨by positivity, hlt⟩

/-- **backward steps** (`h < 0 < self.step`): the rejected step keeps its sign and strictly shrinks in magnitude -/
theorem step_scale_shrinks_backward (maxStep h tol ε : ℝ) (bb : List ℝ) (htol : 0 < tol) (hε : tol < ε) (hh : h < 0)
    (hmax : 0 < maxStep) (hs : 2 ≤ bb.length) :
    h < stepScale maxStep h tol ε bb ∧ stepScale maxStep h tol ε bb < 0 := by
  have hε0 : 0 < ε := lt_trans htol hε
  have hq0 : 0 < tol / (2 * ε) := by positivity
  have hq1 : tol / (2 * ε) < 1 := by rw [div_lt_one (by positivity)]; linarith
  have hn : (2 : ℝ) ≤ (bb.length : ℝ) := by exact_mod_cast hs
  have he : 0 < (1 : ℝ) / ((bb.length : ℝ) - 1) := by apply one_div_pos.mpr; linarith
  have hp0 : 0 < (tol / (2 * ε)) ^ ((1 : ℝ) / ((bb.length : ℝ) - 1)) := Real.rpow_pos_of_pos hq0 _
  have hp1 : (tol / (2 * ε)) ^ ((1 : ℝ) / ((bb.length : ℝ) - 1)) < 1 := Real.rpow_lt_one hq0.le hq1 he
  have hneg : h * (tol / (2 * ε)) ^ ((1 : ℝ) / ((bb.length : ℝ) - 1)) < 0 := by nlinarith
  rw [step_scale_law, if_pos (lt_trans hneg hmax)]
  exact ⟨by nlinarith, hneg⟩

/-! ## Non-vacuity: the hypotheses of the theorems above are met by concrete, non-trivial values -/

example : butcher "rk4" = some butcher_rk4 := rfl
example : butcher "dopri54" = some butcher_dopri54 := rfl
example : butcher "rk5" = none := rfl
example : ∃ bs, butcher_rkf54.bstar = some bs ∧ bs.length = 6 := ⟨_, rfl, rfl⟩
example : ∃ bs, butcher_dopri54.bstar = some bs ∧ bs.length = 7 := ⟨_, rfl, rfl⟩
example : butcher_rk4.bstar = none ∧ butcher_euler.bstar = none := ⟨rfl, rfl⟩
/-- the embedded weights are *not* of order 5 (the error estimate `b − b_star` is not identically trivial): the
condition of the bushy tree with 5 vertices fails for `b_star` of RKF54 -/
example : ∃ bs, butcher_rkf54.bstar = some bs ∧ ¬ OrderCond butcher_rkf54 bs t5a := by
  refine ⟨_, rfl, ?_⟩
  simp only [OrderCond, butcher_rkf54, t5a, t4a, t3a, t2, phi, padRows, List.length, List.map, List.zipWith, dot, T.gamma, T.order]
  norm_num
/-- RK4 is not of order 5 -/
example : ¬ OrderCond butcher_rk4 butcher_rk4.b t5a := by
  simp only [OrderCond, butcher_rk4, t5a, t4a, t3a, t2, phi, padRows, List.length, List.map, List.zipWith, dot, T.gamma, T.order]
  norm_num
/-- an adaptive step that is accepted: a field at rest, estimate 0 ≤ tol -/
example : makeStep (fun _ _ => [0, 0, 0]) butcher_rkf54 60 (1 / 1000) 0 [1, 2, 3] maxIter 60
    = some (60, rkOnce (fun _ _ => [0, 0, 0]) butcher_rkf54 0 [1, 2, 3] 60) := by
  refine accepted_at_once _ _ _ rfl _ _ _ _ 9 60 ?_
  simp [errEst, rkKs, rkStages, lincomb, butcher_rkf54, vsub, smul, vadd, vnorm, sumsq]
example : 0 < stepScale 60 60 (1 / 1000) 1 butcher_rkf54.b ∧ stepScale 60 60 (1 / 1000) 1 butcher_rkf54.b < 60 :=
  step_scale_shrinks _ _ _ _ _ (by norm_num) (by norm_num) (by norm_num) (by norm_num) (by simp [butcher_rkf54])
example : (-60 : ℝ) < stepScale 60 (-60) (1 / 1000) 1 butcher_dopri54.b ∧ stepScale 60 (-60) (1 / 1000) 1 butcher_dopri54.b < 0 :=
  step_scale_shrinks_backward _ _ _ _ _ (by norm_num) (by norm_num) (by norm_num) (by norm_num) (by simp [butcher_dopri54])
/-- the force on a satellite at (7000 km, 0, 0) points to the body at the origin -/
example : bodyAccel 8 [0, 0, 0, 0, 0, 0] [2, 0, 0, 0, 1, 0] = [-2, 0, 0] := by
  rw [accel_newton]
  have : Real.sqrt ((0 - 2) * (0 - 2) + ((0 - 0) * (0 - 0) + ((0 - 0) * (0 - 0) + 0))) = 2 := by
    rw [show ((0 : ℝ) - 2) * (0 - 2) + ((0 - 0) * (0 - 0) + ((0 - 0) * (0 - 0) + 0)) = 2 ^ 2 by norm_num]
    exact Real.sqrt_sq (by norm_num)
  rw [this]; norm_num

end BeyondVerif.C06
