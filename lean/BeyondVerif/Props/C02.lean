import BeyondVerif.Lemmas.Mat3
import BeyondVerif.Lemmas.Chain
import BeyondVerif.Lemmas.FrameEdges
import BeyondVerif.Generated.OrientProviders
import BeyondVerif.Props.C20
import Mathlib.Analysis.SpecialFunctions.Trigonometric.Deriv
import Mathlib.Tactic.NormNum
import Mathlib.Tactic.Positivity

/-!
# C02 — frame conversions are consistent rigid motions with correct kinematics

Theorems over ℝ about the model of `beyond/frames` (Model/FramesR.lean, Model/Mat3R.lean, Model/Chain.lean) whose
formulas (`rot1/2/3`, the CIO matrix, the constant matrices, the station matrix …) are *translated from the
Python source on every run* (Generated/FrameFormulasR.lean).

* proper rotations: `rot1/2/3_isRotation` ∀ θ, closure under products (`M3.IsRotation.mul`, Lemmas/Mat3.lean),
  `cioMat_isRotation` ∀ X²+Y²<1, `provider_isRotation` for every non-constant provider of class Orientation,
  `topoMat_isRotation`, `const_matrices_orthonormal` (regenerated decimals, 1e-12);
* `expand_apply`, `expand_inv_mul`, `expand_mul_inv`, `norm_preserved`;
* `velocity_is_derivative` (+ `pef_to_tod_rate`, `tirf_to_cirf_rate`): the rate vector handed to `expand` by
  PEF_to_TOD / TIRF_to_CIRF is the one that makes the converted velocity the derivative of the converted position;
* path independence along any leaf-grown link history (`Chain.potential_exists`, `Chain.chain_walk`, Lemmas/Chain.lean):
  `convert_compose`, `convert_inverse`, instantiated for the built-in orientation tree regenerated from the source
  (`orient_leafGrown`, `providers_match`) and for the model's own `orientConvert` (`orientConvert_compose`,
  `orientConvert_inverse`), paths being those of the C20 model (`C20.path_valid_chain`);
* `affine_roundtrip`: rotation-then-offset composed with its reverse is the identity.
-/
namespace BeyondVerif.C02
open BeyondVerif.R BeyondVerif.NumReal

/-! ## proper rotations -/

/-- **`rot1(θ)` is a proper rotation for every θ** (matrix translated from beyond/utils/matrix.py) -/
theorem rot1_isRotation (θ : ℝ) : M3.IsRotation (rot1 θ) := by
  have h := Real.sin_sq_add_cos_sq θ
  refine ⟨?_, ?_, ?_⟩
  · ext <;> simp [rot1, M3.mul, M3.tr, M3.one] <;> first | linear_combination h | ring
  · ext <;> simp [rot1, M3.mul, M3.tr, M3.one] <;> first | linear_combination h | ring
  · simp [rot1, M3.det]; linear_combination h

/-- **`rot2(θ)` is a proper rotation for every θ** -/
theorem rot2_isRotation (θ : ℝ) : M3.IsRotation (rot2 θ) := by
  have h := Real.sin_sq_add_cos_sq θ
  refine ⟨?_, ?_, ?_⟩
  · ext <;> simp [rot2, M3.mul, M3.tr, M3.one] <;> first | linear_combination h | ring
  · ext <;> simp [rot2, M3.mul, M3.tr, M3.one] <;> first | linear_combination h | ring
  · simp [rot2, M3.det]; linear_combination h

/-- **`rot3(θ)` is a proper rotation for every θ** -/
theorem rot3_isRotation (θ : ℝ) : M3.IsRotation (rot3 θ) := by
  have h := Real.sin_sq_add_cos_sq θ
  refine ⟨?_, ?_, ?_⟩
  · ext <;> simp [rot3, M3.mul, M3.tr, M3.one] <;> first | linear_combination h | ring
  · ext <;> simp [rot3, M3.mul, M3.tr, M3.one] <;> first | linear_combination h | ring
  · simp [rot3, M3.det]; linear_combination h

example : M3.IsRotation (rot3 1) := rot3_isRotation 1


/-- products of `rot`s: `iau1980.nutation` -/
theorem nutation80_isRotation (eps dpsi deps : ℝ) : M3.IsRotation (nutation80 eps dpsi deps) := by
  simp only [nutation80]
  exact ((rot1_isRotation _).mul (rot3_isRotation _)).mul (rot1_isRotation _)

/-- `iau1980.precesion` -/
theorem precession80_isRotation (ttt : ℝ) : M3.IsRotation (precession80 ttt) := by
  simp only [precession80, precAngles80]
  exact ((rot3_isRotation _).mul (rot2_isRotation _)).mul (rot3_isRotation _)

/-- both polar-motion matrices (`iau1980.earth_orientation`, `iau2010.earth_orientation`) -/
theorem polar80_isRotation (D : DateArgs) : M3.IsRotation (polar80 D) := by
  simp only [polar80]
  exact (rot1_isRotation _).mul (rot2_isRotation _)
theorem polar10_isRotation (D : DateArgs) : M3.IsRotation (polar10 D) := by
  simp only [polar10]
  exact ((rot3_isRotation _).mul (rot2_isRotation _)).mul (rot1_isRotation _)

/-- the station matrix `rot3(-lon) @ rot2(lat - π/2) @ rot3(π)` (translated from TopocentricOrientation.__init__) -/
theorem topoMat_isRotation (lat lon : ℝ) : M3.IsRotation (topoMat lat lon) := by
  simp only [topoMat]
  exact ((rot3_isRotation _).mul (rot2_isRotation _)).mul (rot3_isRotation _)

theorem cio_aux (X Y : ℝ) (h : X ^ 2 + Y ^ 2 < 1) :
    0 < Real.cos (Real.arctan (Real.sqrt ((X ^ 2 + Y ^ 2) / (1 - X ^ 2 - Y ^ 2)))) ∧
    Real.cos (Real.arctan (Real.sqrt ((X ^ 2 + Y ^ 2) / (1 - X ^ 2 - Y ^ 2)))) ^ 2 = 1 - X ^ 2 - Y ^ 2 := by
  have hw : 0 < 1 - X ^ 2 - Y ^ 2 := by linarith
  have hS : 0 ≤ X ^ 2 + Y ^ 2 := by positivity
  refine ⟨Real.cos_arctan_pos _, ?_⟩
  rw [Real.cos_sq_arctan, Real.sq_sqrt (div_nonneg hS hw.le)]
  field_simp
  ring

/-- **the CIO-based precession-nutation matrix (`iau2010.precesion_nutation`, translated from the source) is a proper
rotation for all X, Y with X² + Y² < 1 and all s** -/
theorem cioMat_isRotation (X Y s : ℝ) (h : X ^ 2 + Y ^ 2 < 1) : M3.IsRotation (cioMat X Y s) := by
  obtain ⟨hZpos, hZ⟩ := cio_aux X Y h
  simp only [cioMat, powi, sqrt, atan, cos]
  refine M3.IsRotation.mul ?_ (rot3_isRotation s)
  generalize Real.cos (Real.arctan (Real.sqrt ((X ^ 2 + Y ^ 2) / (1 - X ^ 2 - Y ^ 2)))) = Z at hZpos hZ
  have h1 : (1 + Z) ≠ 0 := by positivity
  generalize ha' : (1 : ℝ) / (1 + Z) = a
  have ha : a * (1 + Z) = 1 := by rw [← ha']; field_simp
  have hq : a * (X ^ 2 + Y ^ 2) = 1 - Z := by linear_combination (1 - Z) * ha + a * hZ
  refine ⟨?_, ?_, ?_⟩
  · ext <;> simp only [M3.mul, M3.tr, M3.one] <;>
      first
        | ring1
        | linear_combination (a * X ^ 2) * hq - X ^ 2 * ha
        | linear_combination (a * Y ^ 2) * hq - Y ^ 2 * ha
        | linear_combination (a * X * Y) * hq - (X * Y) * ha
        | linear_combination (a * (X ^ 2 + Y ^ 2)) * hq - (X ^ 2 + Y ^ 2) * ha
  · ext <;> simp only [M3.mul, M3.tr, M3.one] <;>
      first
        | ring1
        | linear_combination (a * X ^ 2) * hq - X ^ 2 * ha
        | linear_combination (a * Y ^ 2) * hq - Y ^ 2 * ha
        | linear_combination (a * X * Y) * hq - (X * Y) * ha
        | linear_combination (a * (X ^ 2 + Y ^ 2)) * hq - (X ^ 2 + Y ^ 2) * ha
  · simp only [M3.det]
    linear_combination (a * (X ^ 2 + Y ^ 2)) * hq - (X ^ 2 + Y ^ 2) * ha

example : M3.IsRotation (cioMat 0.001 (-0.0002) 0.00003) := cioMat_isRotation _ _ _ (by norm_num)

/-- the (X, Y) the CIO provider feeds into `cioMat` -/
noncomputable def cioXY (D : DateArgs) : ℝ × ℝ :=
  (deg2rad ((D.x10 + D.dx / 1000.0) / 3600.0), deg2rad ((D.y10 + D.dy / 1000.0) / 3600.0))

/-- **every time-dependent provider of class Orientation returns a proper rotation** (for the CIO provider under
X² + Y² < 1; in 1973–2017 X² + Y² < 1e-5).  The two constant providers are covered by `const_matrices_orthonormal`. -/
theorem provider_isRotation (D : DateArgs) (hcio : (cioXY D).1 ^ 2 + (cioXY D).2 ^ 2 < 1) :
    ∀ p ∈ [("TEME", "TOD"), ("PEF", "TOD"), ("TOD", "MOD"), ("MOD", "EME2000"), ("ITRF", "PEF"), ("ITRF", "TIRF"),
           ("TIRF", "CIRF"), ("CIRF", "GCRF")],
      ∃ M, edgeBuiltin D p.1 p.2 = some M ∧ M3.IsRotation M.r := by
  intro p hp
  simp only [List.mem_cons, List.not_mem_nil, or_false] at hp
  rcases hp with rfl | rfl | rfl | rfl | rfl | rfl | rfl | rfl
  · exact ⟨expand (rot3 (-deg2rad (equinox80 D.ttt D.eps4 D.dpsi4 D.day false))) none, by simp [edgeBuiltin], by simp only [expand]; exact rot3_isRotation _⟩
  · exact ⟨expand (rot3 (deg2rad (-gastDeg80 D))) (some (vecOf (rate80 D.lod)).neg), by simp [edgeBuiltin], by simp only [expand]; exact rot3_isRotation _⟩
  · exact ⟨expand (nutation80 D.eps106 D.dpsi106 D.deps106) none, by simp [edgeBuiltin], by simp only [expand]; exact nutation80_isRotation _ _ _⟩
  · exact ⟨expand (precession80 D.ttt) none, by simp [edgeBuiltin], by simp only [expand]; exact precession80_isRotation _⟩
  · exact ⟨expand (polar80 D) none, by simp [edgeBuiltin], by simp only [expand]; exact polar80_isRotation _⟩
  · exact ⟨expand (polar10 D) none, by simp [edgeBuiltin], by simp only [expand]; exact polar10_isRotation _⟩
  · exact ⟨expand (rot3 (-era10 D.jdut1)) (some (vecOf (rate10 D.lod)).neg), by simp [edgeBuiltin], by simp only [expand]; exact rot3_isRotation _⟩
  · exact ⟨expand (cio10 D) none, by simp [edgeBuiltin], by simp only [expand, cio10]; exact cioMat_isRotation _ _ _ hcio⟩

/-- **the constant matrices G50→EME2000 and GCRF→EME2000 (decimals regenerated from orient.py) are orthonormal to
1e-15 and have determinant within 1e-15 of 1** -/
theorem const_matrices_orthonormal :
    (∀ e ∈ (M3.add (M3.mul g50Mat (M3.tr g50Mat)) (M3.neg M3.one)).toList, |e| < 1e-15) ∧
    (∀ e ∈ (M3.add (M3.mul gcrfBiasMat (M3.tr gcrfBiasMat)) (M3.neg M3.one)).toList, |e| < 1e-15) ∧
    |M3.det g50Mat - 1| < 1e-15 ∧ |M3.det gcrfBiasMat - 1| < 1e-15 := by
  refine ⟨?_, ?_, ?_, ?_⟩
  · simp only [g50Mat, M3.mul, M3.tr, M3.one, M3.add, M3.neg, M3.toList, List.mem_cons, List.not_mem_nil, or_false]
    rintro e (rfl | rfl | rfl | rfl | rfl | rfl | rfl | rfl | rfl) <;> rw [abs_lt] <;> constructor <;> norm_num
  · simp only [gcrfBiasMat, M3.mul, M3.tr, M3.one, M3.add, M3.neg, M3.toList, List.mem_cons, List.not_mem_nil, or_false]
    rintro e (rfl | rfl | rfl | rfl | rfl | rfl | rfl | rfl | rfl) <;> rw [abs_lt] <;> constructor <;> norm_num
  · simp only [g50Mat, M3.det]; rw [abs_lt]; constructor <;> norm_num
  · simp only [gcrfBiasMat, M3.det]; rw [abs_lt]; constructor <;> norm_num

theorem const_matrices_invertible : M3.det g50Mat ≠ 0 ∧ M3.det gcrfBiasMat ≠ 0 := by
  constructor
  · simp only [g50Mat, M3.det]; norm_num
  · simp only [gcrfBiasMat, M3.det]; norm_num

/-- the provider table of the model is the list of `A_to_B` methods found in orient.py on this run -/
theorem providers_match : providerNames = Generated.orientProviders := by decide

/-- **the kinematic terms of the equation of the equinoxes apply from MJD 50506 (1997-02-27 0h UTC, IERS TN 21) on, that day included** — the
guard is read from the AST of `iau1980.equinox` on every run (`equinoxKinematic`); a shifted day or a strict comparison falsifies this -/
theorem kinematic_guard_pinned (day : ℝ) (k : Bool) : equinoxKinematic day k ↔ ((50506 : ℝ) ≤ day ∧ k = true) := Iff.rfl

example : equinoxKinematic 50506 true ∧ ¬ equinoxKinematic 50505 true ∧ ¬ equinoxKinematic 60000 false := by
  refine ⟨⟨le_refl _, rfl⟩, ?_, ?_⟩
  · rintro ⟨h, _⟩; norm_num at h
  · rintro ⟨_, h⟩; cases h

/-! ## `expand` -/

/-- **`expand(R, w)` applied to (r, v) is (R r, R v − w × R r)** -/
theorem expand_apply (m : M3) (w p v : V3) :
    (expand m (some w)).apply p v = (m.apply p, (m.apply v).sub (w.cross (m.apply p))) := by
  simp only [expand, T6.apply]
  refine Prod.ext rfl ?_
  ext <;> simp only [V3.add, V3.sub, V3.cross, M3.apply, M3.mul, M3.neg, M3.skew] <;> ring

theorem expand_apply_none (m : M3) (p v : V3) : (expand m none).apply p v = (m.apply p, m.apply v) := by
  simp only [expand, T6.apply]
  refine Prod.ext rfl ?_
  ext <;> simp [V3.add, M3.apply, M3.zero]

/-- **the inverse used for reverse edges (`np.linalg.inv(expand(R, w))`) is a two-sided inverse** whenever R is a rotation
(more generally whenever det R ≠ 0) -/
theorem expand_inv_mul (m : M3) (w : Option V3) (hm : M3.IsRotation m) :
    T6.mul (T6.inv (expand m w)) (expand m w) = T6.one ∧ T6.mul (expand m w) (T6.inv (expand m w)) = T6.one := by
  have hd : M3.det (expand m w).r ≠ 0 := by
    cases w <;> simp only [expand] <;> rw [hm.2.2] <;> exact one_ne_zero
  exact ⟨T6.inv_mul _ hd, T6.mul_inv _ hd⟩

/-- **between frames sharing a centre the position map preserves norms** -/
theorem norm_preserved (M : T6) (hM : M3.IsRotation M.r) (p v : V3) :
    V3.dot (M.apply p v).1 (M.apply p v).1 = V3.dot p p := by
  simp only [T6.apply]
  exact hM.dot_apply p p

/-- rotation-then-offset (`Frame.transform`: `m @ x + offset`) composed with the reverse transformation (inverse matrix,
offset `-(m⁻¹ offset)`) is the identity -/
theorem affine_roundtrip (M M' : T6) (h : T6.mul M' M = T6.one) (p v op ov : V3) :
    let x := M.apply p v
    let y := (x.1.add op, x.2.add ov)
    let o' := M'.apply op ov
    let z := M'.apply y.1 y.2
    (z.1.add o'.1.neg, z.2.add o'.2.neg) = (p, v) := by
  intro x y o' z
  have hr := congrArg T6.r h
  have hb := congrArg T6.b h
  have hid := T6.apply_mul M' M p v
  rw [h, T6.apply_one] at hid
  have h1 := congrArg Prod.fst hid
  have h2 := congrArg Prod.snd hid
  simp only [T6.apply] at h1 h2
  refine Prod.ext ?_ ?_
  · have e1 := congrArg V3.x h1; have e2 := congrArg V3.y h1; have e3 := congrArg V3.z h1
    simp only [M3.apply] at e1 e2 e3
    ext <;> simp only [z, y, x, o', T6.apply, V3.add, V3.neg, M3.apply] <;> linarith
  · have e1 := congrArg V3.x h2; have e2 := congrArg V3.y h2; have e3 := congrArg V3.z h2
    simp only [M3.apply, V3.add] at e1 e2 e3
    ext <;> simp only [z, y, x, o', T6.apply, V3.add, V3.neg, M3.apply] <;> linarith


/-! ## path independence of `convert_to` -/
open BeyondVerif.Chain

/-- **A→B→C equals A→C** for the loop of `Orientation.convert_to` over *any* carrier with an associative product, along any
link history grown leaf by leaf (every tree / forest), for any three walks, provided each provided edge element is
inverted by `inv` and no link has providers in both directions. -/
theorem convert_compose {α : Type} (A : Alg α) (edge : Nat → Nat → Option α) (hE : EdgesOK A edge)
    (links : List (Nat × Nat)) (hl : leafGrown links = true) (a b c : Nat) (p q pq : List Nat)
    (hp : p.head? = some a ∧ p.getLast? = some b ∧ IsWalk links p)
    (hq : q.head? = some b ∧ q.getLast? = some c ∧ IsWalk links q)
    (hpq : pq.head? = some a ∧ pq.getLast? = some c ∧ IsWalk links pq)
    (x y z : α) (hx : chain A.mul A.inv edge (p.zip p.tail) A.one = some x)
    (hy : chain A.mul A.inv edge (q.zip q.tail) A.one = some y)
    (hz : chain A.mul A.inv edge (pq.zip pq.tail) A.one = some z) : z = A.mul y x := by
  obtain ⟨φ, ψ, hpot⟩ := potential_exists A edge hE links hl
  rw [chain_of_path A edge links φ ψ hpot p a b hp.1 hp.2.1 hp.2.2 _ _ hx,
    chain_of_path A edge links φ ψ hpot q b c hq.1 hq.2.1 hq.2.2 _ _ hy,
    chain_of_path A edge links φ ψ hpot pq a c hpq.1 hpq.2.1 hpq.2.2 _ _ hz]
  simp only [A.mul_one]
  rw [A.assoc, ← A.assoc (φ b), (hpot.1 b).2, A.one_mul]

/-- **A→B→A is the identity** -/
theorem convert_inverse {α : Type} (A : Alg α) (edge : Nat → Nat → Option α) (hE : EdgesOK A edge)
    (links : List (Nat × Nat)) (hl : leafGrown links = true) (a b : Nat) (p q : List Nat)
    (hp : p.head? = some a ∧ p.getLast? = some b ∧ IsWalk links p)
    (hq : q.head? = some b ∧ q.getLast? = some a ∧ IsWalk links q)
    (x y : α) (hx : chain A.mul A.inv edge (p.zip p.tail) A.one = some x)
    (hy : chain A.mul A.inv edge (q.zip q.tail) A.one = some y) : A.mul y x = A.one := by
  obtain ⟨φ, ψ, hpot⟩ := potential_exists A edge hE links hl
  rw [chain_of_path A edge links φ ψ hpot p a b hp.1 hp.2.1 hp.2.2 _ _ hx,
    chain_of_path A edge links φ ψ hpot q b a hq.1 hq.2.1 hq.2.2 _ _ hy]
  simp only [A.mul_one]
  rw [A.assoc, ← A.assoc (φ b), (hpot.1 b).2, A.one_mul, (hpot.1 a).1]

/-- the built-in orientation graph (the `+` operations of orient.py, regenerated in execution order) is grown leaf by
leaf; so is every extension by stations / orbit-attached orientations (each adds one fresh node) -/
theorem orient_leafGrown : leafGrown Generated.orientHist.reverse = true := by decide

/-- what `Orientation.convert_to` returns in the model, unfolded: a path of the routing model and the chain along it -/
theorem orientConvert_spec (D : DateArgs) (names : List String) (hist : List (Nat × Nat)) (extras : List Extra)
    (a b : Nat) (x : T6) (h : orientConvert D names hist extras a b = some x) :
    ∃ p : List Nat, p.head? = some a ∧ p.getLast? = some b ∧ IsWalk hist.reverse p ∧
      chain T6.mul T6.inv (edge D names extras) (p.zip p.tail) T6.one = some x := by
  unfold orientConvert at h
  simp only at h
  split at h
  · cases h
  · next g hg =>
    split at h
    · next p hp =>
      obtain ⟨h1, h2, h3⟩ := C20.path_valid_chain _ _ hist g hg a b p hp
      refine ⟨p, h1, h2, ?_, h⟩
      unfold IsWalk
      refine List.IsChain.imp ?_ h3
      intro u v huv
      simpa [C20.linked, List.mem_reverse] using huv
    · cases h

/-- **`Orientation.convert_to`: A→B→C = A→C** for the model's own conversion (paths from the routing model of C20, any
history grown leaf by leaf — the built-in tree plus any stations / orbit-attached orientations) -/
theorem orientConvert_compose (D : DateArgs) (names : List String) (hist : List (Nat × Nat)) (extras : List Extra)
    (hE : EdgesOK algT6 (edge D names extras)) (hl : leafGrown hist.reverse = true) (a b c : Nat) (x y z : T6)
    (hx : orientConvert D names hist extras a b = some x) (hy : orientConvert D names hist extras b c = some y)
    (hz : orientConvert D names hist extras a c = some z) : z = T6.mul y x := by
  obtain ⟨p, p1, p2, p3, p4⟩ := orientConvert_spec D names hist extras a b x hx
  obtain ⟨q, q1, q2, q3, q4⟩ := orientConvert_spec D names hist extras b c y hy
  obtain ⟨r, r1, r2, r3, r4⟩ := orientConvert_spec D names hist extras a c z hz
  exact convert_compose algT6 _ hE _ hl a b c p q r ⟨p1, p2, p3⟩ ⟨q1, q2, q3⟩ ⟨r1, r2, r3⟩ x y z p4 q4 r4

/-- **`Orientation.convert_to`: A→B→A = identity** -/
theorem orientConvert_inverse (D : DateArgs) (names : List String) (hist : List (Nat × Nat)) (extras : List Extra)
    (hE : EdgesOK algT6 (edge D names extras)) (hl : leafGrown hist.reverse = true) (a b : Nat) (x y : T6)
    (hx : orientConvert D names hist extras a b = some x) (hy : orientConvert D names hist extras b a = some y) :
    T6.mul y x = T6.one := by
  obtain ⟨p, p1, p2, p3, p4⟩ := orientConvert_spec D names hist extras a b x hx
  obtain ⟨q, q1, q2, q3, q4⟩ := orientConvert_spec D names hist extras b a y hy
  exact convert_inverse algT6 _ hE _ hl a b p q ⟨p1, p2, p3⟩ ⟨q1, q2, q3⟩ x y p4 q4

/-- **`Frame.transform` A→B→A = identity on states** when both conversions succeed (same centre: offsets 0) -/
theorem transform_roundtrip_same_centre (D : DateArgs) (names : List String) (hist : List (Nat × Nat)) (extras : List Extra)
    (hE : EdgesOK algT6 (edge D names extras)) (hl : leafGrown hist.reverse = true) (a b : Nat) (x y : T6)
    (hx : orientConvert D names hist extras a b = some x) (hy : orientConvert D names hist extras b a = some y)
    (p v : V3) : y.apply (x.apply p v).1 (x.apply p v).2 = (p, v) := by
  rw [← T6.apply_mul, orientConvert_inverse D names hist extras hE hl a b x y hx hy, T6.apply_one]

/-! ## the hypothesis `EdgesOK` discharged for the model's own edge function -/

/-- **every provider of class Orientation returns an invertible matrix** (the eight time-dependent ones are proper rotations, the two
constant ones have a non-zero determinant by `norm_num` on the regenerated decimals) -/
theorem builtin_edges_invertible (D : DateArgs) (hcio : (cioXY D).1 ^ 2 + (cioXY D).2 ^ 2 < 1) :
    ∀ na nb M, edgeBuiltin D na nb = some M → M3.det M.r ≠ 0 := by
  have rot : ∀ m : M3, M3.IsRotation m → M3.det m ≠ 0 := fun m hm => by rw [hm.2.2]; exact one_ne_zero
  intro na nb M h
  unfold edgeBuiltin at h
  split_ifs at h <;> simp only [Option.some.injEq] at h <;> subst h <;> simp only [expand]
  · exact rot _ (rot3_isRotation _)
  · exact rot _ (rot3_isRotation _)
  · exact rot _ (nutation80_isRotation _ _ _)
  · exact rot _ (precession80_isRotation _)
  · exact rot _ (polar80_isRotation _)
  · exact rot _ (polar10_isRotation _)
  · exact rot _ (rot3_isRotation _)
  · simp only [cio10]; exact rot _ (cioMat_isRotation _ _ _ hcio)
  · exact const_matrices_invertible.1
  · exact const_matrices_invertible.2

/-- **`EdgesOK` holds for the concrete `edge` function of the model** — built-in providers (whatever the date arguments, X² + Y² < 1)
plus any well-formed list of dynamically registered orientations (`ExtrasOK`: fresh node, hanging below an earlier one, invertible
matrix).  Assembled from `provider_isRotation` / `const_matrices_invertible` (through `builtin_edges_invertible`),
`edgeBuiltin_oneDir` and Lemmas/FrameEdges.lean `edgesOK_edge`. -/
theorem edgesOK_model (D : DateArgs) (hcio : (cioXY D).1 ^ 2 + (cioXY D).2 ^ 2 < 1) (names : List String) (extras : List Extra)
    (hX : ExtrasOK names extras) : EdgesOK algT6 (edge D names extras) :=
  edgesOK_edge D names extras (builtin_edges_invertible D hcio) hX

/-- a station orientation and a QSW orientation on an orbit with `pos × vel ≠ 0` form a well-formed list of extras -/
example : ExtrasOK Generated.orientNames
    [⟨10, 0, topoMat 0.76 0.025⟩, ⟨11, 4, lofMat false ⟨7000000, 0, 0⟩ ⟨0, 7500, 100⟩⟩] := by
  refine ⟨?_, ?_, ?_⟩
  · intro e he; simp only [List.mem_cons, List.not_mem_nil, or_false] at he; rcases he with rfl | rfl <;> decide
  · intro e he; simp only [List.mem_cons, List.not_mem_nil, or_false] at he; rcases he with rfl | rfl <;> decide
  · intro e he
    simp only [List.mem_cons, List.not_mem_nil, or_false] at he
    rcases he with rfl | rfl
    · rw [(topoMat_isRotation _ _).2.2]; exact one_ne_zero
    · rw [(lofMat_isRotation false _ _ (by simp only [V3.dot, V3.cross]; norm_num)).2.2]; exact one_ne_zero

/-- **`Orientation.convert_to`: A→B→C = A→C, unconditionally for the model's edge function**: built-in tree + stations + orbit-attached
orientations, every date argument with X² + Y² < 1, every three frames for which the three conversions are defined. -/
theorem orientConvert_compose_model (D : DateArgs) (hcio : (cioXY D).1 ^ 2 + (cioXY D).2 ^ 2 < 1) (names : List String)
    (hist : List (Nat × Nat)) (extras : List Extra) (hX : ExtrasOK names extras) (hl : leafGrown hist.reverse = true)
    (a b c : Nat) (x y z : T6)
    (hx : orientConvert D names hist extras a b = some x) (hy : orientConvert D names hist extras b c = some y)
    (hz : orientConvert D names hist extras a c = some z) : z = T6.mul y x :=
  orientConvert_compose D names hist extras (edgesOK_model D hcio names extras hX) hl a b c x y z hx hy hz

/-- **`Orientation.convert_to`: A→B→A = identity, unconditionally for the model's edge function** -/
theorem orientConvert_inverse_model (D : DateArgs) (hcio : (cioXY D).1 ^ 2 + (cioXY D).2 ^ 2 < 1) (names : List String)
    (hist : List (Nat × Nat)) (extras : List Extra) (hX : ExtrasOK names extras) (hl : leafGrown hist.reverse = true)
    (a b : Nat) (x y : T6)
    (hx : orientConvert D names hist extras a b = some x) (hy : orientConvert D names hist extras b a = some y) :
    T6.mul y x = T6.one :=
  orientConvert_inverse D names hist extras (edgesOK_model D hcio names extras hX) hl a b x y hx hy

/-- the built-in tree extended by a station (node 10 below ITRF) and an orbit-attached orientation (node 11 below EME2000) is grown
leaf by leaf -/
example : leafGrown (Generated.orientHist ++ [(0, 10), (4, 11)]).reverse = true := by decide

/-- **orbit-attached orientations are proper rotations**: `to_local(orient, sv, expanded=False).T` for QSW and TNW (rows translated from
beyond/frames/local.py on every run), every state with `pos × vel ≠ 0` -/
theorem lof_isRotation (tnw : Bool) (p v : V3) (h : V3.dot (V3.cross p v) (V3.cross p v) ≠ 0) :
    M3.IsRotation (lofMat tnw p v) := lofMat_isRotation tnw p v h

example : M3.IsRotation (lofMat true ⟨7000000, 0, 0⟩ ⟨0, 7500, 100⟩) :=
  lof_isRotation true _ _ (by simp only [V3.dot, V3.cross]; norm_num)

/-! ## kinematics -/

/-- **The converted velocity is the time derivative of the converted position.**  For `R(t) = rot3(−θ(t))` (the sidereal /
Earth-rotation matrices of PEF→TOD and TIRF→CIRF), `θ` differentiable with derivative `θ'` and a differentiable position
`r(t)`: each component of `t ↦ R(t) r(t)` has as derivative the velocity block of `expand(R(t), rate)` applied to
`(r, ṙ)` with `rate = (0, 0, −θ')` — the `(m, −rate(date))` pair those providers return, sign included. -/
theorem velocity_is_derivative (θ x y z : ℝ → ℝ) (θ' x' y' z' t : ℝ)
    (hθ : HasDerivAt θ θ' t) (hx : HasDerivAt x x' t) (hy : HasDerivAt y y' t) (hz : HasDerivAt z z' t) :
    HasDerivAt (fun s => ((rot3 (-(θ s))).apply ⟨x s, y s, z s⟩).x)
      ((expand (rot3 (-(θ t))) (some ⟨0, 0, -θ'⟩)).apply ⟨x t, y t, z t⟩ ⟨x', y', z'⟩).2.x t ∧
    HasDerivAt (fun s => ((rot3 (-(θ s))).apply ⟨x s, y s, z s⟩).y)
      ((expand (rot3 (-(θ t))) (some ⟨0, 0, -θ'⟩)).apply ⟨x t, y t, z t⟩ ⟨x', y', z'⟩).2.y t ∧
    HasDerivAt (fun s => ((rot3 (-(θ s))).apply ⟨x s, y s, z s⟩).z)
      ((expand (rot3 (-(θ t))) (some ⟨0, 0, -θ'⟩)).apply ⟨x t, y t, z t⟩ ⟨x', y', z'⟩).2.z t := by
  have hc : HasDerivAt (fun s => Real.cos (-(θ s))) (-Real.sin (-(θ t)) * (-θ')) t :=
    hθ.neg.cos
  have hs : HasDerivAt (fun s => Real.sin (-(θ s))) (Real.cos (-(θ t)) * (-θ')) t :=
    hθ.neg.sin
  simp only [rot3, M3.apply, expand, T6.apply, M3.mul, M3.neg, M3.skew, V3.add, cos, sin]
  refine ⟨?_, ?_, ?_⟩
  · have h := ((hc.mul hx).add (hs.mul hy)).add ((hasDerivAt_const t (0 : ℝ)).mul hz)
    exact h.congr_deriv (by (try simp only [Pi.neg_apply]); ring)
  · have h := ((hs.neg.mul hx).add (hc.mul hy)).add ((hasDerivAt_const t (0 : ℝ)).mul hz)
    exact h.congr_deriv (by (try simp only [Pi.neg_apply]); ring)
  · have h := (((hasDerivAt_const t (0 : ℝ)).mul hx).add ((hasDerivAt_const t (0 : ℝ)).mul hy)).add ((hasDerivAt_const t (1 : ℝ)).mul hz)
    exact h.congr_deriv (by (try simp only [Pi.neg_apply]); ring)

/-- the rate vectors of the two Earth-rotation providers are `(0, 0, −ω⊕ (1 − LOD/86400))` with the constant found in the
source: PEF_to_TOD and TIRF_to_CIRF hand `−rate(date)` to `expand`, i.e. the `rate = (0, 0, −θ')` of
`velocity_is_derivative` for a sidereal angle advancing at `θ' = ω⊕ (1 − LOD/86400)` -/
theorem earth_rotation_rate (D : DateArgs) :
    edgeBuiltin D "PEF" "TOD" = some (expand (rot3 (deg2rad (-(gastDeg80 D))))
      (some ⟨-0, -0, -(7.292115146706979e-5 * (1 - D.lod / 1000.0 / 86400.0))⟩)) ∧
    edgeBuiltin D "TIRF" "CIRF" = some (expand (rot3 (-(era10 D.jdut1)))
      (some ⟨-0, -0, -(7.292115146706979e-5 * (1 - D.lod / 1000.0 / 86400.0))⟩)) := by
  constructor <;> simp [edgeBuiltin, rate80, rate10, vecOf, V3.neg]


/-! ## history independence

The result of a conversion is a function of the inputs of that call only — the instant, the EOP record attached to the date, the
frame graph and the two frames (and, for `Frame.transform`, the state: `frameTransform` is a function by construction) — **for every
history of earlier calls**.  The model of a process (`sessionRun`, Model/FramesR.lean) carries the one date-dependent memo the code
has, `iau1980._nutation_series._cache`, keyed like the code keys it since deb035a: (TT century, number of terms) — everything the
series reads.  With that key the statement is unconditional (`Memo.sound_iff` with a key that determines the value).  Under the
former key (the text of the date) it was false: Witness/C02.lean. -/

/-- every entry of the memo is what the series gives for its key -/
def MemoOK (rows : List (List ℝ)) (m : NutMemo) : Prop := ∀ k v, m.lookup k = some v → v = nutOf rows k

theorem memoGet_fst (rows : List (List ℝ)) (m : NutMemo) (k : ℝ × Nat) (hm : MemoOK rows m) : (memoGet rows m k).1 = nutOf rows k :=
  Memo.call_fst id (nutOf rows) m k (hm k)

theorem memoGet_ok (rows : List (List ℝ)) (m : NutMemo) (k : ℝ × Nat) (hm : MemoOK rows m) : MemoOK rows (memoGet rows m k).2 := by
  intro k' v h
  rcases Memo.call_lookup id (nutOf rows) m k k' v h with h' | ⟨h1, h2⟩
  · exact hm k' v h'
  · rw [h2, h1]; rfl

theorem sessionStep_pure (names : List String) (rows : List (List ℝ)) (m : NutMemo) (c : Call) (hm : MemoOK rows m) :
    (sessionStep names rows m c).1 = callPure names rows c ∧ MemoOK rows (sessionStep names rows m c).2 := by
  unfold sessionStep
  simp only
  generalize touches names c.hist c.a c.b = t
  obtain ⟨t1, t2⟩ := t
  have h106 : (if t1 then memoGet rows m (c.D.ttt, 106) else (nutOf rows (c.D.ttt, 106), m)).1 = nutOf rows (c.D.ttt, 106) ∧
      MemoOK rows (if t1 then memoGet rows m (c.D.ttt, 106) else (nutOf rows (c.D.ttt, 106), m)).2 := by
    cases t1
    · exact ⟨rfl, hm⟩
    · exact ⟨memoGet_fst rows m _ hm, memoGet_ok rows m _ hm⟩
  simp only
  obtain ⟨e106, m106⟩ := h106
  generalize (if t1 then memoGet rows m (c.D.ttt, 106) else (nutOf rows (c.D.ttt, 106), m)) = r106 at e106 m106 ⊢
  have h4 : (if t2 then memoGet rows r106.2 (c.D.ttt, 4) else (nutOf rows (c.D.ttt, 4), r106.2)).1 = nutOf rows (c.D.ttt, 4) ∧
      MemoOK rows (if t2 then memoGet rows r106.2 (c.D.ttt, 4) else (nutOf rows (c.D.ttt, 4), r106.2)).2 := by
    cases t2
    · exact ⟨rfl, m106⟩
    · exact ⟨memoGet_fst rows r106.2 _ m106, memoGet_ok rows r106.2 _ m106⟩
  obtain ⟨e4, m4⟩ := h4
  generalize (if t2 then memoGet rows r106.2 (c.D.ttt, 4) else (nutOf rows (c.D.ttt, 4), r106.2)) = r4 at e4 m4 ⊢
  exact ⟨by rw [e106, e4]; rfl, m4⟩

/-- **along every history, from every memo the process can have built, every call returns what it returns in a fresh process** -/
theorem sessionRun_pure (names : List String) (rows : List (List ℝ)) : ∀ (cs : List Call) (m : NutMemo), MemoOK rows m →
    sessionRun names rows m cs = cs.map (callPure names rows) := by
  intro cs
  induction cs with
  | nil => intro _ _; rfl
  | cons c cs ih =>
    intro m hm
    obtain ⟨h1, h2⟩ := sessionStep_pure names rows m c hm
    simp only [sessionRun, List.map_cons]
    rw [h1, ih _ h2]

theorem MemoOK_nil (rows : List (List ℝ)) : MemoOK rows [] := by
  intro k v hv; simp at hv

/-- **History independence** (full statement since deb035a; `_partial` before).  For every history `h` of earlier conversions in the
process — other instants, the same instant under other EOP records, other frames, any order, repeated requests — and every call `c`:
the result of `c` is `callPure c`, a function of (`c.D`: the instant and the EOP record of the date at hand, the frame graph, the two
frames) alone. -/
theorem session_history_independent (names : List String) (rows : List (List ℝ)) (h : List Call) (c : Call) :
    (sessionRun names rows [] (h ++ [c])).getLast? = some (callPure names rows c) := by
  rw [sessionRun_pure names rows _ [] (MemoOK_nil rows)]
  simp

/-- the same call after two different histories returns the same -/
theorem session_order_independent (names : List String) (rows : List (List ℝ)) (h₁ h₂ : List Call) (c : Call) :
    (sessionRun names rows [] (h₁ ++ [c])).getLast? = (sessionRun names rows [] (h₂ ++ [c])).getLast? := by
  rw [session_history_independent names rows h₁ c, session_history_independent names rows h₂ c]

/-- the key of the memo determines its value: the hypothesis of `Memo.sound_iff`, for `_nutation_series` -/
theorem nutation_series_key_sound (rows : List (List ℝ)) (xs : List (ℝ × Nat)) :
    Memo.run id (nutOf rows) [] xs = xs.map (nutOf rows) :=
  (Memo.sound_iff id (nutOf rows)).2 (fun _ _ h => congrArg (nutOf rows) h) xs

/-- `_nutation(date, True, terms)` = the series (memoized) plus the corrections of the record of the date, added outside the memo:
two dates with the same TT instant and different EOP records get different triples, each with its own corrections -/
theorem nutCorrected_of_record (n : Nut) (dpsi deps : ℝ) :
    (nutCorrected n dpsi deps).eps = n.eps ∧ (nutCorrected n dpsi deps).dpsi = n.dpsi + dpsi / 3600000.0 ∧
    (nutCorrected n dpsi deps).deps = n.deps + deps / 3600000.0 := by
  simp [nutCorrected, nutCorr80]

/-- TOD→MOD and PEF→TOD on the built-in graph consult the memo under `terms = 106` only, TEME→TOD under `terms = 4`,
MOD→EME2000 and the whole IAU-2010 chain not at all -/
example : touches Generated.orientNames Generated.orientHist 2 3 = (true, false) ∧
    touches Generated.orientNames Generated.orientHist 1 2 = (true, false) ∧
    touches Generated.orientNames Generated.orientHist 6 2 = (false, true) ∧
    touches Generated.orientNames Generated.orientHist 3 4 = (false, false) ∧
    touches Generated.orientNames Generated.orientHist 0 9 = (false, false) ∧
    touches Generated.orientNames Generated.orientHist 0 6 = (true, true) := by decide

end BeyondVerif.C02
