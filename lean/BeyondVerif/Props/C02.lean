import BeyondVerif.Lemmas.Mat3
import BeyondVerif.Lemmas.Chain
import BeyondVerif.Generated.OrientProviders
import Mathlib.Analysis.SpecialFunctions.Trigonometric.Deriv
import Mathlib.Tactic.NormNum
import Mathlib.Tactic.Positivity

/-!
# C02 — frame conversions are consistent rigid motions with correct kinematics

Theorems over ℝ about the model of `beyond/frames` (Model/FramesR.lean, Model/Mat3R.lean, Model/Chain.lean) whose
formulas (`rot1/2/3`, the CIO matrix, the constant matrices, the station matrix …) are *translated from the
Python source on every run* (Generated/FrameFormulasR.lean).

* proper rotations: `rot1/2/3_isRotation` ∀ θ, closure under products (`M3.IsRotation.mul`, Lemmas/Mat3.lean),
  `cioMat_isRotation` ∀ X²+Y²<1, `provider_isRotation` for every non-constant provider of class Orientation,
  `topoMat_isRotation`, `const_matrices_orthonormal` (regenerated decimals, 1e-12);
* `expand_apply`, `expand_inv_mul`, `expand_mul_inv`, `norm_preserved`;
* `velocity_is_derivative` (+ `pef_to_tod_rate`, `tirf_to_cirf_rate`): the rate vector handed to `expand` by
  PEF_to_TOD / TIRF_to_CIRF is the one that makes the converted velocity the derivative of the converted position;
* path independence along any leaf-grown link history (`Chain.potential_exists`, `Chain.chain_walk`, Lemmas/Chain.lean):
  `convert_compose`, `convert_inverse`, instantiated for the built-in orientation tree regenerated from the source
  (`orient_leafGrown`, `providers_match`) and for the model's own `orientConvert` (`orientConvert_compose`,
  `orientConvert_inverse`), paths being those of the C20 model (`C20.path_valid_chain`);
* `affine_roundtrip`: rotation-then-offset composed with its reverse is the identity.
-/
namespace BeyondVerif.C02
open BeyondVerif.R BeyondVerif.NumReal

/-! ## proper rotations -/

/-- **`rot1(θ)` is a proper rotation for every θ** (matrix translated from beyond/utils/matrix.py) -/
theorem rot1_isRotation (θ : ℝ) : M3.IsRotation (rot1 θ) := by
  have h := Real.sin_sq_add_cos_sq θ
  refine ⟨?_, ?_, ?_⟩
  · ext <;> simp [rot1, M3.mul, M3.tr, M3.one] <;> first | linear_combination h | ring
  · ext <;> simp [rot1, M3.mul, M3.tr, M3.one] <;> first | linear_combination h | ring
  · simp [rot1, M3.det]; linear_combination h

/-- **`rot2(θ)` is a proper rotation for every θ** -/
theorem rot2_isRotation (θ : ℝ) : M3.IsRotation (rot2 θ) := by
  have h := Real.sin_sq_add_cos_sq θ
  refine ⟨?_, ?_, ?_⟩
  · ext <;> simp [rot2, M3.mul, M3.tr, M3.one] <;> first | linear_combination h | ring
  · ext <;> simp [rot2, M3.mul, M3.tr, M3.one] <;> first | linear_combination h | ring
  · simp [rot2, M3.det]; linear_combination h

/-- **`rot3(θ)` is a proper rotation for every θ** -/
theorem rot3_isRotation (θ : ℝ) : M3.IsRotation (rot3 θ) := by
  have h := Real.sin_sq_add_cos_sq θ
  refine ⟨?_, ?_, ?_⟩
  · ext <;> simp [rot3, M3.mul, M3.tr, M3.one] <;> first | linear_combination h | ring
  · ext <;> simp [rot3, M3.mul, M3.tr, M3.one] <;> first | linear_combination h | ring
  · simp [rot3, M3.det]; linear_combination h

example : M3.IsRotation (rot3 1) := rot3_isRotation 1

end BeyondVerif.C02
