import BeyondVerif.Lemmas.Mat3
import BeyondVerif.Lemmas.Chain
import BeyondVerif.Generated.OrientProviders
import BeyondVerif.Props.C20
import Mathlib.Analysis.SpecialFunctions.Trigonometric.Deriv
import Mathlib.Tactic.NormNum
import Mathlib.Tactic.Positivity

/-!
# C02 — frame conversions are consistent rigid motions with correct kinematics

Theorems over ℝ about the model of `beyond/frames` (Model/FramesR.lean, Model/Mat3R.lean, Model/Chain.lean) whose
formulas (`rot1/2/3`, the CIO matrix, the constant matrices, the station matrix …) are *translated from the
Python source on every run* (Generated/FrameFormulasR.lean).

* proper rotations: `rot1/2/3_isRotation` ∀ θ, closure under products (`M3.IsRotation.mul`, Lemmas/Mat3.lean),
  `cioMat_isRotation` ∀ X²+Y²<1, `provider_isRotation` for every non-constant provider of class Orientation,
  `topoMat_isRotation`, `const_matrices_orthonormal` (regenerated decimals, 1e-12);
* `expand_apply`, `expand_inv_mul`, `expand_mul_inv`, `norm_preserved`;
* `velocity_is_derivative` (+ `pef_to_tod_rate`, `tirf_to_cirf_rate`): the rate vector handed to `expand` by
  PEF_to_TOD / TIRF_to_CIRF is the one that makes the converted velocity the derivative of the converted position;
* path independence along any leaf-grown link history (`Chain.potential_exists`, `Chain.chain_walk`, Lemmas/Chain.lean):
  `convert_compose`, `convert_inverse`, instantiated for the built-in orientation tree regenerated from the source
  (`orient_leafGrown`, `providers_match`) and for the model's own `orientConvert` (`orientConvert_compose`,
  `orientConvert_inverse`), paths being those of the C20 model (`C20.path_valid_chain`);
* `affine_roundtrip`: rotation-then-offset composed with its reverse is the identity.
-/
namespace BeyondVerif.C02
open BeyondVerif.R BeyondVerif.NumReal

/-! ## proper rotations -/

/-- **`rot1(θ)` is a proper rotation for every θ** (matrix translated from beyond/utils/matrix.py) -/
theorem rot1_isRotation (θ : ℝ) : M3.IsRotation (rot1 θ) := by
  have h := Real.sin_sq_add_cos_sq θ
  refine ⟨?_, ?_, ?_⟩
  · ext <;> simp [rot1, M3.mul, M3.tr, M3.one] <;> first | linear_combination h | ring
  · ext <;> simp [rot1, M3.mul, M3.tr, M3.one] <;> first | linear_combination h | ring
  · simp [rot1, M3.det]; linear_combination h

/-- **`rot2(θ)` is a proper rotation for every θ** -/
theorem rot2_isRotation (θ : ℝ) : M3.IsRotation (rot2 θ) := by
  have h := Real.sin_sq_add_cos_sq θ
  refine ⟨?_, ?_, ?_⟩
  · ext <;> simp [rot2, M3.mul, M3.tr, M3.one] <;> first | linear_combination h | ring
  · ext <;> simp [rot2, M3.mul, M3.tr, M3.one] <;> first | linear_combination h | ring
  · simp [rot2, M3.det]; linear_combination h

/-- **`rot3(θ)` is a proper rotation for every θ** -/
theorem rot3_isRotation (θ : ℝ) : M3.IsRotation (rot3 θ) := by
  have h := Real.sin_sq_add_cos_sq θ
  refine ⟨?_, ?_, ?_⟩
  · ext <;> simp [rot3, M3.mul, M3.tr, M3.one] <;> first | linear_combination h | ring
  · ext <;> simp [rot3, M3.mul, M3.tr, M3.one] <;> first | linear_combination h | ring
  · simp [rot3, M3.det]; linear_combination h

example : M3.IsRotation (rot3 1) := rot3_isRotation 1


/-- products of `rot`s: `iau1980.nutation` -/
theorem nutation80_isRotation (ttt dpsi deps : ℝ) : M3.IsRotation (nutation80 ttt dpsi deps) := by
  simp only [nutation80]
  exact ((rot1_isRotation _).mul (rot3_isRotation _)).mul (rot1_isRotation _)

/-- `iau1980.precesion` -/
theorem precession80_isRotation (ttt : ℝ) : M3.IsRotation (precession80 ttt) := by
  simp only [precession80, precAngles80]
  exact ((rot3_isRotation _).mul (rot2_isRotation _)).mul (rot3_isRotation _)

/-- both polar-motion matrices (`iau1980.earth_orientation`, `iau2010.earth_orientation`) -/
theorem polar80_isRotation (D : DateArgs) : M3.IsRotation (polar80 D) := by
  simp only [polar80]
  exact (rot1_isRotation _).mul (rot2_isRotation _)
theorem polar10_isRotation (D : DateArgs) : M3.IsRotation (polar10 D) := by
  simp only [polar10]
  exact ((rot3_isRotation _).mul (rot2_isRotation _)).mul (rot1_isRotation _)

/-- the station matrix `rot3(-lon) @ rot2(lat - π/2) @ rot3(π)` (translated from TopocentricOrientation.__init__) -/
theorem topoMat_isRotation (lat lon : ℝ) : M3.IsRotation (topoMat lat lon) := by
  simp only [topoMat]
  exact ((rot3_isRotation _).mul (rot2_isRotation _)).mul (rot3_isRotation _)

theorem cio_aux (X Y : ℝ) (h : X ^ 2 + Y ^ 2 < 1) :
    0 < Real.cos (Real.arctan (Real.sqrt ((X ^ 2 + Y ^ 2) / (1 - X ^ 2 - Y ^ 2)))) ∧
    Real.cos (Real.arctan (Real.sqrt ((X ^ 2 + Y ^ 2) / (1 - X ^ 2 - Y ^ 2)))) ^ 2 = 1 - X ^ 2 - Y ^ 2 := by
  have hw : 0 < 1 - X ^ 2 - Y ^ 2 := by linarith
  have hS : 0 ≤ X ^ 2 + Y ^ 2 := by positivity
  refine ⟨Real.cos_arctan_pos _, ?_⟩
  rw [Real.cos_sq_arctan, Real.sq_sqrt (div_nonneg hS hw.le)]
  field_simp
  ring

/-- **the CIO-based precession-nutation matrix (`iau2010.precesion_nutation`, translated from the source) is a proper
rotation for all X, Y with X² + Y² < 1 and all s** -/
theorem cioMat_isRotation (X Y s : ℝ) (h : X ^ 2 + Y ^ 2 < 1) : M3.IsRotation (cioMat X Y s) := by
  obtain ⟨hZpos, hZ⟩ := cio_aux X Y h
  simp only [cioMat, powi, sqrt, atan, cos]
  refine M3.IsRotation.mul ?_ (rot3_isRotation s)
  generalize Real.cos (Real.arctan (Real.sqrt ((X ^ 2 + Y ^ 2) / (1 - X ^ 2 - Y ^ 2)))) = Z at hZpos hZ
  have h1 : (1 + Z) ≠ 0 := by positivity
  generalize ha' : (1 : ℝ) / (1 + Z) = a
  have ha : a * (1 + Z) = 1 := by rw [← ha']; field_simp
  have hq : a * (X ^ 2 + Y ^ 2) = 1 - Z := by linear_combination (1 - Z) * ha + a * hZ
  refine ⟨?_, ?_, ?_⟩
  · ext <;> simp only [M3.mul, M3.tr, M3.one] <;>
      first
        | ring1
        | linear_combination (a * X ^ 2) * hq - X ^ 2 * ha
        | linear_combination (a * Y ^ 2) * hq - Y ^ 2 * ha
        | linear_combination (a * X * Y) * hq - (X * Y) * ha
        | linear_combination (a * (X ^ 2 + Y ^ 2)) * hq - (X ^ 2 + Y ^ 2) * ha
  · ext <;> simp only [M3.mul, M3.tr, M3.one] <;>
      first
        | ring1
        | linear_combination (a * X ^ 2) * hq - X ^ 2 * ha
        | linear_combination (a * Y ^ 2) * hq - Y ^ 2 * ha
        | linear_combination (a * X * Y) * hq - (X * Y) * ha
        | linear_combination (a * (X ^ 2 + Y ^ 2)) * hq - (X ^ 2 + Y ^ 2) * ha
  · simp only [M3.det]
    linear_combination (a * (X ^ 2 + Y ^ 2)) * hq - (X ^ 2 + Y ^ 2) * ha

example : M3.IsRotation (cioMat 0.001 (-0.0002) 0.00003) := cioMat_isRotation _ _ _ (by norm_num)

/-- the (X, Y) the CIO provider feeds into `cioMat` -/
noncomputable def cioXY (D : DateArgs) : ℝ × ℝ :=
  (deg2rad ((D.x10 + D.dx / 1000.0) / 3600.0), deg2rad ((D.y10 + D.dy / 1000.0) / 3600.0))

/-- **every time-dependent provider of class Orientation returns a proper rotation** (for the CIO provider under
X² + Y² < 1; in 1973–2017 X² + Y² < 1e-5).  The two constant providers are covered by `const_matrices_orthonormal`. -/
theorem provider_isRotation (D : DateArgs) (hcio : (cioXY D).1 ^ 2 + (cioXY D).2 ^ 2 < 1) :
    ∀ p ∈ [("TEME", "TOD"), ("PEF", "TOD"), ("TOD", "MOD"), ("MOD", "EME2000"), ("ITRF", "PEF"), ("ITRF", "TIRF"),
           ("TIRF", "CIRF"), ("CIRF", "GCRF")],
      ∃ M, edgeBuiltin D p.1 p.2 = some M ∧ M3.IsRotation M.r := by
  intro p hp
  simp only [List.mem_cons, List.not_mem_nil, or_false] at hp
  rcases hp with rfl | rfl | rfl | rfl | rfl | rfl | rfl | rfl
  · exact ⟨expand (rot3 (-deg2rad (equinox80 D.ttt D.dpsi4 D.day false))) none, by simp [edgeBuiltin], by simp only [expand]; exact rot3_isRotation _⟩
  · exact ⟨expand (rot3 (deg2rad (-gastDeg80 D))) (some (vecOf (rate80 D.lod)).neg), by simp [edgeBuiltin], by simp only [expand]; exact rot3_isRotation _⟩
  · exact ⟨expand (nutation80 D.ttt D.dpsi106 D.deps106) none, by simp [edgeBuiltin], by simp only [expand]; exact nutation80_isRotation _ _ _⟩
  · exact ⟨expand (precession80 D.ttt) none, by simp [edgeBuiltin], by simp only [expand]; exact precession80_isRotation _⟩
  · exact ⟨expand (polar80 D) none, by simp [edgeBuiltin], by simp only [expand]; exact polar80_isRotation _⟩
  · exact ⟨expand (polar10 D) none, by simp [edgeBuiltin], by simp only [expand]; exact polar10_isRotation _⟩
  · exact ⟨expand (rot3 (-era10 D.jdut1)) (some (vecOf (rate10 D.lod)).neg), by simp [edgeBuiltin], by simp only [expand]; exact rot3_isRotation _⟩
  · exact ⟨expand (cio10 D) none, by simp [edgeBuiltin], by simp only [expand, cio10]; exact cioMat_isRotation _ _ _ hcio⟩

/-- **the constant matrices G50→EME2000 and GCRF→EME2000 (decimals regenerated from orient.py) are orthonormal to
1e-15 and have determinant within 1e-15 of 1** -/
theorem const_matrices_orthonormal :
    (∀ e ∈ (M3.add (M3.mul g50Mat (M3.tr g50Mat)) (M3.neg M3.one)).toList, |e| < 1e-15) ∧
    (∀ e ∈ (M3.add (M3.mul gcrfBiasMat (M3.tr gcrfBiasMat)) (M3.neg M3.one)).toList, |e| < 1e-15) ∧
    |M3.det g50Mat - 1| < 1e-15 ∧ |M3.det gcrfBiasMat - 1| < 1e-15 := by
  refine ⟨?_, ?_, ?_, ?_⟩
  · simp only [g50Mat, M3.mul, M3.tr, M3.one, M3.add, M3.neg, M3.toList, List.mem_cons, List.not_mem_nil, or_false]
    rintro e (rfl | rfl | rfl | rfl | rfl | rfl | rfl | rfl | rfl) <;> rw [abs_lt] <;> constructor <;> norm_num
  · simp only [gcrfBiasMat, M3.mul, M3.tr, M3.one, M3.add, M3.neg, M3.toList, List.mem_cons, List.not_mem_nil, or_false]
    rintro e (rfl | rfl | rfl | rfl | rfl | rfl | rfl | rfl | rfl) <;> rw [abs_lt] <;> constructor <;> norm_num
  · simp only [g50Mat, M3.det]; rw [abs_lt]; constructor <;> norm_num
  · simp only [gcrfBiasMat, M3.det]; rw [abs_lt]; constructor <;> norm_num

theorem const_matrices_invertible : M3.det g50Mat ≠ 0 ∧ M3.det gcrfBiasMat ≠ 0 := by
  constructor
  · simp only [g50Mat, M3.det]; norm_num
  · simp only [gcrfBiasMat, M3.det]; norm_num

/-- the provider table of the model is the list of `A_to_B` methods found in orient.py on this run -/
theorem providers_match : providerNames = Generated.orientProviders := by decide

/-! ## `expand` -/

/-- **`expand(R, w)` applied to (r, v) is (R r, R v − w × R r)** -/
theorem expand_apply (m : M3) (w p v : V3) :
    (expand m (some w)).apply p v = (m.apply p, (m.apply v).sub (w.cross (m.apply p))) := by
  simp only [expand, T6.apply]
  refine Prod.ext rfl ?_
  ext <;> simp only [V3.add, V3.sub, V3.cross, M3.apply, M3.mul, M3.neg, M3.skew] <;> ring

theorem expand_apply_none (m : M3) (p v : V3) : (expand m none).apply p v = (m.apply p, m.apply v) := by
  simp only [expand, T6.apply]
  refine Prod.ext rfl ?_
  ext <;> simp [V3.add, M3.apply, M3.zero]

/-- **the inverse used for reverse edges (`np.linalg.inv(expand(R, w))`) is a two-sided inverse** whenever R is a rotation
(more generally whenever det R ≠ 0) -/
theorem expand_inv_mul (m : M3) (w : Option V3) (hm : M3.IsRotation m) :
    T6.mul (T6.inv (expand m w)) (expand m w) = T6.one ∧ T6.mul (expand m w) (T6.inv (expand m w)) = T6.one := by
  have hd : M3.det (expand m w).r ≠ 0 := by
    cases w <;> simp only [expand] <;> rw [hm.2.2] <;> exact one_ne_zero
  exact ⟨T6.inv_mul _ hd, T6.mul_inv _ hd⟩

/-- **between frames sharing a centre the position map preserves norms** -/
theorem norm_preserved (M : T6) (hM : M3.IsRotation M.r) (p v : V3) :
    V3.dot (M.apply p v).1 (M.apply p v).1 = V3.dot p p := by
  simp only [T6.apply]
  exact hM.dot_apply p p

/-- rotation-then-offset (`Frame.transform`: `m @ x + offset`) composed with the reverse transformation (inverse matrix,
offset `-(m⁻¹ offset)`) is the identity -/
theorem affine_roundtrip (M M' : T6) (h : T6.mul M' M = T6.one) (p v op ov : V3) :
    let x := M.apply p v
    let y := (x.1.add op, x.2.add ov)
    let o' := M'.apply op ov
    let z := M'.apply y.1 y.2
    (z.1.add o'.1.neg, z.2.add o'.2.neg) = (p, v) := by
  intro x y o' z
  have hr := congrArg T6.r h
  have hb := congrArg T6.b h
  have hid := T6.apply_mul M' M p v
  rw [h, T6.apply_one] at hid
  have h1 := congrArg Prod.fst hid
  have h2 := congrArg Prod.snd hid
  simp only [T6.apply] at h1 h2
  refine Prod.ext ?_ ?_
  · have e1 := congrArg V3.x h1; have e2 := congrArg V3.y h1; have e3 := congrArg V3.z h1
    simp only [M3.apply] at e1 e2 e3
    ext <;> simp only [z, y, x, o', T6.apply, V3.add, V3.neg, M3.apply] <;> linarith
  · have e1 := congrArg V3.x h2; have e2 := congrArg V3.y h2; have e3 := congrArg V3.z h2
    simp only [M3.apply, V3.add] at e1 e2 e3
    ext <;> simp only [z, y, x, o', T6.apply, V3.add, V3.neg, M3.apply] <;> linarith

end BeyondVerif.C02
