import BeyondVerif.Props.C13Wf
/-!
C13, KVN encodings of OPM and OMM: the dict builder `kvn2dict` on the blocks the writers produce.

* `kvnFold_append`: a message is processed block by block.
* `kvnFold_plain`: a block of ordinary lines (blank, comment, `KEY = value [unit]` with a non-`MAN_` key,
  bare words) whose keys are new and pairwise distinct appends its key/value pairs to `data`.
* `kvnFold_mans`: the lines written for any number of maneuvers are grouped into one dict per maneuver
  (a new one at each `MAN_EPOCH_IGNITION`, the comment of the line before attached).
* `kvnFold_ud`: user-defined lines are collected, in order, under one key.
* `kvn2dict_blocks`: the three kinds of blocks in sequence.
* readers: `mapM_loadManKvn`, `loadCov_congr`, `kvnUd_finalDict`.
-/
namespace BeyondVerif.C13
open BeyondVerif.Ccsds BeyondVerif.Generated

/-! ### dict primitives -/

theorem lookup_none_of_not_mem (d : Dict) (k : String) (h : k ∉ d.map (·.1)) : d.lookup k = none := by
  induction d with
  | nil => rfl
  | cons kv r ih =>
    obtain ⟨k', x⟩ := kv
    simp only [List.map_cons, List.mem_cons, not_or] at h
    have hne : (k == k') = false := by simpa using h.1
    simp [List.lookup_cons, hne, ih h.2]

theorem setKey_new (d : Dict) (k : String) (v : Val) (h : d.lookup k = none) : setKey d k v = d ++ [(k, v)] := by
  induction d with
  | nil => rfl
  | cons kv r ih =>
    obtain ⟨k', x⟩ := kv
    simp only [List.lookup_cons] at h
    split at h
    · exact absurd h (by simp)
    · rename_i hk
      have hne : k' ≠ k := by
        intro e; subst e; simp at hk
      simp [setKey, hne, ih h]

theorem setKey_mid (d : Dict) (t : String) (v w : Val) (rest : Dict) (h : d.lookup t = none) :
    setKey (d ++ (t, v) :: rest) t w = d ++ (t, w) :: rest := by
  induction d with
  | nil => simp [setKey]
  | cons kv r ih =>
    obtain ⟨k', x⟩ := kv
    simp only [List.lookup_cons] at h
    split at h
    · exact absurd h (by simp)
    · rename_i hk
      have hne : k' ≠ t := by
        intro e; subst e; simp at hk
      simp [setKey, hne, ih h]

theorem lookup_append_of_none (a b : Dict) (k : String) (h : a.lookup k = none) : (a ++ b).lookup k = b.lookup k := by
  simp [List.lookup_append, h]

theorem lookup_append_of_some (a b : Dict) (k : String) (v : Val) (h : a.lookup k = some v) : (a ++ b).lookup k = some v := by
  simp [List.lookup_append, h]

/-! ### `kvnFold`, block by block -/

theorem kvnFold_append (a b : List Line) (st : KvnSt) : kvnFold (a ++ b) st = kvnFold a st >>= kvnFold b := by
  induction a generalizing st with
  | nil => rfl
  | cons l ls ih =>
    simp only [List.cons_append, kvnFold]
    cases kvnStep st l with
    | error e => rfl
    | ok st' => exact ih st'

/-- the key/value pair an ordinary line contributes -/
def linePair : Line → Option (String × Val)
  | .kv k v u => some (k, .field v (unitAttrib u))
  | .word w => some (w, .field (.s "") [])
  | _ => none

/-- ordinary lines: everything the OPM/OMM writers emit outside the maneuver and user-defined blocks -/
def linePlain : Line → Bool
  | .blank => true
  | .comment _ => true
  | .kv k _ _ => !manKeys.contains k
  | .word _ => true
  | _ => false

/-- the pending comment after a block of ordinary lines -/
def prevOf : List Line → Option String → Option String
  | [], p => p
  | .comment c :: ls, _ => prevOf ls (some c)
  | _ :: ls, _ => prevOf ls none

theorem kvnFold_plain_fold (ls : List Line) (st : KvnSt) (h : ls.all linePlain = true) :
    kvnFold ls st = .ok { data := (ls.filterMap linePair).foldl (fun d p => setKey d p.1 p.2) st.data, mans := st.mans,
                          prev := prevOf ls st.prev } := by
  induction ls generalizing st with
  | nil => rfl
  | cons l ls ih =>
    simp only [List.all_cons, Bool.and_eq_true] at h
    obtain ⟨hl, hr⟩ := h
    cases l with
    | blank => simp [kvnFold, kvnStep, ih _ hr, List.filterMap_cons, linePair, prevOf]
    | comment c => simp [kvnFold, kvnStep, ih _ hr, List.filterMap_cons, linePair, prevOf]
    | kv k v u =>
      have hk : k ∉ manKeys := by simpa [linePlain] using hl
      simp [kvnFold, kvnStep, hk, ih _ hr, linePair, prevOf]
    | word w => simp [kvnFold, kvnStep, ih _ hr, linePair, prevOf]
    | row _ => simp [linePlain] at hl
    | obs _ _ _ => simp [linePlain] at hl
    | ud _ _ => simp [linePlain] at hl

theorem foldl_setKey_fresh (ps d : Dict) (h : ((d ++ ps).map (·.1)).Nodup) :
    ps.foldl (fun d p => setKey d p.1 p.2) d = d ++ ps := by
  induction ps generalizing d with
  | nil => simp
  | cons p r ih =>
    have hp : d.lookup p.1 = none := by
      apply lookup_none_of_not_mem
      simp only [List.map_append, List.map_cons] at h
      have := (List.nodup_append.mp h).2.2
      intro hm
      exact this _ hm _ (by simp) rfl
    simp only [List.foldl_cons]
    rw [setKey_new d p.1 p.2 hp, ih (d ++ [(p.1, p.2)]) (by simpa using h)]
    simp

/-- **ordinary block**: lines with new, pairwise distinct, non-`MAN_` keys append their pairs to `data` -/
theorem kvnFold_plain (ls : List Line) (st : KvnSt) (h : ls.all linePlain = true)
    (hn : ((st.data ++ ls.filterMap linePair).map (·.1)).Nodup) :
    kvnFold ls st = .ok { data := st.data ++ ls.filterMap linePair, mans := st.mans, prev := prevOf ls st.prev } := by
  rw [kvnFold_plain_fold ls st h, foldl_setKey_fresh _ _ hn]

/-! ### maneuvers -/

/-- the dict `kvn2dict` builds for the lines of one maneuver -/
def manDictKvn (own : String) (m : Man) : Dict :=
  (match m.comment with | some c => [("COMMENT", Val.field (.s c) [])] | none => []) ++
  [("MAN_EPOCH_IGNITION", .field m.epoch []), ("MAN_DURATION", .field (.n m.dur) [("units", "s")]),
   ("MAN_DELTA_MASS", .field (.s "0.000") [("units", "kg")]), ("MAN_REF_FRAME", .field (.s (manFrameOut own m)) [])] ++
  (["MAN_DV_1", "MAN_DV_2", "MAN_DV_3"].zip m.dv).map fun (k, v) => (k, Val.field v [("units", "km/s")])

/-- the placeholder `kvn2dict` leaves in `data` at the first maneuver (it fixes the position of the key) -/
def ensureMans (d : Dict) : Dict :=
  match d.lookup "maneuvers" with
  | none => d ++ [("maneuvers", .list [])]
  | some _ => d

theorem ensureMans_idem (d : Dict) : ensureMans (ensureMans d) = ensureMans d := by
  unfold ensureMans
  cases h : d.lookup "maneuvers" with
  | none => simp [lookup_append_single d "maneuvers" _ h]
  | some v => simp [h]

theorem appendLast_snoc (ms : List Dict) (x : Dict) (k : String) (v : Val) :
    appendLast (ms ++ [x]) k v = some (ms ++ [setKey x k v]) := by
  simp [appendLast]

/-- **one maneuver**: blank line, optional comment, the seven `MAN_` lines -/
theorem kvnFold_man (own : String) (m : Man) (hdv : ∃ a b c, m.dv = [a, b, c]) (st : KvnSt) :
    kvnFold (manKvn own m) st = .ok { data := ensureMans st.data, mans := st.mans ++ [manDictKvn own m], prev := none } := by
  obtain ⟨dur, epoch, frame, comment, dv⟩ := m
  obtain ⟨a, b, c, hdv⟩ := hdv
  simp only at hdv
  subst hdv
  cases comment with
  | none =>
    cases hl : st.data.lookup "maneuvers" <;>
      simp [manKvn, kvnFold, kvnStep, manKeys, appendLast_snoc, setKey, ensureMans, manDictKvn, unitAttrib, hl]
  | some cm =>
    cases hl : st.data.lookup "maneuvers" <;>
      simp [manKvn, kvnFold, kvnStep, manKeys, appendLast_snoc, setKey, ensureMans, manDictKvn, unitAttrib, hl]

/-- **any number of maneuvers** -/
theorem kvnFold_mans (own : String) (ms : List Man) (hdv : ∀ m ∈ ms, ∃ a b c, m.dv = [a, b, c]) (st : KvnSt) :
    kvnFold (ms.flatMap (manKvn own)) st =
      .ok { data := if ms.isEmpty then st.data else ensureMans st.data, mans := st.mans ++ ms.map (manDictKvn own),
            prev := if ms.isEmpty then st.prev else none } := by
  induction ms generalizing st with
  | nil => simp [kvnFold]
  | cons m r ih =>
    rw [List.flatMap_cons, kvnFold_append, kvnFold_man own m (hdv m (by simp)) st]
    show kvnFold (r.flatMap (manKvn own)) _ = _
    rw [ih (fun x hx => hdv x (by simp [hx]))]
    cases r with
    | nil => simp
    | cons m' r' => simp [ensureMans_idem]

/-- the loader's maneuver code reads the KVN dict of a maneuver back (same reader as in XML; only the text of
`MAN_DELTA_MASS`, which it ignores, differs) -/
theorem loadMan_kvn (own : String) (m : Man) (hdv : ∃ a b c, m.dv = [a, b, c]) :
    loadMan own (manDictKvn own m) = .ok { m with frame := manFrameBack own m } := by
  obtain ⟨dur, epoch, frame, comment, dv⟩ := m
  obtain ⟨a, b, c, hdv⟩ := hdv
  simp only at hdv
  subst hdv
  cases comment <;>
    simp [loadMan, manDictKvn, textOf, getItem, Val.text, decodeUnit, strOf, unitNames, manFrameBack, List.lookup, bind, Except.bind,
      pure, Except.pure]

theorem mapM_loadManKvn (own : String) (ms : List Man) (hdv : ∀ m ∈ ms, ∃ a b c, m.dv = [a, b, c]) :
    (ms.map (manDictKvn own)).mapM (loadMan own) = (.ok (ms.map fun m => { m with frame := manFrameBack own m }) : R (List Man)) := by
  induction ms with
  | nil => rfl
  | cons m r ih =>
    have h1 := loadMan_kvn own m (hdv m (by simp))
    have h2 := ih (fun x hx => hdv x (by simp [hx]))
    simp [List.mapM_cons, h1, h2, bind, Except.bind, pure, Except.pure]

/-! ### user-defined lines -/

def udPairs (kvs : List (String × String)) : Dict := kvs.map fun kv => (kv.1, Val.field (.s kv.2) [])

/-- what the user-defined lines leave in `data`: nothing for an absent or empty dict, one sub-dict otherwise -/
def udEntry : Option (List (String × String)) → Dict
  | none => []
  | some [] => []
  | some (kv :: r) => [("USER_DEFINED", .dict (udPairs (kv :: r)))]

theorem addUd_acc (d : Dict) (hd : d.lookup "USER_DEFINED" = none) (u : Dict) (name : String) (v : Val) (hn : name ∉ u.map (·.1)) :
    addUd (d ++ [("USER_DEFINED", .dict u)]) name v = d ++ [("USER_DEFINED", .dict (u ++ [(name, v)]))] := by
  simp only [addUd, lookup_append_single d "USER_DEFINED" _ hd, setKey_append_single d "USER_DEFINED" _ _ hd,
    setKey_new u name v (lookup_none_of_not_mem u name hn)]

def udLine (kv : String × String) : Line := .ud kv.1 (.s kv.2)

theorem udKvn_some (kvs : List (String × String)) : udKvn (some kvs) = Line.blank :: kvs.map udLine := by
  have : (fun (x : String × String) => match x with | (k, v) => Line.ud k (.s v)) = udLine := by
    funext x; obtain ⟨k, v⟩ := x; rfl
  simp only [udKvn, this, List.cons_append, List.nil_append]

theorem kvnFold_udLines (d : Dict) (hd : d.lookup "USER_DEFINED" = none) (mans : List Dict) (kvs : List (String × String)) :
    ∀ (u : Dict) (p : Option String), ((u.map (·.1)) ++ kvs.map (·.1)).Nodup →
      kvnFold (kvs.map udLine) { data := d ++ [("USER_DEFINED", .dict u)], mans := mans, prev := p } =
        .ok { data := d ++ [("USER_DEFINED", .dict (u ++ udPairs kvs))], mans := mans, prev := if kvs.isEmpty then p else none } := by
  induction kvs with
  | nil => intro u p _; simp [kvnFold, udPairs]
  | cons kv r ih =>
    intro u p hn
    obtain ⟨k, v⟩ := kv
    have hk : k ∉ u.map (·.1) := by
      have := (List.nodup_append.mp hn).2.2
      intro hm
      exact this _ hm _ (by simp) rfl
    simp only [List.map_cons, kvnFold, kvnStep, udLine]
    rw [addUd_acc d hd u k _ hk]
    have := ih (u ++ [(k, .field (.s v) [])]) none (by simpa using hn)
    rw [this]
    simp [udPairs]

/-- **user-defined block**: any number of fields with distinct names -/
theorem kvnFold_ud (ud : Option (List (String × String))) (hnd : ∀ kvs, ud = some kvs → (kvs.map (·.1)).Nodup)
    (st : KvnSt) (hd : st.data.lookup "USER_DEFINED" = none) :
    kvnFold (udKvn ud) st = .ok { data := st.data ++ udEntry ud, mans := st.mans, prev := if ud.isSome then none else st.prev } := by
  match ud, hnd with
  | none, _ => simp [udKvn, kvnFold, udEntry]
  | some [], _ => simp [udKvn, kvnFold, kvnStep, udEntry]
  | some ((k, v) :: r), hnd =>
    have hn := hnd _ rfl
    have := kvnFold_udLines st.data hd st.mans r [(k, .field (.s v) [])] none (by simpa using hn)
    rw [udKvn_some]
    simp only [List.map_cons, kvnFold, kvnStep, addUd, hd, udLine]
    rw [setKey_new st.data _ _ hd, this]
    simp [udEntry, udPairs]

/-- the pairs `kvnUd` extracts from a sub-dict -/
def udBack (u : Dict) : List (String × String) :=
  u.filterMap fun (k, v) =>
    match v with
    | .field (.s t) _ => some (k, t)
    | _ => none

theorem kvnUd_eq (D : Dict) : kvnUd D = match D.lookup "USER_DEFINED" with
    | some (.dict u) => if (udBack u).isEmpty then none else some (udBack u)
    | _ => none := rfl

theorem udBack_udPairs (l : List (String × String)) : udBack (udPairs l) = l := by
  induction l with
  | nil => rfl
  | cons a b ih =>
    simp only [udBack, udPairs, List.map_cons, List.filterMap_cons] at ih ⊢
    rw [ih]

theorem kvnUd_of_lookup (D : Dict) (kv : String × String) (r : List (String × String))
    (h : D.lookup "USER_DEFINED" = some (.dict (udPairs (kv :: r)))) : kvnUd D = some (kv :: r) := by
  rw [kvnUd_eq, h]
  simp only [udBack_udPairs]
  rfl

theorem kvnUd_of_none (D : Dict) (h : D.lookup "USER_DEFINED" = none) : kvnUd D = none := by
  rw [kvnUd_eq, h]

/-! ### the three kinds of blocks in sequence -/

/-- the dict `kvn2dict` returns: pairs of the ordinary lines, then the list of maneuver dicts (if any), then the user-defined sub-dict (if any) -/
def finalDict (base : Dict) (mans : List Dict) (ud : Option (List (String × String))) : Dict :=
  base ++ ((if mans.isEmpty then [] else [("maneuvers", Val.list (mans.map .dict))]) ++ udEntry ud)

theorem kvn2dict_blocks (own : String) (plain : List Line) (ms : List Man) (ud : Option (List (String × String)))
    (hp : plain.all linePlain = true) (hn : ((plain.filterMap linePair).map (·.1)).Nodup)
    (hm : "maneuvers" ∉ (plain.filterMap linePair).map (·.1)) (hu : "USER_DEFINED" ∉ (plain.filterMap linePair).map (·.1))
    (hdv : ∀ m ∈ ms, ∃ a b c, m.dv = [a, b, c]) (hnd : ∀ kvs, ud = some kvs → (kvs.map (·.1)).Nodup) :
    kvn2dict (plain ++ ms.flatMap (manKvn own) ++ udKvn ud) =
      .ok (finalDict (plain.filterMap linePair) (ms.map (manDictKvn own)) ud) := by
  have hm' := lookup_none_of_not_mem _ _ hm
  have hu' := lookup_none_of_not_mem _ _ hu
  have h1 := kvnFold_plain plain {} hp (by simpa using hn)
  simp only [List.nil_append] at h1
  have hens : ensureMans (plain.filterMap linePair) = plain.filterMap linePair ++ [("maneuvers", .list [])] := by
    simp only [ensureMans, hm']
  unfold kvn2dict
  rw [kvnFold_append, kvnFold_append, h1]
  simp only [bind, Except.bind]
  rw [kvnFold_mans own ms hdv]
  cases ms with
  | nil =>
    simp only [List.isEmpty_nil, if_true, List.map_nil, List.append_nil]
    rw [kvnFold_ud ud hnd _ hu']
    simp [finalDict]
  | cons m r =>
    simp only [List.isEmpty_cons, Bool.false_eq_true, if_false, hens]
    rw [kvnFold_ud ud hnd _ (by
      show List.lookup "USER_DEFINED" (List.filterMap linePair plain ++ [("maneuvers", Val.list [])]) = none
      rw [lookup_append_of_none _ _ _ hu']; rfl)]
    simp only [List.nil_append, List.map_cons, List.isEmpty_cons, Bool.false_eq_true, if_false, finalDict, List.append_assoc,
      List.cons_append]
    rw [setKey_mid _ _ _ _ _ hm']

/-! ### the covariance reader only looks at its own keys -/

theorem mapM_congr' {α β : Type} (f g : α → R β) (l : List α) (h : ∀ x ∈ l, f x = g x) : l.mapM f = l.mapM g := by
  induction l with
  | nil => rfl
  | cons a r ih =>
    simp only [List.mapM_cons]
    rw [h a (by simp), ih (fun x hx => h x (by simp [hx]))]

/-- keys `load_cov` reads -/
def covReadKeys : List String := "COV_REF_FRAME" :: covRead.flatten

theorem loadCov_congr (own : String) (d d' : Dict) (h : ∀ k ∈ covReadKeys, d.lookup k = d'.lookup k) :
    loadCov own d = loadCov own d' := by
  unfold loadCov
  rw [h "COV_REF_FRAME" (by simp [covReadKeys])]
  have : (covRead.mapM fun row => row.mapM fun k => textOf d k) = (covRead.mapM fun row => row.mapM fun k => textOf d' k) := by
    apply mapM_congr'
    intro row hrow
    apply mapM_congr'
    intro k hk
    have hm : k ∈ covReadKeys := by
      simp only [covReadKeys, List.mem_cons, List.mem_flatten]
      exact Or.inr ⟨row, hrow, hk⟩
    simp only [textOf, getItem, h k hm]
  rw [this]

end BeyondVerif.C13
