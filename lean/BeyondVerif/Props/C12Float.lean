import BeyondVerif.Props.C12
import BeyondVerif.Lemmas.TleEpoch
/-!
# C12 — the float side: off-grid orbits, rounding to the printed grid, carries, second generation

`Props/C12.lean` speaks about records of printed units.  Here the numbers `Tle.from_orbit` hands to `str.format` are
arbitrary doubles, each with its exact rational value (`Model/TleQuant.lean`; the assumption: CPython's float
formatting is correctly rounded, half-even on the exact binary value).

* every fixed-point field, the day of the year and the five digits of a drag term are the grid value NEAREST to the
  number formatted: `format_within_half_unit`, `epoch_within_half_unit`, `drag_exponent_found`, `drag_five_digits`;
* the epoch for all years 1957–2056: century pivot, leap years, year-end carry (`epoch_century`, `epoch_within_half_unit`);
* whatever the rounding produces inside the writer's domain — the carries `360.0000`, day `N+1.00000000`, `00000-9`
  included — fills 69 columns (`offgrid_written_valid`), is read back as itself, and from the SECOND generation on
  parse → write is the identity: `wide_roundtrip`, `second_generation_fixed`, `offgrid_idempotent_from_second_generation`.
-/
namespace BeyondVerif.C12
open BeyondVerif.Tle

/-! ## every number is printed as the nearest grid value -/

/-- **every fixed-point field is preserved to its printed precision**: for EVERY double `x = num/den` and every number
`p` of decimals, `"{:.pf}".format(x)` prints the integer `v = fixQ p x` of units `10^-p` with `|v·10^-p − x| ≤ ½·10^-p`
(stated without division: `|v·den − num·10^p| ≤ den/2`). Angles (`p = 4`), eccentricity (7), mean motion and ṅ/2 (8). -/
theorem format_within_half_unit (p : Nat) (x : Q) (hd : 0 < x.den) :
    2 * (fixQ p x * x.den) ≤ 2 * (x.num * 10 ^ p) + x.den ∧ 2 * (x.num * 10 ^ p) ≤ 2 * (fixQ p x * x.den) + x.den :=
  roundDiv_bounds _ _ hd

/-- a value between 0 and 360 (what `np.degrees(a) % 360` returns, 360.0 itself included for a tiny negative angle) is
printed between `0.0000` and `360.0000` -/
theorem angle_grid_range (x : Q) (hd : 0 < x.den) (h0 : 0 ≤ x.num) (h1 : x.num ≤ 360 * x.den) :
    0 ≤ fixQ 4 x ∧ fixQ 4 x ≤ 3600000 := by
  constructor
  · exact roundDiv_nonneg _ _ hd (Int.mul_nonneg h0 (by decide))
  · apply roundDiv_le_of_le_mul _ _ _ hd
    have : x.num * 10 ^ 4 ≤ 360 * (x.den : Int) * 10 ^ 4 := Int.mul_le_mul_of_nonneg_right h1 (by decide)
    have e : (360 : Int) * (x.den : Int) * 10 ^ 4 = 3600000 * x.den := by
      rw [Int.mul_right_comm]; rfl
    omega

/-! ### the angle handed to `{:8.4f}` is wrapped into one turn by Python's `%` (`wrapDeg`), whatever representative the orbit holds -/

/-- `x % 360` lies in `[0, 360)` for EVERY value `x`, negative ones included -/
theorem wrap_range (x : Q) (hd : 0 < x.den) : 0 ≤ (wrapDeg x).num ∧ (wrapDeg x).num < 360 * (wrapDeg x).den := by
  have hp : (0 : Int) < 360 * (x.den : Int) := by omega
  exact ⟨Int.emod_nonneg _ (by omega), Int.emod_lt_of_pos _ hp⟩

/-- `x % 360` is the same angle: it differs from `x` by a whole number of turns -/
theorem wrap_same_angle (x : Q) : (wrapDeg x).den = x.den ∧ ∃ k : Int, x.num = (wrapDeg x).num + k * (360 * (x.den : Int)) := by
  refine ⟨rfl, x.num / (360 * (x.den : Int)), ?_⟩
  show x.num = x.num % (360 * (x.den : Int)) + x.num / (360 * (x.den : Int)) * (360 * (x.den : Int))
  have := Int.emod_add_mul_ediv x.num (360 * (x.den : Int))
  rw [Int.mul_comm (x.num / _)]; omega

/-- **representatives of one angle are written alike**: adding whole turns to the angle does not change the number formatted -/
theorem wrap_turn_invariant (x : Q) (k : Int) : wrapDeg ⟨x.num + k * (360 * (x.den : Int)), x.den⟩ = wrapDeg x := by
  show (⟨(x.num + k * (360 * (x.den : Int))) % (360 * (x.den : Int)), x.den⟩ : Q) = ⟨x.num % (360 * (x.den : Int)), x.den⟩
  rw [Int.add_mul_emod_self_right]

/-- **every angle fits its eight columns without a sign**: for EVERY value `x` (any representative: negative, several turns),
`"{:8.4f}".format(x % 360)` shows between `0.0000` and `360.0000` -/
theorem wrapped_angle_fits_columns (x : Q) (hd : 0 < x.den) : 0 ≤ fixQ 4 (wrapDeg x) ∧ fixQ 4 (wrapDeg x) ≤ 3600000 := by
  have h := wrap_range x hd
  exact angle_grid_range (wrapDeg x) hd h.1 (Int.le_of_lt h.2)

example : fixQ 4 ⟨1, 32⟩ = 312 ∧ fixQ 4 ⟨3, 32⟩ = 938 ∧ fixQ 4 ⟨35999995, 100000⟩ = 3600000 ∧ fixQ 4 ⟨360, 1⟩ = 3600000 := by decide

/-- **the decimal exponent of a drag term is found for every double**: for every `x = n/d` with `1e-400 ≤ x < 1e400`
(every finite non-zero double), `j = magQ n d` satisfies `10^(j-401) ≤ x < 10^(j-400)` -/
theorem drag_exponent_found (n d : Nat) (hlo : ltPow10 n d 0 = false) (hhi : ltPow10 n d 800 = true) :
    1 ≤ magQ n d ∧ magQ n d ≤ 800 ∧ n * 10 ^ 400 < 10 ^ magQ n d * d ∧ 10 ^ (magQ n d - 1) * d ≤ n * 10 ^ 400 := by
  obtain ⟨a, b, c, e⟩ := magQ_spec n d hlo hhi
  simp only [ltPow10, decide_eq_true_eq, decide_eq_false_iff_not, Nat.not_lt] at c e
  exact ⟨a, b, c, e⟩

/-- **a drag term is preserved to five significant digits**: with `j` the (offset) decimal exponent of `x = n/d`, the
five digits `m = sig5Q n d j` are the integer nearest to `x · 10^(405-j)` (`|m − x·10^(405-j)| ≤ ½`), and lie between
10000 and 100000 (the latter when `99999.5…` rounds up: written `10000` with the next exponent) -/
theorem drag_five_digits (n d : Nat) (hd : 0 < d) (hlo : ltPow10 n d 0 = false) (hhi : ltPow10 n d 800 = true) :
    10000 ≤ sig5Q n d (magQ n d) ∧ sig5Q n d (magQ n d) ≤ 100000 ∧
    (magQ n d ≤ 405 → 2 * (sig5Q n d (magQ n d) * d) ≤ 2 * (n * 10 ^ (405 - magQ n d)) + d ∧
        2 * (n * 10 ^ (405 - magQ n d)) ≤ 2 * (sig5Q n d (magQ n d) * d) + d) ∧
    (405 < magQ n d → 2 * (sig5Q n d (magQ n d) * (d * 10 ^ (magQ n d - 405))) ≤ 2 * n + d * 10 ^ (magQ n d - 405) ∧
        2 * n ≤ 2 * (sig5Q n d (magQ n d) * (d * 10 ^ (magQ n d - 405))) + d * 10 ^ (magQ n d - 405)) := by
  obtain ⟨a, _, c, e⟩ := magQ_spec n d hlo hhi
  obtain ⟨r1, r2⟩ := sig5Q_range n d (magQ n d) hd a c e
  obtain ⟨c1, c2⟩ := sig5Q_close n d (magQ n d) hd
  exact ⟨r1, r2, c1, c2⟩

/-- what `_unfloat` prints for a non-zero double of magnitude at least 1e-10: the sign, five digits `10000 … 99999`,
an exponent `≥ −9`; it fits its eight columns exactly when that exponent is at most 9 -/
theorem drag_normal_form (neg : Bool) (x : Q) (hd : 0 < x.den) (hx : 0 < x.num)
    (hlo : ltPow10 x.num.toNat x.den 0 = false) (hhi : ltPow10 x.num.toNat x.den 800 = true)
    (s : Bool) (m5 : Nat) (exp : Int) (h : unflQ neg x = .val s m5 exp) :
    s = neg ∧ 10000 ≤ m5 ∧ m5 < 100000 ∧ -9 ≤ exp ∧ (exp ≤ 9 → WideUnfl (unflQ neg x)) := by
  obtain ⟨r1, r2, _, _⟩ := drag_five_digits x.num.toNat x.den hd hlo hhi
  have h0 := h
  unfold unflQ at h
  rw [if_neg (by omega)] at h
  simp only at h
  generalize sig5Q x.num.toNat x.den (magQ x.num.toNat x.den) = m at *
  generalize magQ x.num.toNat x.den = j at *
  by_cases hexp : ((if m = 100000 then j + 1 else j : Nat) : Int) - 400 < -9
  · rw [if_pos hexp] at h; cases h
  · rw [if_neg hexp] at h
    injection h with h1 h2 h3
    have hm1 : 10000 ≤ m5 := by rw [← h2]; split <;> omega
    have hm2 : m5 < 100000 := by rw [← h2]; split <;> omega
    have he : -9 ≤ exp := by rw [← h3]; omega
    refine ⟨h1.symm, hm1, hm2, he, ?_⟩
    intro h9
    rw [h0]
    exact Or.inl (Or.inr ⟨s, m5, exp, rfl, hm1, hm2, he, h9⟩)

example : unflQ true ⟨11606, 1000000000⟩ = .val true 11606 (-4) ∧ unflQ false ⟨999996, 10000000000000000⟩ = .val false 10000 (-9) ∧
    unflQ false ⟨0, 1⟩ = .zero ∧ unflQ true ⟨3, 1000000000000000⟩ = .small true 0 ∧ unflQ false ⟨1795, 1000000000000000⟩ = .small false 180 := by
  decide +kernel

/-! ## the epoch: all years 1957–2056 -/

theorem isLeap_iff (y : Nat) : (if Tle.isLeap y = true then (367 : Nat) else 366) = (if Sgp4Wrap.isLeap y then 366 else 365) + 1 := by
  by_cases h : Sgp4Wrap.isLeap y
  · rw [if_pos h, if_pos ((isLeap_bridge y).2 h)]
  · rw [if_neg h, if_neg (fun hc => h ((isLeap_bridge y).1 hc))]

/-- **century handling, all years**: for every year 1957–2056 the two-digit year written is read back as that year
(pivot 57), and for no other two-digit value -/
theorem epoch_century : ∀ Y : Nat, 1957 ≤ Y → Y ≤ 2056 → fullYear (Y % 100) = Y ∧ century ((Y % 100 : Nat) : Int) = .ok Y := by
  intro Y h1 h2
  have : fullYear (Y % 100) = Y := by unfold fullYear; split <;> omega
  exact ⟨this, by rw [century_nat, this]⟩

/-- **the epoch is preserved to 1e-8 day, for every instant of 1957–2056**: the instant `us` microseconds into year `Y`
(UTC) is written with the two-digit year of `Y` and a day field that `Tle.__init__` reads back as an instant of year `Y`
at most 432 µs (half of 1e-8 day) away; the day field lies between `001.00000000` and `(days of the year + 1).00000000`,
the upper end being reached only in the last 432 µs of the year. -/
theorem epoch_within_half_unit (Y us : Nat) (hY1 : 1957 ≤ Y) (hY2 : Y ≤ 2056)
    (hus : us < (if Sgp4Wrap.isLeap Y then 366 else 365) * 86400000000) :
    fullYear (epochOfAbs (absOfYear Y us)).1 = Y ∧
    100000000 ≤ (epochOfAbs (absOfYear Y us)).2 ∧
    (epochOfAbs (absOfYear Y us)).2 ≤ (if Tle.isLeap Y = true then 367 else 366) * 100000000 ∧
    (((epochOfAbs (absOfYear Y us)).2 : Int) - 100000000) * 864 - us ≤ 432 ∧
    (us : Int) - (((epochOfAbs (absOfYear Y us)).2 : Int) - 100000000) * 864 ≤ 432 ∧
    ((epochOfAbs (absOfYear Y us)).2 = (if Tle.isLeap Y = true then 367 else 366) * 100000000 →
      (if Sgp4Wrap.isLeap Y then 366 else 365) * 86400000000 ≤ us + 432) := by
  obtain ⟨e1, f, hf, e2, b1, b2⟩ := epochOfAbs_spec Y us (by omega) hus
  rw [e1, e2, isLeap_iff]
  refine ⟨(epoch_century Y hY1 hY2).1, by omega, ?_, by omega, by omega, ?_⟩
  · have : us / 86400000000 < (if Sgp4Wrap.isLeap Y then 366 else 365) := by split at hus <;> simp_all <;> omega
    generalize (if Sgp4Wrap.isLeap Y then 366 else 365) = L at *
    omega
  · generalize (if Sgp4Wrap.isLeap Y then 366 else 365) = L at *
    intro h
    omega

/-- day 366 of 2024 (a leap year), the last microsecond of 1999, the first of 1957 -/
example : epochOfAbs (absOfYear 2024 (365 * 86400000000 + 43200000000)) = (24, 36650000000) ∧
    epochOfAbs (absOfYear 1999 (365 * 86400000000 - 1)) = (99, 36600000000) ∧ epochOfAbs (absOfYear 1957 0) = (57, 100000000) := by decide

/-! ## carries and the second generation -/

/-- an angle printed `360.0000` is read as `0.0000` (`% 360` of the writer) -/
def normAngle (v : Nat) : Nat := if v = 3600000 then 0 else v

/-- what `_unfloat` prints for the value read from a drag term: `00000-9` is zero (`00000-0`), a five-digit mantissa with
exponent −9 is a canonical term, a shorter one stays as it is -/
def normUnfl : Unfl → Unfl
  | .small neg d => if d = 0 then .zero else if d < 10000 then .small neg d else .val neg d (-9)
  | u => u

/-- the day after the last of the year -/
def yearEnd (r : Rec) : Bool := r.day8 == (if isLeap (fullYear r.yy) then 367 else 366) * 100000000

/-- the record as the SECOND generation shows it: the same angles modulo 360, the same instant (day 1 of the next year),
the same drag values -/
def normRec (r : Rec) : Rec :=
  { r with yy := if yearEnd r then (fullYear r.yy + 1) % 100 else r.yy,
           day8 := if yearEnd r then 100000000 else r.day8,
           ndd := normUnfl r.ndd, bstar := normUnfl r.bstar,
           inc4 := normAngle r.inc4, raan4 := normAngle r.raan4, argp4 := normAngle r.argp4, ma4 := normAngle r.ma4 }

theorem angle4_wide (v : Nat) (h : v ≤ 3600000) : angle4 ⟨false, v, 4⟩ = .ok (normAngle v) := by
  by_cases hv : v = 3600000
  · subst hv; rfl
  · rw [angle4_grid v (by omega)]; simp [normAngle, hv]

theorem toUnfl_wide {u : Unfl} (h : WideUnfl u) : toUnfl (decOfUnfl u) = normUnfl u := by
  rcases h with h | ⟨neg, d, rfl, hd⟩
  · rw [(canon_read h).2]
    rcases h with rfl | ⟨neg, m5, exp, rfl, _⟩ <;> rfl
  · simp only [decOfUnfl, normUnfl]
    by_cases h0 : d = 0
    · subst h0; rfl
    · rw [if_neg h0]
      unfold toUnfl
      simp only [h0, if_false]
      by_cases h4 : d < 10000
      · rw [if_pos h4]
        have hl : (natStr d).length ≤ 4 := natStr_length_le 4 d (by omega) (by omega)
        have hs : sig5 d = (d * 10 ^ (5 - (natStr d).length), -((5 - (natStr d).length : Nat) : Int)) := by
          unfold sig5; rw [if_pos h4]
        rw [hs]
        simp only
        have hk : (-((5 - (natStr d).length : Nat) : Int) + 5 - 14 < -9) := by omega
        rw [if_pos hk]
        congr 1
        unfold decScaled
        simp
      · rw [if_neg h4]
        have hs : sig5 d = (d, 0) := by unfold sig5; rw [if_neg h4, if_pos hd]
        rw [hs]
        simp only
        rw [if_neg (by omega)]
        congr 1

theorem normYear_yearEnd (Y : Nat) :
    normYear 8 Y (yearMicros Y) = some (Y + 1, 0) := by
  show normYear (7 + 1) Y _ = _
  unfold normYear
  have h1 : ¬ (yearMicros Y < 0) := by unfold yearMicros; split <;> omega
  rw [if_neg h1, if_pos (Int.le_refl _)]
  show normYear (6 + 1) (Y + 1) _ = _
  unfold normYear
  have h2 : ¬ (yearMicros (Y + 1) ≤ 0) := by unfold yearMicros; split <;> omega
  simp [h2]

/-- `Tle.orbit()` and the numeric prelude of `from_orbit` on what `Tle.__init__` made of the written lines of a record
the writer can print: the record normalised -/
theorem toRec_expected_wide (r : Rec) (h : WideRange r) (l1 l2 : Str) :
    toRec { expected r l1 l2 with name := r.name } = .ok (normRec r) := by
  have hcq : (cosparOf r.cospar = none ∧ r.cospar = []) ∨
      (∃ cy piece, cy < 100 ∧ cosparOf r.cospar = some (fullYear cy, piece) ∧ r.cospar = fixedDigits 2 cy ++ piece) := by
    rcases h.cospar with hc | ⟨cy, piece, hcy, hc, _, _, _⟩
    · left; rw [hc]; exact ⟨rfl, rfl⟩
    · right
      obtain ⟨c, t, hct, _, _⟩ := fixedDigits_ends 2 cy (by omega)
      refine ⟨cy, piece, hcy, ?_, hc⟩
      unfold cosparOf
      have hne' : r.cospar.isEmpty = false := by rw [hc, hct]; rfl
      rw [hne', hc]
      simp only [Bool.false_eq_true, if_false]
      rw [List.take_left' (fixedDigits_length 2 cy), List.drop_left' (fixedDigits_length 2 cy), digitsValAux_fixedDigits]
      simp
      rw [Nat.mod_eq_of_lt hcy]
  -- the epoch: (year, microseconds) after `normYear`, the two-digit year and the day field of the second generation
  have hep : ∃ y us, normYear 8 (fullYear r.yy) (((r.day8 : Int) - 100000000) * 864) = some (y, us) ∧
      y % 100 = (normRec r).yy ∧
      ((us / 86400000000 + 1) * 100000000 + roundDiv (us % 86400000000 * 100000000) 86400000000).toNat = (normRec r).day8 := by
    by_cases hye : yearEnd r = true
    · have hd8 : r.day8 = (if isLeap (fullYear r.yy) then 367 else 366) * 100000000 := by simpa [yearEnd] using hye
      have hus : ((r.day8 : Int) - 100000000) * 864 = yearMicros (fullYear r.yy) := by
        rw [hd8]; unfold yearMicros; split <;> simp <;> omega
      refine ⟨fullYear r.yy + 1, 0, ?_, ?_, ?_⟩
      · rw [hus]; exact normYear_yearEnd _
      · simp [normRec, hye]
      · simp [normRec, hye]; rfl
    · have hye' : yearEnd r = false := by simpa using hye
      have hlt : r.day8 < (if isLeap (fullYear r.yy) then 367 else 366) * 100000000 := by
        have hne : r.day8 ≠ (if isLeap (fullYear r.yy) then 367 else 366) * 100000000 := by simpa [yearEnd] using hye'
        have := h.day.2
        omega
      obtain ⟨_, hny, hday⟩ := epoch_roundtrip (fullYear r.yy) r.day8 h.day.1 hlt
      refine ⟨fullYear r.yy, _, hny, ?_, ?_⟩
      · have hyy : fullYear r.yy % 100 = r.yy := by have := h.yy; unfold fullYear; split <;> omega
        simp [normRec, hye', hyy]
      · rw [hday]; simp [normRec, hye']
  obtain ⟨y, us, hny, hy, hd⟩ := hep
  have hu1 := toUnfl_wide h.ndd
  have hu2 := toUnfl_wide h.bstar
  unfold toRec
  simp only [expected, hny, bind, Except.bind, pure, Except.pure, angle4_wide _ h.inc, angle4_wide _ h.raan, angle4_wide _ h.argp,
    angle4_wide _ h.ma, nonneg_grid7, nonneg_grid8, decScaled_grid8, hu1, hu2, hy, hd]
  rcases hcq with ⟨q1, q2⟩ | ⟨cy, piece, hcy, q1, q2⟩
  · rw [q1]
    simp only [normRec]
    rw [← q2]
  · rw [q1]
    simp only [normRec]
    rw [natStr_fullYear_drop cy hcy, ← q2]

/-- **write → parse for everything the rounding of an off-grid orbit can produce**: for EVERY record the writer can
print (`WideRange`: the ranges of the format plus `360.0000`, day `N+1.00000000`, drag terms below 1e-10),
`Tle.from_orbit` succeeds, the `Tle` shows exactly the written lines, and reading it back gives the record normalised
(`normRec`: `360.0000 → 0.0000`, day 1 of the next year, `00000-9 → 00000-0`) — the same angles, instant and values. -/
theorem wide_roundtrip (r : Rec) (h : WideRange r) :
    ∃ p lines, writeRec r = .ok lines ∧ fromOrbit r = .ok p ∧ parseTle lines = .ok p ∧ tleStr p = lines ∧
      toRec p = .ok (normRec r) :=
  roundtrip_aux r h (normRec r) (toRec_expected_wide r h)

theorem normUnfl_wide {u : Unfl} (h : WideUnfl u) : WideUnfl (normUnfl u) ∧ normUnfl (normUnfl u) = normUnfl u := by
  rcases h with h | ⟨neg, d, rfl, hd⟩
  · have : normUnfl u = u := by rcases h with rfl | ⟨neg, m5, exp, rfl, _⟩ <;> rfl
    rw [this, this]; exact ⟨Or.inl h, rfl⟩
  · by_cases h0 : d = 0
    · have e : normUnfl (.small neg d) = .zero := by simp [normUnfl, h0]
      rw [e]; exact ⟨Or.inl (Or.inl rfl), rfl⟩
    · by_cases h4 : d < 10000
      · have e : normUnfl (.small neg d) = .small neg d := by simp [normUnfl, h0, h4]
        rw [e, e]; exact ⟨Or.inr ⟨neg, d, rfl, hd⟩, rfl⟩
      · have e : normUnfl (.small neg d) = .val neg d (-9) := by simp [normUnfl, h0, h4]
        rw [e]; exact ⟨Or.inl (Or.inr ⟨neg, d, -9, rfl, by omega, hd, by omega, by omega⟩), rfl⟩

theorem normAngle_le (v : Nat) (h : v ≤ 3600000) : normAngle v ≤ 3600000 ∧ normAngle (normAngle v) = normAngle v := by
  unfold normAngle; split <;> simp_all

theorem normRec_of_not_yearEnd (q : Rec) (hq : yearEnd q = false) :
    normRec q = { q with ndd := normUnfl q.ndd, bstar := normUnfl q.bstar, inc4 := normAngle q.inc4, raan4 := normAngle q.raan4, argp4 := normAngle q.argp4, ma4 := normAngle q.ma4 } := by
  unfold normRec
  simp only [hq, Bool.false_eq_true, if_false]

/-- the second generation is again something the writer can print, and it is a fixed point of the normalisation -/
theorem second_generation_fixed (r : Rec) (h : WideRange r) : WideRange (normRec r) ∧ normRec (normRec r) = normRec r := by
  have hyy' : (normRec r).yy < 100 := by
    simp only [normRec]; split
    · exact Nat.mod_lt _ (by omega)
    · exact h.yy
  have hday : 100000000 ≤ (normRec r).day8 ∧
      (normRec r).day8 < (if isLeap (fullYear (normRec r).yy) then 367 else 366) * 100000000 ∨
      (yearEnd r = false ∧ (normRec r).day8 = r.day8 ∧ (normRec r).yy = r.yy) := by
    by_cases hye : yearEnd r = true
    · left
      have e : (normRec r).day8 = 100000000 := by simp [normRec, hye]
      rw [e]
      exact ⟨Nat.le_refl _, by split <;> omega⟩
    · right
      have hye' : yearEnd r = false := by simpa using hye
      exact ⟨hye', by simp [normRec, hye'], by simp [normRec, hye']⟩
  have hnye : yearEnd (normRec r) = false := by
    rcases hday with ⟨_, hlt⟩ | ⟨hye', e1, e2⟩
    · simp only [yearEnd, beq_eq_false_iff_ne, ne_eq]; omega
    · unfold yearEnd at hye' ⊢; rw [e1, e2]; exact hye'
  have hday' : 100000000 ≤ (normRec r).day8 ∧
      (normRec r).day8 ≤ (if isLeap (fullYear (normRec r).yy) then 367 else 366) * 100000000 := by
    rcases hday with ⟨h1, hlt⟩ | ⟨_, e1, e2⟩
    · exact ⟨h1, Nat.le_of_lt hlt⟩
    · rw [e1, e2]; exact h.day
  constructor
  · exact ⟨h.norad, h.cospar, hyy', hday', h.ndot, (normUnfl_wide h.ndd).1, (normUnfl_wide h.bstar).1, h.elnb,
      (normAngle_le _ h.inc).1, (normAngle_le _ h.raan).1, h.ecc, (normAngle_le _ h.argp).1, (normAngle_le _ h.ma).1, h.mm, h.revs, h.name⟩
  · rw [normRec_of_not_yearEnd _ hnye]
    simp only [normRec, (normUnfl_wide h.ndd).2, (normUnfl_wide h.bstar).2, (normAngle_le _ h.inc).2, (normAngle_le _ h.raan).2,
      (normAngle_le _ h.argp).2, (normAngle_le _ h.ma).2]

/-- a record inside the ranges of the format is its own second generation -/
theorem normRec_inRange (r : Rec) (h : InRange r) : normRec r = r := by
  have hye : yearEnd r = false := by
    have := h.day.2
    simp only [yearEnd, beq_eq_false_iff_ne, ne_eq]
    omega
  have hu : ∀ u, CanonUnfl u → normUnfl u = u := by
    intro u hu; rcases hu with rfl | ⟨neg, m5, exp, rfl, _⟩ <;> rfl
  have ha : ∀ v, v < 3600000 → normAngle v = v := by intro v hv; simp [normAngle]; omega
  simp only [normRec, hye, Bool.false_eq_true, if_false, hu _ h.ndd, hu _ h.bstar, ha _ h.inc, ha _ h.raan, ha _ h.argp, ha _ h.ma]

/-- **parse ∘ write ∘ parse = parse, from the second generation on**: write ANY record the writer can print (text `t1`),
read it and write it again (`t2`), read and write once more: the third text is `t2`, character for character — including
after the three carries (`360.0000`, day `N+1.00000000` at the end of a year, `00000-9`), where `t2 ≠ t1` shows
`0.0000`, day `001.00000000` of the next year, `00000-0`. Inside the ranges of the format `t2 = t1` (`write_parse_id`). -/
theorem offgrid_idempotent_from_second_generation (r : Rec) (h : WideRange r) :
    ∃ t1 t2 p2 p3, writeRec r = .ok t1 ∧ rewrite t1 = .ok p2 ∧ tleStr p2 = t2 ∧ rewrite t2 = .ok p3 ∧ tleStr p3 = t2 ∧
      writeRec (normRec r) = .ok t2 ∧ (InRange r → t2 = t1) := by
  obtain ⟨p1, t1, hw1, _, hp1, _, ht1⟩ := wide_roundtrip r h
  obtain ⟨h2, hfix⟩ := second_generation_fixed r h
  obtain ⟨p2, t2, hw2, hf2, hp2, hs2, ht2⟩ := wide_roundtrip (normRec r) h2
  rw [hfix] at ht2
  refine ⟨t1, t2, p2, p2, hw1, ?_, hs2, ?_, hs2, hw2, ?_⟩
  · unfold rewrite; rw [hp1]; simp only [bind, Except.bind]; rw [ht1]; exact hf2
  · unfold rewrite; rw [hp2]; simp only [bind, Except.bind]; rw [ht2]; exact hf2
  · intro hin
    rw [normRec_inRange r hin, hw1] at hw2
    injection hw2 with e
    exact e.symm

/-- the three carries at once: inclination `360.0000`, the day after the last of 2023, a drag term `00000-9` -/
def carryRec : Rec :=
  { issRec with yy := 23, day8 := 36600000000, inc4 := 3600000, ndd := .small true 0, bstar := .small false 123 }

example : normRec carryRec = { issRec with yy := 24, day8 := 100000000, inc4 := 0, ndd := .zero, bstar := .small false 123 } := by decide


/-! ## from the doubles of an orbit to the text, and on -/

/-- **the domain of the writer** ("any orbit that can be written"), on the numbers handed to `str.format`: angles in
`[0, 360]` (what `% 360` returns), an eccentricity that passes the `startswith("0.")` guard, a mean motion and an ṅ/2 that
fit their columns once rounded, drag terms that fit their eight columns, a UTC epoch in 1957–2056, counters and
identifiers inside their columns -/
structure QDomain (o : QOrb) : Prop where
  dens : 0 < o.inc.den ∧ 0 < o.raan.den ∧ 0 < o.ecc.den ∧ 0 < o.argp.den ∧ 0 < o.ma.den ∧ 0 < o.mm.den ∧ 0 < o.ndot.den
  inc : 0 ≤ o.inc.num ∧ o.inc.num ≤ 360 * o.inc.den
  raan : 0 ≤ o.raan.num ∧ o.raan.num ≤ 360 * o.raan.den
  argp : 0 ≤ o.argp.num ∧ o.argp.num ≤ 360 * o.argp.den
  ma : 0 ≤ o.ma.num ∧ o.ma.num ≤ 360 * o.ma.den
  ecc : 0 ≤ o.ecc.num ∧ fixQ 7 o.ecc < 10000000
  mm : 0 ≤ o.mm.num ∧ fixQ 8 o.mm < 10000000000
  ndot : 0 ≤ o.ndot.num ∧ fixQ 8 o.ndot < 100000000
  ndd : WideUnfl (unflQ o.nddNeg o.ndd)
  bstar : WideUnfl (unflQ o.bstarNeg o.bstar)
  epoch : ∃ Y us : Nat, 1957 ≤ Y ∧ Y ≤ 2056 ∧ us < (if Sgp4Wrap.isLeap Y then 366 else 365) * 86400000000 ∧
    o.dateUs - o.offsetUs = absOfYear Y us
  norad : 0 ≤ o.norad ∧ o.norad < 100000
  cospar : o.cospar = [] ∨ ∃ cy piece, cy < 100 ∧ o.cospar = fixedDigits 2 cy ++ piece ∧ piece.length ≤ 6 ∧
    strip piece = piece ∧ ∀ c ∈ piece, (ckVal c).isSome = true
  elnb : 0 ≤ o.elnb ∧ o.elnb < 10000
  revs : 0 ≤ o.revs ∧ o.revs < 100000
  name : o.name = [] ∨ (o.name ≠ [] ∧ strip o.name = o.name ∧ startsWith o.name ['0', ' '] = false)

theorem toNat_le_of_le {a : Int} {b : Nat} (h : a ≤ b) : a.toNat ≤ b := by omega
theorem toNat_lt_of_lt {a : Int} {b : Nat} (hb : 0 < b) (h : a < b) : a.toNat < b := by omega

/-- whatever the rounding makes of an orbit in the writer's domain is a record the writer can print -/
theorem quantize_wide (o : QOrb) (h : QDomain o) : WideRange (quantize o) := by
  obtain ⟨d1, d2, d3, d4, d5, d6, d7⟩ := h.dens
  obtain ⟨Y, us, hY1, hY2, hus, ht⟩ := h.epoch
  obtain ⟨e1, e2, e3, _, _, _⟩ := epoch_within_half_unit Y us hY1 hY2 hus
  have hyy : (epochOfAbs (o.dateUs - o.offsetUs)).1 < 100 := by
    unfold epochOfAbs; exact Nat.mod_lt _ (by omega)
  refine ⟨h.norad, h.cospar, hyy, ?_, ?_, h.ndd, h.bstar, h.elnb, ?_, ?_, ?_, ?_, ?_, ?_, h.revs, h.name⟩
  · show 100000000 ≤ (epochOfAbs (o.dateUs - o.offsetUs)).2 ∧ (epochOfAbs (o.dateUs - o.offsetUs)).2 ≤ (if isLeap (fullYear (epochOfAbs (o.dateUs - o.offsetUs)).1) then 367 else 366) * 100000000
    rw [ht, e1]; exact ⟨e2, e3⟩
  · exact toNat_lt_of_lt (by omega) h.ndot.2
  · exact toNat_le_of_le (angle_grid_range _ d1 h.inc.1 h.inc.2).2
  · exact toNat_le_of_le (angle_grid_range _ d2 h.raan.1 h.raan.2).2
  · exact toNat_lt_of_lt (by omega) h.ecc.2
  · exact toNat_le_of_le (angle_grid_range _ d4 h.argp.1 h.argp.2).2
  · exact toNat_le_of_le (angle_grid_range _ d5 h.ma.1 h.ma.2).2
  · exact toNat_lt_of_lt (by omega) h.mm.2

theorem nonNegQ_of_domain (o : QOrb) (h : QDomain o) : nonNegQ o = true ∧ ¬ o.ecc.num < 0 := by
  obtain ⟨Y, us, _, _, _, ht⟩ := h.epoch
  have hd : 0 ≤ o.dateUs - o.offsetUs := by
    rw [ht, absOfYear_eq]
    have : (0 : Int) ≤ (Sgp4Wrap.daysBeforeYear Y : Int) * 86400000000 := Int.mul_nonneg (by omega) (by omega)
    omega
  refine ⟨?_, by have := h.ecc.1; omega⟩
  simp [nonNegQ, h.inc.1, h.raan.1, h.ecc.1, h.argp.1, h.ma.1, h.mm.1, h.ndot.1]
  omega

/-- **any orbit that can be written yields lines of exactly 69 characters with correct checksums — off-grid orbits**:
for EVERY orbit in the writer's domain, whatever doubles it holds, `Tle.from_orbit` returns a `Tle` whose two lines
have 69 characters, carry their checksums and are accepted by `_check_validity`; every field of the text is the grid
value nearest to the double that was formatted (`format_within_half_unit`, `epoch_within_half_unit`,
`drag_five_digits`). -/
theorem offgrid_written_valid (o : QOrb) (h : QDomain o) :
    ∃ p l1 l2, fromOrbitQ o = .ok p ∧ tleStr p = (if o.name.isEmpty then [l1, l2] else [o.name, l1, l2]) ∧
      l1.length = 69 ∧ l2.length = 69 ∧ LineOk l1 ∧ LineOk l2 ∧ checkValidity [l1, l2] = .ok () := by
  have hw := quantize_wide o h
  obtain ⟨hn, he⟩ := nonNegQ_of_domain o h
  obtain ⟨p, lines, hwr, hf, _, hs, _⟩ := wide_roundtrip (quantize o) hw
  obtain ⟨l1, l2, hw2, a, b, c, d, e⟩ := written_lines_valid (quantize o) hw
  rw [hwr] at hw2
  injection hw2 with hl
  refine ⟨p, l1, l2, ?_, ?_, a, b, c, d, e⟩
  · unfold fromOrbitQ; rw [if_neg he, if_pos hn]; exact hf
  · rw [hs, hl]; rfl

/-- **parse ∘ write ∘ parse = parse from the second generation on — off-grid orbits**: write ANY orbit of the writer's
domain (`t1`), read and write (`t2`), read and write again: `t2` again. -/
theorem offgrid_three_generations (o : QOrb) (h : QDomain o) :
    ∃ p1 t1 t2 p2 p3, fromOrbitQ o = .ok p1 ∧ tleStr p1 = t1 ∧ rewrite t1 = .ok p2 ∧ tleStr p2 = t2 ∧
      rewrite t2 = .ok p3 ∧ tleStr p3 = t2 ∧ (InRange (quantize o) → t2 = t1) := by
  have hw := quantize_wide o h
  obtain ⟨hn, he⟩ := nonNegQ_of_domain o h
  obtain ⟨p1, lines, hwr, hf, _, hs, _⟩ := wide_roundtrip (quantize o) hw
  obtain ⟨t1, t2, p2, p3, k1, k2, k3, k4, k5, _, k7⟩ := offgrid_idempotent_from_second_generation (quantize o) hw
  rw [hwr] at k1
  injection k1 with k1
  subst k1
  refine ⟨p1, lines, t2, p2, p3, ?_, hs, k2, k3, k4, k5, k7⟩
  unfold fromOrbitQ; rw [if_neg he, if_pos hn]; exact hf

/-- the hypotheses are met by an orbit with off-grid doubles: the reference TLE's values moved off the grid (the
inclination within 5e-5 deg of 360, the last 300 µs of 2023, a drag term of 3e-15) -/
def offGridOrb : QOrb :=
  { name := "ISS (ZARYA)".toList, norad := 25544, cospar := "98067A".toList,
    dateUs := absOfYear 2023 (365 * 86400000000 - 300) + 37000000, offsetUs := 37000000,
    ndotNeg := true, ndot := ⟨2182, 100000000⟩, nddNeg := true, ndd := ⟨3, 1000000000000000⟩, bstarNeg := true, bstar := ⟨11606, 1000000000⟩,
    elnb := 2927, inc := ⟨35999996, 100000⟩, raan := ⟨24746274, 100000⟩, ecc := ⟨1, 149⟩, argp := ⟨1, 32⟩, ma := ⟨3250288, 10000⟩,
    mm := ⟨1572125391, 100000000⟩, revs := 56353 }

example : quantize offGridOrb = { issRec with yy := 23, day8 := 36600000000, inc4 := 3600000, raan4 := 2474627, ecc7 := 67114, argp4 := 312, ndd := .small true 0 } := by decide +kernel


/-- … and that orbit is inside the writer's domain -/
example : QDomain offGridOrb where
  dens := by decide
  inc := by decide
  raan := by decide
  argp := by decide
  ma := by decide
  ecc := by decide
  mm := by decide
  ndot := by decide
  ndd := Or.inr ⟨true, 0, by decide +kernel, by decide⟩
  bstar := Or.inl (Or.inr ⟨true, 11606, -4, by decide +kernel, by decide, by decide, by decide, by decide⟩)
  epoch := ⟨2023, 365 * 86400000000 - 300, by decide, by decide, by decide, by decide⟩
  norad := by decide
  cospar := Or.inr ⟨98, "067A".toList, by decide, by decide, by decide, by decide, by decide⟩
  elnb := by decide
  revs := by decide
  name := Or.inr ⟨by decide, by decide, by decide⟩


end BeyondVerif.C12
