import BeyondVerif.Props.C12
import BeyondVerif.Lemmas.TleEpoch
/-!
# C12 — the float side: off-grid orbits, rounding to the printed grid, carries, second generation

`Props/C12.lean` speaks about records of printed units.  Here the numbers `Tle.from_orbit` hands to `str.format` are
arbitrary doubles, each with its exact rational value (`Model/TleQuant.lean`; the assumption: CPython's float
formatting is correctly rounded, half-even on the exact binary value).

* every fixed-point field, the day of the year and the five digits of a drag term are the grid value NEAREST to the
  number formatted: `format_within_half_unit`, `epoch_within_half_unit`, `drag_exponent_found`, `drag_five_digits`;
* the epoch for all years 1957–2056: century pivot, leap years, year-end carry (`epoch_century`, `epoch_within_half_unit`);
* whatever the rounding produces inside the writer's domain — the carries `360.0000`, day `N+1.00000000`, `00000-9`
  included — fills 69 columns (`offgrid_written_valid`), is read back as itself, and from the SECOND generation on
  parse → write is the identity: `wide_roundtrip`, `second_generation_fixed`, `offgrid_idempotent_from_second_generation`.
-/
namespace BeyondVerif.C12
open BeyondVerif.Tle

/-! ## every number is printed as the nearest grid value -/

/-- **every fixed-point field is preserved to its printed precision**: for EVERY double `x = num/den` and every number
`p` of decimals, `"{:.pf}".format(x)` prints the integer `v = fixQ p x` of units `10^-p` with `|v·10^-p − x| ≤ ½·10^-p`
(stated without division: `|v·den − num·10^p| ≤ den/2`). Angles (`p = 4`), eccentricity (7), mean motion and ṅ/2 (8). -/
theorem format_within_half_unit (p : Nat) (x : Q) (hd : 0 < x.den) :
    2 * (fixQ p x * x.den) ≤ 2 * (x.num * 10 ^ p) + x.den ∧ 2 * (x.num * 10 ^ p) ≤ 2 * (fixQ p x * x.den) + x.den :=
  roundDiv_bounds _ _ hd

/-- a value between 0 and 360 (what `np.degrees(a) % 360` returns, 360.0 itself included for a tiny negative angle) is
printed between `0.0000` and `360.0000` -/
theorem angle_grid_range (x : Q) (hd : 0 < x.den) (h0 : 0 ≤ x.num) (h1 : x.num ≤ 360 * x.den) :
    0 ≤ fixQ 4 x ∧ fixQ 4 x ≤ 3600000 := by
  constructor
  · exact roundDiv_nonneg _ _ hd (Int.mul_nonneg h0 (by decide))
  · apply roundDiv_le_of_le_mul _ _ _ hd
    have : x.num * 10 ^ 4 ≤ 360 * (x.den : Int) * 10 ^ 4 := Int.mul_le_mul_of_nonneg_right h1 (by decide)
    have e : (360 : Int) * (x.den : Int) * 10 ^ 4 = 3600000 * x.den := by
      rw [Int.mul_right_comm]; rfl
    omega

example : fixQ 4 ⟨1, 32⟩ = 312 ∧ fixQ 4 ⟨3, 32⟩ = 938 ∧ fixQ 4 ⟨35999995, 100000⟩ = 3600000 ∧ fixQ 4 ⟨360, 1⟩ = 3600000 := by decide

/-- **the decimal exponent of a drag term is found for every double**: for every `x = n/d` with `1e-400 ≤ x < 1e400`
(every finite non-zero double), `j = magQ n d` satisfies `10^(j-401) ≤ x < 10^(j-400)` -/
theorem drag_exponent_found (n d : Nat) (hlo : ltPow10 n d 0 = false) (hhi : ltPow10 n d 800 = true) :
    1 ≤ magQ n d ∧ magQ n d ≤ 800 ∧ n * 10 ^ 400 < 10 ^ magQ n d * d ∧ 10 ^ (magQ n d - 1) * d ≤ n * 10 ^ 400 := by
  obtain ⟨a, b, c, e⟩ := magQ_spec n d hlo hhi
  simp only [ltPow10, decide_eq_true_eq, decide_eq_false_iff_not, Nat.not_lt] at c e
  exact ⟨a, b, c, e⟩

/-- **a drag term is preserved to five significant digits**: with `j` the (offset) decimal exponent of `x = n/d`, the
five digits `m = sig5Q n d j` are the integer nearest to `x · 10^(405-j)` (`|m − x·10^(405-j)| ≤ ½`), and lie between
10000 and 100000 (the latter when `99999.5…` rounds up: written `10000` with the next exponent) -/
theorem drag_five_digits (n d : Nat) (hd : 0 < d) (hlo : ltPow10 n d 0 = false) (hhi : ltPow10 n d 800 = true) :
    10000 ≤ sig5Q n d (magQ n d) ∧ sig5Q n d (magQ n d) ≤ 100000 ∧
    (magQ n d ≤ 405 → 2 * (sig5Q n d (magQ n d) * d) ≤ 2 * (n * 10 ^ (405 - magQ n d)) + d ∧
        2 * (n * 10 ^ (405 - magQ n d)) ≤ 2 * (sig5Q n d (magQ n d) * d) + d) ∧
    (405 < magQ n d → 2 * (sig5Q n d (magQ n d) * (d * 10 ^ (magQ n d - 405))) ≤ 2 * n + d * 10 ^ (magQ n d - 405) ∧
        2 * n ≤ 2 * (sig5Q n d (magQ n d) * (d * 10 ^ (magQ n d - 405))) + d * 10 ^ (magQ n d - 405)) := by
  obtain ⟨a, _, c, e⟩ := magQ_spec n d hlo hhi
  obtain ⟨r1, r2⟩ := sig5Q_range n d (magQ n d) hd a c e
  obtain ⟨c1, c2⟩ := sig5Q_close n d (magQ n d) hd
  exact ⟨r1, r2, c1, c2⟩

/-- what `_unfloat` prints for a non-zero double of magnitude at least 1e-10: the sign, five digits `10000 … 99999`,
an exponent `≥ −9`; it fits its eight columns exactly when that exponent is at most 9 -/
theorem drag_normal_form (neg : Bool) (x : Q) (hd : 0 < x.den) (hx : 0 < x.num)
    (hlo : ltPow10 x.num.toNat x.den 0 = false) (hhi : ltPow10 x.num.toNat x.den 800 = true)
    (s : Bool) (m5 : Nat) (exp : Int) (h : unflQ neg x = .val s m5 exp) :
    s = neg ∧ 10000 ≤ m5 ∧ m5 < 100000 ∧ -9 ≤ exp ∧ (exp ≤ 9 → WideUnfl (unflQ neg x)) := by
  obtain ⟨r1, r2, _, _⟩ := drag_five_digits x.num.toNat x.den hd hlo hhi
  have h0 := h
  unfold unflQ at h
  rw [if_neg (by omega)] at h
  simp only at h
  generalize sig5Q x.num.toNat x.den (magQ x.num.toNat x.den) = m at *
  generalize magQ x.num.toNat x.den = j at *
  by_cases hexp : ((if m = 100000 then j + 1 else j : Nat) : Int) - 400 < -9
  · rw [if_pos hexp] at h; cases h
  · rw [if_neg hexp] at h
    injection h with h1 h2 h3
    have hm1 : 10000 ≤ m5 := by rw [← h2]; split <;> omega
    have hm2 : m5 < 100000 := by rw [← h2]; split <;> omega
    have he : -9 ≤ exp := by rw [← h3]; omega
    refine ⟨h1.symm, hm1, hm2, he, ?_⟩
    intro h9
    rw [h0]
    exact Or.inl (Or.inr ⟨s, m5, exp, rfl, hm1, hm2, he, h9⟩)

example : unflQ true ⟨11606, 1000000000⟩ = .val true 11606 (-4) ∧ unflQ false ⟨999996, 10000000000000000⟩ = .val false 10000 (-9) ∧
    unflQ false ⟨0, 1⟩ = .zero ∧ unflQ true ⟨3, 1000000000000000⟩ = .small true 0 ∧ unflQ false ⟨1795, 1000000000000000⟩ = .small false 180 := by
  decide +kernel

/-! ## the epoch: all years 1957–2056 -/

theorem isLeap_iff (y : Nat) : (if Tle.isLeap y = true then (367 : Nat) else 366) = (if Sgp4Wrap.isLeap y then 366 else 365) + 1 := by
  by_cases h : Sgp4Wrap.isLeap y
  · rw [if_pos h, if_pos ((isLeap_bridge y).2 h)]
  · rw [if_neg h, if_neg (fun hc => h ((isLeap_bridge y).1 hc))]

/-- **century handling, all years**: for every year 1957–2056 the two-digit year written is read back as that year
(pivot 57), and for no other two-digit value -/
theorem epoch_century : ∀ Y : Nat, 1957 ≤ Y → Y ≤ 2056 → fullYear (Y % 100) = Y ∧ century ((Y % 100 : Nat) : Int) = .ok Y := by
  intro Y h1 h2
  have : fullYear (Y % 100) = Y := by unfold fullYear; split <;> omega
  exact ⟨this, by rw [century_nat, this]⟩

/-- **the epoch is preserved to 1e-8 day, for every instant of 1957–2056**: the instant `us` microseconds into year `Y`
(UTC) is written with the two-digit year of `Y` and a day field that `Tle.__init__` reads back as an instant of year `Y`
at most 432 µs (half of 1e-8 day) away; the day field lies between `001.00000000` and `(days of the year + 1).00000000`,
the upper end being reached only in the last 432 µs of the year. -/
theorem epoch_within_half_unit (Y us : Nat) (hY1 : 1957 ≤ Y) (hY2 : Y ≤ 2056)
    (hus : us < (if Sgp4Wrap.isLeap Y then 366 else 365) * 86400000000) :
    fullYear (epochOfAbs (absOfYear Y us)).1 = Y ∧
    100000000 ≤ (epochOfAbs (absOfYear Y us)).2 ∧
    (epochOfAbs (absOfYear Y us)).2 ≤ (if Tle.isLeap Y = true then 367 else 366) * 100000000 ∧
    (((epochOfAbs (absOfYear Y us)).2 : Int) - 100000000) * 864 - us ≤ 432 ∧
    (us : Int) - (((epochOfAbs (absOfYear Y us)).2 : Int) - 100000000) * 864 ≤ 432 ∧
    ((epochOfAbs (absOfYear Y us)).2 = (if Tle.isLeap Y = true then 367 else 366) * 100000000 →
      (if Sgp4Wrap.isLeap Y then 366 else 365) * 86400000000 ≤ us + 432) := by
  obtain ⟨e1, f, hf, e2, b1, b2⟩ := epochOfAbs_spec Y us (by omega) hus
  rw [e1, e2, isLeap_iff]
  refine ⟨(epoch_century Y hY1 hY2).1, by omega, ?_, by omega, by omega, ?_⟩
  · have : us / 86400000000 < (if Sgp4Wrap.isLeap Y then 366 else 365) := by split at hus <;> simp_all <;> omega
    generalize (if Sgp4Wrap.isLeap Y then 366 else 365) = L at *
    omega
  · generalize (if Sgp4Wrap.isLeap Y then 366 else 365) = L at *
    intro h
    omega

/-- day 366 of 2024 (a leap year), the last microsecond of 1999, the first of 1957 -/
example : epochOfAbs (absOfYear 2024 (365 * 86400000000 + 43200000000)) = (24, 36650000000) ∧
    epochOfAbs (absOfYear 1999 (365 * 86400000000 - 1)) = (99, 36600000000) ∧ epochOfAbs (absOfYear 1957 0) = (57, 100000000) := by decide

end BeyondVerif.C12
