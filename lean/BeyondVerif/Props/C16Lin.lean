import BeyondVerif.Model.CWR
import Mathlib.Analysis.SpecialFunctions.Sqrt
import Mathlib.Analysis.SpecialFunctions.Pow.Deriv
import Mathlib.Tactic.Ring
import Mathlib.Tactic.FieldSimp
import Mathlib.Tactic.Positivity

/-!
# C16 — Hill's equations are the first-order part of the relative two-body dynamics about a circular orbit

Clause "for small separations it agrees with the difference of two Keplerian orbits … to second order in the separation", as far
as a theorem goes here: in the target's rotating QSW frame (x radial, y along-track, z cross-track; target on a circular orbit of
radius `R`, mean motion `n`, `μ = n² R³`) the exact two-body relative acceleration of the chaser is

  `(2 n vy, −2 n vx, 0) + relAcc n R (x, y, z)`,

where the velocity-dependent Coriolis part is linear and is literally the one of `hillRhs`, and `relAcc` (centrifugal minus
gravity, below) is the only non-linear term.  `relAcc_zero`: it vanishes at the target.  `relAcc_linearisation`: its derivative
at the target in EVERY direction `(a, b, c)` is `(3 n² a, 0, −n² c)` — the position block of `hillRhs`.  So the right-hand side of
Hill's equations is the linearisation of the true relative dynamics; the residual is of second order in the separation.
What is NOT formalised: the Fréchet (rather than directional) form with an explicit `O(|ρ|²)` remainder, and the passage from the
vector field to its solutions (the propagated states differ by `O(|ρ|²)` over a fixed time) — oracle only.
-/
namespace BeyondVerif.C16
open BeyondVerif.R BeyondVerif.NumReal

/-- distance of the chaser to the attracting centre -/
noncomputable def chaserRadius (R x y z : ℝ) : ℝ := Real.sqrt ((R + x) ^ 2 + y ^ 2 + z ^ 2)

/-- position-dependent part of the exact relative acceleration in the rotating frame: centrifugal term of the frame rotation
`n² (R + x, y, 0)` minus two-body gravity `μ (R + x, y, z) / r³` with `μ = n² R³` -/
noncomputable def relAcc (n R x y z : ℝ) : ℝ × ℝ × ℝ :=
  (n ^ 2 * (R + x) - n ^ 2 * R ^ 3 * (R + x) / chaserRadius R x y z ^ 3,
   n ^ 2 * y - n ^ 2 * R ^ 3 * y / chaserRadius R x y z ^ 3,
   -(n ^ 2 * R ^ 3 * z / chaserRadius R x y z ^ 3))

theorem chaserRadius_zero (R : ℝ) (hR : 0 < R) : chaserRadius R 0 0 0 = R := by
  simp [chaserRadius, Real.sqrt_sq hR.le]

/-- the target itself is an equilibrium of the relative dynamics (circular orbit: `n² R = μ / R²`) -/
theorem relAcc_zero (n R : ℝ) (hR : 0 < R) : relAcc n R 0 0 0 = (0, 0, 0) := by
  have hR' : R ≠ 0 := hR.ne'
  simp only [relAcc, chaserRadius_zero R hR, add_zero, mul_zero, zero_div, sub_zero, neg_zero, Prod.mk.injEq, and_true]
  field_simp
  ring

section
variable (n R a b c : ℝ)

private theorem hasDeriv_line (p k : ℝ) : HasDerivAt (fun s : ℝ => p + s * k) k 0 := by
  simpa using ((hasDerivAt_id (0 : ℝ)).mul_const k).const_add p

private theorem hasDeriv_radius3 (hR : 0 < R) :
    HasDerivAt (fun s : ℝ => chaserRadius R (s * a) (s * b) (s * c) ^ 3) (3 * R ^ 2 * a) 0 := by
  have h1 := hasDeriv_line R a
  have h2 : HasDerivAt (fun s : ℝ => s * b) b 0 := by simpa using hasDeriv_line 0 b
  have h3 : HasDerivAt (fun s : ℝ => s * c) c 0 := by simpa using hasDeriv_line 0 c
  have hq := ((h1.pow 2).add (h2.pow 2)).add (h3.pow 2)
  have hq0 : (R + 0 * a) ^ 2 + (0 * b) ^ 2 + (0 * c) ^ 2 ≠ 0 := by
    have : 0 < R ^ 2 := by positivity
    simp; exact hR.ne'
  have hs : HasDerivAt (fun s : ℝ => chaserRadius R (s * a) (s * b) (s * c) ^ 3) _ 0 := (hq.sqrt hq0).pow 3
  have hsq : Real.sqrt (R ^ 2) = R := Real.sqrt_sq hR.le
  have hR' : R ≠ 0 := hR.ne'
  refine hs.congr_deriv ?_
  simp [hsq]
  field_simp
  simp
end

/-- **Hill's equations are the linearisation of the relative two-body dynamics**: along every line `s ↦ s·(a, b, c)` through
the target, the three components of `relAcc` have at `s = 0` the derivatives `3 n² a`, `0`, `−n² c` — the position block
`(3 n² x, 0, −n² z)` of `hillRhs`. -/
theorem relAcc_linearisation (n R : ℝ) (hR : 0 < R) (a b c : ℝ) :
    HasDerivAt (fun s : ℝ => (relAcc n R (s * a) (s * b) (s * c)).1) (3 * n ^ 2 * a) 0 ∧
    HasDerivAt (fun s : ℝ => (relAcc n R (s * a) (s * b) (s * c)).2.1) 0 0 ∧
    HasDerivAt (fun s : ℝ => (relAcc n R (s * a) (s * b) (s * c)).2.2) (-(n ^ 2 * c)) 0 := by
  have hR' : R ≠ 0 := hR.ne'
  have hr3 := hasDeriv_radius3 R a b c hR
  have hr0 : chaserRadius R (0 * a) (0 * b) (0 * c) ^ 3 ≠ 0 := by
    simp [chaserRadius_zero R hR, hR']
  have hr0v : chaserRadius R (0 * a) (0 * b) (0 * c) = R := by simp [chaserRadius_zero R hR]
  have h1 := hasDeriv_line R a
  have h2 : HasDerivAt (fun s : ℝ => s * b) b 0 := by simpa using hasDeriv_line 0 b
  have h3 : HasDerivAt (fun s : ℝ => s * c) c 0 := by simpa using hasDeriv_line 0 c
  refine ⟨?_, ?_, ?_⟩
  · have hx : HasDerivAt (fun s : ℝ => (relAcc n R (s * a) (s * b) (s * c)).1) _ 0 :=
      (h1.const_mul (n ^ 2)).sub (((h1.const_mul (n ^ 2 * R ^ 3))).div hr3 hr0)
    refine hx.congr_deriv ?_
    rw [hr0v]; field_simp; ring
  · have hy : HasDerivAt (fun s : ℝ => (relAcc n R (s * a) (s * b) (s * c)).2.1) _ 0 :=
      (h2.const_mul (n ^ 2)).sub (((h2.const_mul (n ^ 2 * R ^ 3))).div hr3 hr0)
    refine hy.congr_deriv ?_
    rw [hr0v]; field_simp; ring
  · have hz : HasDerivAt (fun s : ℝ => (relAcc n R (s * a) (s * b) (s * c)).2.2) _ 0 :=
      (((h3.const_mul (n ^ 2 * R ^ 3))).div hr3 hr0).neg
    refine hz.congr_deriv ?_
    rw [hr0v]; field_simp; ring

/-- the position block of `hillRhs` is that linearisation: with zero velocity and no thrust, `hillRhs` returns
`(3 n² x, 0, −n² z)` as acceleration -/
theorem hillRhs_position_block (n x y z : ℝ) :
    hillRhs n [x, y, z, 0, 0, 0] [0, 0, 0] = [0, 0, 0, 3 * n ^ 2 * x, 0, -(n ^ 2 * z)] := by
  simp [hillRhs, powi]

end BeyondVerif.C16
