import BeyondVerif.Props.C05Cart
import BeyondVerif.Lemmas.Universal

/-!
# C05 (part 4) — Keplerian propagation IS the universal-variable solution of the two-body problem

The property asks that `Kepler.propagate` "agrees with an independent universal-variable solution of the two-body problem for
elliptic and hyperbolic orbits, forwards and backwards in time".  The universal-variable solution starts from the cartesian
state `c₀ = (r₀, v₀)`: `α = 2/|r₀| − |v₀|²/µ`, `σ₀ = r₀·v₀/√µ`; the universal anomaly `χ` solves the universal Kepler equation
`√µ Δt = σ₀ χ² C(αχ²) + (1 − α|r₀|) χ³ S(αχ²) + |r₀| χ` with the Stumpff functions `C, S`; the position at `t₀ + Δt` is
`f r₀ + g v₀`, `f = 1 − χ² C/|r₀|`, `g = Δt − χ³ S/√µ`.

Here: for the cartesian state `c₀ = cartOf µ x E₀` the library computes from mean elements `x` (translated conversion chain)
and the state `cartOf µ x E` it computes after `keplerStep` (translated from kepler.py) has advanced `M` by `n Δt`:
`χ = √a (E − E₀)` (resp. `√(−a) (H − H₀)`) solves the universal Kepler equation built from `c₀`, it is the ONLY solution, and
`f r₀ + g v₀` is the position of the propagated state, axis by axis — Δt of either sign.
-/
noncomputable section
set_option linter.unusedVariables false
namespace BeyondVerif.C05
open BeyondVerif.R BeyondVerif.NumReal BeyondVerif.PropagCart BeyondVerif.Universal

/-- `r·v` of a cartesian state -/
def rdotv (c : List ℝ) : ℝ := comp c 0 * comp c 3 + comp c 1 * comp c 4 + comp c 2 * comp c 5
/-- `|v|²` -/
def vsq (c : List ℝ) : ℝ := comp c 3 ^ 2 + comp c 4 ^ 2 + comp c 5 ^ 2
/-- the reciprocal semi-major axis the universal-variable method reads off a state: `α = 2/|r| − |v|²/µ` -/
def alphaOf (mu : ℝ) (c : List ℝ) : ℝ := 2 / rnorm c - vsq c / mu

theorem place_rnorm (i Ω ω X Y U V : ℝ) : rnorm (place i Ω ω X Y U V) = Real.sqrt (X ^ 2 + Y ^ 2) := by
  obtain ⟨c0, c1, c2, -⟩ := comp_place i Ω ω X Y U V
  rw [rnorm, c0, c1, c2, TwoBody3D.norm_sq_lift]

theorem place_rdotv (i Ω ω X Y U V : ℝ) : rdotv (place i Ω ω X Y U V) = X * U + Y * V := by
  obtain ⟨c0, c1, c2, c3, c4, c5⟩ := comp_place i Ω ω X Y U V
  rw [rdotv, c0, c1, c2, c3, c4, c5, TwoBody3D.dot_lift]

theorem place_vsq (i Ω ω X Y U V : ℝ) : vsq (place i Ω ω X Y U V) = U ^ 2 + V ^ 2 := by
  obtain ⟨-, -, -, c3, c4, c5⟩ := comp_place i Ω ω X Y U V
  rw [vsq, c3, c4, c5, TwoBody3D.norm_sq_lift]

/-! ## Ellipse -/

/-- what the universal-variable method reads off the state at eccentric anomaly `E` of a bound orbit:
`|r| = a (1 − e cos E)`, `r·v = a² n e sin E`, `α = 1/a` (vis-viva) -/
theorem cartOf_invariants_elliptic (mu : ℝ) (x : Elts) (hmu : 0 < mu) (ha : 0 < x.a) (he0 : 0 ≤ x.e) (he1 : x.e < 1) (E : ℝ) :
    rnorm (cartOf mu x E) = x.a * (1 - x.e * Real.cos E) ∧
    rdotv (cartOf mu x E) = x.a ^ 2 * meanMotion mu x.a * x.e * Real.sin E ∧
    alphaOf mu (cartOf mu x E) = 1 / x.a := by
  have hn := meanMotion_pos hmu ha.ne'
  have hmu' := meanMotion_sq_mul mu x.a hmu ha
  have hc : cartOf mu x E = _ := cart_elliptic mu x.a x.e x.i x.raan x.argp E (meanMotion mu x.a) ha he0 he1 hn.le hmu'
  obtain ⟨a, e, i, Ω, ω, M⟩ := x
  simp only at ha he0 he1 hn hmu' hc ⊢
  generalize meanMotion mu a = n at hn hmu' hc ⊢
  have hD : 0 < 1 - e * Real.cos E := by nlinarith [Real.neg_one_le_cos E, Real.cos_le_one E]
  have hD' := hD.ne'
  have hD2 : 1 - Real.cos E * e ≠ 0 := by rwa [mul_comm]
  have hq : (0 : ℝ) ≤ 1 - e ^ 2 := by nlinarith
  have hqq := Real.sq_sqrt hq
  have hsc := Real.sin_sq_add_cos_sq E
  have hr : rnorm (cartOf mu ⟨a, e, i, Ω, ω, M⟩ E) = a * (1 - e * Real.cos E) := by
    rw [hc, place_rnorm]
    have : (a * (Real.cos E - e)) ^ 2 + (a * Real.sqrt (1 - e ^ 2) * Real.sin E) ^ 2
        = (a * (1 - e * Real.cos E)) ^ 2 := by
      rw [mul_pow, mul_pow, mul_pow, hqq]
      linear_combination (a ^ 2 * (1 - e ^ 2)) * hsc
    rw [this, Real.sqrt_sq (mul_pos ha hD).le]
  refine ⟨hr, ?_, ?_⟩
  · rw [hc, place_rdotv]
    generalize Real.sqrt (1 - e ^ 2) = q at hqq
    field_simp
    linear_combination (Real.sin E * Real.cos E) * hqq
  · rw [alphaOf, hr, hc, place_vsq]
    subst hmu'
    generalize Real.sqrt (1 - e ^ 2) = q at hqq
    have hn' := hn.ne'
    have ha' := ha.ne'
    rw [mul_pow, mul_pow, mul_pow, mul_pow, hqq]
    field_simp
    linear_combination (-1 : ℝ) * hsc

/-- **Keplerian propagation is the universal-variable solution — bound orbits, Δt of either sign.**  `E₀`, `E`: the
eccentric anomalies of the initial and of the propagated mean elements (`keplerStep`, translated from kepler.py).  For the
initial cartesian state `c₀ = cartOf µ x E₀`:
1. `χ = √a (E − E₀)` solves the universal Kepler equation written with `α`, `|r₀|`, `r₀·v₀` read off `c₀`;
2. it is the only solution;
3. `f r₀ + g v₀` is the position of the propagated state `cartOf µ x E`, axis by axis. -/
theorem kepler_is_universal_variable_solution (mu : ℝ) (x : Elts) (hmu : 0 < mu) (ha : 0 < x.a) (he0 : 0 ≤ x.e)
    (he1 : x.e < 1) (E0 E dt : ℝ) (h0 : E0 - x.e * Real.sin E0 = x.M)
    (hE : E - x.e * Real.sin E = (keplerStep mu x dt).M) :
    uF (alphaOf mu (cartOf mu x E0)) (rnorm (cartOf mu x E0)) (rdotv (cartOf mu x E0) / Real.sqrt mu)
        (Real.sqrt x.a * (E - E0)) = Real.sqrt mu * dt ∧
    (∀ χ, uF (alphaOf mu (cartOf mu x E0)) (rnorm (cartOf mu x E0)) (rdotv (cartOf mu x E0) / Real.sqrt mu) χ
        = Real.sqrt mu * dt → χ = Real.sqrt x.a * (E - E0)) ∧
    ∀ j, j < 3 → comp (cartOf mu x E) j =
      lagF (alphaOf mu (cartOf mu x E0)) (rnorm (cartOf mu x E0)) (Real.sqrt x.a * (E - E0)) * comp (cartOf mu x E0) j
      + lagG (alphaOf mu (cartOf mu x E0)) (Real.sqrt mu) dt (Real.sqrt x.a * (E - E0)) * comp (cartOf mu x E0) (j + 3) := by
  obtain ⟨hr, hrv, hal⟩ := cartOf_invariants_elliptic mu x hmu ha he0 he1 E0
  have hn := meanMotion_pos hmu ha.ne'
  have hmu' := meanMotion_sq_mul mu x.a hmu ha
  have hK : (E - x.e * Real.sin E) - (E0 - x.e * Real.sin E0) = meanMotion mu x.a * dt := by
    rw [hE, h0, keplerStep_eq]; ring
  have hcE : cartOf mu x E = _ := cart_elliptic mu x.a x.e x.i x.raan x.argp E (meanMotion mu x.a) ha he0 he1 hn.le hmu'
  have hc0 : cartOf mu x E0 = _ := cart_elliptic mu x.a x.e x.i x.raan x.argp E0 (meanMotion mu x.a) ha he0 he1 hn.le hmu'
  clear h0 hE
  obtain ⟨a, e, i, Ω, ω, M⟩ := x
  simp only at ha he0 he1 hn hmu' hK hcE hc0 hr hrv hal ⊢
  generalize meanMotion mu a = n at hn hmu' hK hcE hc0 hrv ⊢
  have hD : 0 < 1 - e * Real.cos E0 := by nlinarith [Real.neg_one_le_cos E0, Real.cos_le_one E0]
  -- s = √a
  obtain ⟨s, hs, hsa⟩ : ∃ s : ℝ, 0 < s ∧ a = s ^ 2 := ⟨Real.sqrt a, Real.sqrt_pos.mpr ha, (Real.sq_sqrt ha.le).symm⟩
  have hsq : Real.sqrt a = s := by rw [hsa]; exact Real.sqrt_sq hs.le
  have hsmu : Real.sqrt mu = n * s ^ 3 := by
    rw [← hmu', hsa, show n ^ 2 * (s ^ 2) ^ 3 = (n * s ^ 3) ^ 2 by ring]
    exact Real.sqrt_sq (by positivity)
  have hn' := hn.ne'
  have hs' := hs.ne'
  have hsig : rdotv (cartOf mu ⟨a, e, i, Ω, ω, M⟩ E0) / Real.sqrt mu = s * e * Real.sin E0 := by
    rw [hrv, hsmu, hsa]
    field_simp
  have hal' : alphaOf mu (cartOf mu ⟨a, e, i, Ω, ω, M⟩ E0) = 1 / s ^ 2 := by rw [hal, hsa]
  have hr' : rnorm (cartOf mu ⟨a, e, i, Ω, ω, M⟩ E0) = s ^ 2 * (1 - e * Real.cos E0) := by rw [hr, hsa]
  rw [hal', hr', hsig, hsq, hsmu]
  have hU := uF_elliptic s e E0
  refine ⟨?_, ?_, ?_⟩
  · rw [hU E hs, hK]; ring
  · intro χ hχ
    have hχE : χ = s * ((E0 + χ / s) - E0) := by field_simp; ring
    rw [hχE, hU _ hs] at hχ
    have hs3 : (0 : ℝ) < s ^ 3 := by positivity
    have hKχ : (E0 + χ / s) - e * Real.sin (E0 + χ / s) = E - e * Real.sin E := by
      have : s ^ 3 * ((E0 + χ / s - e * Real.sin (E0 + χ / s)) - (E0 - e * Real.sin E0)) = s ^ 3 * (n * dt) := by
        rw [hχ]; ring
      have := mul_left_cancel₀ hs3.ne' this
      linarith
    have := kepler_equation_solution_unique e _ _ he0 he1 hKχ
    rw [hχE, this]
  · intro j hj
    obtain ⟨fx, fy⟩ := fg_elliptic s n e (Real.sqrt (1 - e ^ 2)) E0 E dt hs hn' hD.ne' hK
    rw [hcE, hc0, hsa]
    obtain ⟨a0, a1, a2, -⟩ := comp_place i Ω ω (s ^ 2 * (Real.cos E - e))
      (s ^ 2 * Real.sqrt (1 - e ^ 2) * Real.sin E)
      (s ^ 2 * (-Real.sin E * (n / (1 - e * Real.cos E))))
      (s ^ 2 * Real.sqrt (1 - e ^ 2) * (Real.cos E * (n / (1 - e * Real.cos E))))
    obtain ⟨b0, b1, b2, b3, b4, b5⟩ := comp_place i Ω ω (s ^ 2 * (Real.cos E0 - e))
      (s ^ 2 * Real.sqrt (1 - e ^ 2) * Real.sin E0)
      (s ^ 2 * (-Real.sin E0 * (n / (1 - e * Real.cos E0))))
      (s ^ 2 * Real.sqrt (1 - e ^ 2) * (Real.cos E0 * (n / (1 - e * Real.cos E0))))
    have hj' : j = 0 ∨ j = 1 ∨ j = 2 := by omega
    rcases hj' with rfl | rfl | rfl
    · rw [a0, b0, b3]; linear_combination (TwoBody3D.P1 i Ω ω) * fx + (TwoBody3D.Q1 i Ω ω) * fy
    · rw [a1, b1, b4]; linear_combination (TwoBody3D.P2 i Ω ω) * fx + (TwoBody3D.Q2 i Ω ω) * fy
    · rw [a2, b2, b5]; linear_combination (TwoBody3D.P3 i Ω ω) * fx + (TwoBody3D.Q3 i Ω ω) * fy

/-- the hypotheses are satisfiable: the circular orbit `e = 0`, where `E = M` -/
example (mu dt : ℝ) : (0.25 : ℝ) - (0 : ℝ) * Real.sin 0.25 = (⟨1, 0, 1, 2, 3, 0.25⟩ : Elts).M ∧
    (0.25 + meanMotion mu 1 * dt) - (0 : ℝ) * Real.sin (0.25 + meanMotion mu 1 * dt)
      = (keplerStep mu ⟨1, 0, 1, 2, 3, 0.25⟩ dt).M := by
  constructor <;> simp [keplerStep_eq]

/-! ## Hyperbola -/

/-- what the universal-variable method reads off the state at hyperbolic anomaly `H`: `|r| = a (1 − e cosh H)`,
`r·v = a² n e sinh H`, `α = 1/a < 0` -/
theorem cartOf_invariants_hyperbolic (mu : ℝ) (x : Elts) (hmu : 0 < mu) (ha : x.a < 0) (he1 : 1 < x.e) (H : ℝ) :
    rnorm (cartOf mu x H) = x.a * (1 - x.e * Real.cosh H) ∧
    rdotv (cartOf mu x H) = x.a ^ 2 * meanMotion mu x.a * x.e * Real.sinh H ∧
    alphaOf mu (cartOf mu x H) = 1 / x.a := by
  have hn := meanMotion_pos hmu ha.ne
  have hmu' := meanMotion_sq_mul_neg mu x.a hmu ha
  have hc : cartOf mu x H = _ := cart_hyperbolic mu x.a x.e x.i x.raan x.argp H (meanMotion mu x.a) ha he1 hn.le hmu'
  obtain ⟨a, e, i, Ω, ω, M⟩ := x
  simp only at ha he1 hn hmu' hc ⊢
  generalize meanMotion mu a = n at hn hmu' hc ⊢
  have hD : 1 - e * Real.cosh H < 0 := hyp_denom_neg he1 H
  have hD' := hD.ne
  have hD2 : 1 - Real.cosh H * e ≠ 0 := by rwa [mul_comm]
  have hq : (0 : ℝ) ≤ e ^ 2 - 1 := by nlinarith
  have hqq := Real.sq_sqrt hq
  have hsc := Real.cosh_sq H
  have hneg : e * Real.cosh H - 1 = -(1 - e * Real.cosh H) := by ring
  have hr : rnorm (cartOf mu ⟨a, e, i, Ω, ω, M⟩ H) = a * (1 - e * Real.cosh H) := by
    rw [hc, place_rnorm]
    have : (a * (Real.cosh H - e)) ^ 2 + (-a * Real.sqrt (e ^ 2 - 1) * Real.sinh H) ^ 2
        = (a * (1 - e * Real.cosh H)) ^ 2 := by
      rw [mul_pow, mul_pow, mul_pow, neg_sq, hqq]
      linear_combination (a ^ 2 * (1 - e ^ 2)) * hsc
    rw [this, Real.sqrt_sq (mul_nonneg_of_nonpos_of_nonpos ha.le hD.le)]
  refine ⟨hr, ?_, ?_⟩
  · rw [hc, place_rdotv, hneg]
    generalize Real.sqrt (e ^ 2 - 1) = q at hqq
    field_simp
    linear_combination (-(a ^ 2 * Real.sinh H * Real.cosh H)) * hqq
  · rw [alphaOf, hr, hc, place_vsq, hneg]
    subst hmu'
    generalize Real.sqrt (e ^ 2 - 1) = q at hqq
    have hn' := hn.ne'
    have ha' := ha.ne
    rw [mul_pow, mul_pow, mul_pow, mul_pow, neg_sq, hqq]
    field_simp
    linear_combination (-1 : ℝ) * hsc

/-- **Keplerian propagation is the universal-variable solution — hyperbolic orbits, Δt of either sign** (`a < 0 < e − 1`):
`χ = √(−a) (H − H₀)` solves the universal Kepler equation built from the initial cartesian state, is its only solution, and
`f r₀ + g v₀` is the position of the propagated state. -/
theorem kepler_is_universal_variable_solution_hyperbolic (mu : ℝ) (x : Elts) (hmu : 0 < mu) (ha : x.a < 0) (he1 : 1 < x.e)
    (H0 H dt : ℝ) (h0 : x.e * Real.sinh H0 - H0 = x.M) (hH : x.e * Real.sinh H - H = (keplerStep mu x dt).M) :
    uF (alphaOf mu (cartOf mu x H0)) (rnorm (cartOf mu x H0)) (rdotv (cartOf mu x H0) / Real.sqrt mu)
        (Real.sqrt (-x.a) * (H - H0)) = Real.sqrt mu * dt ∧
    (∀ χ, uF (alphaOf mu (cartOf mu x H0)) (rnorm (cartOf mu x H0)) (rdotv (cartOf mu x H0) / Real.sqrt mu) χ
        = Real.sqrt mu * dt → χ = Real.sqrt (-x.a) * (H - H0)) ∧
    ∀ j, j < 3 → comp (cartOf mu x H) j =
      lagF (alphaOf mu (cartOf mu x H0)) (rnorm (cartOf mu x H0)) (Real.sqrt (-x.a) * (H - H0)) * comp (cartOf mu x H0) j
      + lagG (alphaOf mu (cartOf mu x H0)) (Real.sqrt mu) dt (Real.sqrt (-x.a) * (H - H0)) * comp (cartOf mu x H0) (j + 3) := by
  obtain ⟨hr, hrv, hal⟩ := cartOf_invariants_hyperbolic mu x hmu ha he1 H0
  have hn := meanMotion_pos hmu ha.ne
  have hmu' := meanMotion_sq_mul_neg mu x.a hmu ha
  have hK : (x.e * Real.sinh H - H) - (x.e * Real.sinh H0 - H0) = meanMotion mu x.a * dt := by
    rw [hH, h0, keplerStep_eq]; ring
  have hcE : cartOf mu x H = _ := cart_hyperbolic mu x.a x.e x.i x.raan x.argp H (meanMotion mu x.a) ha he1 hn.le hmu'
  have hc0 : cartOf mu x H0 = _ := cart_hyperbolic mu x.a x.e x.i x.raan x.argp H0 (meanMotion mu x.a) ha he1 hn.le hmu'
  clear h0 hH
  obtain ⟨a, e, i, Ω, ω, M⟩ := x
  simp only at ha he1 hn hmu' hK hcE hc0 hr hrv hal ⊢
  generalize meanMotion mu a = n at hn hmu' hK hcE hc0 hrv ⊢
  have hD : 1 - e * Real.cosh H0 < 0 := hyp_denom_neg he1 H0
  have hD2 : e * Real.cosh H0 - 1 ≠ 0 := fun h => hD.ne (by linarith)
  -- s = √(−a)
  obtain ⟨s, hs, hsa⟩ : ∃ s : ℝ, 0 < s ∧ a = -(s ^ 2) :=
    ⟨Real.sqrt (-a), Real.sqrt_pos.mpr (by linarith), by rw [Real.sq_sqrt (by linarith)]; ring⟩
  have hsq : Real.sqrt (-a) = s := by rw [hsa, neg_neg]; exact Real.sqrt_sq hs.le
  have hsmu : Real.sqrt mu = n * s ^ 3 := by
    rw [← hmu', hsa, show -(n ^ 2 * (-(s ^ 2)) ^ 3) = (n * s ^ 3) ^ 2 by ring]
    exact Real.sqrt_sq (by positivity)
  have hn' := hn.ne'
  have hs' := hs.ne'
  have hsig : rdotv (cartOf mu ⟨a, e, i, Ω, ω, M⟩ H0) / Real.sqrt mu = s * e * Real.sinh H0 := by
    rw [hrv, hsmu, hsa]
    field_simp
  have hal' : alphaOf mu (cartOf mu ⟨a, e, i, Ω, ω, M⟩ H0) = 1 / (-(s ^ 2)) := by rw [hal, hsa]
  have hr' : rnorm (cartOf mu ⟨a, e, i, Ω, ω, M⟩ H0) = -(s ^ 2) * (1 - e * Real.cosh H0) := by rw [hr, hsa]
  rw [hal', hr', hsig, hsq, hsmu]
  have hU := uF_hyperbolic s e H0
  refine ⟨?_, ?_, ?_⟩
  · rw [hU H hs, hK]; ring
  · intro χ hχ
    have hχE : χ = s * ((H0 + χ / s) - H0) := by field_simp; ring
    rw [hχE, hU _ hs] at hχ
    have hs3 : (0 : ℝ) < s ^ 3 := by positivity
    have hKχ : e * Real.sinh (H0 + χ / s) - (H0 + χ / s) = e * Real.sinh H - H := by
      have : s ^ 3 * ((e * Real.sinh (H0 + χ / s) - (H0 + χ / s)) - (e * Real.sinh H0 - H0)) = s ^ 3 * (n * dt) := by
        rw [hχ]; ring
      have := mul_left_cancel₀ hs3.ne' this
      linarith
    have := hyperbolic_kepler_equation_solution_unique e _ _ he1.le hKχ
    rw [hχE, this]
  · intro j hj
    obtain ⟨fx, fy⟩ := fg_hyperbolic s n e (Real.sqrt (e ^ 2 - 1)) H0 H dt hs hn' hD2 hK
    rw [hcE, hc0, hsa]
    obtain ⟨a0, a1, a2, -⟩ := comp_place i Ω ω (-(s ^ 2) * (Real.cosh H - e))
      (-(-(s ^ 2)) * Real.sqrt (e ^ 2 - 1) * Real.sinh H)
      (-(s ^ 2) * (Real.sinh H * (n / (e * Real.cosh H - 1))))
      (-(-(s ^ 2)) * Real.sqrt (e ^ 2 - 1) * (Real.cosh H * (n / (e * Real.cosh H - 1))))
    obtain ⟨b0, b1, b2, b3, b4, b5⟩ := comp_place i Ω ω (-(s ^ 2) * (Real.cosh H0 - e))
      (-(-(s ^ 2)) * Real.sqrt (e ^ 2 - 1) * Real.sinh H0)
      (-(s ^ 2) * (Real.sinh H0 * (n / (e * Real.cosh H0 - 1))))
      (-(-(s ^ 2)) * Real.sqrt (e ^ 2 - 1) * (Real.cosh H0 * (n / (e * Real.cosh H0 - 1))))
    have hj' : j = 0 ∨ j = 1 ∨ j = 2 := by omega
    rcases hj' with rfl | rfl | rfl
    · rw [a0, b0, b3]; linear_combination (TwoBody3D.P1 i Ω ω) * fx + (TwoBody3D.Q1 i Ω ω) * fy
    · rw [a1, b1, b4]; linear_combination (TwoBody3D.P2 i Ω ω) * fx + (TwoBody3D.Q2 i Ω ω) * fy
    · rw [a2, b2, b5]; linear_combination (TwoBody3D.P3 i Ω ω) * fx + (TwoBody3D.Q3 i Ω ω) * fy

end BeyondVerif.C05
