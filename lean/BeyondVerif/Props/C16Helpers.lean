import BeyondVerif.Props.C16

/-!
# C16 — rendezvous helper outcomes (beyond/utils/cwhelper.py) as corollaries of Φ and Γ

Each theorem takes the Δv / acceleration *as the helper computes it* (formulas quoted from
cwhelper.py in the doc comments; the correspondence/oracle run checks that the real helper returns
exactly these) and shows that, under the translated CW matrices, the chaser moves by exactly the
announced distances and ends at rest where the helper says so.  QSW orientation; TNW follows from
`tnw_is_permuted_qsw`.
-/
namespace BeyondVerif.C16
open BeyondVerif.R BeyondVerif.NumReal

/-- `CWHelper.coelliptic`: `[radial, tangential, 0, 0, -1.5 n radial, 0]` keeps its radial distance
and drifts along-track at the constant rate `-1.5 n radial`. -/
theorem coelliptic_drift (n : ℝ) (hn : n ≠ 0) (r τ t : ℝ) :
    cwStepQSW n t [r, τ, 0, 0, -(1.5 * n * r), 0] [0, 0, 0]
      = [r, τ - 1.5 * n * r * t, 0, 0, -(1.5 * n * r), 0] := by
  simp only [cwStepQSW, cwMats, matVec, dot, vadd, List.map, powi, List.cons.injEq, and_true]
  refine ⟨?_, ?_, ?_, ?_, ?_, ?_⟩ <;> field_simp <;> ring

private theorem npi (n : ℝ) (hn : n ≠ 0) : n * (Real.pi / n) = Real.pi := by field_simp
private theorem n2pi (n : ℝ) (hn : n ≠ 0) : n * (2 * Real.pi / n) = 2 * Real.pi := by field_simp

/-- `CWHelper.hohmann(radial)` impulsive: two burns `dv = [0,1,0]·radial·n/4`, half a period
(`π/n`) apart, take a coelliptic chaser `radial` below (state `[-radial, τ, 0, 0, 1.5 n radial, 0]`)
to radial distance 0, `3π·radial/4` further along-track (`hohmann_distance`), at rest. -/
theorem hohmann_moves (n : ℝ) (hn : n ≠ 0) (r τ : ℝ) :
    addDv (cwStepQSW n (Real.pi / n) (addDv [-r, τ, 0, 0, 1.5 * n * r, 0] [0, r * n / 4, 0]) [0, 0, 0])
        [0, r * n / 4, 0]
      = [0, τ + r * 3 * Real.pi / 4, 0, 0, 0, 0] := by
  simp only [cwStepQSW, cwMats, matVec, dot, vadd, addDv, List.map, List.take, List.drop, powi,
    List.cons_append, List.nil_append, npi n hn, Real.cos_pi, Real.sin_pi, List.cons.injEq, and_true]
  refine ⟨?_, ?_, ?_, ?_, ?_, ?_⟩ <;> field_simp <;> ring

/-- `CWHelper.hohmann(radial, continuous=True)`: one continuous burn of a full period with total
`Δv = 2·radial·n/4` along-track, i.e. acceleration `radial·n²/(4π)`; ends at radial 0, moved by
`2·3π·radial/4`, at rest. -/
theorem hohmann_continuous_moves (n : ℝ) (hn : n ≠ 0) (r τ : ℝ) :
    cwStepQSW n (2 * Real.pi / n) [-r, τ, 0, 0, 1.5 * n * r, 0] [0, 2 * (r * n / 4) / (2 * Real.pi / n), 0]
      = [0, τ + 2 * (r * 3 * Real.pi / 4), 0, 0, 0, 0] := by
  have hpi : Real.pi ≠ 0 := Real.pi_ne_zero
  simp only [cwStepQSW, cwMats, matVec, dot, vadd, List.map, powi, n2pi n hn, Real.cos_two_pi, Real.sin_two_pi,
    List.cons.injEq, and_true]
  refine ⟨?_, ?_, ?_, ?_, ?_, ?_⟩ <;> field_simp <;> ring

/-- `CWHelper.eccentric_boost(tangential)` impulsive: two radial burns `dv = [-1,0,0]·tangential·n/4`
half a period apart move a chaser at rest on the V-bar by `tangential` along-track, back at rest. -/
theorem eccentric_boost_moves (n : ℝ) (hn : n ≠ 0) (d τ : ℝ) :
    addDv (cwStepQSW n (Real.pi / n) (addDv [0, τ, 0, 0, 0, 0] [-(d * n / 4), 0, 0]) [0, 0, 0])
        [-(d * n / 4), 0, 0]
      = [0, τ + d, 0, 0, 0, 0] := by
  simp only [cwStepQSW, cwMats, matVec, dot, vadd, addDv, List.map, List.take, List.drop, powi,
    List.cons_append, List.nil_append, npi n hn, Real.cos_pi, Real.sin_pi, List.cons.injEq, and_true]
  refine ⟨?_, ?_, ?_, ?_, ?_, ?_⟩ <;> field_simp <;> ring

/-- `CWHelper.tangential_boost(tangential)`: `dv = [0,-1,0]·tangential·n/(6π)`, and `-dv` one period
later, move a chaser at rest on the V-bar by `tangential` along-track, back at rest. -/
theorem tangential_boost_moves (n : ℝ) (hn : n ≠ 0) (d τ : ℝ) :
    addDv (cwStepQSW n (2 * Real.pi / n) (addDv [0, τ, 0, 0, 0, 0] [0, -(d * n / (6 * Real.pi)), 0]) [0, 0, 0])
        [0, d * n / (6 * Real.pi), 0]
      = [0, τ + d, 0, 0, 0, 0] := by
  have hpi : Real.pi ≠ 0 := Real.pi_ne_zero
  simp only [cwStepQSW, cwMats, matVec, dot, vadd, addDv, List.map, List.take, List.drop, powi,
    List.cons_append, List.nil_append, n2pi n hn, Real.cos_two_pi, Real.sin_two_pi, List.cons.injEq, and_true]
  refine ⟨?_, ?_, ?_, ?_, ?_, ?_⟩ <;> field_simp <;> ring

/-- `CWHelper.vbar_linear`: after the impulse `[0, v, 0]` and under the compensating radial
acceleration `[-1,0,0]·2 n v`, the chaser moves along the V-bar at the constant speed `v`
(radial distance stays 0) for any duration; the final impulse `-[0, v, 0]` leaves it at rest. -/
theorem vbar_linear_moves (n : ℝ) (hn : n ≠ 0) (v τ T : ℝ) :
    addDv (cwStepQSW n T (addDv [0, τ, 0, 0, 0, 0] [0, v, 0]) [-(2 * n * v), 0, 0]) [0, -v, 0]
      = [0, τ + v * T, 0, 0, 0, 0] := by
  simp only [cwStepQSW, cwMats, matVec, dot, vadd, addDv, List.map, List.take, List.drop, powi,
    List.cons_append, List.nil_append, List.cons.injEq, and_true]
  refine ⟨?_, ?_, ?_, ?_, ?_, ?_⟩ <;> field_simp <;> ring

end BeyondVerif.C16
