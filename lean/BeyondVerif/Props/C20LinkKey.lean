import BeyondVerif.Model.LinkKey
import BeyondVerif.Generated.LinkKeys
import Mathlib.Data.List.Infix

/-!
# C20 — the name of a link method determines the pair of node names (exact hypothesis)

`linkKey a b = a ++ "_to_" ++ b`.  Two different pairs of names can produce the same key:
`("A_to_B", "C")` / `("A", "B_to_C")` and `("X_to", "b")` / `("X", "to_b")` (`collision_infix`, `collision_suffix`).
These are the ONLY ways: `linkKey_injective` — if neither first name contains `_to_` nor ends with `_to`, the key
determines the pair.  (Both first names matter because `convert_to` also looks the reverse key up.)
The normalised key of seeded change C20-m7 identifies `Site-1` and `Site 1` (`normKey_collision`).
-/
namespace BeyondVerif.C20
open BeyondVerif.LinkKey

theorem key_aux (x t b b' : List Nat) (h : sepTo ++ b = t ++ (sepTo ++ b')) :
    t = [] ∨ sepTo <:+: (x ++ t) ∨ sepPre <:+ (x ++ t) := by
  rcases t with _ | ⟨c1, _ | ⟨c2, _ | ⟨c3, _ | ⟨c4, t5⟩⟩⟩⟩
  · exact Or.inl rfl
  · simp [sepTo] at h
  · simp [sepTo] at h
  · simp only [sepTo, List.cons_append, List.nil_append, List.cons.injEq] at h
    obtain ⟨rfl, rfl, rfl, -⟩ := h
    exact Or.inr (Or.inr ⟨x, rfl⟩)
  · simp only [sepTo, List.cons_append, List.nil_append, List.cons.injEq] at h
    obtain ⟨rfl, rfl, rfl, rfl, -⟩ := h
    exact Or.inr (Or.inl ⟨x, t5, by simp [sepTo]⟩)

/-- **The link name determines the pair of names** as soon as neither first name contains `_to_` nor ends with `_to` -/
theorem linkKey_injective {a a' b b' : List Nat}
    (ha : ¬ sepTo <:+: a) (hs : ¬ sepPre <:+ a) (ha' : ¬ sepTo <:+: a') (hs' : ¬ sepPre <:+ a')
    (h : linkKey a b = linkKey a' b') : a = a' ∧ b = b' := by
  unfold linkKey at h
  rw [List.append_assoc, List.append_assoc] at h
  rcases List.append_eq_append_iff.mp h with ⟨t, rfl, h2⟩ | ⟨t, rfl, h2⟩
  · rcases key_aux a t b b' h2 with rfl | hi | hsuf
    · simp only [List.nil_append, List.append_cancel_left_eq] at h2
      exact ⟨by simp, h2⟩
    · exact absurd hi ha'
    · exact absurd hsuf hs'
  · rcases key_aux a' t b' b h2 with rfl | hi | hsuf
    · simp only [List.nil_append, List.append_cancel_left_eq] at h2
      exact ⟨by simp, h2.symm⟩
    · exact absurd hi ha
    · exact absurd hsuf hs

/-- outside the hypothesis: `"A_to_B" + "C"` and `"A" + "B_to_C"` name the same method -/
theorem collision_infix :
    linkKey [65, 95, 116, 111, 95, 66] [67] = linkKey [65] [66, 95, 116, 111, 95, 67] ∧
      ([65, 95, 116, 111, 95, 66], [67]) ≠ (([65], [66, 95, 116, 111, 95, 67]) : List Nat × List Nat) := by decide

/-- outside the hypothesis: `"X_to" + "b"` and `"X" + "to_b"` name the same method although no name contains `_to_` -/
theorem collision_suffix :
    linkKey [88, 95, 116, 111] [98] = linkKey [88] [116, 111, 95, 98] ∧
      ¬ sepTo <:+: [88, 95, 116, 111] ∧ ¬ sepTo <:+: [88] ∧ ¬ sepTo <:+: [116, 111, 95, 98] ∧ ¬ sepTo <:+: [98] := by
  refine ⟨by decide, ?_, ?_, ?_, ?_⟩ <;> decide

/-- the key of seeded change C20-m7 identifies `Site-1` and `Site 1` (children of one parent `E`) -/
theorem normKey_collision :
    normKey [83, 105, 116, 101, 45, 49] [69] = normKey [83, 105, 116, 101, 32, 49] [69] ∧
      linkKey [83, 105, 116, 101, 45, 49] [69] ≠ linkKey [83, 105, 116, 101, 32, 49] [69] := by decide

/-- every registration site and both `convert_to` of the CURRENT source (regenerated from the AST on every run) form the
attribute name as `f"{a}_to_{b}"` with no normalisation, `direct` from `(a, b)` and `reverse` from `(b, a)`: the key function
of the code is `linkKey` -/
theorem key_sites_plain :
    (BeyondVerif.Generated.keyShapes.all (fun s => s.2.plain) && !BeyondVerif.Generated.keyShapes.isEmpty &&
      BeyondVerif.Generated.lookupShapes.all (fun s => s.2.1 && s.2.2.1 && s.2.2.2.1.plain && s.2.2.2.2.plain) &&
      BeyondVerif.Generated.lookupShapes.length == 2) = true := by decide

/-- non-vacuity of `linkKey_injective`: `Site-1`, `Earth` meet the hypotheses -/
example : ¬ sepTo <:+: [83, 105, 116, 101, 45, 49] ∧ ¬ sepPre <:+ [83, 105, 116, 101, 45, 49] := by
  constructor <;> decide

end BeyondVerif.C20
