import BeyondVerif.Props.C20Graph
import BeyondVerif.Model.NodeSmall
/-!
C20, the clause "a shortest chain in general" on SMALL node sets.

`shortest_of_closed`: soundness of a finite certificate.  The set of reachable states on the nodes 0..3 is finite;
`Model/NodeSmall.lean: reachable ps` enumerates it (an untrusted search) and `closedB ps T` checks that `T` contains the empty
state, is closed under every link `a + b` of the list `ps`, and holds no state with a stale `steps` field (`freshAllB`).  Induction
over the history (`reach_inv`) and `shortest_if_steps_not_stale` (any graph) then give: EVERY history made of links of `ps` (any
length, any order, repeats, either orientation, cycles) is built and every returned path is a shortest chain of inserted links.
States are compared up to the order of the association list (`norm4`): the model functions read the graph only through `get`
(`link_ext`, proved here).

`three_nodes_shortest`: the certificate for the nodes 0..2 is evaluated by the kernel (`closed3`).
`four_nodes_shortest_of_certificate`: the same for the nodes 0..3 with the certificate as hypothesis — a closed Boolean term that the
compiled model evaluates in every run (driver op `closed4`, 1582 states).  The known finding C20-cyclic-nonshortest needs 5 nodes
(`Witness/C20.lean: pentagon_not_shortest`).
-/
namespace BeyondVerif.C20
open BeyondVerif.Node

/-! ## the model reads the graph only through `get` -/

/-- same node states on the nodes below `n` -/
def ExtN (n : Nat) (g g' : Graph) : Prop := ∀ u, u < n → get g u = get g' u

/-- neighbour lists of the nodes below `n` stay below `n` -/
def NbN (n : Nat) (g : Graph) : Prop := ∀ u, u < n → ∀ v ∈ (get g u).nbrs, v < n

theorem refreshRoutes_ext {n : Nat} {g g' : Graph} (h : ExtN n g g') (hN : NbN n g) {u : Nat} (hu : u < n) :
    refreshRoutes g u = refreshRoutes g' u := by
  unfold refreshRoutes
  simp only
  rw [← h u hu]
  have key : ∀ (l : List Nat) (acc : List Route), (∀ d ∈ l, d < n) →
      l.foldl (fun acc d => mergeFrom u (get g u).nbrs d (get g d).routes (setRoute acc ⟨d, d, 1⟩)) acc =
      l.foldl (fun acc d => mergeFrom u (get g u).nbrs d (get g' d).routes (setRoute acc ⟨d, d, 1⟩)) acc := by
    intro l
    induction l with
    | nil => intro acc _; rfl
    | cons d l ih =>
      intro acc hl
      simp only [List.foldl_cons]
      rw [h d (hl d (by simp))]
      exact ih _ (fun x hx => hl x (by simp [hx]))
  exact key _ _ (hN u hu)

theorem refresh_ext {n : Nat} {g g' : Graph} (h : ExtN n g g') (hN : NbN n g) {u : Nat} (hu : u < n) :
    ExtN n (refresh g u) (refresh g' u) := by
  intro v hv
  unfold refresh
  rw [get_set, get_set, refreshRoutes_ext h hN hu, h u hu, h v hv]

theorem refresh_nbN {n : Nat} {g : Graph} (hN : NbN n g) (u : Nat) : NbN n (refresh g u) := by
  intro v hv w hw
  rw [get_refresh_nbrs] at hw
  exact hN v hv w hw

/-- relation between the two runs of `_update` -/
def RelU (n : Nat) : Option (Graph × List Nat) → Option (Graph × List Nat) → Prop
  | none, none => True
  | some x, some y => ExtN n x.1 y.1 ∧ NbN n x.1 ∧ x.2 = y.2
  | _, _ => False

theorem update_ext (n : Nat) : ∀ (fuel : Nat) (g g' : Graph) (vis : List Nat) (u : Nat),
    ExtN n g g' → NbN n g → u < n → RelU n (update fuel g vis u) (update fuel g' vis u) := by
  intro fuel
  induction fuel with
  | zero => intro g g' vis u _ _ _; simp [update, RelU]
  | succ fuel ih =>
    intro g g' vis u h hN hu
    unfold update
    simp only
    have h1 := refresh_ext h hN hu
    have hN1 := refresh_nbN hN u
    rw [← h1 u hu]
    have hl : ∀ d ∈ (get (refresh g u) u).nbrs, d < n := hN1 u hu
    generalize (get (refresh g u) u).nbrs = l at hl
    have key : ∀ (l : List Nat) (st st' : Option (Graph × List Nat)), (∀ d ∈ l, d < n) → RelU n st st' →
        RelU n
          (l.foldl (fun st d => match st with
            | none => none
            | some (g, visited) => if visited.contains d then some (g, visited) else update fuel g visited d) st)
          (l.foldl (fun st d => match st with
            | none => none
            | some (g, visited) => if visited.contains d then some (g, visited) else update fuel g visited d) st') := by
      intro l
      induction l with
      | nil => intro st st' _ hr; exact hr
      | cons d l ihl =>
        intro st st' hl hr
        simp only [List.foldl_cons]
        apply ihl _ _ (fun x hx => hl x (by simp [hx]))
        match st, st', hr with
        | none, none, _ => simp [RelU]
        | some (x, vx), some (y, vy), hr =>
          obtain ⟨e1, e2, e3⟩ := hr
          simp only at e1 e2 e3
          subst e3
          simp only
          by_cases hc : vx.contains d
          · simp only [hc, if_true]; exact ⟨e1, e2, rfl⟩
          · simp only [hc]
            exact ih x y vx d e1 e2 (hl d (by simp))
    exact key l _ _ hl ⟨h1, hN1, rfl⟩

/-- relation between the two results of a link -/
def RelL (n : Nat) : Option Graph → Option Graph → Prop
  | none, none => True
  | some x, some y => ExtN n x y ∧ NbN n x
  | _, _ => False

theorem link_ext {n : Nat} {g g' : Graph} (h : ExtN n g g') (hN : NbN n g) (fuel : Nat) {a b : Nat} (ha : a < n) (hb : b < n) :
    RelL n (link fuel g a b) (link fuel g' a b) := by
  unfold link
  simp only
  have e1 : ExtN n (set g a { get g a with nbrs := addNbr (get g a).nbrs b })
      (set g' a { get g' a with nbrs := addNbr (get g' a).nbrs b }) := by
    intro v hv
    rw [get_set, get_set, h a ha, h v hv]
  have n1 : NbN n (set g a { get g a with nbrs := addNbr (get g a).nbrs b }) := by
    intro v hv w hw
    rw [get_set] at hw
    split at hw
    · rw [mem_addNbr] at hw
      rcases hw with hw | hw
      · exact hN a ha w hw
      · omega
    · exact hN v hv w hw
  generalize set g a { get g a with nbrs := addNbr (get g a).nbrs b } = g1 at e1 n1
  generalize set g' a { get g' a with nbrs := addNbr (get g' a).nbrs b } = g1' at e1
  have e2 : ExtN n (set g1 b { get g1 b with nbrs := addNbr (get g1 b).nbrs a })
      (set g1' b { get g1' b with nbrs := addNbr (get g1' b).nbrs a }) := by
    intro v hv
    rw [get_set, get_set, e1 b hb, e1 v hv]
  have n2 : NbN n (set g1 b { get g1 b with nbrs := addNbr (get g1 b).nbrs a }) := by
    intro v hv w hw
    rw [get_set] at hw
    split at hw
    · rw [mem_addNbr] at hw
      rcases hw with hw | hw
      · exact n1 b hb w hw
      · omega
    · exact n1 v hv w hw
  have := update_ext n fuel _ _ [] a e2 n2 ha
  revert this
  generalize update fuel (set g1 b { get g1 b with nbrs := addNbr (get g1 b).nbrs a }) [] a = r
  generalize update fuel (set g1' b { get g1' b with nbrs := addNbr (get g1' b).nbrs a }) [] a = r'
  intro hr
  match r, r', hr with
  | none, none, _ => simp [RelL]
  | some x, some y, hr => exact ⟨hr.1, hr.2.1⟩

/-! ## four nodes: the certificate is sound -/

theorem norm4_ext (g : Graph) : ExtN 4 g (norm4 g) := by
  intro u hu
  have : u = 0 ∨ u = 1 ∨ u = 2 ∨ u = 3 := by omega
  rcases this with rfl | rfl | rfl | rfl <;> simp [norm4, Node.get, List.lookup]

theorem norm4_congr {g g' : Graph} (h : ExtN 4 g g') : norm4 g = norm4 g' := by
  simp [norm4, h 0 (by omega), h 1 (by omega), h 2 (by omega), h 3 (by omega)]

theorem Trie.mem_toList : ∀ (t : Trie) (k : Nat) (g : Graph), t.mem k g = true → g ∈ t.toList := by
  intro t
  induction t with
  | leaf l => intro k g h; simpa [Trie.mem, Trie.toList] using h
  | node l r ihl ihr =>
    intro k g h
    unfold Trie.mem at h
    simp only [Trie.toList, List.mem_append]
    split at h
    · exact Or.inl (ihl _ _ h)
    · exact Or.inr (ihr _ _ h)

/-- the invariant of every history on the nodes 0..3 -/
def Inv4 (t : Trie) (g : Graph) : Prop := NbN 4 g ∧ t.mem (code (norm4 g)) (norm4 g) = true

theorem mem_pairs4 {a b : Nat} (ha : a < 4) (hb : b < 4) (hab : a ≠ b) : (a, b) ∈ pairs4 := by
  have h1 : a = 0 ∨ a = 1 ∨ a = 2 ∨ a = 3 := by omega
  have h2 : b = 0 ∨ b = 1 ∨ b = 2 ∨ b = 3 := by omega
  rcases h1 with rfl | rfl | rfl | rfl <;> rcases h2 with rfl | rfl | rfl | rfl <;> simp [pairs4] at hab ⊢

theorem mem_pairs3 {a b : Nat} (ha : a < 3) (hb : b < 3) (hab : a ≠ b) : (a, b) ∈ pairs3 := by
  have h1 : a = 0 ∨ a = 1 ∨ a = 2 := by omega
  have h2 : b = 0 ∨ b = 1 ∨ b = 2 := by omega
  rcases h1 with rfl | rfl | rfl <;> rcases h2 with rfl | rfl | rfl <;> simp [pairs3] at hab ⊢

theorem closed_pairs {ps : List (Nat × Nat)} {t : Trie} (hc : closedB ps t = true) {e : Nat × Nat} (he : e ∈ ps) :
    e.1 < 4 ∧ e.2 < 4 ∧ e.1 ≠ e.2 := by
  unfold closedB at hc
  simp only [Bool.and_eq_true, List.all_eq_true, decide_eq_true_eq] at hc
  obtain ⟨⟨h1, h2⟩, h3⟩ := hc.1.1 e he
  exact ⟨h1, h2, h3⟩

theorem closed_state {ps : List (Nat × Nat)} {t : Trie} (hc : closedB ps t = true) {c : Graph} (hm : c ∈ t.toList) :
    freshAllB c = true ∧ ∀ e ∈ ps, ∃ g', link 6 c e.1 e.2 = some g' ∧ t.mem (code (norm4 g')) (norm4 g') = true := by
  unfold closedB at hc
  simp only [Bool.and_eq_true, List.all_eq_true] at hc
  obtain ⟨⟨hf, _⟩, hp⟩ := hc.2 c hm
  refine ⟨hf, fun e he => ?_⟩
  have := hp e he
  split at this
  · exact ⟨_, ‹_›, this⟩
  · exact absurd this (by simp)

theorem inv4_empty {ps : List (Nat × Nat)} {t : Trie} (hc : closedB ps t = true) : Inv4 t [] := by
  refine ⟨fun u _ v hv => by simp [Node.get] at hv, ?_⟩
  unfold closedB at hc
  simp only [Bool.and_eq_true] at hc
  exact hc.1.2

theorem inv4_link {ps : List (Nat × Nat)} {t : Trie} (hc : closedB ps t = true) {g : Graph} (hI : Inv4 t g) {e : Nat × Nat} (he : e ∈ ps) :
    ∃ g', link 6 g e.1 e.2 = some g' ∧ Inv4 t g' := by
  obtain ⟨hN, hm⟩ := hI
  obtain ⟨ha, hb, _⟩ := closed_pairs hc he
  obtain ⟨_, hp⟩ := closed_state hc (Trie.mem_toList _ _ _ hm)
  obtain ⟨c', hl, hm'⟩ := hp e he
  have hrel := link_ext (norm4_ext g) hN 6 ha hb
  rw [hl] at hrel
  cases hg : link 6 g e.1 e.2 with
  | none => rw [hg] at hrel; exact absurd hrel (by simp [RelL])
  | some g' =>
    rw [hg] at hrel
    obtain ⟨e1, e2⟩ := hrel
    exact ⟨g', rfl, e2, by rw [norm4_congr e1]; exact hm'⟩

theorem reach_inv {ps : List (Nat × Nat)} {t : Trie} (hc : closedB ps t = true) (hist : List (Nat × Nat)) (hn : ∀ e ∈ hist, e ∈ ps) :
    ∃ g, build 6 hist = some g ∧ Inv4 t g := by
  unfold build
  have key : ∀ (l : List (Nat × Nat)) (g0 : Graph), (∀ e ∈ l, e ∈ ps) → Inv4 t g0 →
      ∃ g, l.foldl (fun og e => og.bind (fun g => link 6 g e.1 e.2)) (some g0) = some g ∧ Inv4 t g := by
    intro l
    induction l with
    | nil => intro g0 _ h0; exact ⟨g0, rfl, h0⟩
    | cons e l ih =>
      intro g0 hl h0
      obtain ⟨g1, hg1, hI1⟩ := inv4_link hc h0 (hl e (by simp))
      simp only [List.foldl_cons, Option.bind_some, hg1]
      exact ih g1 (fun x hx => hl x (by simp [hx])) hI1
  exact key hist [] hn (inv4_empty hc)

/-- what `freshAllB` says, read on the graph itself -/
theorem fresh_of_inv {ps : List (Nat × Nat)} {T : Trie} (hc : closedB ps T = true) {g : Graph} (hI : Inv4 T g) {s t : Nat} (hs : s < 4) (hts : t ≠ s) {r : Route}
    (hr : lookupRoute (get g s).routes t = some r) :
    r.steps ≤ 3 ∧ (2 ≤ r.steps → t ∉ (get g s).nbrs) ∧ (3 ≤ r.steps → ∀ x ∈ (get g s).nbrs, t ∉ (get g x).nbrs) := by
  obtain ⟨hN, hm⟩ := hI
  obtain ⟨hf, _⟩ := closed_state hc (Trie.mem_toList _ _ _ hm)
  obtain ⟨hrm, hrt⟩ := lookupRoute_some hr
  unfold freshAllB at hf
  simp only [List.all_eq_true, List.mem_range] at hf
  have h1 := hf s hs r (by rw [← norm4_ext g s hs]; exact hrm)
  rw [← norm4_ext g s hs, hrt] at h1
  have hne : (t == s) = false := by simpa using hts
  simp only [hne, Bool.false_or, Bool.and_eq_true, Bool.or_eq_true, decide_eq_true_eq, Bool.not_eq_true', List.all_eq_true] at h1
  obtain ⟨⟨h3, h2⟩, h4⟩ := h1
  refine ⟨h3, fun h => ?_, fun h x hx => ?_⟩
  · rcases h2 with h2 | h2
    · omega
    · simpa using h2
  · rcases h4 with h4 | h4
    · omega
    · have := h4 x hx
      rw [← norm4_ext g x (hN s hs x hx)] at this
      simpa using this

/-- **Soundness of the certificate.**  If a set of states `T` contains the empty state, is closed under every link of `ps` and
holds no state with a stale `steps` field (`closedB ps T`, one Boolean evaluation), then EVERY history made of links of `ps` —
any length, any order, repeats, cycles — is built, and every path returned on it is a shortest chain of inserted links. -/
theorem shortest_of_closed {ps : List (Nat × Nat)} {T : Trie} (hc : closedB ps T = true) (hist : List (Nat × Nat))
    (hn : ∀ e ∈ hist, e ∈ ps) :
    ∃ g, build 6 hist = some g ∧ ∀ s t, s < 4 → t ≠ s → ∀ fuel' p, path fuel' g s t = .ok p →
      ∀ q : List Nat, q.head? = some s → q.getLast? = some t → q.IsChain (linked hist) → p.length ≤ q.length := by
  obtain ⟨g, hb, hI⟩ := reach_inv hc hist hn
  refine ⟨g, hb, ?_⟩
  intro s t hs hts fuel' p hp
  cases hr : lookupRoute (get g s).routes t with
  | none => simp [path, hts, hr] at hp
  | some r =>
    obtain ⟨f1, f2, f3⟩ := fresh_of_inv hc hI hs hts hr
    refine shortest_if_steps_not_stale 6 fuel' hist g (fun e he => (closed_pairs hc (hn e he)).2.2) hb s t r hts hr ?_ p hp
    intro q q1 q2 q3
    by_contra hlt
    have hlt : q.length ≤ r.steps := by omega
    match q, q1, q2, q3, hlt with
    | [], q1, _, _, _ => simp at q1
    | [x], q1, q2, _, _ =>
      simp at q1 q2
      omega
    | [x, y], q1, q2, q3, hlt =>
      simp at q1 q2
      subst q1; subst q2
      have h1 : linked hist x y := by simpa using q3
      exact f2 (by simpa using hlt) ((nbrs_iff_linked 6 hist g hb x y).mpr h1)
    | [x, y, z], q1, q2, q3, hlt =>
      simp at q1 q2
      subst q1; subst q2
      have h1 : linked hist x y ∧ linked hist y z := by simpa using q3
      exact f3 (by simpa using hlt) y ((nbrs_iff_linked 6 hist g hb x y).mpr h1.1) ((nbrs_iff_linked 6 hist g hb y z).mpr h1.2)
    | _ :: _ :: _ :: _ :: _, _, _, _, hlt =>
      simp at hlt
      omega

/-- the certificate for the nodes 0..2, checked by the kernel (16 states) -/
theorem closed3 : closedB pairs3 (reachable pairs3) = true := by decide +kernel

/-- **Three nodes: always a shortest chain.**  For every history of links on the nodes 0, 1, 2 (any length, any order, repeats,
either orientation, the triangle included) every returned path is a shortest chain of inserted links. -/
theorem three_nodes_shortest (hist : List (Nat × Nat)) (hn : ∀ e ∈ hist, e.1 < 3 ∧ e.2 < 3 ∧ e.1 ≠ e.2) :
    ∃ g, build 6 hist = some g ∧ ∀ s t, s < 3 → t ≠ s → ∀ fuel' p, path fuel' g s t = .ok p →
      ∀ q : List Nat, q.head? = some s → q.getLast? = some t → q.IsChain (linked hist) → p.length ≤ q.length := by
  obtain ⟨g, hb, h⟩ := shortest_of_closed closed3 hist (fun e he => mem_pairs3 (hn e he).1 (hn e he).2.1 (hn e he).2.2)
  exact ⟨g, hb, fun s t hs => h s t (by omega)⟩

/-- **Four nodes: always a shortest chain, GIVEN the certificate.**  The hypothesis is one closed Boolean term; the compiled model
evaluates it to `true` in every run (driver op `closed4`: 1582 states); the kernel evaluation was measured at about 8 CPU-minutes
and 5 GB in 16 slices and is therefore not part of the build. -/
theorem four_nodes_shortest_of_certificate (hc : closedB pairs4 (reachable pairs4) = true) (hist : List (Nat × Nat))
    (hn : ∀ e ∈ hist, e.1 < 4 ∧ e.2 < 4 ∧ e.1 ≠ e.2) :
    ∃ g, build 6 hist = some g ∧ ∀ s t, s < 4 → t ≠ s → ∀ fuel' p, path fuel' g s t = .ok p →
      ∀ q : List Nat, q.head? = some s → q.getLast? = some t → q.IsChain (linked hist) → p.length ≤ q.length :=
  shortest_of_closed hc hist (fun e he => mem_pairs4 (hn e he).1 (hn e he).2.1 (hn e he).2.2)

end BeyondVerif.C20
