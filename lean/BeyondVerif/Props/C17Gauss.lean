import BeyondVerif.Lemmas.Gauss

/-!
# C17 — "a maneuver specified as increments of inclination or node produces a finite Δv that realises the requested
increments to first order"

`dkep2dv` (translated, Generated/DkepR.lean) returns `[dv_t, 0, dv_w]` in TNW; `KeplerianImpulsiveMan.dv` turns it into
the frame of the orbit with `to_tnw(orb).T` (translated, Generated/LocalR.lean); the inclination and the node of the
resulting state are those `Form._cartesian_to_keplerian` computes (slices translated, Generated/KepPlaneR.lean).
The state is any one with radius `r > 0`, transverse speed `vt > 0`, radial speed `vr`, at argument of latitude `u` in
the plane `(i, Ω)`, `0 < i < π`.
-/
namespace BeyondVerif.C17
open BeyondVerif.R BeyondVerif.NumReal BeyondVerif.Lemmas.Gauss BeyondVerif.Lemmas.Dkep

/-- **Gauss equation for the inclination, at every argument of latitude**: the inclination (as the library's own
cartesian → keplerian conversion reads it) of the state that received `w` along the `W` axis of its TNW frame is
differentiable in `w` at 0 with derivative `r cos u / h`, `h = r · vt` the angular momentum; nothing is divided by zero
on the domain `r > 0, vt > 0, 0 < i < π`.  At `w = 0` it is `i`. -/
theorem gauss_inclination (r vr vt i Ω u : ℝ) (hr : 0 < r) (hvt : 0 < vt) (hi0 : 0 < i) (hiπ : i < Real.pi) :
    HasDerivAt (incAfter r vr vt i Ω u) (r * Real.cos u / (r * vt)) 0 ∧ incAfter r vr vt i Ω u 0 = i := by
  have hk : 0 < r * vt := mul_pos hr hvt
  have hsi : 0 < Real.sin i := Real.sin_pos_of_pos_of_lt_pi hi0 hiπ
  have hfun : incAfter r vr vt i Ω u = fun w => Real.arccos ((r * vt * Real.cos i - w * r * (Real.cos u * Real.sin i))
      / Real.sqrt ((r * vt) ^ 2 + (w * r) ^ 2)) := funext (incAfter_eq r vr vt i Ω u hr hvt)
  have hS0 : Real.sqrt ((r * vt) ^ 2 + ((0 : ℝ) * r) ^ 2) = r * vt := by
    rw [zero_mul]; simp [Real.sqrt_sq hk.le]
  constructor
  · rw [hfun]
    have hN : HasDerivAt (fun w : ℝ => r * vt * Real.cos i - w * r * (Real.cos u * Real.sin i))
        (-(1 * r * (Real.cos u * Real.sin i))) 0 :=
      (((hasDerivAt_id' (0 : ℝ)).mul_const r).mul_const (Real.cos u * Real.sin i)).const_sub (r * vt * Real.cos i)
    have hQ : HasDerivAt (fun w : ℝ => (r * vt) ^ 2 + (w * r) ^ 2) (2 * ((0 : ℝ) * r) ^ (2 - 1) * (1 * r)) 0 :=
      (((hasDerivAt_id' (0 : ℝ)).mul_const r).pow 2).const_add ((r * vt) ^ 2)
    have hQ0 : (r * vt) ^ 2 + ((0 : ℝ) * r) ^ 2 ≠ 0 := by
      have : (r * vt) ^ 2 + ((0 : ℝ) * r) ^ 2 = (r * vt) ^ 2 := by ring
      rw [this]; exact pow_ne_zero 2 hk.ne'
    have hS := hQ.sqrt hQ0
    have hS0' : Real.sqrt ((r * vt) ^ 2 + ((0 : ℝ) * r) ^ 2) ≠ 0 := by rw [hS0]; exact hk.ne'
    have hdiv := hN.fun_div hS hS0'
    have hx : (r * vt * Real.cos i - (0 : ℝ) * r * (Real.cos u * Real.sin i)) / Real.sqrt ((r * vt) ^ 2 + ((0 : ℝ) * r) ^ 2) = Real.cos i := by
      rw [hS0]; field_simp; ring
    have hc1 : Real.cos i ≠ -1 := by
      intro h
      have := Real.sin_sq_add_cos_sq i
      rw [h] at this
      nlinarith
    have hc2 : Real.cos i ≠ 1 := by
      intro h
      have := Real.sin_sq_add_cos_sq i
      rw [h] at this
      nlinarith
    have harc := Real.hasDerivAt_arccos hc1 hc2
    rw [← hx] at harc
    have hcomp := harc.comp (0 : ℝ) hdiv
    refine hcomp.congr_deriv ?_
    rw [hx, hS0]
    have h1 : Real.sqrt (1 - Real.cos i ^ 2) = Real.sin i := by
      have : 1 - Real.cos i ^ 2 = Real.sin i ^ 2 := by
        have := Real.sin_sq_add_cos_sq i; linarith
      rw [this, Real.sqrt_sq hsi.le]
    rw [h1]
    field_simp
    ring
  · rw [incAfter_eq r vr vt i Ω u hr hvt 0, hS0]
    have : (r * vt * Real.cos i - (0 : ℝ) * r * (Real.cos u * Real.sin i)) / (r * vt) = Real.cos i := by field_simp; ring
    rw [this]
    exact Real.arccos_cos hi0.le hiπ.le

/-- angle by which the node direction `(X, Y)` of the conversion (`Ω = arctan2(Y, X) mod 2π`) has turned after the
impulse `w`: `arctan` of (cross product / dot product) of the old and the new direction (the signed angle, as long as it
is below 90°) -/
noncomputable def nodeTurn (r vr vt i Ω u w : ℝ) : ℝ :=
  Real.arctan ((nodeXAfter r vr vt i Ω u 0 * nodeYAfter r vr vt i Ω u w - nodeYAfter r vr vt i Ω u 0 * nodeXAfter r vr vt i Ω u w)
    / (nodeXAfter r vr vt i Ω u 0 * nodeXAfter r vr vt i Ω u w + nodeYAfter r vr vt i Ω u 0 * nodeYAfter r vr vt i Ω u w))

/-- **Gauss equation for the node, at every argument of latitude**: the node direction of the state that received `w`
along `W` turns at the rate `r sin u / (h sin i)`; finite on `r > 0, vt > 0, sin i ≠ 0` — the `sin i` the request is
multiplied with in `dkep2dv`.  Before the impulse the node direction is `h sin i · (cos Ω, sin Ω)`. -/
theorem gauss_node (r vr vt i Ω u : ℝ) (hr : 0 < r) (hvt : 0 < vt) (hsi : Real.sin i ≠ 0) :
    HasDerivAt (nodeTurn r vr vt i Ω u) (r * Real.sin u / (r * vt * Real.sin i)) 0 ∧ nodeTurn r vr vt i Ω u 0 = 0 ∧
    nodeXAfter r vr vt i Ω u 0 = r * vt * Real.sin i * Real.cos Ω ∧ nodeYAfter r vr vt i Ω u 0 = r * vt * Real.sin i * Real.sin Ω := by
  have hk : r * vt ≠ 0 := (mul_pos hr hvt).ne'
  have hO := Real.sin_sq_add_cos_sq Ω
  have hX0 : nodeXAfter r vr vt i Ω u 0 = r * vt * Real.sin i * Real.cos Ω := by rw [nodeXAfter_eq r vr vt i Ω u hr hvt]; ring
  have hY0 : nodeYAfter r vr vt i Ω u 0 = r * vt * Real.sin i * Real.sin Ω := by rw [nodeYAfter_eq r vr vt i Ω u hr hvt]; ring
  have hfun : nodeTurn r vr vt i Ω u = fun w => Real.arctan ((w * (r * (r * vt * Real.sin i * Real.sin u)))
      / ((r * vt * Real.sin i) ^ 2 + w * (r * (r * vt * Real.sin i * (Real.cos u * Real.cos i))))) := by
    funext w
    unfold nodeTurn
    rw [hX0, hY0, nodeXAfter_eq r vr vt i Ω u hr hvt, nodeYAfter_eq r vr vt i Ω u hr hvt]
    congr 2
    · linear_combination (w * r * (r * vt * Real.sin i * Real.sin u)) * hO
    · linear_combination ((r * vt * Real.sin i) ^ 2 + w * r * (r * vt * Real.sin i * (Real.cos u * Real.cos i))) * hO
  refine ⟨?_, ?_, hX0, hY0⟩
  · rw [hfun]
    have hS : HasDerivAt (fun w : ℝ => w * (r * (r * vt * Real.sin i * Real.sin u))) (1 * (r * (r * vt * Real.sin i * Real.sin u))) 0 :=
      (hasDerivAt_id' (0 : ℝ)).mul_const _
    have hC : HasDerivAt (fun w : ℝ => (r * vt * Real.sin i) ^ 2 + w * (r * (r * vt * Real.sin i * (Real.cos u * Real.cos i))))
        (1 * (r * (r * vt * Real.sin i * (Real.cos u * Real.cos i)))) 0 :=
      ((hasDerivAt_id' (0 : ℝ)).mul_const _).const_add _
    have hC0 : (r * vt * Real.sin i) ^ 2 + (0 : ℝ) * (r * (r * vt * Real.sin i * (Real.cos u * Real.cos i))) ≠ 0 := by
      rw [zero_mul, add_zero]; exact pow_ne_zero 2 (mul_ne_zero hk hsi)
    have := (hS.fun_div hC hC0).arctan
    refine this.congr_deriv ?_
    rw [zero_mul, zero_mul, add_zero]
    field_simp
    ring
  · rw [hfun]; simp

section realised
variable (μ a v r vr vt i Ω di dO : ℝ)

/-- the rotation angle `dangle` of `dkep2dv` scales with the request -/
theorem dkepDangle_scale (s : ℝ) (hs : 0 ≤ s) :
    dkepDangle μ a i v 0 (s * di) (s * dO) = s * dkepDangle μ a i v 0 di dO := by
  rw [dkepDangle_eq, dkepDangle_eq]
  have : (s * di) ^ 2 + (s * dO) ^ 2 * Real.sin i ^ 2 = s ^ 2 * (di ^ 2 + dO ^ 2 * Real.sin i ^ 2) := by ring
  rw [this, Real.sqrt_mul (sq_nonneg s), Real.sqrt_sq hs]

theorem dkepDangle_pos (hreq : di ≠ 0 ∨ dO * Real.sin i ≠ 0) : 0 < dkepDangle μ a i v 0 di dO := by
  rw [dkepDangle_eq]
  apply Real.sqrt_pos.mpr
  rcases hreq with h | h
  · have := sq_nonneg (dO * Real.sin i); have := pow_pos (abs_pos.mpr h) 2; rw [sq_abs] at this; nlinarith
  · have := sq_nonneg di; have := pow_pos (abs_pos.mpr h) 2; rw [sq_abs] at this; nlinarith

/-- the out-of-plane Δv of `dkep2dv` for the request `(s·di, s·dΩ)`, `s ≥ 0`, grows like `v · dangle · s` -/
theorem dkepDvW_ray (hv : 0 < v) (hreq : di ≠ 0 ∨ dO * Real.sin i ≠ 0) :
    HasDerivWithinAt (fun s => dkepDvW μ a i v 0 (s * di) (s * dO)) (v * dkepDangle μ a i v 0 di dO) (Set.Ici 0) 0 ∧
    dkepDvW μ a i v 0 (0 * di) (0 * dO) = 0 := by
  set D := dkepDangle μ a i v 0 di dO with hDdef
  have hD : 0 < D := dkepDangle_pos μ a v i di dO hreq
  have hval : ∀ s : ℝ, 0 ≤ s → s < Real.pi / D → dkepDvW μ a i v 0 (s * di) (s * dO) = v * Real.sin (s * D) := by
    intro s hs0 hs1
    rw [dkepDvW_eq, dkepVFinal_eq, dkepDvA_eq, dkepDangle_scale μ a v i di dO s hs0]
    have hsin : 0 ≤ Real.sin (s * D) := by
      apply Real.sin_nonneg_of_nonneg_of_le_pi (mul_nonneg hs0 hD.le)
      have := (lt_div_iff₀ hD).mp hs1
      exact this.le
    have : (v + μ * 0 / (2 * v * a ^ 2)) = v := by simp
    rw [this, abs_of_nonneg (mul_nonneg hv.le hsin)]
  have h1 : HasDerivAt (fun s : ℝ => v * Real.sin (s * D)) (v * (Real.cos ((0 : ℝ) * D) * (1 * D))) 0 :=
    (((hasDerivAt_id' (0 : ℝ)).mul_const D).sin).const_mul v
  have hpos : (0 : ℝ) < Real.pi / D := div_pos Real.pi_pos hD
  constructor
  · have hev : (fun s => dkepDvW μ a i v 0 (s * di) (s * dO)) =ᶠ[nhdsWithin 0 (Set.Ici 0)] (fun s : ℝ => v * Real.sin (s * D)) :=
      Filter.eventuallyEq_of_mem (Ico_mem_nhdsGE_of_mem ⟨le_refl 0, hpos⟩) (fun s hs => hval s hs.1 hs.2)
    have := h1.hasDerivWithinAt.congr_of_eventuallyEq hev (hval 0 (le_refl 0) hpos)
    refine this.congr_deriv ?_
    simp
  · rw [hval 0 (le_refl 0) hpos]; simp

/-- **The requested inclination increment is realised to first order**: along the ray of requests `(s·di, s·dΩ)`,
`s ≥ 0`, applied at the argument of latitude `dkep2aol(di, dΩ)` the library prescribes, the inclination of the state
after `dkep2dv`'s out-of-plane Δv has (one-sided) derivative `di · v / vt` at `s = 0`: exactly `di` where the speed is
all transverse (`v = vt`: at an apsis / on a circular orbit, as the docstring of the Keplerian maneuvers asks), and `di`
times `1 / cos(flight-path angle)` elsewhere. -/
theorem dkep2dv_first_order_i (hr : 0 < r) (hvt : 0 < vt) (hi0 : 0 < i) (hiπ : i < Real.pi) (hv : 0 < v)
    (hreq : di ≠ 0 ∨ dO * Real.sin i ≠ 0) :
    HasDerivWithinAt (fun s => incAfter r vr vt i Ω (dkep2aol i di dO) (dkepDvW μ a i v 0 (s * di) (s * dO)))
      (di * v / vt) (Set.Ici 0) 0 := by
  obtain ⟨hg, hg0⟩ := dkepDvW_ray μ a v i di dO hv hreq
  have hinc := (gauss_inclination r vr vt i Ω (dkep2aol i di dO) hr hvt hi0 hiπ).1
  rw [← hg0] at hinc
  have hcomp := hinc.comp_hasDerivWithinAt (0 : ℝ) hg
  refine hcomp.congr_deriv ?_
  have hsplit := (aol_cos_sin μ a i v 0 di dO hreq).1
  have hr' : r ≠ 0 := hr.ne'
  have hvt' : vt ≠ 0 := hvt.ne'
  have key : r * Real.cos (dkep2aol i di dO) / (r * vt) * (v * dkepDangle μ a i v 0 di dO)
      = (Real.cos (dkep2aol i di dO) * dkepDangle μ a i v 0 di dO) * v / vt := by field_simp
  rw [key, hsplit]

/-- **… and so is the requested node increment**: the node direction turns with (one-sided) derivative `dΩ · v / vt`. -/
theorem dkep2dv_first_order_Omega (hr : 0 < r) (hvt : 0 < vt) (hi0 : 0 < i) (hiπ : i < Real.pi) (hv : 0 < v)
    (hreq : di ≠ 0 ∨ dO * Real.sin i ≠ 0) :
    HasDerivWithinAt (fun s => nodeTurn r vr vt i Ω (dkep2aol i di dO) (dkepDvW μ a i v 0 (s * di) (s * dO)))
      (dO * v / vt) (Set.Ici 0) 0 := by
  have hsi : 0 < Real.sin i := Real.sin_pos_of_pos_of_lt_pi hi0 hiπ
  obtain ⟨hg, hg0⟩ := dkepDvW_ray μ a v i di dO hv hreq
  have hnode := (gauss_node r vr vt i Ω (dkep2aol i di dO) hr hvt hsi.ne').1
  rw [← hg0] at hnode
  have hcomp := hnode.comp_hasDerivWithinAt (0 : ℝ) hg
  refine hcomp.congr_deriv ?_
  have hsplit := (aol_cos_sin μ a i v 0 di dO hreq).2
  have hr' : r ≠ 0 := hr.ne'
  have hvt' : vt ≠ 0 := hvt.ne'
  have hsi' : Real.sin i ≠ 0 := hsi.ne'
  have key : r * Real.sin (dkep2aol i di dO) / (r * vt * Real.sin i) * (v * dkepDangle μ a i v 0 di dO)
      = (Real.sin (dkep2aol i di dO) * dkepDangle μ a i v 0 di dO) * v / (vt * Real.sin i) := by field_simp
  rw [key, hsplit]
  field_simp

/-- **finite Δv**: `dkep2dv` divides by `2 v a²` only, `dkep2aol` by nothing — for `v ≠ 0`, `a ≠ 0` every component is a
real number given by the closed forms below, whatever the inclination (no `1 / sin i`: the `sin i` multiplies) -/
theorem dkep2dv_closed_form (da : ℝ) :
    dkepDvT μ a i v da di dO = (v + μ * da / (2 * v * a ^ 2)) * Real.cos (Real.sqrt (di ^ 2 + dO ^ 2 * Real.sin i ^ 2)) - v ∧
    dkepDvW μ a i v da di dO = |(v + μ * da / (2 * v * a ^ 2)) * Real.sin (Real.sqrt (di ^ 2 + dO ^ 2 * Real.sin i ^ 2))| ∧
    0 ≤ dkepDvW μ a i v da di dO := by
  refine ⟨rfl, rfl, ?_⟩
  rw [dkepDvW_eq]; exact abs_nonneg _

end realised

/-- non-vacuity: a circular LEO-like state at `u = 0.3`, `i = 0.9`, a request of (1 mrad, 2 mrad) -/
example : (0 : ℝ) < 7000000 ∧ (0 : ℝ) < 7546 ∧ (0 : ℝ) < 0.9 ∧ (0.9 : ℝ) < Real.pi ∧ ((0.001 : ℝ) ≠ 0 ∨ (0.002 : ℝ) * Real.sin 0.9 ≠ 0) := by
  refine ⟨by norm_num, by norm_num, by norm_num, ?_, Or.inl (by norm_num)⟩
  have := Real.two_le_pi; linarith

end BeyondVerif.C17
