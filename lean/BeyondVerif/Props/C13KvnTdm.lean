import BeyondVerif.Props.C13Wf
/-!
C13, `load_dump_id` for a whole message type: **TDM in KVN**.  The reader `tdm._loads_kvn` is a line state
machine (`tdmStep` / `tdmFold` of the model) whose metadata dict is *never reset* between segments; the theorem
is proved by induction over the list of per-path sets the writer produces (`tdmSets`), inside a segment over the
list of observations:

* `tdmFold_append`; `lookup_setMeta_same/other`, `setAll`, `lookup_setAll_mem/other`: a run of kv-lines in metadata
  mode leaves, for each of its (distinct) keys, the value just written, and keeps every other key (`kv_fold`);
* `tdmMeta_keys_nodup`: the keys `collect_metadata` writes are distinct (at most nine participants);
* `mtAfter_ok`: at `DATA_START` the dict holds this segment's TIME_SYSTEM, PATH and PARTICIPANT_1..k, whatever it held
  before (left-over PARTICIPANT_j, j > k, of an earlier longer path are allowed);
* `tdmPath_ok`: the path is rebuilt from the indices — `filterMap_prefix`: the participants found form a list that *starts
  with* this segment's participants, and the indices written are 1..k;
* `mtAfter_angle`: ANGLE_TYPE = AZEL is in force whenever the set holds an azimuth or an elevation;
* `obs_fold`: every number of observation lines, all four classes; `seg_fold`, `segs_fold`: one segment, every number.
-/
namespace BeyondVerif.C13
open BeyondVerif.Ccsds BeyondVerif.Generated

namespace TdmKvn

theorem tdmFold_append (a b : List Line) (st : TdmSt) : tdmFold (a ++ b) st = tdmFold a st >>= tdmFold b := by
  induction a generalizing st with
  | nil => rfl
  | cons l ls ih =>
    simp only [List.cons_append, tdmFold]
    cases h : tdmStep st l with
    | error e => rfl
    | ok st' => simp only [ih]

/-! ### the metadata dict under `setMeta` -/

theorem lookup_setMeta_same (m : List (String × Txt)) (k : String) (v : Txt) : (setMeta m k v).lookup k = some v := by
  induction m with
  | nil => simp [setMeta]
  | cons kv r ih =>
    obtain ⟨k', v'⟩ := kv
    simp only [setMeta]
    split
    · simp [List.lookup]
    · rename_i hne
      have : (k == k') = false := by simpa using fun e => hne e.symm
      simp [List.lookup, this, ih]

theorem lookup_setMeta_other (m : List (String × Txt)) (k k' : String) (v : Txt) (h : k ≠ k') : (setMeta m k' v).lookup k = m.lookup k := by
  induction m with
  | nil =>
    have : (k == k') = false := by simpa using h
    simp [setMeta, List.lookup, this]
  | cons kv r ih =>
    obtain ⟨k'', v''⟩ := kv
    simp only [setMeta]
    split
    · rename_i he
      subst he
      have : (k == k'') = false := by simpa using h
      simp [List.lookup, this]
    · simp only [List.lookup_cons, ih]

def setAll (m : List (String × Txt)) (kvs : List (String × Txt)) : List (String × Txt) := kvs.foldl (fun m kv => setMeta m kv.1 kv.2) m

theorem lookup_setAll_other (kvs : List (String × Txt)) (m : List (String × Txt)) (k : String) (h : k ∉ kvs.map (·.1)) :
    (setAll m kvs).lookup k = m.lookup k := by
  induction kvs generalizing m with
  | nil => rfl
  | cons kv r ih =>
    simp only [List.map_cons, List.mem_cons, not_or] at h
    simp only [setAll, List.foldl_cons]
    have := ih (setMeta m kv.1 kv.2) h.2
    simp only [setAll] at this
    rw [this, lookup_setMeta_other _ _ _ _ h.1]

theorem lookup_setAll_mem (kvs : List (String × Txt)) (m : List (String × Txt)) (k : String) (v : Txt)
    (hnd : (kvs.map (·.1)).Nodup) (h : (k, v) ∈ kvs) : (setAll m kvs).lookup k = some v := by
  induction kvs generalizing m with
  | nil => simp at h
  | cons kv r ih =>
    simp only [List.map_cons, List.nodup_cons] at hnd
    simp only [setAll, List.foldl_cons]
    simp only [List.mem_cons] at h
    rcases h with h | h
    · subst h
      have := lookup_setAll_other r (setMeta m k v) k hnd.1
      simp only [setAll] at this
      rw [this, lookup_setMeta_same]
    · have := ih (setMeta m kv.1 kv.2) hnd.2 h
      simpa only [setAll] using this

/-- kv-lines in metadata mode all go into `mt` -/
theorem kv_fold (kvs : List (String × Txt)) (mt : List (String × Txt)) (sets : List (List Obs)) (path : List String) (scale : String) :
    tdmFold (kvs.map fun (k, v) => Line.kv k v none) ⟨mt, sets, "mt", path, scale⟩ = .ok ⟨setAll mt kvs, sets, "mt", path, scale⟩ := by
  induction kvs generalizing mt with
  | nil => rfl
  | cons kv r ih =>
    obtain ⟨k, v⟩ := kv
    simp only [List.map_cons, tdmFold, tdmStep, if_true]
    rw [ih]
    rfl

/-! ### `dedup` -/

theorem mem_dedup {α : Type} [BEq α] [LawfulBEq α] (l : List α) (x : α) : x ∈ dedup l ↔ x ∈ l := by
  induction l with
  | nil => simp [dedup]
  | cons a r ih =>
    simp only [dedup, List.mem_cons, List.mem_filter, ih]
    constructor
    · rintro (h | ⟨h, _⟩)
      · exact Or.inl h
      · exact Or.inr h
    · intro h
      by_cases hx : x = a
      · exact Or.inl hx
      · rcases h with h | h
        · exact absurd h hx
        · exact Or.inr ⟨h, by simpa using hx⟩

/-! ### the metadata written for one path -/

theorem zip_fst_sublist {α β : Type} (l1 : List α) (l2 : List β) : ((l1.zip l2).map (·.1)).Sublist l1 := by
  induction l1 generalizing l2 with
  | nil => simp
  | cons a r ih =>
    cases l2 with
    | nil => simp
    | cons b r2 => simpa using ih r2

theorem tdmMeta_keys_nodup (scale : String) (path : List String) (set : List Obs) : ((tdmMeta scale path set).map (·.1)).Nodup := by
  have hall : (["TIME_SYSTEM", "START_TIME", "STOP_TIME"] ++ participantKeys ++ ["MODE", "PATH"] ++ ["RANGE_UNITS"] ++ ["ANGLE_TYPE"]).Nodup := by
    decide
  refine List.Nodup.sublist ?_ hall
  simp only [tdmMeta, List.map_append, List.map_map]
  refine List.Sublist.append (List.Sublist.append (List.Sublist.append (List.Sublist.append ?_ ?_) ?_) ?_) ?_
  · simp
  · have := zip_fst_sublist participantKeys (dedup path)
    have he : List.map ((fun x : String × Txt => x.1) ∘ fun x : String × String => (x.1, Txt.s x.2)) (participantKeys.zip (dedup path)) =
        (participantKeys.zip (dedup path)).map (·.1) := by
      apply List.map_congr_left; intro x _; rfl
    rw [he]; exact this
  · simp
  · split <;> simp
  · split <;> simp

theorem filterMap_prefix {α β : Type} (f : α → Option β) (keys : List α) (vals : List β)
    (h : ∀ kv ∈ keys.zip vals, f kv.1 = some kv.2) (hlen : vals.length ≤ keys.length) : ∃ rest, keys.filterMap f = vals ++ rest := by
  induction keys generalizing vals with
  | nil =>
    cases vals with
    | nil => exact ⟨[], rfl⟩
    | cons v r => simp at hlen
  | cons k ks ih =>
    cases vals with
    | nil => exact ⟨_, rfl⟩
    | cons v vs =>
      have hk : f k = some v := h (k, v) (by simp)
      obtain ⟨rest, hr⟩ := ih vs (fun kv hkv => h kv (by simp [hkv])) (by simpa using hlen)
      exact ⟨rest, by simp [hk, hr]⟩

/-- body of the comprehension in `tdmPath` -/
def pick (parts : List Txt) (i : Nat) : R String :=
  if i = 0 then
    match parts.getLast? with
    | some (.s p) => pure p
    | _ => .error .valueError
  else match parts[i - 1]? with
    | some (.s p) => pure p
    | _ => .error .valueError

theorem tdmPath_eq (mt : List (String × Txt)) (idx : List Nat) (h : mt.lookup "PATH" = some (.l idx)) :
    tdmPath mt = idx.mapM (pick (participantKeys.filterMap fun k => mt.lookup k)) := by
  unfold tdmPath
  simp only [h]
  rfl

/-- what `DATA_START` needs from the metadata dict: the time scale, the path, the participants the path refers to -/
structure MtOk (mt : List (String × Txt)) (scale : String) (path : List String) : Prop where
  hscale : mt.lookup "TIME_SYSTEM" = some (.s scale)
  hpath : mt.lookup "PATH" = some (.l (path.map fun p => (dedup path).idxOf p + 1))
  hparts : ∀ kv ∈ participantKeys.zip ((dedup path).map Txt.s), mt.lookup kv.1 = some kv.2

theorem tdmPath_ok (mt : List (String × Txt)) (scale : String) (path : List String) (h : MtOk mt scale path) (hlen : (dedup path).length ≤ 9) :
    tdmPath mt = .ok path := by
  obtain ⟨rest, hrest⟩ := filterMap_prefix (fun k => mt.lookup k) participantKeys ((dedup path).map Txt.s) h.hparts (by simpa [participantKeys] using hlen)
  rw [tdmPath_eq mt _ h.hpath, hrest]
  have key : ∀ q : List String, (∀ p ∈ q, p ∈ dedup path) →
      (q.map fun p => (dedup path).idxOf p + 1).mapM (pick ((dedup path).map Txt.s ++ rest)) = .ok q := by
    intro q hq
    induction q with
    | nil => rfl
    | cons p r ih =>
      have hp := hq p (by simp)
      have hlt : (dedup path).idxOf p < (dedup path).length := List.idxOf_lt_length_of_mem hp
      have hget : ((dedup path).map Txt.s ++ rest)[(dedup path).idxOf p]? = some (.s p) := by
        rw [List.getElem?_append_left (by simpa using hlt)]
        simp [List.getElem?_map, List.getElem?_eq_getElem hlt, List.getElem_idxOf]
      have hpick : pick ((dedup path).map Txt.s ++ rest) ((dedup path).idxOf p + 1) = .ok p := by
        simp only [pick, Nat.add_one_ne_zero, if_false, Nat.add_sub_cancel, hget]
        rfl
      simp only [List.map_cons, List.mapM_cons, hpick, bind, Except.bind, pure, Except.pure, ih (fun x hx => hq x (by simp [hx]))]
  exact key path (fun p hp => (mem_dedup path p).mpr hp)

/-- the metadata dict at `DATA_START`: whatever was there before, this segment's keys on top -/
def mtAfter (mt : List (String × Txt)) (scale : String) (path : List String) (set : List Obs) : List (String × Txt) :=
  setMeta (setAll (setMeta mt "META_START" (.s "")) (tdmMeta scale path set)) "META_STOP" (.s "")

theorem lookup_mtAfter (mt : List (String × Txt)) (scale : String) (path : List String) (set : List Obs) (k : String) (v : Txt)
    (hk : k ≠ "META_STOP") (h : (k, v) ∈ tdmMeta scale path set) : (mtAfter mt scale path set).lookup k = some v := by
  unfold mtAfter
  rw [lookup_setMeta_other _ _ _ _ hk]
  exact lookup_setAll_mem _ _ k v (tdmMeta_keys_nodup scale path set) h

theorem mtAfter_ok (mt : List (String × Txt)) (scale : String) (path : List String) (set : List Obs) :
    MtOk (mtAfter mt scale path set) scale path := by
  refine ⟨lookup_mtAfter _ _ _ _ _ _ (by decide) (by simp [tdmMeta]), lookup_mtAfter _ _ _ _ _ _ (by decide) (by simp [tdmMeta]), ?_⟩
  intro kv hkv
  have hmem : kv.1 ∈ participantKeys := (List.of_mem_zip hkv).1
  have hne : kv.1 ≠ "META_STOP" := by
    have : ∀ k ∈ participantKeys, k ≠ "META_STOP" := by decide
    exact this _ hmem
  refine lookup_mtAfter _ _ _ _ kv.1 kv.2 hne ?_
  have hz : participantKeys.zip ((dedup path).map Txt.s) = (participantKeys.zip (dedup path)).map (fun x => (x.1, Txt.s x.2)) := by
    rw [List.zip_map_right]; rfl
  rw [hz] at hkv
  simp only [tdmMeta, List.mem_append]
  exact Or.inl (Or.inl (Or.inl (Or.inr hkv)))

theorem mtAfter_angle (mt : List (String × Txt)) (scale : String) (path : List String) (set : List Obs)
    (o : Obs) (ho : o ∈ set) (hk : o.kind = "Azimut" ∨ o.kind = "Elevation") :
    (mtAfter mt scale path set).lookup "ANGLE_TYPE" = some (.s "AZEL") := by
  refine lookup_mtAfter _ _ _ _ _ _ (by decide) ?_
  have hc : (tdmAngleTrig.any (dedup (set.map (·.kind))).contains) = true := by
    have hm : o.kind ∈ dedup (set.map (·.kind)) := (mem_dedup _ _).mpr (List.mem_map.mpr ⟨o, ho, rfl⟩)
    simp only [tdmAngleTrig, List.any_cons, List.any_nil, Bool.or_false, Bool.or_eq_true, List.contains_iff_mem]
    rcases hk with hk | hk
    · exact Or.inl (hk ▸ hm)
    · exact Or.inr (hk ▸ hm)
  simp only [tdmMeta, hc, if_true, List.mem_append]
  exact Or.inr (by simp)

/-! ### observations -/

def obsLine (o : Obs) : Line := .obs ((tdmNames.lookup o.kind).getD "") o.epoch o.value

theorem tdmKind_ok (kind : String) (hk : kind ∈ obsKinds) (angle : R String)
    (h : kind = "Azimut" ∨ kind = "Elevation" → angle = .ok "AZEL") : tdmKind ((tdmNames.lookup kind).getD "") angle = .ok kind := by
  simp only [obsKinds, List.mem_cons, List.not_mem_nil, or_false] at hk
  rcases hk with rfl | rfl | rfl | rfl
  · rfl
  · rfl
  · rw [h (Or.inl rfl)]; rfl
  · rw [h (Or.inr rfl)]; rfl

theorem obs_fold (mt : List (String × Txt)) (path : List String) (scale : String) (S : List (List Obs)) (set : List Obs)
    (hset : ∀ o ∈ set, o.path = path ∧ o.kind ∈ obsKinds)
    (hang : ∀ o ∈ set, o.kind = "Azimut" ∨ o.kind = "Elevation" → mt.lookup "ANGLE_TYPE" = some (.s "AZEL")) (cur : List Obs) :
    tdmFold (set.map obsLine) ⟨mt, S ++ [cur], "data", path, scale⟩ = .ok ⟨mt, S ++ [cur ++ set], "data", path, scale⟩ := by
  induction set generalizing cur with
  | nil => simp [tdmFold]
  | cons o r ih =>
    obtain ⟨hp, hk⟩ := hset o (by simp)
    have hstep : tdmStep ⟨mt, S ++ [cur], "data", path, scale⟩ (obsLine o) = .ok ⟨mt, S ++ [cur ++ [o]], "data", path, scale⟩ := by
      have hang' := hang o (by simp)
      obtain ⟨kind, opath, epoch, value⟩ := o
      simp only at hp hk hang'
      subst hp
      simp only [tdmStep, obsLine, bind, Except.bind]
      rw [tdmKind_ok kind hk _ (by intro h; rw [hang' h])]
      simp
    simp only [List.map_cons, tdmFold, hstep]
    have := ih (fun x hx => hset x (by simp [hx])) (fun x hx => hang x (by simp [hx])) (cur ++ [o])
    simpa using this

/-! ### one segment, every number of segments -/

/-- the lines written for the measurements of one path -/
def segLines (scale : String) (ps : List String × List Obs) : List Line :=
  [Line.word "META_START"] ++ (tdmMeta scale ps.1 ps.2).map (fun (k, v) => Line.kv k v none) ++
    [.word "META_STOP", .blank, .word "DATA_START"] ++ ps.2.map obsLine ++ [.word "DATA_STOP", .blank]

/-- a per-path set the writer produces from a well-formed `Tdm` -/
def SetOk (ps : List String × List Obs) : Prop :=
  (∀ o ∈ ps.2, o.path = ps.1 ∧ o.kind ∈ obsKinds) ∧ (dedup ps.1).length ≤ 9

theorem seg_fold (scale : String) (ps : List String × List Obs) (h : SetOk ps) (mt : List (String × Txt)) (S : List (List Obs))
    (p0 : List String) (s0 : String) :
    tdmFold (segLines scale ps) ⟨mt, S, "mt", p0, s0⟩ = .ok ⟨mtAfter mt scale ps.1 ps.2, S ++ [ps.2], "mt", ps.1, scale⟩ := by
  obtain ⟨path, set⟩ := ps
  obtain ⟨hset, hlen⟩ := h
  simp only at hset hlen
  have h1 : tdmFold [Line.word "META_START"] ⟨mt, S, "mt", p0, s0⟩ = .ok ⟨setMeta mt "META_START" (.s ""), S, "mt", p0, s0⟩ := by
    simp [tdmFold, tdmStep]
  have hok := mtAfter_ok mt scale path set
  have hscale : metaStr (mtAfter mt scale path set) "TIME_SYSTEM" = .ok scale := by simp [metaStr, hok.hscale]
  have h3 : tdmFold [Line.word "META_STOP", .blank, .word "DATA_START"] ⟨setAll (setMeta mt "META_START" (.s "")) (tdmMeta scale path set), S, "mt", p0, s0⟩ =
      .ok ⟨mtAfter mt scale path set, S ++ [[]], "data", path, scale⟩ := by
    have hp := tdmPath_ok _ scale path hok hlen
    unfold mtAfter at hp hscale
    simp [tdmFold, tdmStep, mtAfter, hp, hscale, bind, Except.bind]
  have h4 := obs_fold (mtAfter mt scale path set) path scale S set hset (fun o ho hk => mtAfter_angle mt scale path set o ho hk) []
  have h5 : tdmFold [Line.word "DATA_STOP", .blank] ⟨mtAfter mt scale path set, S ++ [set], "data", path, scale⟩ =
      .ok ⟨mtAfter mt scale path set, S ++ [set], "mt", path, scale⟩ := by
    simp [tdmFold, tdmStep]
  simp only [List.nil_append] at h4
  simp only [segLines, tdmFold_append, h1, kv_fold, h3, h4, h5, bind, Except.bind]

theorem tdmName_ok (kind : String) (hk : kind ∈ obsKinds) : tdmName kind = .ok ((tdmNames.lookup kind).getD "") := by
  simp only [obsKinds, List.mem_cons, List.not_mem_nil, or_false] at hk
  rcases hk with rfl | rfl | rfl | rfl <;> rfl

def obsWriter (o : Obs) : R Line := do pure (Line.obs (← tdmName o.kind) o.epoch o.value)

/-- the writer's per-path function -/
def segWriter (scale : String) : List String × List Obs → R (List Line) := fun (path, set) => do
  let obs ← set.mapM obsWriter
  pure <| [Line.word "META_START"] ++ (tdmMeta scale path set).map (fun (k, v) => Line.kv k v none) ++
    [.word "META_STOP", .blank, .word "DATA_START"] ++ obs ++ [.word "DATA_STOP", .blank]

theorem tdmKvn_eq (m : Tdm) : tdmKvn m =
    (if (tdmSets m).any (fun ps => (dedup ps.1).length > 9) then .error .valueError else do
      let segs ← (tdmSets m).mapM (segWriter m.scale)
      pure <| header "CCSDS_TDM_VERS" "1.0" ++ [.blank] ++ segs.flatten) := by
  unfold tdmKvn segWriter
  split <;> rfl

theorem obsLines_ok (set : List Obs) (h : ∀ o ∈ set, o.kind ∈ obsKinds) : set.mapM obsWriter = (.ok (set.map obsLine) : R (List Line)) := by
  induction set with
  | nil => rfl
  | cons o r ih =>
    have ho : obsWriter o = .ok (obsLine o) := by
      simp only [obsWriter, tdmName_ok o.kind (h o (by simp)), bind, Except.bind, pure, Except.pure, obsLine]
    rw [List.mapM_cons, ho, ih (fun x hx => h x (by simp [hx]))]
    rfl

theorem segWriter_ok (scale : String) (ps : List String × List Obs) (h : SetOk ps) : segWriter scale ps = .ok (segLines scale ps) := by
  obtain ⟨path, set⟩ := ps
  simp only [segWriter]
  rw [obsLines_ok set (fun o ho => (h.1 o ho).2)]
  rfl

theorem segs_fold (scale : String) (L : List (List String × List Obs)) (h : ∀ ps ∈ L, SetOk ps) :
    L.mapM (segWriter scale) = .ok (L.map (segLines scale)) ∧
    ∀ (mt : List (String × Txt)) (S : List (List Obs)) (p0 : List String) (s0 : String),
      ∃ mt' p', tdmFold (L.map (segLines scale)).flatten ⟨mt, S, "mt", p0, s0⟩ =
        .ok ⟨mt', S ++ L.map (·.2), "mt", p', if L.isEmpty then s0 else scale⟩ := by
  induction L with
  | nil => exact ⟨rfl, fun mt S p0 s0 => ⟨mt, p0, by simp [tdmFold]⟩⟩
  | cons ps r ih =>
    obtain ⟨hw, hf⟩ := ih (fun x hx => h x (by simp [hx]))
    refine ⟨by simp only [List.mapM_cons, segWriter_ok scale ps (h ps (by simp)), hw, bind, Except.bind, pure, Except.pure, List.map_cons], ?_⟩
    intro mt S p0 s0
    obtain ⟨mt', p', hr⟩ := hf (mtAfter mt scale ps.1 ps.2) (S ++ [ps.2]) ps.1 scale
    refine ⟨mt', p', ?_⟩
    simp only [List.map_cons, List.flatten_cons, tdmFold_append, seg_fold scale ps (h ps (by simp)), bind, Except.bind, hr]
    cases r <;> simp

theorem tdmSets_ok (m : Tdm) (h : TdmWf m) : ∀ ps ∈ tdmSets m, SetOk ps := by
  intro ps hps
  simp only [tdmSets, List.mem_map] at hps
  obtain ⟨p, hp, rfl⟩ := hps
  have hp' : p ∈ m.obs.map (·.path) := (mem_dedup _ _).mp hp
  simp only [List.mem_map] at hp'
  obtain ⟨o, ho, rfl⟩ := hp'
  refine ⟨?_, (h.path o ho).2.2⟩
  intro o' ho'
  simp only [List.mem_filter, beq_iff_eq] at ho'
  exact ⟨ho'.2, (h.obs o' ho'.1).2.2⟩

theorem tdmSets_ne (m : Tdm) (h : TdmWf m) : (tdmSets m).isEmpty = false := by
  have := h.obs_ne
  cases hm : m.obs with
  | nil => exact absurd hm this
  | cons o r => simp [tdmSets, hm, dedup]

end TdmKvn
open TdmKvn

/-- load_dump_id, TDM, KVN: every well-formed measurement set is read back as the list of its per-path sets (the metadata dict is never reset
between segments: later PARTICIPANT_i / PATH / TIME_SYSTEM lines overwrite earlier ones, left-over PARTICIPANT_j of a longer earlier path
sit behind the indices used) -/
theorem tdm_kvn_load_dump_id (m : Tdm) (h : TdmWf m) : (tdmKvn m >>= loadTdmKvn) = .ok (m.scale, (tdmSets m).map (·.2)) := by
  have hok := tdmSets_ok m h
  have hany : (tdmSets m).any (fun ps => (dedup ps.1).length > 9) = false := by
    rw [List.any_eq_false]
    intro ps hps
    have := (hok ps hps).2
    simp only [gt_iff_lt, decide_eq_true_eq]
    omega
  obtain ⟨hw, hf⟩ := segs_fold m.scale (tdmSets m) hok
  have hh : tdmFold (header "CCSDS_TDM_VERS" "1.0" ++ [Line.blank]) {} =
      .ok ⟨setAll [] [("CCSDS_TDM_VERS", .s "1.0"), ("CREATION_DATE", .s "now"), ("ORIGINATOR", .s "N/A")], [], "mt", [], ""⟩ := by
    have := kv_fold [("CCSDS_TDM_VERS", .s "1.0"), ("CREATION_DATE", .s "now"), ("ORIGINATOR", .s "N/A")] [] [] [] ""
    rw [tdmFold_append]
    show (tdmFold ([("CCSDS_TDM_VERS", Txt.s "1.0"), ("CREATION_DATE", Txt.s "now"), ("ORIGINATOR", Txt.s "N/A")].map fun (k, v) => Line.kv k v none)
      ⟨[], [], "mt", [], ""⟩ >>= tdmFold [Line.blank]) = _
    rw [this]
    rfl
  obtain ⟨mt', p', hr⟩ := hf (setAll [] [("CCSDS_TDM_VERS", .s "1.0"), ("CREATION_DATE", .s "now"), ("ORIGINATOR", .s "N/A")]) [] [] ""
  rw [tdmKvn_eq, hany]
  simp only [Bool.false_eq_true, if_false, hw, bind, Except.bind, pure, Except.pure, loadTdmKvn, tdmFold_append, hh, hr, tdmSets_ne m h,
    List.nil_append]

namespace TdmKvn
/-! ### a concrete instance: two paths, the first with three participants, the second with two (one of them new), all four classes -/

def tdmKvnEx : Tdm :=
  ⟨"UTC", [⟨"Range", ["STA", "SAT", "STB"], .s "t0", .s "1.0"⟩, ⟨"Azimut", ["STC", "SAT"], .s "t1", .s "2.0"⟩,
           ⟨"Doppler", ["STA", "SAT", "STB"], .s "t2", .s "3.0"⟩, ⟨"Elevation", ["STC", "SAT"], .s "t3", .s "4.0"⟩,
           ⟨"Range", ["STC", "SAT"], .s "t4", .s "5.0"⟩]⟩

theorem tdmKvnEx_wf : TdmWf tdmKvnEx :=
  { scale := by decide, obs_ne := by simp [tdmKvnEx], obs := by decide, path := by decide }

example : (tdmKvn tdmKvnEx >>= loadTdmKvn) = .ok ("UTC",
    [[⟨"Range", ["STA", "SAT", "STB"], .s "t0", .s "1.0"⟩, ⟨"Doppler", ["STA", "SAT", "STB"], .s "t2", .s "3.0"⟩],
     [⟨"Azimut", ["STC", "SAT"], .s "t1", .s "2.0"⟩, ⟨"Elevation", ["STC", "SAT"], .s "t3", .s "4.0"⟩, ⟨"Range", ["STC", "SAT"], .s "t4", .s "5.0"⟩]]) :=
  tdm_kvn_load_dump_id tdmKvnEx tdmKvnEx_wf

end TdmKvn

end BeyondVerif.C13
