import BeyondVerif.Props.C11Mask

/-!
# C11 — horizon mask: from the table *given* to the table `get_mask` reads

`mask_is_pwl_interp` (Props/C11Mask.lean) is about `get_mask` on the table it finds in `self.mask`.  This file is about
how a table gets there: handed over when the station is created (`create_station(..., mask=…)`,
`TopocentricFrame(name, o, c, mask=…)` — `createStationMask`, `initMask`, both translated from the source on every run),
assigned afterwards, modified in place; and about what a read returns after any such history
(`maskRun`, `stationMaskRun` of Model/StationR.lean).
-/
noncomputable section
namespace BeyondVerif.C11
open BeyondVerif.R BeyondVerif.NumReal

/-- **The table given at the creation of the station is the table the station holds** (clause "the given table"):
a mask handed over to `create_station` or to `TopocentricFrame` directly — as a list / tuple of the two rows or as a 2xN
`numpy.ndarray`, whatever kind of object carries the table — is stored unchanged: same nodes, same order, the closing node at
2π included. -/
theorem mask_given_at_creation_is_stored (tbl : List (ℝ × ℝ)) (arg : MaskArg) (h : arg = .seq tbl ∨ arg = .arr tbl) :
    createStationMask arg = .stored (.table tbl) ∧ initMask arg = .stored (.table tbl) := by
  rcases h with rfl | rfl <;> exact ⟨rfl, rfl⟩

example : createStationMask (.seq [(1, 0.1), (2 * Real.pi, 0.3)]) = .stored (.table [(1, 0.1), (2 * Real.pi, 0.3)]) :=
  (mask_given_at_creation_is_stored _ _ (Or.inl rfl)).1

example : createStationMask (.arr [(1, 0.1), (2 * Real.pi, 0.3)]) = .stored (.table [(1, 0.1), (2 * Real.pi, 0.3)]) :=
  (mask_given_at_creation_is_stored _ _ (Or.inr rfl)).1

/-- no mask given (argument omitted, `None`, `[]`, `()`): the station has no mask -/
theorem no_mask_given_is_no_mask :
    createStationMask .absent = .stored .none ∧ createStationMask .emptySeq = .stored .none :=
  ⟨rfl, rfl⟩

/-- a read leaves `self.mask` as it is -/
theorem mask_query_keeps_store (s : MaskStore) (azim : ℝ) : (maskStep s (.query azim)).1 = s := rfl

theorem maskRun_append (s : MaskStore) (ops ops' : List MaskOp) :
    maskRun s (ops ++ ops') =
      ((maskRun (maskRun s ops).1 ops').1, (maskRun s ops).2 ++ (maskRun (maskRun s ops).1 ops').2) := by
  induction ops generalizing s with
  | nil => simp [maskRun]
  | cons op rest ih => simp [maskRun, ih]

/-- reads only: the store is unchanged -/
theorem maskRun_queries_keep_store (s : MaskStore) (qs : List ℝ) : (maskRun s (qs.map MaskOp.query)).1 = s := by
  induction qs with
  | nil => rfl
  | cons q rest ih => simpa [maskRun, maskStep] using ih

/-- **A read returns what a freshly created station holding the current table returns** (no memory between calls):
after any history of assignments, in-place writes and reads on a station — whatever it was created with —, `get_mask(azim)`
is a function of the current content of `self.mask` and of `azim` only: when that content is the table `tbl`, the reply is
the reply of a station just created with `mask=tbl`; and the read changes nothing. -/
theorem mask_read_is_function_of_current_table (s : MaskStore) (ops : List MaskOp) (azim : ℝ) :
    maskRun s (ops ++ [.query azim]) = ((maskRun s ops).1, (maskRun s ops).2 ++ [storeGet (maskRun s ops).1 azim]) ∧
    ∀ tbl, (maskRun s ops).1 = .table tbl →
      stationMaskRun (.seq tbl) [.query azim] = some (.table tbl, .table tbl, [storeGet (maskRun s ops).1 azim]) := by
  constructor
  · rw [maskRun_append]; simp [maskRun, maskStep]
  · intro tbl h
    rw [h]
    rfl

example : (maskRun .none [.assign [(1, 0.1), (2 * Real.pi, 0.3)], .poke 0 (2, 0.2), .query 5, .clear, .query 5]).1 = .none := by
  simp [maskRun, maskStep]

/-- **The horizon mask is the piecewise-linear interpolation of the given table — whichever way the table was given**
(clause "mask" on the life of a station object): a station created with any `mask=` argument and driven through any
history of assignments, in-place writes and reads, whose `self.mask` now holds a table `tbl` following the convention
(strictly increasing azimuths, the last one 2π): the next `get_mask(azim)`, for every real `azim`, returns the value at
`azim % 2π` of the piecewise-linear interpolant through the points of `tbl`, the elevation given at 2π also serving at 0 —
and leaves the station as it is. -/
theorem mask_after_any_history_is_pwl_interp (arg : MaskArg) (ops : List MaskOp) (s0 : MaskStore) (rs : List MaskReply)
    (tbl : List (ℝ × ℝ)) (hrun : stationMaskRun arg ops = some (s0, .table tbl, rs))
    (hne : tbl ≠ []) (hinc : StrictIncr tbl) (hlast : (tbl.getLast hne).1 = 2 * Real.pi) (azim : ℝ) :
    ∃ v, stationMaskRun arg (ops ++ [.query azim]) = some (s0, .table tbl, rs ++ [.value v]) ∧
      PwlAt (maskPoints tbl) (fmod azim (2 * Real.pi)) v := by
  obtain ⟨v, hv, hp⟩ := mask_is_pwl_interp tbl hne hinc hlast azim
  refine ⟨v, ?_, hp⟩
  unfold stationMaskRun at hrun ⊢
  cases hc : createStationMask arg with
  | raises => rw [hc] at hrun; cases hrun
  | stored s =>
    rw [hc] at hrun
    simp only [Option.some.injEq, Prod.mk.injEq] at hrun
    obtain ⟨h0, h1, h2⟩ := hrun
    subst h0
    show some (s, (maskRun s (ops ++ [MaskOp.query azim])).1, (maskRun s (ops ++ [MaskOp.query azim])).2) = _
    rw [(mask_read_is_function_of_current_table s ops azim).1, h1, h2]
    simp only [storeGet, hv]

/-- **… in particular for the table given at the creation of the station** (`create_station(name, latlonalt, mask=…)` or
`TopocentricFrame(name, o, c, mask=…)`, the table being a list / tuple of rows or a 2xN `numpy.ndarray`), at once or after any
number of earlier reads: every `get_mask(azim)` is the piecewise-linear interpolation of the table that was given. -/
theorem mask_given_at_creation_is_pwl_interp (tbl : List (ℝ × ℝ)) (arg : MaskArg) (harg : arg = .seq tbl ∨ arg = .arr tbl)
    (hne : tbl ≠ []) (hinc : StrictIncr tbl) (hlast : (tbl.getLast hne).1 = 2 * Real.pi) (earlier : List ℝ) (azim : ℝ) :
    ∃ (rs : List MaskReply) (v : ℝ),
      stationMaskRun arg (earlier.map MaskOp.query ++ [.query azim]) = some (.table tbl, .table tbl, rs ++ [.value v]) ∧
      PwlAt (maskPoints tbl) (fmod azim (2 * Real.pi)) v := by
  have h : stationMaskRun arg (earlier.map MaskOp.query) =
      some (.table tbl, .table tbl, (maskRun (.table tbl) (earlier.map MaskOp.query)).2) := by
    unfold stationMaskRun
    rw [(mask_given_at_creation_is_stored tbl arg harg).1]
    show some (_, (maskRun (.table tbl) (earlier.map MaskOp.query)).1, _) = _
    rw [maskRun_queries_keep_store]
  obtain ⟨v, hv, hp⟩ := mask_after_any_history_is_pwl_interp _ _ _ _ tbl h hne hinc hlast azim
  exact ⟨_, v, hv, hp⟩

/-- the hypotheses are satisfiable: the two-node table of the documentation, given as an array, read in its last segment after
two other reads -/
example : ∃ (rs : List MaskReply) (v : ℝ),
    stationMaskRun (.arr [(Real.pi, 0.05), (2 * Real.pi, 0.4)]) ([0, 7].map MaskOp.query ++ [.query 4.7]) =
      some (.table [(Real.pi, 0.05), (2 * Real.pi, 0.4)], .table [(Real.pi, 0.05), (2 * Real.pi, 0.4)], rs ++ [.value v]) ∧
    PwlAt (maskPoints [(Real.pi, 0.05), (2 * Real.pi, 0.4)]) (fmod 4.7 (2 * Real.pi)) v := by
  refine mask_given_at_creation_is_pwl_interp _ _ (Or.inr rfl) (by simp) ?_ (by simp) _ _
  have : Real.pi < 2 * Real.pi := by linarith [Real.pi_pos]
  simp [StrictIncr, this]

/-- **An assignment replaces the table**: after `station.mask = tbl` (whatever the station held before, whatever it was
created with) the reads are those of `tbl`. -/
theorem mask_assignment_replaces_table (s : MaskStore) (before : List MaskOp) (tbl : List (ℝ × ℝ)) (azim : ℝ) :
    (maskRun s (before ++ [.assign tbl, .query azim])).2.getLast? = some (storeGet (.table tbl) azim) := by
  rw [maskRun_append]
  simp [maskRun, maskStep]

end BeyondVerif.C11
