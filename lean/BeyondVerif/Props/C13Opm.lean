import BeyondVerif.Props.C13Parts
/-!
C13, `load_dump_id` for a whole message type: **OPM in XML**.  For every well-formed OPM
(any registered frame — Earth-centred or centred elsewhere —, any texts, covariance absent / own frame / QSW / TNW, any number of
maneuvers of either kind in own frame / QSW / TNW with or without comment, any number of
user-defined fields, Keplerian block written or not) `loadOpmXml (opmXml m)` is `m` again
(the Keplerian block, which the reader ignores, dropped; an empty user-defined dict read as none).
-/
namespace BeyondVerif.C13
open BeyondVerif.Ccsds BeyondVerif.Generated

/-! ### pieces -/

def metaDict (name id center frame scale : String) : Dict :=
  [("OBJECT_NAME", .field (.s name) []), ("OBJECT_ID", .field (.s id) []), ("CENTER_NAME", .field (.s center) []),
   ("REF_FRAME", .field (.s frame) []), ("TIME_SYSTEM", .field (.s scale) [])]

theorem meta_xml (name id center frame scale : String) (h1 : name ≠ "") (h2 : id ≠ "") (h3 : center ≠ "") (h4 : frame ≠ "") (h5 : scale ≠ "") :
    recurse (metaXml name id center frame scale []) = some (.dict (metaDict name id center frame scale)) := by
  simp [metaXml, metaDict, leafS, recurse, recurseKids, addChild, Elem.tag, List.lookup, h1, h2, h3, h4, h5]

theorem frameTable_facts : ∀ e ∈ frameTable,
    frameOut e.1 = .ok (e.2.1, e.2.2) ∧ centreRule e.2.1 e.2.2 = .ok e.1 ∧ e.2.1 ≠ "" ∧ e.2.2 ≠ "" ∧ (e.2.1 = "EARTH" → e.2.2 = e.1) := by
  decide

/-- every registered frame (Earth-centred or not) is written as a (centre, frame) pair of non-empty texts that the centre rule maps
back; for an Earth-centred one REF_FRAME is the frame's own name -/
theorem frameOut_ok (f : String) (hf : f ∈ frameTable.map (·.1)) :
    ∃ c r, frameOut f = .ok (c, r) ∧ centreRule c r = .ok f ∧ c ≠ "" ∧ r ≠ "" ∧ (c = "EARTH" → r = f) := by
  obtain ⟨e, he, rfl⟩ := List.mem_map.mp hf
  exact ⟨_, _, frameTable_facts e he⟩

/-- names of the Earth-centred frames (an OMM is always in one of them: TEME) -/
def earthFrames : List String := (frameTable.filter fun e => e.2.1 = "EARTH").map (·.1)

theorem earthFrames_sub (f : String) (hf : f ∈ earthFrames) : f ∈ frameTable.map (·.1) := by
  obtain ⟨e, he, rfl⟩ := List.mem_map.mp hf
  exact List.mem_map.mpr ⟨e, (List.mem_filter.mp he).1, rfl⟩

theorem frameOut_ok_earth (f : String) (hf : f ∈ earthFrames) :
    ∃ c r, frameOut f = .ok (c, r) ∧ centreRule c r = .ok f ∧ c ≠ "" ∧ r ≠ "" ∧ r = f := by
  obtain ⟨e, he, rfl⟩ := List.mem_map.mp hf
  obtain ⟨hm, hc⟩ := List.mem_filter.mp he
  obtain ⟨h1, h2, h3, h4, h5⟩ := frameTable_facts e hm
  exact ⟨_, _, h1, h2, h3, h4, h5 (by simpa using hc)⟩

def KepWf (ks : List Txt) : Prop :=
  ∃ a b c d e f g, ks = [a, b, c, d, e, f, g] ∧ a ≠ .s "" ∧ b ≠ .s "" ∧ c ≠ .s "" ∧ d ≠ .s "" ∧ e ≠ .s "" ∧ f ≠ .s "" ∧ g ≠ .s ""

def kepDict (ks : List Txt) : Dict := (kepKeys.zip ks).map fun kuv => (kuv.1.1, Val.field kuv.2 (unitAttrib kuv.1.2))

theorem kep_xml (ks : List Txt) (h : KepWf ks) : recurse (kepXml ks) = some (.dict (kepDict ks)) := by
  obtain ⟨a, b, c, d, e, f, g, rfl, h1, h2, h3, h4, h5, h6, h7⟩ := h
  simp [kepXml, kepDict, kepKeys, unitAttrib, recurse, recurseKids, addChild, Elem.tag, List.lookup, h1, h2, h3, h4, h5, h6, h7]

def CovWf (c : CovM) : Prop :=
  (∃ a0 a1 a2 a3 a4 a5 a6 a7 a8 a9 a10 a11 a12 a13 a14 a15 a16 a17 a18 a19 a20 : Txt,
    c.tri = [a0, a1, a2, a3, a4, a5, a6, a7, a8, a9, a10, a11, a12, a13, a14, a15, a16, a17, a18, a19, a20] ∧
    ∀ t ∈ [a0, a1, a2, a3, a4, a5, a6, a7, a8, a9, a10, a11, a12, a13, a14, a15, a16, a17, a18, a19, a20], t ≠ Txt.s "") ∧
  (c.frame = none ∨ c.frame = some "QSW" ∨ c.frame = some "TNW")

theorem covFrameOut_ne (c : CovM) (h : c.frame = none ∨ c.frame = some "QSW" ∨ c.frame = some "TNW") : covFrameOut c ≠ some "" := by
  rcases h with h | h | h <;> simp [covFrameOut, h, aliasOut, covAliasOut, List.lookup]

theorem covFrameBack_table : ∀ own ∈ frameTable.map (·.1), ∀ fr ∈ [none, some "QSW", some "TNW"],
    covFrameBack own ⟨fr, []⟩ = fr := by decide

theorem covFrameBack_ok (own : String) (c : CovM) (hown : own ∈ frameTable.map (·.1))
    (h : c.frame = none ∨ c.frame = some "QSW" ∨ c.frame = some "TNW") : covFrameBack own c = c.frame := by
  have h0 : covFrameBack own c = covFrameBack own ⟨c.frame, []⟩ := rfl
  rw [h0]
  exact covFrameBack_table own hown c.frame (by rcases h with h | h | h <;> simp [h])

/-- covariance block of an OPM/OMM (no EPOCH child), packaged for well-formed covariances -/
theorem cov_xml_roundtrip' (own : String) (hown : own ∈ frameTable.map (·.1)) (c : CovM) (h : CovWf c) :
    recurse (covXml none c) = some (.dict (covDict none c)) ∧ loadCov own (covDict none c) = .ok c := by
  obtain ⟨frame, tri⟩ := c
  obtain ⟨⟨a0, a1, a2, a3, a4, a5, a6, a7, a8, a9, a10, a11, a12, a13, a14, a15, a16, a17, a18, a19, a20, htri, hne⟩, hfr⟩ := h
  simp only at htri hfr
  subst htri
  have := cov_xml_roundtrip own none frame a0 a1 a2 a3 a4 a5 a6 a7 a8 a9 a10 a11 a12 a13 a14 a15 a16 a17 a18 a19 a20 hne (by simp)
    (covFrameOut_ne _ hfr)
  refine ⟨this.1, ?_⟩
  rw [this.2, covFrameBack_ok own _ hown hfr]

/-! ### the `data` element -/

def udDict (kvs : List (String × String)) : Dict := accD "USER_DEFINED" (kvs.map udFieldVal) []

def udVals : Option (List (String × String)) → List Val
  | none => []
  | some [] => []
  | some (kv :: r) => [.dict (udDict (kv :: r))]

def UdWf (ud : Option (List (String × String))) : Prop := ∀ kvs, ud = some kvs → ∀ kv ∈ kvs, kv.2 ≠ ""

theorem ud_elems (ud : Option (List (String × String))) (h : UdWf ud) :
    (∀ e ∈ udXml ud, e.tag = "userDefinedParameters") ∧ (udXml ud).map recurse = (udVals ud).map some ∧ ∀ v ∈ udVals ud, v.isList = false := by
  match ud, h with
  | none, _ => simp [udXml, udVals]
  | some [], _ => simp [udXml, udVals, xmlUdSkipsEmpty]
  | some (kv :: r), h =>
    refine ⟨by simp [udXml, Elem.tag], ?_, by simp [udVals, Val.isList]⟩
    have hg := recurseKids_group0 "USER_DEFINED" [] rfl ((kv :: r).map udLeaf) ((kv :: r).map udFieldVal) []
      (by intro e he; simp only [List.mem_map] at he; obtain ⟨x, _, rfl⟩ := he; rfl)
      (by
        simp only [List.map_map]
        apply List.map_congr_left
        intro x hx
        have := h _ rfl x hx
        simp [recurse, udLeaf, udFieldVal, this])
      (by intro v hv; simp only [List.mem_map] at hv; obtain ⟨_, _, rfl⟩ := hv; rfl)
    simp only [List.append_nil, recurseKids] at hg
    simp only [udXml, udVals, List.map_cons, List.map_nil, recurse, udDict]
    simp only [List.map_cons] at hg
    simp [hg]

/-- the dict `xml2dict` builds for the `data` element of an OPM -/
def opmDataDict (m : Opm) : Dict :=
  accD "userDefinedParameters" (udVals m.ud)
   (accD "maneuverParameters" ((m.mans.map (manDict m.frame)).map Val.dict)
    (accD "covarianceMatrix" (m.cov.toList.map fun c => Val.dict (covDict none c))
     (accD "keplerianElements" (m.kep.toList.map fun ks => Val.dict (kepDict ks))
      (accD "stateVector" [Val.dict (svDict m.epoch m.state)] []))))

structure OpmWf (m : Opm) : Prop where
  frame : m.frame ∈ frameTable.map (·.1)
  name : m.name ≠ ""
  id : m.id ≠ ""
  scale : m.scale ≠ ""
  epoch : m.epoch ≠ .s ""
  state : ∃ x y z vx vy vz, m.state = [x, y, z, vx, vy, vz] ∧ x ≠ .s "" ∧ y ≠ .s "" ∧ z ≠ .s "" ∧ vx ≠ .s "" ∧ vy ≠ .s "" ∧ vz ≠ .s ""
  kep : ∀ ks, m.kep = some ks → KepWf ks
  cov : ∀ c, m.cov = some c → CovWf c
  mans : ∀ x ∈ m.mans, ManWf m.frame x ∧ (x.frame = none ∨ x.frame = some "QSW" ∨ x.frame = some "TNW")
  ud : UdWf m.ud

theorem sv_of_wf (m : Opm) (h : OpmWf m) :
    recurse (svXml m.epoch m.state) = some (.dict (svDict m.epoch m.state)) ∧ loadSv (svDict m.epoch m.state) = .ok (m.epoch, m.state) := by
  obtain ⟨x, y, z, vx, vy, vz, hs, h1, h2, h3, h4, h5, h6⟩ := h.state
  rw [hs]
  exact sv_xml_roundtrip m.epoch x y z vx vy vz h.epoch h1 h2 h3 h4 h5 h6

theorem opm_data_kids (m : Opm) (h : OpmWf m) :
    recurseKids ([svXml m.epoch m.state] ++ m.kep.toList.map kepXml ++ m.cov.toList.map (covXml none) ++
      m.mans.map (manXml m.frame) ++ udXml m.ud) [] = some (opmDataDict m) := by
  simp only [List.append_assoc]
  rw [recurseKids_group0 "stateVector" [] rfl [svXml m.epoch m.state] [.dict (svDict m.epoch m.state)] _
    (by simp [svXml, Elem.tag]) (by simp [(sv_of_wf m h).1]) (by simp [Val.isList])]
  rw [recurseKids_group0 "keplerianElements" _ (by simp [lookup_accD_other, List.lookup]) (m.kep.toList.map kepXml)
    (m.kep.toList.map fun ks => Val.dict (kepDict ks)) _
    (by intro e he; simp only [List.mem_map] at he; obtain ⟨x, _, rfl⟩ := he; rfl)
    (by cases hk : m.kep with
        | none => simp
        | some ks => simp [kep_xml ks (h.kep ks hk)])
    (by intro v hv; simp only [List.mem_map] at hv; obtain ⟨_, _, rfl⟩ := hv; rfl)]
  rw [recurseKids_group0 "covarianceMatrix" _ (by simp [lookup_accD_other, List.lookup]) (m.cov.toList.map (covXml none))
    (m.cov.toList.map fun c => Val.dict (covDict none c)) _
    (by intro e he; simp only [List.mem_map] at he; obtain ⟨x, _, rfl⟩ := he; rfl)
    (by cases hc : m.cov with
        | none => simp
        | some c => simp [(cov_xml_roundtrip' m.frame h.frame c (h.cov c hc)).1])
    (by intro v hv; simp only [List.mem_map] at hv; obtain ⟨_, _, rfl⟩ := hv; rfl)]
  rw [recurseKids_group0 "maneuverParameters" _ (by simp [lookup_accD_other, List.lookup]) (m.mans.map (manXml m.frame))
    ((m.mans.map (manDict m.frame)).map Val.dict) _
    (by intro e he; simp only [List.mem_map] at he; obtain ⟨x, _, rfl⟩ := he; simp [manXml, Elem.tag])
    (by
      simp only [List.map_map]
      apply List.map_congr_left
      intro x hx
      simp [(man_xml_roundtrip' m.frame x (h.mans x hx).1).1])
    (by intro v hv; simp only [List.mem_map] at hv; obtain ⟨_, _, rfl⟩ := hv; rfl)]
  have hu := ud_elems m.ud h.ud
  have := recurseKids_group0 "userDefinedParameters"
    (accD "maneuverParameters" ((m.mans.map (manDict m.frame)).map Val.dict)
      (accD "covarianceMatrix" (m.cov.toList.map fun c => Val.dict (covDict none c))
        (accD "keplerianElements" (m.kep.toList.map fun ks => Val.dict (kepDict ks))
          (accD "stateVector" [Val.dict (svDict m.epoch m.state)] []))))
    (by simp [lookup_accD_other, List.lookup]) (udXml m.ud) (udVals m.ud) [] hu.1 hu.2.1 hu.2.2
  simp only [List.append_nil] at this
  rw [this]
  rfl

/-! ### reading the `data` dict back -/

theorem data_lookup_sv (m : Opm) : (opmDataDict m).lookup "stateVector" = some (.dict (svDict m.epoch m.state)) := by
  simp only [opmDataDict]
  rw [lookup_accD_other _ _ _ _ (by decide), lookup_accD_other _ _ _ _ (by decide), lookup_accD_other _ _ _ _ (by decide),
    lookup_accD_other _ _ _ _ (by decide), lookup_accD_same _ _ _ rfl]
  rfl

/-- reading a group of sub-dicts back: any length with a wrapping reader -/
theorem read_group_dicts (wrap : Bool) (e : Err) (ds : List Dict) (h : wrap = true ∨ ds.length ≠ 1) (hne : ds ≠ []) :
    ∃ x, promote (ds.map Val.dict) = some x ∧ (iterGroup wrap e x >>= fun xs => xs.mapM asDict) = .ok ds := by
  obtain ⟨x, hx⟩ : ∃ x, promote (ds.map Val.dict) = some x := by
    match ds, hne with
    | [d], _ => exact ⟨_, rfl⟩
    | d :: d' :: r, _ => exact ⟨_, rfl⟩
  refine ⟨x, hx, ?_⟩
  rw [iterGroup_promote wrap e (ds.map Val.dict) (by intro v hv; simp only [List.mem_map] at hv; obtain ⟨_, _, rfl⟩ := hv; rfl)
    (by simpa using h) x hx]
  exact mapM_asDict ds

theorem data_lookup_mans (m : Opm) :
    (opmDataDict m).lookup "maneuverParameters" = promote ((m.mans.map (manDict m.frame)).map Val.dict) := by
  simp only [opmDataDict]
  rw [lookup_accD_other _ _ _ _ (by decide), lookup_accD_same _ _ _ (by simp [lookup_accD_other, List.lookup])]

theorem data_lookup_cov (m : Opm) :
    (opmDataDict m).lookup "covarianceMatrix" = promote (m.cov.toList.map fun c => Val.dict (covDict none c)) := by
  simp only [opmDataDict]
  rw [lookup_accD_other _ _ _ _ (by decide), lookup_accD_other _ _ _ _ (by decide),
    lookup_accD_same _ _ _ (by simp [lookup_accD_other, List.lookup])]

theorem data_lookup_ud (m : Opm) : (opmDataDict m).lookup "userDefinedParameters" = promote (udVals m.ud) := by
  simp only [opmDataDict]
  rw [lookup_accD_same _ _ _ (by simp [lookup_accD_other, List.lookup])]

theorem read_mans (m : Opm) (h : OpmWf m) : opmMansFromXml m.frame (opmDataDict m) = .ok m.mans := by
  have hback : (m.mans.map fun x => { x with frame := manFrameBack m.frame x }) = m.mans := by
    conv => rhs; rw [← List.map_id m.mans]
    apply List.map_congr_left
    intro x hx
    rw [manFrameBack_ok m.frame x h.frame (h.mans x hx).2]
    rfl
  unfold opmMansFromXml
  rw [data_lookup_mans]
  cases hm : m.mans with
  | nil => rfl
  | cons x r =>
    rw [hm] at hback
    obtain ⟨v, hp, hr⟩ := read_group_dicts wrapOpmManeuver .typeError ((x :: r).map (manDict m.frame)) (Or.inl (by decide)) (by simp)
    rw [hp]
    show ((iterGroup wrapOpmManeuver .typeError v >>= fun xs => xs.mapM asDict) >>= fun raws => raws.mapM (loadMan m.frame)) = _
    rw [hr]
    show List.mapM (loadMan m.frame) ((x :: r).map (manDict m.frame)) = _
    rw [mapM_loadMan m.frame (x :: r) (fun y hy => (h.mans y (by rw [hm]; exact hy)).1), hback]

/-- the covariance block of the OPM / OMM XML readers gives the covariance back (absent, own frame, QSW, TNW) -/
theorem covFromXml_of_lookup (own : String) (hown : own ∈ frameTable.map (·.1)) (cov : Option CovM) (hwf : ∀ c, cov = some c → CovWf c)
    (D : Dict) (hl : D.lookup "covarianceMatrix" = promote (cov.toList.map fun c => Val.dict (covDict none c))) :
    covFromXml own D = .ok cov := by
  unfold covFromXml
  rw [hl]
  cases hc : cov with
  | none => rfl
  | some c =>
    simp only [Option.toList, List.map_cons, List.map_nil, promote, asDict, bind, Except.bind]
    rw [(cov_xml_roundtrip' own hown c (hwf c hc)).2]
    rfl

theorem read_cov (m : Opm) (h : OpmWf m) : covFromXml m.frame (opmDataDict m) = .ok m.cov :=
  covFromXml_of_lookup m.frame h.frame m.cov h.cov _ (data_lookup_cov m)

/-- an empty user-defined dict is not written, hence read as none -/
def normUd : Option (List (String × String)) → Option (List (String × String))
  | some [] => none
  | x => x

/-- the user-defined block of the OPM / OMM XML readers gives the fields back, for any number of them -/
theorem xmlUd_of_lookup (wrap : Bool) (hw : wrap = true) (ud : Option (List (String × String))) (hwf : UdWf ud)
    (D : Dict) (hl : D.lookup "userDefinedParameters" = promote (udVals ud)) : xmlUd wrap D = .ok (normUd ud) := by
  match ud, hwf with
  | none, _ => simp [xmlUd, hl, udVals, promote, normUd, pure, Except.pure]
  | some [], _ => simp [xmlUd, hl, udVals, promote, normUd, pure, Except.pure]
  | some (kv :: r), hwf =>
    simp only [udVals, promote] at hl
    have hnl : ∀ v ∈ (kv :: r).map udFieldVal, v.isList = false := by
      intro v hv; simp only [List.mem_map] at hv; obtain ⟨_, _, rfl⟩ := hv; rfl
    obtain ⟨x, hx⟩ : ∃ x, promote ((kv :: r).map udFieldVal) = some x := by
      cases r with
      | nil => exact ⟨_, rfl⟩
      | cons a b => exact ⟨_, rfl⟩
    have hlu : (udDict (kv :: r)).lookup "USER_DEFINED" = some x := by
      rw [udDict, lookup_accD_same _ _ _ rfl, hx]
    have hit := iterGroup_promote wrap .attrError _ hnl (Or.inl hw) x hx
    simp only [xmlUd, hl, asDict, hlu, bind, Except.bind, pure, Except.pure, hit, mapM_readUdField]
    simp [normUd]

theorem read_ud (m : Opm) (h : OpmWf m) : xmlUd wrapOpmUd (opmDataDict m) = .ok (normUd m.ud) :=
  xmlUd_of_lookup wrapOpmUd (by decide) m.ud h.ud _ (data_lookup_ud m)

/-! ### the whole message -/

def headerDict : Val := .dict [("CREATION_DATE", .field (.s "now") []), ("ORIGINATOR", .field (.s "N/A") [])]

/-- shape of the dict of an OPM / OMM document: header, body → segment → metadata + data -/
theorem xml2dict_odm_shape (root : String) (mx : Elem) (MD : Dict) (kids : List Elem) (D : Dict)
    (hm : recurse mx = some (.dict MD)) (hmt : mx.tag = "metadata") (hk : recurseKids kids [] = some D) (hne : kids.isEmpty = false) :
    xml2dict (.node root [headerXml, .node "body" [.node "segment" [mx, .node "data" kids]]]) =
      .ok [("header", headerDict), ("body", .dict [("segment", .dict [("metadata", .dict MD), ("data", .dict D)])])] := by
  have hh : recurse headerXml = some headerDict := by
    simp [headerXml, headerDict, leafS, recurse, recurseKids, addChild, Elem.tag, List.lookup]
  have hht : headerXml.tag = "header" := rfl
  have htn : ∀ t cs, (Elem.node t cs).tag = t := fun _ _ => rfl
  simp [xml2dict, recurseKids, recurse, hm, hmt, hk, hne, hh, hht, htn, addChild, List.lookup]

theorem segPath_odm (MD D : Dict) :
    segPath [("header", headerDict), ("body", .dict [("segment", .dict [("metadata", .dict MD), ("data", .dict D)])])] = .ok (MD, D) := by
  simp [segPath, getItem, Val.item, asDict, List.lookup, bind, Except.bind, pure, Except.pure]

/-- **`load_dump_id`, OPM, XML.**  For every well-formed OPM `m` — any registered frame (the ten Earth-centred ones, or one centred on a solar-system / JPL body or a Lagrange point: regenerated table); name, identifier, time
scale, epoch and coordinates any non-empty texts; Keplerian block written or not; covariance absent or present in the
orbit's frame, QSW or TNW; any number of maneuvers, impulsive or continuous, in the orbit's frame, QSW or TNW, with
or without comment; user-defined fields absent, empty, one or many — reading what the XML writer produced gives `m`
back (the Keplerian block, which the reader ignores, dropped; an empty user-defined dict read as none). -/
theorem opm_xml_load_dump_id (m : Opm) (h : OpmWf m) :
    (opmXml m >>= loadOpmXml) = .ok { m with kep := none, ud := normUd m.ud } := by
  obtain ⟨c, r, hfo, hcr, hc, hr, hrf⟩ := frameOut_ok m.frame h.frame
  have hmeta := meta_xml m.name m.id c r m.scale h.name h.id hc hr h.scale
  have hkids := opm_data_kids m h
  have hx := xml2dict_odm_shape "opm" (metaXml m.name m.id c r m.scale []) _ _ _ hmeta rfl hkids (by simp)
  simp only [opmXml, hfo, bind, Except.bind, pure, Except.pure, loadOpmXml]
  rw [hx]
  have hhead : opmHeadFromXml (metaDict m.name m.id c r m.scale) (svDict m.epoch m.state) =
      .ok (m.name, m.id, m.scale, m.frame, m.epoch, m.state) := by
    simp [opmHeadFromXml, metaDict, strOf, textOf, getItem, Val.text, List.lookup, bind, Except.bind, pure, Except.pure, hcr,
      (sv_of_wf m h).2, keyErrToCcsds]
  have hseg := segPath_odm (metaDict m.name m.id c r m.scale) (opmDataDict m)
  unfold opmFromXmlDict
  dsimp only
  rw [hseg]
  simp only [bind, Except.bind, getItem, data_lookup_sv, asDict, hhead, read_mans m h, read_cov m h, read_ud m h, pure, Except.pure]

def opmEx : Opm :=
  { name := "SAT", id := "2020-001A", frame := "EME2000", scale := "UTC", epoch := .s "t0",
    state := [.s "1", .s "2", .s "3", .s "4", .s "5", .s "6"], kep := none, cov := none,
    mans := [⟨0, .s "t1", some "QSW", some "burn", [.s "1", .s "2", .s "3"]⟩], ud := some [("FOO", "bar")] }

/-- the hypotheses are satisfiable by a non-trivial message (one QSW maneuver, one user-defined field) -/
theorem opmEx_wf : OpmWf opmEx :=
  { frame := by decide
    name := by decide
    id := by decide
    scale := by decide
    epoch := by decide
    state := ⟨_, _, _, _, _, _, rfl, by decide, by decide, by decide, by decide, by decide, by decide⟩
    kep := by intro ks h; cases h
    cov := by intro c h; cases h
    mans := by
      intro x hx
      simp only [opmEx, List.mem_cons, List.not_mem_nil, or_false] at hx
      subst hx
      exact ⟨⟨⟨_, _, _, rfl, by decide, by decide, by decide⟩, by decide, by decide, by decide⟩, Or.inr (Or.inl rfl)⟩
    ud := by
      intro kvs h kv hkv
      cases h
      simp only [List.mem_cons, List.not_mem_nil, or_false] at hkv
      subst hkv
      decide }

example : (opmXml opmEx >>= loadOpmXml) = .ok opmEx := opm_xml_load_dump_id opmEx opmEx_wf

end BeyondVerif.C13
