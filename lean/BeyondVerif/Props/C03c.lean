import BeyondVerif.Props.C03b
import BeyondVerif.Generated.TdbR
import Mathlib.Analysis.SpecialFunctions.Trigonometric.Bounds
import Mathlib.Analysis.Real.Pi.Bounds
import Mathlib.Algebra.Order.Round

/-!
# C03, third part — the slope of the TDB−TT term (over ℝ, about the formula translated from the source)

`change_scale` and the constructor evaluate `Timescale._scale_tdb_minus_tt` at different `mjd` arguments (the TAI reading of the
old date, the own clock readings of the old and of the new date: at most ~70 s apart).  `tdb_lipschitz` bounds the slope of the
translated formula by 2.9e-5 s per day; `tdbTicksR` is that formula rounded to the ticks of the integer model, and
`tdbTicksR_slow` shows it satisfies `TdbSlow` — the hypothesis under which `Props/C03b.lean` gives explicit numbers for the
conversions that involve TDB.
-/
namespace BeyondVerif.C03
open BeyondVerif.Date

/-- **the TDB−TT term changes by less than 2.9e-5 s per day of its argument** (3.4e-10 s per second) -/
theorem tdb_lipschitz (a b : ℝ) : |R.tdbMinusTt a - R.tdbMinusTt b| ≤ 2.9e-5 * |a - b| := by
  unfold R.tdbMinusTt R.julianCentury
  simp only [NumReal.sin, NumReal.pi]
  have h1 := Real.abs_sin_sub_sin_le ((357.5277233 + 35999.05034 * ((a + 2400000.5 - 2451545.0) / 36525.0)) * Real.pi / 180)
    ((357.5277233 + 35999.05034 * ((b + 2400000.5 - 2451545.0) / 36525.0)) * Real.pi / 180)
  have h2 := Real.abs_sin_sub_sin_le ((246.11 + 0.90251792 * (a + 2400000.5 - 2451545.0)) * Real.pi / 180)
    ((246.11 + 0.90251792 * (b + 2400000.5 - 2451545.0)) * Real.pi / 180)
  have e1 : (357.5277233 + 35999.05034 * ((a + 2400000.5 - 2451545.0) / 36525.0)) * Real.pi / 180 -
      (357.5277233 + 35999.05034 * ((b + 2400000.5 - 2451545.0) / 36525.0)) * Real.pi / 180 =
      (35999.05034 / 36525.0 * Real.pi / 180) * (a - b) := by
    have g : ∀ c k u v w p : ℝ, (c + k * ((a + u - v) / w)) * p / 180 - (c + k * ((b + u - v) / w)) * p / 180 = (k / w * p / 180) * (a - b) := by
      intros; ring
    exact g _ _ _ _ _ _
  have e2 : (246.11 + 0.90251792 * (a + 2400000.5 - 2451545.0)) * Real.pi / 180 -
      (246.11 + 0.90251792 * (b + 2400000.5 - 2451545.0)) * Real.pi / 180 = (0.90251792 * Real.pi / 180) * (a - b) := by
    have g : ∀ c k u v p : ℝ, (c + k * (a + u - v)) * p / 180 - (c + k * (b + u - v)) * p / 180 = (k * p / 180) * (a - b) := by
      intros; ring
    exact g _ _ _ _ _
  have hpi := Real.pi_lt_d4
  have hpi0 := Real.pi_pos
  rw [e1, abs_mul] at h1
  rw [e2, abs_mul] at h2
  have c1 : |(35999.05034 / 36525.0 * Real.pi / 180 : ℝ)| = 35999.05034 / 36525.0 * Real.pi / 180 := abs_of_pos (by positivity)
  have c2 : |(0.90251792 * Real.pi / 180 : ℝ)| = 0.90251792 * Real.pi / 180 := abs_of_pos (by positivity)
  rw [c1] at h1
  rw [c2] at h2
  have hab := abs_nonneg (a - b)
  set sa := Real.sin ((357.5277233 + 35999.05034 * ((a + 2400000.5 - 2451545.0) / 36525.0)) * Real.pi / 180)
  set sb := Real.sin ((357.5277233 + 35999.05034 * ((b + 2400000.5 - 2451545.0) / 36525.0)) * Real.pi / 180)
  set ta := Real.sin ((246.11 + 0.90251792 * (a + 2400000.5 - 2451545.0)) * Real.pi / 180)
  set tb := Real.sin ((246.11 + 0.90251792 * (b + 2400000.5 - 2451545.0)) * Real.pi / 180)
  have e3 : 0.001657 * sa + 2.2e-5 * ta - (0.001657 * sb + 2.2e-5 * tb) = 0.001657 * (sa - sb) + 2.2e-5 * (ta - tb) := by ring
  rw [e3]
  have t1 : |0.001657 * (sa - sb) + 2.2e-5 * (ta - tb)| ≤ 0.001657 * |sa - sb| + 2.2e-5 * |ta - tb| := by
    refine (abs_add_le _ _).trans ?_
    rw [abs_mul, abs_mul, abs_of_pos (by norm_num : (0 : ℝ) < 0.001657), abs_of_pos (by norm_num : (0 : ℝ) < 2.2e-5)]
  have hp : Real.pi * |a - b| ≤ 3.1416 * |a - b| := mul_le_mul_of_nonneg_right hpi.le hab
  nlinarith [t1, h1, h2, hp, hab]

/-- the translated formula at `mjd = num / D`, rounded to the nearest tick: what the integer model's `tdb` parameter stands for -/
noncomputable def tdbTicksR (num : Int) : Int := round (R.tdbMinusTt ((num : ℝ) / 864000000000) * 10000000)

theorem round_sub_round_le (a b : ℝ) : ((round a - round b : Int) : ℝ) ≤ |a - b| + 1 := by
  have h1 := abs_sub_round a
  have h2 := abs_sub_round b
  have := abs_le.mp h1
  have := abs_le.mp h2
  have := le_abs_self (a - b)
  push_cast
  linarith

/-- **`TdbSlow` holds of the translated formula**: at most 1.7 ms, and at most one tick apart at two arguments less than
200 s (2·10⁹ ticks) apart — the true change is below 0.68 tick, rounding to ticks adds less than one -/
theorem tdbTicksR_slow : TdbSlow tdbTicksR := by
  constructor
  · intro n
    have hb := abs_lt.mp (tdb_tt_bound ((n : ℝ) / 864000000000))
    have hr := abs_le.mp (abs_sub_round (R.tdbMinusTt ((n : ℝ) / 864000000000) * 10000000))
    unfold tdbTicksR
    constructor
    · have : (-17001 : ℝ) < (round (R.tdbMinusTt ((n : ℝ) / 864000000000) * 10000000) : ℝ) := by linarith [hb.1, hr.1, hr.2]
      have : (-17001 : Int) < round (R.tdbMinusTt ((n : ℝ) / 864000000000) * 10000000) := by exact_mod_cast this
      omega
    · have : (round (R.tdbMinusTt ((n : ℝ) / 864000000000) * 10000000) : ℝ) < 17001 := by linarith [hb.2, hr.1, hr.2]
      have : round (R.tdbMinusTt ((n : ℝ) / 864000000000) * 10000000) < (17001 : Int) := by exact_mod_cast this
      omega
  · intro n m h1 h2
    have hnm : |(n : ℝ) / 864000000000 - (m : ℝ) / 864000000000| ≤ 2000000000 / 864000000000 := by
      rw [abs_le]
      have a1 : ((n - m : Int) : ℝ) ≤ 2000000000 := by exact_mod_cast h1
      have a2 : ((m - n : Int) : ℝ) ≤ 2000000000 := by exact_mod_cast h2
      push_cast at a1 a2
      constructor <;> linarith
    have hl := tdb_lipschitz ((n : ℝ) / 864000000000) ((m : ℝ) / 864000000000)
    have hl' := tdb_lipschitz ((m : ℝ) / 864000000000) ((n : ℝ) / 864000000000)
    rw [abs_sub_comm] at hl'
    have hd : |R.tdbMinusTt ((n : ℝ) / 864000000000) * 10000000 - R.tdbMinusTt ((m : ℝ) / 864000000000) * 10000000| ≤ 0.68 := by
      rw [← sub_mul, abs_mul, abs_of_pos (by norm_num : (0 : ℝ) < 10000000)]
      nlinarith [hl, hnm, abs_nonneg (R.tdbMinusTt ((n : ℝ) / 864000000000) - R.tdbMinusTt ((m : ℝ) / 864000000000))]
    have r1 := round_sub_round_le (R.tdbMinusTt ((n : ℝ) / 864000000000) * 10000000) (R.tdbMinusTt ((m : ℝ) / 864000000000) * 10000000)
    have r2 := round_sub_round_le (R.tdbMinusTt ((m : ℝ) / 864000000000) * 10000000) (R.tdbMinusTt ((n : ℝ) / 864000000000) * 10000000)
    rw [abs_sub_comm] at r2
    unfold tdbTicksR
    constructor
    · have : ((round (R.tdbMinusTt ((n : ℝ) / 864000000000) * 10000000) - round (R.tdbMinusTt ((m : ℝ) / 864000000000) * 10000000) : Int) : ℝ) < 2 := by
        linarith
      have : round (R.tdbMinusTt ((n : ℝ) / 864000000000) * 10000000) - round (R.tdbMinusTt ((m : ℝ) / 864000000000) * 10000000) < (2 : Int) := by
        exact_mod_cast this
      omega
    · have : ((round (R.tdbMinusTt ((m : ℝ) / 864000000000) * 10000000) - round (R.tdbMinusTt ((n : ℝ) / 864000000000) * 10000000) : Int) : ℝ) < 2 := by
        linarith
      have : round (R.tdbMinusTt ((m : ℝ) / 864000000000) * 10000000) - round (R.tdbMinusTt ((n : ℝ) / 864000000000) * 10000000) < (2 : Int) := by
        exact_mod_cast this
      omega

/-- **conversions involving TDB, with the formula of the source**: in an environment whose TDB−TT term is the translated
formula rounded to ticks, a conversion between any two of the six scales whose result carries the same EOP record moves the
instant by at most 1.6 µs internally and by at most one microsecond in `date2 - date1` -/
theorem changeScale_tdb_formula {env : Env} (henv : env.tdb = tdbTicksR) {x y : Date} {new : Nat}
    (hsc : x.scale ∈ allIx) (hnew : new ∈ allIx) (hx : Built env x) (hxo : -900000000 ≤ x.off ∧ x.off ≤ 900000000)
    (h : changeScale cfg env x new = .ok y) (hyo : -900000000 ≤ y.off ∧ y.off ≤ 900000000) (hrec : y.eop = x.eop) :
    (-16 ≤ y.inst - x.inst ∧ y.inst - x.inst ≤ 16) ∧ (-1 ≤ subDate y x ∧ subDate y x ≤ 1) := by
  have ht : TdbSlow env.tdb := henv ▸ tdbTicksR_slow
  exact ⟨changeScale_instant_bound_all hsc hnew hx ht hxo h hyo hrec, changeScale_observed_us hsc hnew hx ht hxo h hyo hrec⟩

end BeyondVerif.C03
