import BeyondVerif.Props.C05
import BeyondVerif.Lemmas.TwoBodyHyp
import BeyondVerif.Lemmas.TwoBody3D
import BeyondVerif.Lemmas.PropagCart

/-!
# C05 (part 2) — the CARTESIAN state returned by Keplerian propagation solves the two-body problem, ellipse and hyperbola

`cartOf µ x E` is the state the library's own conversion chain (`Form._keplerian_eccentric_to_keplerian`, then
`Form._keplerian_to_cartesian`, both translated from forms.py on every run) gives for the mean elements `x` once the
eccentric / hyperbolic anomaly `E` is known; `meanToCart fuel µ x` (the model of `new.copy(form="cartesian")`) is `cartOf µ x`
applied to the anomaly returned by the Newton loop of `Form.M2E`.  With `E t` the exact solution of Kepler's equation for the
advanced mean anomaly `M + n t`, the six components of `t ↦ cartOf µ x (E t)` satisfy `ṙ = v`, `v̇ = −µ r/|r|³` in the frame
— position, velocity and the norm are those of the 3-D state, not of the orbital plane (the rotation by `Ω, i, ω` is constant
because `kepler_elements_constant`, and the ODE is invariant under it: Lemmas/TwoBody3D.lean).
-/
noncomputable section
set_option linter.unusedVariables false
namespace BeyondVerif.C05
open BeyondVerif.R BeyondVerif.NumReal BeyondVerif.PropagCart

/-- the cartesian state of mean elements `x` whose eccentric (hyperbolic) anomaly is `E`: the two translated edges
`keplerian_eccentric → keplerian → cartesian` of forms.py -/
def cartOf (mu : ℝ) (x : Elts) (E : ℝ) : List ℝ :=
  app6 kpKeplToCart mu (app6 kpEccToKepl mu [x.a, x.e, x.i, x.raan, x.argp, E])

/-- the model of the final `new.copy(form="cartesian")` is `cartOf` at the anomaly the Newton loop returns -/
theorem meanToCart_eq_cartOf (fuel : Nat) (mu : ℝ) (x : Elts) :
    meanToCart fuel mu x = (kpM2e fuel x.e x.M).map (cartOf mu x) := rfl

/-- component `j` of a state -/
def comp (c : List ℝ) (j : Nat) : ℝ := c.getD j 0

/-- the distance from the attracting centre of a cartesian state -/
def rnorm (c : List ℝ) : ℝ := Real.sqrt (comp c 0 ^ 2 + comp c 1 ^ 2 + comp c 2 ^ 2)

theorem comp_place (i Ω ω X Y U V : ℝ) :
    comp (place i Ω ω X Y U V) 0 = X * TwoBody3D.P1 i Ω ω + Y * TwoBody3D.Q1 i Ω ω ∧
    comp (place i Ω ω X Y U V) 1 = X * TwoBody3D.P2 i Ω ω + Y * TwoBody3D.Q2 i Ω ω ∧
    comp (place i Ω ω X Y U V) 2 = X * TwoBody3D.P3 i Ω ω + Y * TwoBody3D.Q3 i Ω ω ∧
    comp (place i Ω ω X Y U V) 3 = U * TwoBody3D.P1 i Ω ω + V * TwoBody3D.Q1 i Ω ω ∧
    comp (place i Ω ω X Y U V) 4 = U * TwoBody3D.P2 i Ω ω + V * TwoBody3D.Q2 i Ω ω ∧
    comp (place i Ω ω X Y U V) 5 = U * TwoBody3D.P3 i Ω ω + V * TwoBody3D.Q3 i Ω ω := by
  simp [comp, place]

/-- **Keplerian propagation solves the two-body problem — cartesian state, bound orbits** (forwards and backwards in time):
let `E t` solve Kepler's equation for the mean anomaly of the state propagated by `t` (`keplerStep`, translated from
kepler.py).  Then for each axis `j = 0, 1, 2` of the frame the position component of the state computed by the library's
conversion chain has the velocity component as derivative, and the velocity component has derivative `−µ r_j/|r|³`, `|r|`
the norm of the 3-D position, `µ` the gravitational parameter the mean motion was computed from — at every `t`. -/
theorem kepler_solves_two_body_cartesian (mu : ℝ) (x : Elts) (hmu : 0 < mu) (ha : 0 < x.a) (he0 : 0 ≤ x.e) (he1 : x.e < 1)
    (E : ℝ → ℝ) (hE : ∀ t, E t - x.e * Real.sin (E t) = (keplerStep mu x t).M) (t : ℝ) (j : Nat) (hj : j < 3) :
    HasDerivAt (fun s => comp (cartOf mu x (E s)) j) (comp (cartOf mu x (E t)) (j + 3)) t ∧
    HasDerivAt (fun s => comp (cartOf mu x (E s)) (j + 3))
      (-mu * comp (cartOf mu x (E t)) j / rnorm (cartOf mu x (E t)) ^ 3) t := by
  obtain ⟨hX, hY, hU, hV⟩ := kepler_solves_two_body mu x hmu ha he0 he1 E hE t
  have hn := (meanMotion_pos hmu ha.ne').le
  have hmu' := meanMotion_sq_mul mu x.a hmu ha
  have hc : ∀ s, cartOf mu x (E s) = place x.i x.raan x.argp (TwoBody.posX x.a x.e E s) (TwoBody.posY x.a x.e E s)
      (TwoBody.velX x.a x.e (meanMotion mu x.a) E s) (TwoBody.velY x.a x.e (meanMotion mu x.a) E s) := fun s =>
    cart_elliptic mu x.a x.e x.i x.raan x.argp (E s) (meanMotion mu x.a) ha he0 he1 hn hmu'
  simp only [hc, rnorm]
  obtain ⟨c0, c1, c2, c3, c4, c5⟩ := comp_place x.i x.raan x.argp (TwoBody.posX x.a x.e E t) (TwoBody.posY x.a x.e E t)
    (TwoBody.velX x.a x.e (meanMotion mu x.a) E t) (TwoBody.velY x.a x.e (meanMotion mu x.a) E t)
  rw [c0, c1, c2]
  have hj' : j = 0 ∨ j = 1 ∨ j = 2 := by omega
  rcases hj' with rfl | rfl | rfl
  · simp only [fun s => (comp_place x.i x.raan x.argp (TwoBody.posX x.a x.e E s) (TwoBody.posY x.a x.e E s)
      (TwoBody.velX x.a x.e (meanMotion mu x.a) E s) (TwoBody.velY x.a x.e (meanMotion mu x.a) E s)).1,
      fun s => (comp_place x.i x.raan x.argp (TwoBody.posX x.a x.e E s) (TwoBody.posY x.a x.e E s)
      (TwoBody.velX x.a x.e (meanMotion mu x.a) E s) (TwoBody.velY x.a x.e (meanMotion mu x.a) E s)).2.2.2.1]
    exact TwoBody3D.lift_newton x.i x.raan x.argp hX hY hU hV _ _
  · simp only [fun s => (comp_place x.i x.raan x.argp (TwoBody.posX x.a x.e E s) (TwoBody.posY x.a x.e E s)
      (TwoBody.velX x.a x.e (meanMotion mu x.a) E s) (TwoBody.velY x.a x.e (meanMotion mu x.a) E s)).2.1,
      fun s => (comp_place x.i x.raan x.argp (TwoBody.posX x.a x.e E s) (TwoBody.posY x.a x.e E s)
      (TwoBody.velX x.a x.e (meanMotion mu x.a) E s) (TwoBody.velY x.a x.e (meanMotion mu x.a) E s)).2.2.2.2.1]
    exact TwoBody3D.lift_newton x.i x.raan x.argp hX hY hU hV _ _
  · simp only [fun s => (comp_place x.i x.raan x.argp (TwoBody.posX x.a x.e E s) (TwoBody.posY x.a x.e E s)
      (TwoBody.velX x.a x.e (meanMotion mu x.a) E s) (TwoBody.velY x.a x.e (meanMotion mu x.a) E s)).2.2.1,
      fun s => (comp_place x.i x.raan x.argp (TwoBody.posX x.a x.e E s) (TwoBody.posY x.a x.e E s)
      (TwoBody.velX x.a x.e (meanMotion mu x.a) E s) (TwoBody.velY x.a x.e (meanMotion mu x.a) E s)).2.2.2.2.2]
    exact TwoBody3D.lift_newton x.i x.raan x.argp hX hY hU hV _ _

/-- the hypotheses are satisfiable: the circular orbit `e = 0`, where `E t = M₀ + n t` -/
example (mu : ℝ) (hmu : 0 < mu) : ∃ E : ℝ → ℝ,
    ∀ t, E t - (0 : ℝ) * Real.sin (E t) = (keplerStep mu ⟨1, 0, 1, 2, 3, 0.25⟩ t).M :=
  ⟨fun t => 0.25 + meanMotion mu 1 * t, by intro t; simp [keplerStep_eq]⟩

/-! ## Hyperbola -/

theorem meanMotion_sq_mul_neg (mu a : ℝ) (hmu : 0 < mu) (ha : a < 0) : -(meanMotion mu a ^ 2 * a ^ 3) = mu := by
  rw [meanMotion_formula, abs_of_neg ha, Real.sq_sqrt (div_pos hmu (pow_pos (neg_pos.mpr ha) 3)).le]
  have : a ≠ 0 := ha.ne
  field_simp

/-- **Keplerian propagation solves the two-body problem — hyperbolic orbits, orbital plane** (the counterpart of
`kepler_solves_two_body`; `a < 0 < e − 1` as in the library): with `H t` the solution of the hyperbolic Kepler equation
`e sinh H − H = M + n t` for the mean anomaly of the state propagated by `t` (unique:
`hyperbolic_kepler_equation_solution_unique`; differentiable: `TwoBodyHyp.solution_differentiable`), the perifocal position
`(a (cosh H − e), −a √(e²−1) sinh H)` has the perifocal velocity as derivative and the velocity has derivative `−µ r/|r|³`. -/
theorem kepler_solves_two_body_hyperbolic (mu : ℝ) (x : Elts) (hmu : 0 < mu) (ha : x.a < 0) (he1 : 1 < x.e)
    (H : ℝ → ℝ) (hH : ∀ t, x.e * Real.sinh (H t) - H t = (keplerStep mu x t).M) (t : ℝ) :
    HasDerivAt (TwoBodyHyp.posX x.a x.e H) (TwoBodyHyp.velX x.a x.e (meanMotion mu x.a) H t) t ∧
    HasDerivAt (TwoBodyHyp.posY x.a x.e H) (TwoBodyHyp.velY x.a x.e (meanMotion mu x.a) H t) t ∧
    HasDerivAt (TwoBodyHyp.velX x.a x.e (meanMotion mu x.a) H)
      (-mu * TwoBodyHyp.posX x.a x.e H t / Real.sqrt (TwoBodyHyp.posX x.a x.e H t ^ 2 + TwoBodyHyp.posY x.a x.e H t ^ 2) ^ 3) t ∧
    HasDerivAt (TwoBodyHyp.velY x.a x.e (meanMotion mu x.a) H)
      (-mu * TwoBodyHyp.posY x.a x.e H t / Real.sqrt (TwoBodyHyp.posX x.a x.e H t ^ 2 + TwoBodyHyp.posY x.a x.e H t ^ 2) ^ 3) t := by
  have hH' : ∀ t, x.e * Real.sinh (H t) - H t = x.M + meanMotion mu x.a * t := by
    intro t; rw [hH t, keplerStep_eq]
  have hmu' := meanMotion_sq_mul_neg mu x.a hmu ha
  have hm : -mu = meanMotion mu x.a ^ 2 * x.a ^ 3 := by linarith
  have hd := TwoBodyHyp.solution_differentiable he1 hH'
  rw [← TwoBodyHyp.radius_eq_norm ha he1 t]
  refine ⟨TwoBodyHyp.hasDerivAt_posX he1 hH' hd t, TwoBodyHyp.hasDerivAt_posY he1 hH' hd t, ?_, ?_⟩
  · have := TwoBodyHyp.hasDerivAt_velX ha he1 hH' hd t
    exact this.congr_deriv (by rw [hm])
  · have := TwoBodyHyp.hasDerivAt_velY ha he1 hH' hd t
    exact this.congr_deriv (by rw [hm])

/-- **… and so does the CARTESIAN state the library computes for a hyperbolic orbit**, axis by axis, with the 3-D norm. -/
theorem kepler_solves_two_body_cartesian_hyperbolic (mu : ℝ) (x : Elts) (hmu : 0 < mu) (ha : x.a < 0) (he1 : 1 < x.e)
    (H : ℝ → ℝ) (hH : ∀ t, x.e * Real.sinh (H t) - H t = (keplerStep mu x t).M) (t : ℝ) (j : Nat) (hj : j < 3) :
    HasDerivAt (fun s => comp (cartOf mu x (H s)) j) (comp (cartOf mu x (H t)) (j + 3)) t ∧
    HasDerivAt (fun s => comp (cartOf mu x (H s)) (j + 3))
      (-mu * comp (cartOf mu x (H t)) j / rnorm (cartOf mu x (H t)) ^ 3) t := by
  obtain ⟨hX, hY, hU, hV⟩ := kepler_solves_two_body_hyperbolic mu x hmu ha he1 H hH t
  have hn := (meanMotion_pos hmu ha.ne).le
  have hmu' := meanMotion_sq_mul_neg mu x.a hmu ha
  have hc : ∀ s, cartOf mu x (H s) = place x.i x.raan x.argp (TwoBodyHyp.posX x.a x.e H s) (TwoBodyHyp.posY x.a x.e H s)
      (TwoBodyHyp.velX x.a x.e (meanMotion mu x.a) H s) (TwoBodyHyp.velY x.a x.e (meanMotion mu x.a) H s) := fun s =>
    cart_hyperbolic mu x.a x.e x.i x.raan x.argp (H s) (meanMotion mu x.a) ha he1 hn hmu'
  simp only [hc, rnorm]
  obtain ⟨c0, c1, c2, c3, c4, c5⟩ := comp_place x.i x.raan x.argp (TwoBodyHyp.posX x.a x.e H t) (TwoBodyHyp.posY x.a x.e H t)
    (TwoBodyHyp.velX x.a x.e (meanMotion mu x.a) H t) (TwoBodyHyp.velY x.a x.e (meanMotion mu x.a) H t)
  rw [c0, c1, c2]
  have hj' : j = 0 ∨ j = 1 ∨ j = 2 := by omega
  rcases hj' with rfl | rfl | rfl
  · simp only [fun s => (comp_place x.i x.raan x.argp (TwoBodyHyp.posX x.a x.e H s) (TwoBodyHyp.posY x.a x.e H s)
      (TwoBodyHyp.velX x.a x.e (meanMotion mu x.a) H s) (TwoBodyHyp.velY x.a x.e (meanMotion mu x.a) H s)).1,
      fun s => (comp_place x.i x.raan x.argp (TwoBodyHyp.posX x.a x.e H s) (TwoBodyHyp.posY x.a x.e H s)
      (TwoBodyHyp.velX x.a x.e (meanMotion mu x.a) H s) (TwoBodyHyp.velY x.a x.e (meanMotion mu x.a) H s)).2.2.2.1]
    exact TwoBody3D.lift_newton x.i x.raan x.argp hX hY hU hV _ _
  · simp only [fun s => (comp_place x.i x.raan x.argp (TwoBodyHyp.posX x.a x.e H s) (TwoBodyHyp.posY x.a x.e H s)
      (TwoBodyHyp.velX x.a x.e (meanMotion mu x.a) H s) (TwoBodyHyp.velY x.a x.e (meanMotion mu x.a) H s)).2.1,
      fun s => (comp_place x.i x.raan x.argp (TwoBodyHyp.posX x.a x.e H s) (TwoBodyHyp.posY x.a x.e H s)
      (TwoBodyHyp.velX x.a x.e (meanMotion mu x.a) H s) (TwoBodyHyp.velY x.a x.e (meanMotion mu x.a) H s)).2.2.2.2.1]
    exact TwoBody3D.lift_newton x.i x.raan x.argp hX hY hU hV _ _
  · simp only [fun s => (comp_place x.i x.raan x.argp (TwoBodyHyp.posX x.a x.e H s) (TwoBodyHyp.posY x.a x.e H s)
      (TwoBodyHyp.velX x.a x.e (meanMotion mu x.a) H s) (TwoBodyHyp.velY x.a x.e (meanMotion mu x.a) H s)).2.2.1,
      fun s => (comp_place x.i x.raan x.argp (TwoBodyHyp.posX x.a x.e H s) (TwoBodyHyp.posY x.a x.e H s)
      (TwoBodyHyp.velX x.a x.e (meanMotion mu x.a) H s) (TwoBodyHyp.velY x.a x.e (meanMotion mu x.a) H s)).2.2.2.2.2]
    exact TwoBody3D.lift_newton x.i x.raan x.argp hX hY hU hV _ _

/-- the hypotheses are satisfiable (`µ = 4`, `a = −1`, `e = 2`; the equation `2 sinh H − H = y` has a solution for every `y`:
the left side is continuous and unbounded in both directions) -/
example : ∃ H : ℝ → ℝ, ∀ t, (2 : ℝ) * Real.sinh (H t) - H t = (keplerStep 4 ⟨-1, 2, 1, 2, 3, 0.25⟩ t).M := by
  have hsurj : Function.Surjective (fun u : ℝ => (2 : ℝ) * Real.sinh u - u) := by
    have hc : Continuous (fun u : ℝ => (2 : ℝ) * Real.sinh u - u) := by fun_prop
    have hmono : ∀ u : ℝ, 0 ≤ u → u ≤ 2 * Real.sinh u - u := by
      intro u hu
      have := Real.self_le_sinh_iff.mpr hu
      linarith
    refine hc.surjective ?_ ?_
    · refine Filter.tendsto_atTop_mono' _ ?_ Filter.tendsto_id
      filter_upwards [Filter.eventually_ge_atTop 0] with u hu using hmono u hu
    · have hneg : ∀ u : ℝ, u ≤ 0 → 2 * Real.sinh u - u ≤ u := by
        intro u hu
        have := hmono (-u) (by linarith)
        rw [Real.sinh_neg] at this
        linarith
      refine Filter.tendsto_atBot_mono' _ ?_ Filter.tendsto_id
      filter_upwards [Filter.eventually_le_atBot 0] with u hu using hneg u hu
  choose g hg using hsurj
  exact ⟨fun t => g ((keplerStep 4 ⟨-1, 2, 1, 2, 3, 0.25⟩ t).M), fun t => hg _⟩

end BeyondVerif.C05
