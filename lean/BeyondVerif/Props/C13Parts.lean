import BeyondVerif.Props.C13
/-!
C13, continued: the other XML groups, for every value of their fields and every list length —
state vector, covariance matrix, user-defined parameters (and the `accD` bookkeeping used to put
whole messages together in `Props/C13Opm.lean`).
-/
namespace BeyondVerif.C13
open BeyondVerif.Ccsds BeyondVerif.Generated


theorem lookup_accD_same (t : String) (vs : List Val) (d : Dict) (hd : d.lookup t = none) :
    (accD t vs d).lookup t = promote vs := by
  unfold accD
  cases h : promote vs with
  | none => simpa using hd
  | some x => simpa using lookup_append_single d t x hd

theorem lookup_accD_other (t k : String) (vs : List Val) (d : Dict) (h : k ≠ t) :
    (accD t vs d).lookup k = d.lookup k := by
  unfold accD
  cases promote vs with
  | none => rfl
  | some x => exact lookup_append_other d t k x h

/-- a whole group appended to already converted children (the `pre = []` case of `recurseKids_group`) -/
theorem recurseKids_group0 (t : String) (d : Dict) (hd : d.lookup t = none) (es : List Elem) (vs : List Val) (rest : List Elem)
    (htag : ∀ e ∈ es, e.tag = t) (hval : es.map recurse = vs.map some) (hnl : ∀ v ∈ vs, v.isList = false) :
    recurseKids (es ++ rest) d = recurseKids rest (accD t vs d) := by
  have := recurseKids_group t d hd es vs [] rest htag hval (by simpa using hnl)
  simpa [accD, promote] using this

/-! user-defined parameters -/

def udFieldVal (kv : String × String) : Val := .field (.s kv.2) [("parameter", kv.1)]

theorem mapM_readUdField (kvs : List (String × String)) :
    (kvs.map udFieldVal).mapM readUdField = (.ok kvs : R (List (String × String))) := by
  induction kvs with
  | nil => rfl
  | cons kv r ih =>
    simp only [List.map_cons, List.mapM_cons, ih]
    simp [udFieldVal, readUdField, List.lookup, bind, Except.bind, pure, Except.pure]

/-- **User-defined parameters, XML, every number k ≥ 1 of them**: the `userDefinedParameters` element written for
`kvs` converts to a dict from which the OPM/OMM reader code (`xmlUd` with a wrapping reader) gets `kvs` back, in order. -/
theorem ud_xml_roundtrip (kvs : List (String × String)) (hne : kvs ≠ []) (hv : ∀ kv ∈ kvs, kv.2 ≠ "") (wrap : Bool) (hw : wrap = true) :
    ∃ U, (udXml (some kvs)).map recurse = [some (.dict U)] ∧
      ∀ dt : Dict, dt.lookup "userDefinedParameters" = some (.dict U) → xmlUd wrap dt = .ok (some kvs) := by
  obtain ⟨U, x, h1, h2, h3, _⟩ := xml_group_roundtrip "USER_DEFINED" [] rfl (kvs.map udLeaf) (kvs.map udFieldVal) wrap .attrError
    (by simpa using hne) (by intro e he; simp only [List.mem_map] at he; obtain ⟨kv, _, rfl⟩ := he; rfl)
    (by
      simp only [List.map_map]
      apply List.map_congr_left
      intro kv hkv
      have := hv kv hkv
      simp [recurse, udLeaf, udFieldVal, this])
    (by intro v hv; simp only [List.mem_map] at hv; obtain ⟨_, _, rfl⟩ := hv; rfl) (Or.inl hw)
  refine ⟨U, ?_, ?_⟩
  · cases kvs with
    | nil => exact absurd rfl hne
    | cons kv r =>
      simp only [udXml, List.map_cons, List.map_nil, recurse] at h1 ⊢
      simp [h1]
  · intro dt hdt
    cases kvs with
    | nil => exact absurd rfl hne
    | cons kv r =>
      simp only [xmlUd, hdt, asDict, h2, bind, Except.bind, pure, Except.pure, h3, mapM_readUdField]
      simp



/-- the dict `xml2dict` builds for a `stateVector` element -/
def svDict (epoch : Txt) (state : List Txt) : Dict :=
  ("EPOCH", Val.field epoch []) :: (svKeys.zip state).map fun (k, v) => (k, Val.field v [("units", svUnit k)])

theorem sv_xml_roundtrip (epoch x y z vx vy vz : Txt) (he : epoch ≠ .s "") (h1 : x ≠ .s "") (h2 : y ≠ .s "") (h3 : z ≠ .s "")
    (h4 : vx ≠ .s "") (h5 : vy ≠ .s "") (h6 : vz ≠ .s "") :
    recurse (svXml epoch [x, y, z, vx, vy, vz]) = some (.dict (svDict epoch [x, y, z, vx, vy, vz])) ∧
    loadSv (svDict epoch [x, y, z, vx, vy, vz]) = .ok (epoch, [x, y, z, vx, vy, vz]) := by
  constructor
  · simp [svXml, svDict, svKeys, svUnit, recurse, recurseKids, he, h1, h2, h3, h4, h5, h6, addChild, Elem.tag, List.lookup]
  · simp [loadSv, svDict, svKeys, svUnit, textOf, getItem, Val.text, decodeUnit, unitNames, List.lookup, bind, Except.bind, pure, Except.pure]



/-- the dict `xml2dict` builds for a `covarianceMatrix` element (OPM/OMM: no EPOCH; OEM: with EPOCH) -/
def covDict (epoch : Option Txt) (c : CovM) : Dict :=
  (match epoch with | some e => [("EPOCH", Val.field e [])] | none => []) ++
  (match covFrameOut c with | some f => [("COV_REF_FRAME", Val.field (.s f) [])] | none => []) ++
  (covKeys.zip c.tri).map fun (k, v) => (k, Val.field v [])

/-- frame a covariance comes back with -/
def covFrameBack (own : String) (c : CovM) : Option String :=
  let f := aliasIn covAliasIn.1 covAliasIn.2 ((covFrameOut c).getD own)
  if f = own then none else some f

theorem cov_xml_roundtrip (own : String) (epoch : Option Txt) (frame : Option String)
    (a0 a1 a2 a3 a4 a5 a6 a7 a8 a9 a10 a11 a12 a13 a14 a15 a16 a17 a18 a19 a20 : Txt)
    (hne : ∀ t ∈ [a0, a1, a2, a3, a4, a5, a6, a7, a8, a9, a10, a11, a12, a13, a14, a15, a16, a17, a18, a19, a20], t ≠ Txt.s "")
    (hep : epoch ≠ some (.s "")) (hf : covFrameOut ⟨frame, [a0, a1, a2, a3, a4, a5, a6, a7, a8, a9, a10, a11, a12, a13, a14, a15, a16, a17, a18, a19, a20]⟩ ≠ some "") :
    let c : CovM := ⟨frame, [a0, a1, a2, a3, a4, a5, a6, a7, a8, a9, a10, a11, a12, a13, a14, a15, a16, a17, a18, a19, a20]⟩
    recurse (covXml epoch c) = some (.dict (covDict epoch c)) ∧
    loadCov own (covDict epoch c) = .ok { c with frame := covFrameBack own c } := by
  intro c
  simp only [List.mem_cons, List.not_mem_nil, or_false, forall_eq_or_imp, forall_eq] at hne
  obtain ⟨h0, h1, h2, h3, h4, h5, h6, h7, h8, h9, h10, h11, h12, h13, h14, h15, h16, h17, h18, h19, h20⟩ := hne
  constructor
  · cases epoch with
    | none =>
      cases hcf : covFrameOut c with
      | none => simp [c, covXml, covDict, hcf, covKeys, covWriteKeys, recurse, recurseKids, addChild, Elem.tag, List.lookup, *]
      | some f =>
        have : f ≠ "" := fun h => hf (by rw [hcf, h])
        simp [c, covXml, covDict, hcf, covKeys, covWriteKeys, recurse, recurseKids, leafS, addChild, Elem.tag, List.lookup, *]
    | some e =>
      have he : e ≠ .s "" := fun h => hep (by rw [h])
      cases hcf : covFrameOut c with
      | none => simp [c, covXml, covDict, hcf, covKeys, covWriteKeys, recurse, recurseKids, addChild, Elem.tag, List.lookup, *]
      | some f =>
        have : f ≠ "" := fun h => hf (by rw [hcf, h])
        simp [c, covXml, covDict, hcf, covKeys, covWriteKeys, recurse, recurseKids, leafS, addChild, Elem.tag, List.lookup, *]
  · cases epoch with
    | none =>
      cases hcf : covFrameOut c with
      | none =>
        simp [c, loadCov, covDict, covFrameBack, hcf, covKeys, covWriteKeys, covRead, textOf, getItem, Val.text, List.lookup, bind, Except.bind, pure, Except.pure, List.mapM_cons, List.mapM_nil, List.range, List.range.loop, aliasIn]
      | some f => simp [c, loadCov, covDict, covFrameBack, hcf, covKeys, covWriteKeys, covRead, textOf, getItem, Val.text, List.lookup, bind, Except.bind, pure, Except.pure, List.mapM_cons, List.mapM_nil, List.range, List.range.loop, aliasIn]
    | some e =>
      cases hcf : covFrameOut c with
      | none => simp [c, loadCov, covDict, covFrameBack, hcf, covKeys, covWriteKeys, covRead, textOf, getItem, Val.text, List.lookup, bind, Except.bind, pure, Except.pure, List.mapM_cons, List.mapM_nil, List.range, List.range.loop, aliasIn]
      | some f => simp [c, loadCov, covDict, covFrameBack, hcf, covKeys, covWriteKeys, covRead, textOf, getItem, Val.text, List.lookup, bind, Except.bind, pure, Except.pure, List.mapM_cons, List.mapM_nil, List.range, List.range.loop, aliasIn]


end BeyondVerif.C13
