import BeyondVerif.Props.C12
/-!
# C12, clause 4 at full strength — `Tle.from_string` on ARBITRARY lists of lines

`Props/C12.lean` proves `from_string_yields_valid_entries` for texts made of entries (name line optional, at most one
of the two line numbers lost).  Here the text is ANY list of lines: valid entries, rejected entries, name lines,
blank lines, comments, 2-line and 3-line formats, orphan lines 1, orphan lines 2, in any interleaving.

The generator of the code keeps a `cache` between lines.  `from_string_windows` says that this cache is no memory at
all: the text tried for a line `2 …` is a function of (at most) the two non-skipped lines in front of it that follow
the previous line `2 …` (`window`), and after every tried entry — accepted or rejected — nothing is left
(`from_string_no_memory`, `rejected_entry_leaves_no_trace`: the family of the seeded change C12-m2, a cache that is
only emptied after a success).
-/
namespace BeyondVerif.C12
open BeyondVerif.Tle

def isOne (l : Str) : Bool := startsWith l ['1', ' ']
def isTwo (l : Str) : Bool := startsWith l ['2', ' ']

/-- the lines put in front of a line `2 …`: `p1` is the non-skipped line just before it, `p2` the one before that
(both `none` when the previous non-skipped line was itself a line `2 …`, or at the start of the text).
A line `1 …` is preceded by its name line when the line before it is not itself a line `1 …`. -/
def window (p2 p1 : Option Str) : List Str :=
  match p1 with
  | none => []
  | some a =>
    if isOne a then
      (match p2 with
        | some b => if isOne b then [a] else [b, a]
        | none => [a])
    else [a]

/-- the texts handed to `Tle(...)`, one per non-skipped line `2 …`, in order -/
def attempts : Option Str → Option Str → List Str → List (List Str)
  | _, _, [] => []
  | p2, p1, x :: xs =>
    if skipped x then attempts p2 p1 xs
    else if isOne x then attempts p1 (some x) xs
    else if isTwo x then (window p2 p1 ++ [x]) :: attempts none none xs
    else attempts p1 (some x) xs

/-- what `error="ignore"|"warn"` makes of the tried texts: accepted ones are yielded, `ValueError`s are dropped, any
other exception ends the generator -/
def collect : List (List Str) → List Parsed × Option Err
  | [] => ([], none)
  | t :: ts =>
    match parseTle t with
    | .ok p => (p :: (collect ts).1, (collect ts).2)
    | .error e => if isValueError e then collect ts else ([], some e)

theorem fold_abort (st : FsState) (h : st.abort.isSome = true) (ls : List Str) : ls.foldl fsStep st = st := by
  induction ls with
  | nil => rfl
  | cons l ls ih =>
    have : fsStep st l = st := by unfold fsStep; simp [h]
    simp only [List.foldl_cons, this, ih]

theorem fs_skip (st : FsState) (l : Str) (hs : skipped l = true) : fsStep st l = st := by
  unfold skipped at hs
  unfold fsStep
  by_cases ha : st.abort.isSome = true
  · simp [ha]
  · simp [ha, hs]

theorem window_getLast (p2 p1 : Option Str) : (window p2 p1).getLast? = p1 := by
  cases p1 with
  | none => rfl
  | some a =>
    simp only [window]
    by_cases h : isOne a = true
    · cases p2 with
      | none => simp [h]
      | some b => by_cases hb : isOne b = true <;> simp [h, hb]
    · simp [h]

theorem window_push_one (p2 p1 : Option Str) (x : Str) (hx : isOne x = true) :
    ((window p2 p1).getLast?.toList.filter (fun y => !startsWith y ['1', ' '])) ++ [x] = window p1 (some x) := by
  rw [window_getLast]
  cases p1 with
  | none => simp [window, hx]
  | some b =>
    by_cases hb : isOne b = true
    · have hb' : startsWith b ['1', ' '] = true := hb
      simp [window, hx, hb, hb']
    · have hb' : startsWith b ['1', ' '] = false := by simpa [isOne] using hb
      simp [window, hx, hb, hb']

theorem window_push_other (p1 : Option Str) (x : Str) (hx : isOne x = false) : [x] = window p1 (some x) := by
  simp [window, hx]

theorem fs_two_abort (st : FsState) (l : Str) (e : Err) (ha : st.abort = none) (hs : skipped l = false)
    (h2 : startsWith l ['2', ' '] = true) (hp : parseTle (st.cache ++ [l]) = .error e) (he : isValueError e = false) :
    fsStep st l = { st with cache := [], abort := some e } := by
  unfold skipped at hs
  unfold fsStep; simp [ha, hs, startsWith_2_not_1 l h2, h2, hp, he]

/-- after a non-skipped line `2 …` the cache is empty, whatever the outcome -/
theorem fs_two_cache (st : FsState) (l : Str) (ha : st.abort = none) (hs : skipped l = false)
    (h2 : startsWith l ['2', ' '] = true) : (fsStep st l).cache = [] := by
  cases hp : parseTle (st.cache ++ [l]) with
  | ok p => rw [fs_two_ok st l p ha hs h2 hp]
  | error e =>
    by_cases he : isValueError e = true
    · rw [fs_two_err st l e ha hs h2 hp he]
    · rw [fs_two_abort st l e ha hs h2 hp (by simpa using he)]

/-- the generator, started in a state whose cache is the window of the last two lines, yields what `collect` makes
of the attempts -/
theorem fold_eq_collect (ls : List Str) : ∀ (st : FsState) (p2 p1 : Option Str), st.abort = none →
    st.cache = window p2 p1 →
    (ls.foldl fsStep st).out = st.out ++ (collect (attempts p2 p1 ls)).1 ∧
    (ls.foldl fsStep st).abort = (collect (attempts p2 p1 ls)).2 := by
  induction ls with
  | nil => intro st p2 p1 ha _; simp [attempts, collect, ha]
  | cons x xs ih =>
    intro st p2 p1 ha hc
    simp only [List.foldl_cons]
    by_cases hs : skipped x = true
    · rw [fs_skip st x hs]
      simp only [attempts, hs, if_true]
      exact ih st p2 p1 ha hc
    · have hs' : skipped x = false := by simpa using hs
      by_cases h1 : isOne x = true
      · rw [fs_one st x ha hs' h1]
        simp only [attempts, hs', h1, if_true, Bool.false_eq_true, if_false]
        have := ih { st with cache := (st.cache.getLast?.toList.filter (fun y => !startsWith y ['1', ' '])) ++ [x] } p1 (some x) ha
          (by rw [hc]; exact window_push_one p2 p1 x h1)
        exact this
      · have h1' : isOne x = false := by simpa using h1
        by_cases h2 : isTwo x = true
        · simp only [attempts, hs', h1', h2, if_true, Bool.false_eq_true, if_false]
          cases hp : parseTle (st.cache ++ [x]) with
          | ok p =>
            rw [fs_two_ok st x p ha hs' h2 hp]
            have := ih { st with cache := [], out := st.out ++ [p] } none none ha rfl
            rw [← hc]
            simp only [collect, hp]
            refine ⟨?_, this.2⟩
            rw [this.1]; simp
          | error e =>
            by_cases he : isValueError e = true
            · rw [fs_two_err st x e ha hs' h2 hp he]
              have := ih { st with cache := [] } none none ha rfl
              rw [← hc]
              simp only [collect, hp, he, if_true]
              exact this
            · have he' : isValueError e = false := by simpa using he
              have hstep := fs_two_abort st x e ha hs' h2 hp he'
              rw [hstep, fold_abort _ rfl]
              rw [← hc]
              simp [collect, hp, he']
        · have h2' : isTwo x = false := by simpa using h2
          rw [fs_other st x ha hs' h1' h2']
          simp only [attempts, hs', h1', h2', Bool.false_eq_true, if_false]
          exact ih { st with cache := [x] } p1 (some x) ha (window_push_other p1 x h1')

/-- **a multi-TLE text yields exactly its valid entries — ANY text**: for EVERY list of lines (valid entries, rejected
entries, name lines, blank lines, comments, two-line and three-line formats, orphan lines 1 and 2, in any order),
`Tle.from_string(text, error="ignore"|"warn")` yields, in order and with their names, exactly the accepted ones among
the texts `window ++ [line 2]` — one per non-skipped line `2 …`, built from at most the two lines in front of it —
and ends early exactly when one of them raises something that is not a `ValueError`. -/
theorem from_string_windows (lines : List Str) :
    (fromString lines).out = (collect (attempts none none lines)).1 ∧
    (fromString lines).abort = (collect (attempts none none lines)).2 := by
  have := fold_eq_collect lines {} none none rfl rfl
  simpa [fromString] using this

/-- the three-line, two-line, orphan and rejected entries of one text, and what is yielded -/
example :
    attempts none none ["ISS (ZARYA)".toList, refL1, refL2, [], "# c".toList, refL1, refL2bad, refL1, refL1, refL2, refL2, "X".toList, refL2] =
      [["ISS (ZARYA)".toList, refL1, refL2], [refL1, refL2bad], [refL1, refL2], [refL2], ["X".toList, refL2]] := by decide

/-! ### consequences: no memory across tried entries -/

/-- put yielded entries in front of a state -/
def addOut (o : List Parsed) (s : FsState) : FsState := ⟨s.cache, o ++ s.out, s.abort⟩

theorem fsStep_addOut (o : List Parsed) (s : FsState) (x : Str) : fsStep (addOut o s) x = addOut o (fsStep s x) := by
  unfold fsStep addOut
  simp only
  split
  · rfl
  · split
    · rfl
    · split
      · rfl
      · split
        · cases parseTle (s.cache ++ [x]) with
          | ok p => simp
          | error e => by_cases he : isValueError e = true <;> simp [he]
        · rfl

/-- the generator started with yielded entries `o` behaves as from the empty list, with `o` in front -/
theorem fold_addOut (ls : List Str) : ∀ (o : List Parsed) (s : FsState),
    ls.foldl fsStep (addOut o s) = addOut o (ls.foldl fsStep s) := by
  induction ls with
  | nil => intro o s; rfl
  | cons x xs ih => intro o s; simp only [List.foldl_cons, fsStep_addOut, ih]

/-- **nothing survives a tried entry**: when the part `a` of a text ends with a non-skipped line `2 …` (an entry was
tried there — accepted or rejected) and did not end the generator, the rest `b` is read exactly as if it were a text
of its own: same entries, same names, same outcome. -/
theorem from_string_no_memory (a b : List Str) (x : Str) (hs : skipped x = false) (h2 : isTwo x = true)
    (hab : (fromString (a ++ [x])).abort = none) :
    (fromString (a ++ [x] ++ b)).out = (fromString (a ++ [x])).out ++ (fromString b).out ∧
    (fromString (a ++ [x] ++ b)).abort = (fromString b).abort := by
  unfold fromString at *
  rw [List.foldl_append]
  generalize hst : (a ++ [x]).foldl fsStep {} = st at hab ⊢
  have hc : st.cache = [] := by
    rw [← hst, List.foldl_append]
    simp only [List.foldl_cons, List.foldl_nil]
    generalize hs0 : a.foldl fsStep {} = s0
    by_cases ha0 : s0.abort = none
    · exact fs_two_cache s0 x ha0 hs h2
    · -- an earlier abort would still be there
      exfalso
      have : (([x]).foldl fsStep s0) = s0 := fold_abort s0 (by cases h : s0.abort <;> simp_all) [x]
      rw [← hst, List.foldl_append, hs0, this] at hab
      exact ha0 hab
  have e : st = addOut st.out {} := by
    cases st with
    | mk c o ab => simp at hc hab; subst hc hab; simp [addOut]
  rw [e, fold_addOut b st.out {}]
  simp [addOut]

/-- **a rejected entry leaves no trace** (the seeded change C12-m2 emptied the cache only after a success): put a
numbered pair of lines that `Tle(...)` refuses with a `ValueError` (wrong checksum, length, …) anywhere in a text —
after any lines `pre` that did not end the generator, before any lines `post` — and what is yielded is what `pre` and
`post` yield on their own, names included: no entry of `post` is lost, none gets a line of the rejected entry as its
name. -/
theorem rejected_entry_leaves_no_trace (pre post : List Str) (l1 l2 : Str) (e : Err)
    (s1 : skipped l1 = false) (s2 : skipped l2 = false) (h1 : isOne l1 = true) (h2 : isTwo l2 = true)
    (hrej : parseBody [l1, l2] = .error e) (he : isValueError e = true)
    (hpre : (fromString pre).abort = none) :
    (fromString (pre ++ [l1, l2] ++ post)).out = (fromString pre).out ++ (fromString post).out ∧
    (fromString (pre ++ [l1, l2] ++ post)).abort = (fromString post).abort := by
  have hsplit : pre ++ [l1, l2] ++ post = (pre ++ [l1]) ++ [l2] ++ post := by simp
  have key : (fromString ((pre ++ [l1]) ++ [l2])).out = (fromString pre).out ∧ (fromString ((pre ++ [l1]) ++ [l2])).abort = none := by
    unfold fromString at *
    rw [List.foldl_append, List.foldl_append]
    simp only [List.foldl_cons, List.foldl_nil]
    generalize pre.foldl fsStep {} = s0 at hpre ⊢
    rw [fs_one s0 l1 hpre s1 h1]
    have hatt : parseTle ((s0.cache.getLast?.toList.filter (fun y => !startsWith y ['1', ' '])) ++ [l1] ++ [l2]) = .error e := by
      cases s0.cache.getLast? with
      | none => exact hrej
      | some y =>
        by_cases hy : startsWith y ['1', ' '] = true
        · simp only [Option.toList, List.filter, hy, Bool.not_true, List.nil_append]; exact hrej
        · have hy' : startsWith y ['1', ' '] = false := by simpa using hy
          simp only [Option.toList, List.filter, hy', Bool.not_false, List.cons_append, List.nil_append]
          show (parseBody [l1, l2]).map _ = _
          rw [hrej]; rfl
    rw [fs_two_err { s0 with cache := (s0.cache.getLast?.toList.filter (fun y => !startsWith y ['1', ' '])) ++ [l1] } l2 e hpre s2 h2 hatt he]
    exact ⟨rfl, hpre⟩
  rw [hsplit]
  obtain ⟨r1, r2⟩ := from_string_no_memory (pre ++ [l1]) post l2 s2 h2 key.2
  rw [r1, r2, key.1]
  exact ⟨rfl, rfl⟩

/-- **a valid entry is never lost, whatever surrounds it**: a numbered pair of lines that `Tle(...)` accepts, put
anywhere in a text (after any `pre` that did not end the generator, before any `post`), is yielded at its place —
with the name line in front of it when there is one — and `post` is read as a text of its own. -/
theorem valid_entry_yielded_anywhere (pre post : List Str) (l1 l2 : Str) (p : Parsed)
    (s1 : skipped l1 = false) (s2 : skipped l2 = false) (h1 : isOne l1 = true) (h2 : isTwo l2 = true)
    (hp : parseBody [l1, l2] = .ok p) (hpre : (fromString pre).abort = none) :
    ∃ p', unname p' = unname p ∧
      (fromString (pre ++ [l1, l2] ++ post)).out = (fromString pre).out ++ [p'] ++ (fromString post).out ∧
      (fromString (pre ++ [l1, l2] ++ post)).abort = (fromString post).abort := by
  have hsplit : pre ++ [l1, l2] ++ post = (pre ++ [l1]) ++ [l2] ++ post := by simp
  have key : ∃ p', unname p' = unname p ∧ (fromString ((pre ++ [l1]) ++ [l2])).out = (fromString pre).out ++ [p'] ∧
      (fromString ((pre ++ [l1]) ++ [l2])).abort = none := by
    unfold fromString at *
    rw [List.foldl_append, List.foldl_append]
    simp only [List.foldl_cons, List.foldl_nil]
    generalize pre.foldl fsStep {} = s0 at hpre ⊢
    rw [fs_one s0 l1 hpre s1 h1]
    have hatt : ∃ p', parseTle ((s0.cache.getLast?.toList.filter (fun y => !startsWith y ['1', ' '])) ++ [l1] ++ [l2]) = .ok p' ∧
        unname p' = unname p := by
      cases s0.cache.getLast? with
      | none => exact ⟨p, hp, rfl⟩
      | some y =>
        by_cases hy : startsWith y ['1', ' '] = true
        · refine ⟨p, ?_, rfl⟩
          simp only [Option.toList, List.filter, hy, Bool.not_true, List.nil_append]; exact hp
        · refine ⟨{ p with name := nameOf y }, ?_, unname_rename p _⟩
          have hy' : startsWith y ['1', ' '] = false := by simpa using hy
          simp only [Option.toList, List.filter, hy', Bool.not_false, List.cons_append, List.nil_append]
          show (parseBody [l1, l2]).map _ = _
          rw [hp]; rfl
    obtain ⟨p', hp', hun⟩ := hatt
    refine ⟨p', hun, ?_⟩
    rw [fs_two_ok { s0 with cache := (s0.cache.getLast?.toList.filter (fun y => !startsWith y ['1', ' '])) ++ [l1] } l2 p' hpre s2 h2 hp']
    exact ⟨rfl, hpre⟩
  obtain ⟨p', hun, k1, k2⟩ := key
  rw [hsplit]
  obtain ⟨r1, r2⟩ := from_string_no_memory (pre ++ [l1]) post l2 s2 h2 k2
  exact ⟨p', hun, by rw [r1, k1], r2⟩

/-- the hypotheses of the three theorems are met: an accepted pair, a pair refused with a `ValueError` whatever single
line precedes it, lines around them -/
example : skipped refL1 = false ∧ skipped refL2 = false ∧ isOne refL1 = true ∧ isTwo refL2 = true ∧
    (parseBody [refL1, refL2]).toOption.isSome = true ∧ isTwo refL2bad = true ∧
    (fromString ["X".toList, refL1]).abort = none := by decide

end BeyondVerif.C12
