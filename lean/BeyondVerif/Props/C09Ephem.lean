import BeyondVerif.Props.C09
import BeyondVerif.Generated.EphemSrc

/-!
# C09 — `Ephem` around the interpolator: a state machine over (points, method, order)

* the small methods of `Ephem` / `DatedInterp` the model is hand-written from are read from the source on every
  run into `Generated/EphemSrc.lean` and pinned here (`ephem_glue_pinned`, `iter_yields_pinned`): what
  `interpolate` returns, that `propagate` is `interpolate`, that the interpolator is evaluated at `date._mjd`
  (the instant, independent of the time scale the date is expressed in), the order of effects of the frame/form
  setters, and where every object yielded by `iter` comes from (`self.propagate(date)` or `orb.copy()`);
* `EphH` adds object identity to the state: replies of `interpolate` / `propagate` are NEW objects
  (`interpolate_result_is_new`), `ephem[i]` is the recorded object (`getitem_is_recorded`);
* for every history of interpolations, propagations, index reads, frame/form changes, order/method settings and
  in-place modifications by the caller of any object the ephemeris handed out, the ephemeris is in the state of
  the same history without those modifications (`history_ignores_modified_replies`) and every reply is the
  interpolation of the *current* points with the *current* method and order (`reply_function_of_current_values`).
-/
namespace BeyondVerif.C09
open BeyondVerif.R BeyondVerif.NumReal

/-! ## the glue, as it is in the source -/

/-- **What the model of `Ephem` is written from** (regenerated from ephem.py / interp.py on every run) -/
theorem ephem_glue_pinned :
    EphemSrc.interpolateBody = ["return StateVector(self.interp(date), date, self.form, self.frame)"] ∧
    EphemSrc.propagateBody = ["return self.interpolate(date)"] ∧
    EphemSrc.datedAbscissa = ["date._mjd"] ∧
    EphemSrc.interpProperty = ["if not hasattr(self, '_interp'): self._interp = DatedInterp(list(self.dates), self._orbits, self._method, self._order) del self._method del self._order", "return self._interp"] ∧
    EphemSrc.frameSetter = ["for orb in self: orb.frame = frame", "self._refresh_interp()"] ∧
    EphemSrc.formSetter = ["for orb in self: orb.form = form", "self._refresh_interp()"] ∧
    EphemSrc.refreshInterp = ["if hasattr(self, '_interp'): self._interp.ys = np.asarray(self._orbits)"] ∧
    EphemSrc.orderSetter = ["if hasattr(self, '_interp'): self.interp.order = value else: self._order = value"] ∧
    EphemSrc.methodSetter = ["if hasattr(self, '_interp'): self.interp.method = value else: self._method = value"] ∧
    EphemSrc.orderGetter = ["if hasattr(self, '_interp'): return self.interp.order else: return self._order"] ∧
    EphemSrc.methodGetter = ["if hasattr(self, '_interp'): return self.interp.method else: return self._method"] ∧
    EphemSrc.frameGetter = ["return self._orbits[0].frame"] ∧
    EphemSrc.formGetter = ["return self._orbits[0].form"] ∧
    EphemSrc.initBody = ["self._orbits = list(sorted(orbits, key=lambda x: x.date))", "self.method = self.LAGRANGE if method is None else method", "self.order = order if isinstance(order, int) else self.DEFAULT_ORDER"] ∧
    EphemSrc.getitemBody = ["if isinstance(index, (slice, int)): return self._orbits[index] else: return np.array(self._orbits)[index]"] ∧
    EphemSrc.nextBody = ["self._i += 1", "if self._i >= len(self._orbits): raise StopIteration", "return self._orbits[self._i]"] :=
  ⟨rfl, rfl, rfl, rfl, rfl, rfl, rfl, rfl, rfl, rfl, rfl, rfl, rfl, rfl, rfl, rfl⟩

/-- **Every object `Ephem.iter` yields** is the result of `self.propagate(date)` (a new object) or a copy
`orb.copy()` of a recorded point (or comes from the listeners) — never a recorded point itself -/
theorem iter_yields_pinned :
    EphemSrc.iterYields = [
      "iter: listen_orb = in self.listen(orb, listeners)", "iter: orb = self.propagate(date)",
      "iter: from self._iter_backward",
      "iter: listen_orb = in self.listen(orb, listeners)", "iter: orb.copy()",
      "iter: listen_orb = in self.listen(orb, listeners)", "iter: orb = self.propagate(date)",
      "_iter_backward: listen_orb = in self.listen(orb, listeners)", "_iter_backward: orb.copy()",
      "_iter_backward: listen_orb = in self.listen(orb, listeners)", "_iter_backward: orb = self.propagate(date)"] :=
  rfl

/-! ## object identity -/

/-- invariant: the recorded points are the objects `0 … n0-1`, later allocations are `≥ n0` -/
def HInv (h : EphH) (n0 : ℕ) : Prop := h.ids = List.range n0 ∧ h.e.pts.length = n0 ∧ n0 ≤ h.next

theorem hinv_new (pts : List Pt) (m : Option Method) (o : Option Int) : HInv (EphH.new pts m o) pts.length := by
  refine ⟨rfl, ?_, le_refl _⟩
  simp [EphH.new, Eph.new, List.length_mergeSort]

theorem interpolate_e (h : EphH) (d : ℝ) : (h.interpolate d).2.e = (h.e.interpolate d).2 := by
  unfold EphH.interpolate
  rcases hq : h.e.interpolate d with ⟨r, e'⟩
  cases r <;> rfl

theorem interpolate_ids (h : EphH) (d : ℝ) : (h.interpolate d).2.ids = h.ids ∧ h.next ≤ (h.interpolate d).2.next := by
  unfold EphH.interpolate
  rcases hq : h.e.interpolate d with ⟨r, e'⟩
  cases r <;> simp

theorem interpolate_pts (e : Eph) (d : ℝ) : (e.interpolate d).2.pts = e.pts := by
  rw [interpolate_state]

/-- **A reply of `interpolate` / `propagate` is a new object**: its identity is the next free one, it is none of
the recorded points (before or after the call), and its value is the model's interpolated point -/
theorem interpolate_result_is_new (h : EphH) (n0 : ℕ) (hinv : HInv h n0) (d : ℝ) (oid : ℕ) (p : Pt)
    (hr : (h.interpolate d).1 = .ok (oid, p)) :
    oid = h.next ∧ n0 ≤ oid ∧ oid ∉ h.ids ∧ oid ∉ (h.interpolate d).2.ids ∧ (h.e.interpolate d).1 = .ok p := by
  obtain ⟨hids, _, hn⟩ := hinv
  have hid2 := (interpolate_ids h d).1
  unfold EphH.interpolate at hr
  rcases hq : h.e.interpolate d with ⟨r, e'⟩
  rw [hq] at hr
  cases r with
  | error err => simp at hr
  | ok q =>
    simp only [Except.ok.injEq, Prod.mk.injEq] at hr
    obtain ⟨rfl, rfl⟩ := hr
    refine ⟨rfl, hn, ?_, ?_, rfl⟩
    · rw [hids]; simp; omega
    · rw [hid2, hids]; simp; omega

/-- the invariant holds at construction (so the hypothesis of the theorems above and below is met), e.g. for three points -/
example (a b c : Pt) : HInv (EphH.new [a, b, c] none none) 3 := hinv_new [a, b, c] none none

/-- `ephem[i]` is one of the recorded objects (an alias, not a copy) -/
theorem getitem_is_recorded (h : EphH) (i : Int) (oid : ℕ) (p : Pt) (hr : h.getitem i = .ok (oid, p)) :
    oid ∈ h.ids ∧ p ∈ h.e.pts := by
  unfold EphH.getitem at hr
  simp only at hr
  generalize (if i < 0 then i + (h.e.pts.length : Int) else i) = j at hr
  split_ifs at hr with hc
  split at hr
  · rename_i id q hid hq
    simp only [Except.ok.injEq, Prod.mk.injEq] at hr
    obtain ⟨rfl, rfl⟩ := hr
    exact ⟨List.mem_of_getElem? hid, List.mem_of_getElem? hq⟩
  · simp at hr

theorem zipWith_ite_noop (oid : ℕ) (f : Pt → Pt) : ∀ (ids : List ℕ) (pts : List Pt), ids.length = pts.length →
    (∀ id ∈ ids, id ≠ oid) → List.zipWith (fun id p => if id = oid then f p else p) ids pts = pts
  | [], [], _, _ => rfl
  | [], _ :: _, h, _ => by simp at h
  | _ :: _, [], h, _ => by simp at h
  | id :: ids, p :: pts, h, hne => by
    rw [List.zipWith_cons_cons, if_neg (hne id List.mem_cons_self),
      zipWith_ite_noop oid f ids pts (by simpa using h) (fun i hi => hne i (List.mem_cons_of_mem _ hi))]

/-- **Modifying in place an object that is not a recorded point leaves the ephemeris untouched** -/
theorem mutate_new_object_noop (h : EphH) (n0 : ℕ) (hinv : HInv h n0) (oid : ℕ) (hoid : n0 ≤ oid) (f : Pt → Pt) :
    h.mutate oid f = h := by
  obtain ⟨hids, hlen, _⟩ := hinv
  unfold EphH.mutate
  rw [zipWith_ite_noop oid f h.ids h.e.pts (by rw [hids, hlen]; simp) (by rw [hids]; intro id hid; simp at hid; omega)]

/-- what the holder of an ephemeris can do -/
inductive HOp where
  | interpolate (date : ℝ)
  | propagate (date : ℝ)
  | getitem (i : Int)
  | convert (conv : Pt → Pt)
  | setOrder (k : Int)
  | setMethod (m : Method)
  /-- in-place modification of an object the caller holds -/
  | mutate (oid : ℕ) (f : Pt → Pt)

noncomputable def hstep (h : EphH) : HOp → EphH
  | .interpolate d => (h.interpolate d).2
  | .propagate d => (h.interpolate d).2
  | .getitem _ => h
  | .convert c => h.convert c
  | .setOrder k => h.setOrder k
  | .setMethod m => h.setMethod m
  | .mutate oid f => h.mutate oid f

/-- the same operation on the identity-free machine of Props/C09.lean (`none`: no effect on it) -/
def toEphOp : HOp → Option EphOp
  | .interpolate d => some (.interpolate d)
  | .propagate d => some (.interpolate d)
  | .convert c => some (.convert c)
  | .setOrder k => some (.setOrder k)
  | .setMethod m => some (.setMethod m)
  | .getitem _ => none
  | .mutate _ _ => none

/-- the caller modifies only objects the ephemeris created for it (or its own), not the recorded points -/
def OnlyReplies (n0 : ℕ) (ops : List HOp) : Prop := ∀ oid f, HOp.mutate oid f ∈ ops → n0 ≤ oid

theorem hstep_spec (h : EphH) (n0 : ℕ) (hinv : HInv h n0) (op : HOp) (hop : ∀ oid f, op = .mutate oid f → n0 ≤ oid) :
    HInv (hstep h op) n0 ∧ (hstep h op).e = (match toEphOp op with | some o => ephStep h.e o | none => h.e) := by
  obtain ⟨hids, hlen, hn⟩ := hinv
  cases op with
  | interpolate d =>
    refine ⟨⟨?_, ?_, ?_⟩, interpolate_e h d⟩
    · exact (interpolate_ids h d).1.trans hids
    · simp only [hstep]; rw [interpolate_e, interpolate_pts]; exact hlen
    · exact le_trans hn (interpolate_ids h d).2
  | propagate d =>
    refine ⟨⟨?_, ?_, ?_⟩, interpolate_e h d⟩
    · exact (interpolate_ids h d).1.trans hids
    · simp only [hstep]; rw [interpolate_e, interpolate_pts]; exact hlen
    · exact le_trans hn (interpolate_ids h d).2
  | getitem i => exact ⟨⟨hids, hlen, hn⟩, rfl⟩
  | convert c => exact ⟨⟨hids, by simp [hstep, EphH.convert, Eph.convert, hlen], hn⟩, rfl⟩
  | setOrder k => exact ⟨⟨hids, hlen, hn⟩, rfl⟩
  | setMethod m => exact ⟨⟨hids, hlen, hn⟩, rfl⟩
  | mutate oid f =>
    have := mutate_new_object_noop h n0 ⟨hids, hlen, hn⟩ oid (hop oid f rfl) f
    simp only [hstep, this]
    exact ⟨⟨hids, hlen, hn⟩, rfl⟩

/-- **Whatever the caller does to the objects it received, the ephemeris is in the state of the same history
without those modifications** — for every history of interpolations, propagations, index reads, frame/form
changes and order/method settings interleaved with in-place modifications of replies. -/
theorem history_ignores_modified_replies (ops : List HOp) (h : EphH) (n0 : ℕ) (hinv : HInv h n0) (hops : OnlyReplies n0 ops) :
    HInv (ops.foldl hstep h) n0 ∧ (ops.foldl hstep h).e = (ops.filterMap toEphOp).foldl ephStep h.e := by
  induction ops generalizing h with
  | nil => exact ⟨hinv, rfl⟩
  | cons op rest ih =>
    obtain ⟨hi, he⟩ := hstep_spec h n0 hinv op (fun oid f e => hops oid f (by rw [e]; exact List.mem_cons_self))
    obtain ⟨hi', he'⟩ := ih (hstep h op) hi (fun oid f hm => hops oid f (List.mem_cons_of_mem _ hm))
    refine ⟨hi', ?_⟩
    rw [List.foldl_cons, he', he]
    cases hto : toEphOp op <;> simp [List.filterMap_cons, hto]

/-- **The reply of an ephemeris is a function of its current points, method and order** — after any history as
above, starting from the constructor: a successful `interpolate(date)` returns a new object (not a recorded point)
whose coordinates are `Interp(method, order)(dates, coordinates of the current points)(date)` and whose labels are
those of the current first point. -/
theorem reply_function_of_current_values (pts : List Pt) (m : Option Method) (o : Option Int) (ops : List HOp)
    (hops : OnlyReplies pts.length ops) (date : ℝ) (oid : ℕ) (pt : Pt)
    (hr : ((ops.foldl hstep (EphH.new pts m o)).interpolate date).1 = .ok (oid, pt)) :
    pts.length ≤ oid ∧ oid ∉ (ops.foldl hstep (EphH.new pts m o)).ids ∧
    interp (ops.foldl hstep (EphH.new pts m o)).e.method (some (ops.foldl hstep (EphH.new pts m o)).e.order)
      ((ops.foldl hstep (EphH.new pts m o)).e.pts.map (·.mjd)) ((ops.foldl hstep (EphH.new pts m o)).e.pts.map (·.coord)) date
      = .ok pt.coord ∧
    (∃ p0, (ops.foldl hstep (EphH.new pts m o)).e.pts.head? = some p0 ∧ pt.form = p0.form ∧ pt.frame = p0.frame ∧ pt.mjd = date) := by
  obtain ⟨hinv, he⟩ := history_ignores_modified_replies ops (EphH.new pts m o) pts.length (hinv_new pts m o) hops
  obtain ⟨_, h2, h3, _, h5⟩ := interpolate_result_is_new _ _ hinv date oid pt hr
  refine ⟨h2, h3, ?_, result_keeps_frame_form _ date pt h5⟩
  have hnew : (EphH.new pts m o).e = Eph.new pts m o := rfl
  rw [he, hnew] at h5 ⊢
  exact interpolate_uses_current_coordinates pts m o _ date pt h5

/-- a history satisfying the hypotheses: interpolate, modify the reply (object 2 of a two-point ephemeris), read
`ephem[-1]`, change the order, propagate -/
example : OnlyReplies 2 [.interpolate 0.5, .mutate 2 (fun p => { p with form := "keplerian" }), .getitem (-1), .setOrder 2, .propagate 0.25] := by
  intro oid f hm
  simp at hm
  omega

end BeyondVerif.C09
