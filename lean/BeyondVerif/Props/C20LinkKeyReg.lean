import BeyondVerif.Props.C20LinkKey
import BeyondVerif.Model.RegistryStr
import BeyondVerif.Lemmas.Registry

/-!
# C20 — link names at the level of the registry: the string-keyed model and the pair-keyed model

`Model/RegistryStr.lean` keys the method table as the code does, by the string `f"{a}_to_{b}"`; `Model/Registry.lean` keys it
by the pair `(a, b)`.

* `goodName_iff`                  : the executable predicate `goodName` (evaluated by the harness on the names of the real
  registries) is the hypothesis of `linkKey_injective`: the name neither contains `_to_` nor ends with `_to`.
* `linkKey_eq_iff`                : for good first names the attribute name determines the pair of names.
* `fresh_names_keep_methods_str`  : **in the string-keyed registry, registering under a new name never changes a pre-existing
  lookup** — unconditional for names satisfying `goodName`: if every newly stored attribute is named `linkKey sa sb` with `sa`
  good and `sa` or `sb` outside the set `S` of old names, then `getattr(o, linkKey ka kb)` is unchanged for every object
  `o` and all old names `ka` (good), `kb`.
* `collision_changes_lookup`      : outside the predicate the conclusion FAILS (kernel-checked): storing `S` → `to_E` replaces
  the method found for `S_to` → `E` (open finding C20-link-name-collision).
* `convertS_eq_convert`, `applyOpsS_enc` : with all names good and distinct names spelled differently, the string-keyed
  registry is the pair-keyed one: every theorem of `Props/C20Registry.lean`, `Props/C20Convert.lean` speaks about the code's
  own keying.
-/
set_option linter.unusedSimpArgs false
namespace BeyondVerif.C20
open BeyondVerif.LinkKey BeyondVerif.RegS
open BeyondVerif.Reg (Holder World Step ConvRes Op Attr State findIn getattr resolve convert applyOp applyOps)

theorem containsSub_iff (pat : List Nat) : ∀ s : List Nat, containsSub pat s = true ↔ pat <:+: s
  | [] => by
    simp only [containsSub, List.isEmpty_iff, List.infix_nil]
  | c :: rest => by
    simp only [containsSub, Bool.or_eq_true, List.isPrefixOf_iff_prefix, containsSub_iff pat rest, List.infix_cons_iff]

/-- the executable predicate is the hypothesis of `linkKey_injective` -/
theorem goodName_iff (a : List Nat) : goodName a = true ↔ ¬ sepTo <:+: a ∧ ¬ sepPre <:+ a := by
  unfold goodName
  simp only [Bool.and_eq_true, Bool.not_eq_true', ← Bool.not_eq_true, containsSub_iff, List.isSuffixOf_iff_suffix]

/-- for good first names the attribute name determines the pair of names -/
theorem linkKey_eq_iff {a a' b b' : List Nat} (ha : goodName a = true) (ha' : goodName a' = true) :
    linkKey a b = linkKey a' b' ↔ a = a' ∧ b = b' := by
  constructor
  · intro h
    obtain ⟨h1, h2⟩ := (goodName_iff a).mp ha
    obtain ⟨h1', h2'⟩ := (goodName_iff a').mp ha'
    exact linkKey_injective h1 h2 h1' h2' h
  · rintro ⟨rfl, rfl⟩; rfl

theorem findInS_cons_ne {attrs : List SAttr} {x : SAttr} {h : Holder} {key : List Nat} (hne : x.key ≠ key) :
    findInS (x :: attrs) h key = findInS attrs h key := by
  unfold findInS
  rw [List.find?_cons_of_neg]
  simp only [decide_eq_true_eq]
  tauto

theorem getattrS_cons_ne {w : World} {attrs : List SAttr} {x : SAttr} {o : Nat} {key : List Nat} (hne : x.key ≠ key) :
    getattrS w (x :: attrs) o key = getattrS w attrs o key := by
  unfold getattrS
  simp only [findInS_cons_ne hne]

/-- **Registering under a new name never changes a pre-existing lookup** (string-keyed registry, names satisfying the
decidable predicate `goodName`).  `S` is the set of old names; every new attribute is named after a pair one member of
which is not in `S`. -/
theorem fresh_names_keep_methods_str (w : World) (S : List Nat → Prop) (attrs : List SAttr) :
    ∀ (new : List SAttr),
      (∀ x ∈ new, ∃ sa sb, x.key = linkKey sa sb ∧ goodName sa = true ∧ ¬ (S sa ∧ S sb)) →
      ∀ o ka kb, S ka → S kb → goodName ka = true →
        getattrS w (new ++ attrs) o (linkKey ka kb) = getattrS w attrs o (linkKey ka kb)
  | [], _, _, _, _, _, _, _ => rfl
  | x :: rest, hnew, o, ka, kb, hka, hkb, hg => by
    rw [List.cons_append, getattrS_cons_ne]
    · exact fresh_names_keep_methods_str w S attrs rest (fun y hy => hnew y (List.mem_cons_of_mem _ hy)) o ka kb hka hkb hg
    · obtain ⟨sa, sb, hk, hsa, hns⟩ := hnew x List.mem_cons_self
      intro he
      rw [hk] at he
      obtain ⟨rfl, rfl⟩ := (linkKey_eq_iff hsa hg).mp he
      exact hns ⟨hka, hkb⟩

/-- `"S_to"`, `"E"`, `"S"`, `"to_E"` -/
def nS_to : List Nat := [83, 95, 116, 111]
def nE : List Nat := [69]
def nS : List Nat := [83]
def nto_E : List Nat := [116, 111, 95, 69]

/-- **outside the predicate the conclusion fails**: with the method of `S_to` → `E` stored on the base class (owner 1),
storing the method of the NEW name pair `S` → `to_E` (owner 2; `to_E` is not an old name) replaces what
`getattr(o, "S_to_to_E")` finds.  `S_to` is not a good name. -/
theorem collision_changes_lookup :
    goodName nS_to = false ∧ goodName nS = true ∧
    (getattrS ⟨id, fun _ => 0, fun _ => [0]⟩ [⟨.cls 0, linkKey nS_to nE, some 1⟩] 5 (linkKey nS_to nE)).map (·.owner) = some (some 1) ∧
    (getattrS ⟨id, fun _ => 0, fun _ => [0]⟩ [⟨.cls 0, linkKey nS nto_E, some 2⟩, ⟨.cls 0, linkKey nS_to nE, some 1⟩] 5
      (linkKey nS_to nE)).map (·.owner) = some (some 2) := by
  refine ⟨by decide, by decide, by decide, by decide⟩

/-! ## the string-keyed registry refines to the pair-keyed one when every name is good -/

/-- the stored form of a pair-keyed attribute -/
def encA (str : Nat → List Nat) (x : Attr) : SAttr := ⟨x.holder, linkKey (str x.ka) (str x.kb), x.owner⟩

def encS (str : Nat → List Nat) (st : State) : SState := ⟨st.g, st.attrs.map (encA str)⟩

theorem findInS_enc (str : Nat → List Nat) (hg : ∀ k, goodName (str k) = true) (hinj : Function.Injective str)
    (attrs : List Attr) (h : Holder) (ka kb : Nat) :
    findInS (attrs.map (encA str)) h (linkKey (str ka) (str kb)) = (findIn attrs h ka kb).map (encA str) := by
  induction attrs with
  | nil => rfl
  | cons x rest ih =>
    unfold findInS findIn at ih ⊢
    simp only [List.map_cons, List.find?_cons]
    have hiff : (x.holder = h ∧ linkKey (str x.ka) (str x.kb) = linkKey (str ka) (str kb)) ↔
        (x.holder = h ∧ x.ka = ka ∧ x.kb = kb) := by
      rw [linkKey_eq_iff (hg _) (hg _)]
      constructor
      · rintro ⟨h1, h2, h3⟩; exact ⟨h1, hinj h2, hinj h3⟩
      · rintro ⟨h1, rfl, rfl⟩; exact ⟨h1, rfl, rfl⟩
    by_cases hc : x.holder = h ∧ x.ka = ka ∧ x.kb = kb
    · have hc' := hiff.mpr hc
      simp only [encA] at hc' ⊢
      obtain ⟨h1, h2, h3⟩ := hc
      subst h1 h2 h3
      simp [encA]
    · have hc' : ¬ (x.holder = h ∧ linkKey (str x.ka) (str x.kb) = linkKey (str ka) (str kb)) := fun e => hc (hiff.mp e)
      simp only [encA] at hc' ⊢
      simp only [hc, hc', decide_false, Bool.false_eq_true, if_false]
      exact ih

theorem findSome_map_enc {α β : Type} (f : Nat → Option α) (gg : α → β) : ∀ (l : List Nat),
    l.findSome? (fun c => (f c).map gg) = (l.findSome? f).map gg
  | [] => rfl
  | c :: rest => by
    simp only [List.findSome?_cons]
    cases f c with
    | none => simpa using findSome_map_enc f gg rest
    | some v => rfl

theorem getattrS_enc (w : World) (str : Nat → List Nat) (hg : ∀ k, goodName (str k) = true) (hinj : Function.Injective str)
    (attrs : List Attr) (o ka kb : Nat) :
    getattrS w (attrs.map (encA str)) o (linkKey (str ka) (str kb)) = (getattr w attrs o ka kb).map (encA str) := by
  unfold getattrS getattr
  rw [findInS_enc str hg hinj]
  cases findIn attrs (.inst o) ka kb with
  | some x => rfl
  | none =>
    simp only [Option.map_none]
    rw [← findSome_map_enc]
    congr 1
    funext c
    exact findInS_enc str hg hinj attrs (.cls c) ka kb

theorem resolveS_enc (w : World) (str : Nat → List Nat) (hg : ∀ k, goodName (str k) = true) (hinj : Function.Injective str)
    (attrs : List Attr) (start : Nat) : ∀ (steps : List (Nat × Nat)) (acc : List Step),
    resolveS w str (attrs.map (encA str)) start steps acc = resolve w attrs start steps acc
  | [], acc => rfl
  | (a, b) :: rest, acc => by
    unfold resolveS resolve
    rw [getattrS_enc w str hg hinj, getattrS_enc w str hg hinj]
    cases getattr w attrs start (w.nm a) (w.nm b) with
    | some x => exact resolveS_enc w str hg hinj attrs start rest _
    | none =>
      simp only [Option.map_none]
      cases getattr w attrs start (w.nm b) (w.nm a) with
      | some x => exact resolveS_enc w str hg hinj attrs start rest _
      | none => rfl

/-- **with good, distinctly spelled names `convert_to` of the string-keyed registry is that of the pair-keyed one** -/
theorem convertS_eq_convert (w : World) (str : Nat → List Nat) (hg : ∀ k, goodName (str k) = true)
    (hinj : Function.Injective str) (fuel : Nat) (st : State) (start goal : Nat) :
    convertS w str fuel (encS str st) start goal = convert w fuel st start goal := by
  unfold convertS convert encS
  simp only
  cases Reg.path w.nm fuel st.g start goal with
  | ok p => exact resolveS_enc w str hg hinj st.attrs start _ _
  | unknown => rfl
  | keyError => rfl
  | loop => rfl

/-- … and every history of registry operations leads to the corresponding states (no hypothesis on the names needed here) -/
theorem applyOpsS_enc (w : World) (str : Nat → List Nat) (fuel : Nat) : ∀ (ops : List Op) (st : State),
    applyOpsS w str fuel (encS str st) ops = (applyOps w fuel st ops).map (encS str)
  | [], st => rfl
  | op :: rest, st => by
    unfold applyOpsS applyOps
    cases op with
    | link a b =>
      simp only [applyOpS, applyOp, encS]
      cases Reg.link w.nm fuel st.g a b with
      | none => rfl
      | some g' =>
        simp only [Option.map_some, Option.bind_some]
        exact applyOpsS_enc w str fuel rest { st with g := g' }
    | setattr h ka kb o =>
      simp only [applyOpS, applyOp, Option.bind_some]
      exact applyOpsS_enc w str fuel rest { st with attrs := ⟨h, ka, kb, o⟩ :: st.attrs }

/-- non-vacuity: the names of the built-in orientations and a station name are good -/
example : goodName [69, 77, 69, 50, 48, 48, 48] = true ∧ goodName [84, 111, 117, 108, 111, 117, 115, 101] = true ∧
    goodName [73, 84, 82, 70] = true := by decide

end BeyondVerif.C20
