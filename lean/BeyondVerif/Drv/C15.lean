import BeyondVerif.Model.Heap
import BeyondVerif.Model.PickleReg
import BeyondVerif.Drv.Util
/-!
Line protocol for C15:

  `heap <op> ; <op> ; …`   runs the operations in order on an empty heap and replies, per operation,
                            `<status> <dump of every variable>` joined by ` || `
  `access <form> <name>`    name resolution of `__getattr__`: `slot i` | `foreign` | `free`
  `freg <cmd> ; …`          frame-registry events interleaved with pickle dumps / loads of a state vector (Model/PickleReg.lean)

The dump walks the object graph from the variables in order and numbers mutable objects by first
visit, so two dumps are equal exactly when values, structure and the sharing pattern are equal.
-/
namespace BeyondVerif.Drv.C15
open BeyondVerif BeyondVerif.Drv BeyondVerif.Heap

/-- raw rendering (inside symbolic values): clones carry the address of their marker cell -/
def frStr : Fr → String
  | .reg n 0 => n
  | .reg n g => s!"{n}'{g}"
  | .hill 0 => "Hill"
  | .hill g => s!"Hill'{g}"
  | .tnw => "TNW"
  | .qsw => "QSW"

def valStr : Val → String
  | .init k => s!"i{k}"
  | .conv f g v => s!"c({f},{g},{valStr v})"
  | .xform a b v => s!"x({a},{b},{valStr v})"
  | .set f i x v => s!"s({f},{i},{x},{valStr v})"
  | .covx c t o r ov v => s!"k({frStr c},{frStr t},{frStr o},{frStr r},{valStr ov},{valStr v})"

structure DS where
  seen : List (Nat × Nat) := []
  next : Nat := 0
  clones : List (Nat × Nat) := []   -- marker address of a cloned Frame object ↦ number by first visit
  helpers : List (Nat × Nat) := []  -- marker address of an Infos helper ↦ number by first visit

/-- rendering in a dump: cloned Frame objects are numbered by first visit (identity matters, not the address) -/
def dumpFr (st : DS) (f : Fr) : String × DS :=
  let numbered (st : DS) (g : Nat) : Nat × DS :=
    match st.clones.lookup g with
    | some k => (k, st)
    | none => (st.clones.length + 1, { st with clones := (g, st.clones.length + 1) :: st.clones })
  match f with
  | .reg n 0 => (n, st)
  | .reg n g => let (k, st) := numbered st g; (s!"{n}'{k}", st)
  | .hill 0 => ("Hill", st)
  | .hill g => let (k, st) := numbered st g; (s!"Hill'{k}", st)
  | .tnw => ("TNW", st)
  | .qsw => ("QSW", st)

def sortItems (items : Items) : Items :=
  items.mergeSort (fun a b => !(b.1 < a.1))

def errStr : Err → String
  | .unknownForm => "unknown-form"
  | .unknownFrame => "unknown-frame"
  | .runtime => "runtime"
  | .value => "value"
  | .typeErr => "type"
  | .attr => "attr"
  | .eop => "eop"
  | .index => "index"
  | .bad => "bad"

partial def dumpRef (h : Heap) (st : DS) (r : Ref) : String × DS :=
  match r with
  | .tok n => (s!"t{n}", st)
  | .none => ("~", st)
  | .form f => (s!"f:{f}", st)
  | .frame f => let (fs, st) := dumpFr st f; (s!"F:{fs}", st)
  | .infos o g =>
    -- the helper by identity (marker cells numbered by first visit, in their own series) and the object it is bound to
    let (k, st) : Nat × DS :=
      match st.helpers.lookup g with
      | some k => (k, st)
      | none => (st.helpers.length + 1, { st with helpers := (g, st.helpers.length + 1) :: st.helpers })
    let (so, st) := dumpRef h st (.addr o)
    (s!"I{k}@{so}", st)
  | .addr a =>
    match st.seen.lookup a with
    | some id => (s!"#{id}", st)
    | none =>
      let id := st.next
      let st : DS := { st with seen := (a, id) :: st.seen, next := id + 1 }
      let many (st : DS) (rs : List Ref) : List String × DS :=
        rs.foldl (fun (acc : List String × DS) r => let (s, st) := dumpRef h acc.2 r; (acc.1 ++ [s], st)) ([], st)
      match h[a]? with
      | some (.buf v) => (s!"B{id}=<{valStr v}>", st)
      | some (.arr t) => (s!"A{id}={t}", st)
      | some (.man t) => (s!"M{id}={t}", st)
      | some (.prop _) => (s!"P{id}", st)
      | some (.list items) =>
        let (ss, st) := many st items
        (s!"L{id}[" ++ joinWith "," ss ++ "]", st)
      | some (.dict items) =>
        -- `cov: None` is what the getter leaves on first read (an immutable value): not shown; the empty maneuver
        -- list created the same way is a mutable object and is shown
        let items := (sortItems items).filter (fun kv => !(kv.1 = "cov" && kv.2 = .none))
        let (ss, st) := many st (items.map (·.2))
        (s!"D{id}" ++ "{" ++ joinWith "," ((items.map (·.1)).zipWith (fun k s => k ++ "=" ++ s) ss) ++ "}", st)
      | some (.sv o b d) =>
        let (sb, st) := dumpRef h st (.addr b)
        let (sd, st) := dumpRef h st (.addr d)
        (s!"S{id}({if o then "O" else "V"},{sb},{sd})", st)
      | some (.cov b fr orb ofr) =>
        let (sb, st) := dumpRef h st (.addr b)
        let (sf, st) := dumpFr st fr
        let (sof, st) := dumpFr st ofr
        let (so, st) := dumpRef h st (.addr orb)
        (s!"C{id}({sb},{sf},{sof},{so})", st)
      | some .clone => (s!"?clone{id}", st)
      | none => (s!"?{id}", st)

def dumpAll (h : Heap) (env : List Nat) : String :=
  let (ss, _) := env.foldl (fun (acc : List String × DS) a => let (s, st) := dumpRef h acc.2 (.addr a); (acc.1 ++ [s], st)) ([], {})
  joinWith " " ss

structure St where
  h : Heap := []
  env : List Nat := []

def var? (st : St) (s : String) : Option Nat := s.toNat?.bind (fun i => st.env[i]?)

/-- `new k orbit form frame meta nmans cov covframe` : the objects the harness builds with `make_state` -/
def opNew (st : St) (k : Nat) (orbit : Bool) (form : String) (frame : Fr) (metaV : Nat) (nmans : Nat) (cov : Bool) (covframe : String) : St × String :=
  let h := st.h
  let (h, b) := alloc h (.buf (.init k))
  let (h, items) : Heap × Items :=
    if metaV = 1 then          -- non-empty and nested containers
      let (h, tags) := alloc h (.list [.tok 2, .tok 3])
      let (h, kl) := alloc h (.list [.tok 1, .tok 2])
      let (h, nested) := alloc h (.dict [("k", .addr kl), ("s", .tok 6)])
      let (h, arr) := alloc h (.arr 7)
      (h, [("name", .tok 1), ("tags", .addr tags), ("nested", .addr nested), ("arr", .addr arr)])
    else if metaV = 2 then     -- empty containers
      let (h, tags) := alloc h (.list [])
      let (h, nested) := alloc h (.dict [])
      (h, [("name", .tok 1), ("tags", .addr tags), ("nested", .addr nested)])
    else if metaV = 3 then     -- an empty container inside a non-empty one
      let (h, tags) := alloc h (.list [])
      let (h, kl) := alloc h (.list [])
      let (h, nested) := alloc h (.dict [("k", .addr kl), ("s", .tok 6)])
      let (h, arr) := alloc h (.arr 7)
      (h, [("tags", .addr tags), ("nested", .addr nested), ("arr", .addr arr)])
    else (h, [])
  let items := items ++ [("date", .tok (100 + k)), ("form", .form form), ("frame", .frame frame)]
  let (h, d) := alloc h (.dict items)
  let (h, a) := alloc h (.sv false b d)
  let (h, a) : Heap × Nat :=
    if orbit then
      let (h, p) := alloc h (.prop 0)
      match asOrbit h a p with
      | (h, .ok n) => (h, n)
      | (h, _) => (h, a)
    else (h, a)
  let h : Heap :=
    if nmans = 0 then h else
      match getSV h a with
      | none => h
      | some s =>
        let (h, ms) := (List.range nmans).foldl (fun (acc : Heap × List Ref) t => let (h, m) := alloc acc.1 (.man t); (h, acc.2 ++ [.addr m])) (h, [])
        let (h, l) := alloc h (.list ms)
        write h s.data (.dict (insert "maneuvers" (.addr l) s.items))
  let (h, status) : Heap × String :=
    if cov then
      match setCov h a (1000 + k) with
      | (h, .ok ()) =>
        if covframe = "-" then (h, "ok") else
          match covFrame h a covframe with
          | (h, .ok ()) => (h, "ok")
          | (h, .error e) => (h, errStr e)
      | (h, .error e) => (h, errStr e)
    else (h, "ok")
  ({ h := h, env := st.env ++ [a] }, status)

def unitRes (st : St) (r : Res Unit) : St × String :=
  match r with
  | (h, .ok ()) => ({ st with h := h }, "ok")
  | (h, .error e) => ({ st with h := h }, errStr e)

def newRes (st : St) (r : Res Nat) : St × String :=
  match r with
  | (h, .ok n) => ({ h := h, env := st.env ++ [n] }, "ok")
  | (h, .error e) => ({ st with h := h }, errStr e)

def step (st : St) (op : List String) : Option (St × String) :=
  match op with
  | ["new", k, o, form, frame, m, nm, c, cf] => do
    let k ← k.toNat?
    let nm ← nm.toNat?
    let m ← m.toNat?
    let fr ← resolveFrame frame
    let f ← resolveForm form
    pure (opNew st k (o = "1") f fr m nm (c = "1") cf)
  | ["copy", i] => do let a ← var? st i; pure (newRes st (copySV st.h a))
  | ["copyf", i, f] => do let a ← var? st i; pure (newRes st (copyForm st.h a f))
  | ["copyfr", i, f] => do let a ← var? st i; pure (newRes st (copyFrame st.h a f))
  | ["aso", i] => do
    let a ← var? st i
    let (h, p) := alloc st.h (.prop 0)
    pure (newRes { st with h := h } (asOrbit h a p))
  | ["assv", i] => do let a ← var? st i; pure (newRes st (asSV st.h a))
  | ["setf", i, f] => do let a ← var? st i; pure (unitRes st (setFormX st.h a f))
  -- a form change whose conversion raises on leg `k` of its route (the harness makes that leg fail)
  | ["setfx", i, f, _, k] => do
    let a ← var? st i
    let k ← k.toNat?
    let nconv := (formSteps.filter (· == .convert)).length
    let idx := if nconv ≤ 1 then 0 else min k (nconv - 1)
    pure (unitRes st (setFormX st.h a f (fun j => if j = idx then some .value else none)))
  | ["xform", i, f] => do
    let a ← var? st i
    let fr ← resolveFrame f
    pure (newRes st (transformObj st.h a fr))
  | ["setfr", i, f] => do let a ← var? st i; pure (unitRes st (setFrame st.h a f))
  -- a frame assignment the environment makes fail: `iso` — the target is a frame (orientation of `f`) whose centre
  -- has no link to any other; `eop` — no Earth-orientation data for the date under the 'error' policy
  | ["setfrx", i, _, "iso"] => do let a ← var? st i; pure (unitRes st (setFrameTo st.h a (.reg "Isolated" 0) (fun _ _ => some .value)))
  | ["setfrx", i, f, "eop"] => do let a ← var? st i; pure (unitRes st (setFrame st.h a f (fun x y => if x = "EME2000" || y = "EME2000" then some .eop else none)))
  -- `eopc`: the same policy, rotation by rotation: only PEF <-> ITRF (polar motion from the values cached on the Date) does not raise
  | ["setfrx", i, f, "eopc"] => do
    let a ← var? st i
    pure (unitRes st (setFrame st.h a f (fun x y => if (x = "PEF" && y = "ITRF") || (x = "ITRF" && y = "PEF") then none else some .eop)))
  | ["ctor", i, o] => do
    let a ← var? st i
    if o = "1" then
      let (h, p) := alloc st.h (.prop 0)
      pure (newRes { st with h := h } (ctor h a (some p)))
    else pure (newRes st (ctor st.h a none))
  | ["readman", i] => do let a ← var? st i; pure (unitRes st (readMan st.h a))
  | ["readinfos", i] => do let a ← var? st i; pure (unitRes st (readInfos st.h a))
  | ["lappend", i, key, x] => do let a ← var? st i; let x ← x.toNat?; pure (unitRes st (metaAppend st.h a key x))
  | ["dset", i, key, x] => do let a ← var? st i; let x ← x.toNat?; pure (unitRes st (metaSetItem st.h a key x))
  | ["nappend", i, x] => do let a ← var? st i; let x ← x.toNat?; pure (unitRes st (nestedAppend st.h a x))
  | ["aset", i, _] => do let a ← var? st i; pure (unitRes st (arrSet st.h a))
  | ["covfrom", i, j] => do let a ← var? st i; let b ← var? st j; pure (unitRes st (covFrom st.h a b))
  | ["seta", i, name, x] => do let a ← var? st i; let x ← x.toNat?; pure (unitRes st (setAttr st.h a name x))
  | ["seti", i, k, x] => do let a ← var? st i; let k ← k.toNat?; let x ← x.toNat?; pure (unitRes st (setIdx st.h a k x))
  | ["covfr", i, f] => do let a ← var? st i; pure (unitRes st (covFrame st.h a f))
  | ["addman", i, t] => do let a ← var? st i; let t ← t.toNat?; pure (unitRes st (addMan st.h a t))
  | ["setcov", i, k] => do let a ← var? st i; let k ← k.toNat?; pure (unitRes st (setCov st.h a k))
  | ["pickle", i] => do let a ← var? st i; pure (newRes st (pickle st.h a))
  | ["dcopy", i] => do let a ← var? st i; pure (newRes st (stdDeepcopy st.h a))
  | _ => none

def splitOps (toks : List String) : List (List String) :=
  (toks.foldl (fun (acc : List (List String) × List String) t =>
    if t = ";" then (acc.1 ++ [acc.2], []) else (acc.1, acc.2 ++ [t])) ([], [])) |> fun (a, b) => if b.isEmpty then a else a ++ [b]

def heapOp (toks : List String) : String :=
  let ops := splitOps toks
  let (_, outs, ok) := ops.foldl (fun (acc : St × List String × Bool) op =>
    let (st, outs, ok) := acc
    if !ok then acc else
      match step st op with
      | some (st, status) => (st, outs ++ [status ++ " " ++ dumpAll st.h st.env], true)
      | none => (st, outs ++ ["bad-op"], false)) (({} : St), [], true)
  if ok then joinWith " || " outs else "bad-op"

def accessOp : List String → String
  | [form, name] =>
    match access form name with
    | .slot i => s!"slot {i}"
    | .foreign => "foreign"
    | .free => "free"
  | _ => "bad-op"

/-- `freg <cmd> ; <cmd> ; …` on the registry as it is after import: `build <cls> <name> <orientation> <centre>` | `drop <key>` |
`dump <j>` | `load <b>` | `get <key>`; the reply lists what `load` / `get` gave, joined by ` | ` -/
def fregCmd : List String → Option PickleReg.Cmd
  | ["build", c, n, o, ce] => some (.build ⟨c, n, o, ce⟩)
  | ["drop", k] => some (.drop k)
  | ["dump", j] => j.toNat?.map .dump
  | ["load", b] => b.toNat?.map .load
  | ["get", k] => some (.get k)
  | _ => none

def fregOp (toks : List String) : String :=
  match (splitOps toks).mapM fregCmd with
  | some cmds => joinWith " | " (cmds.foldl PickleReg.St.step {}).outs
  | none => "bad-op"

def handle : List String → Option String
  | "heap" :: args => some (heapOp args)
  | "freg" :: args => some (fregOp args)
  | "access" :: args => some (accessOp args)
  | _ => none

end BeyondVerif.Drv.C15
