import BeyondVerif.Model.CWF
import BeyondVerif.Model.CWFramesF
import BeyondVerif.Generated.CWHelperF
import BeyondVerif.Generated.CWSeqSrcF
import BeyondVerif.Drv.Util
namespace BeyondVerif.Drv.C16
open BeyondVerif BeyondVerif.Drv BeyondVerif.F

/-- maneuvers: `i tm dx dy dz` | `c ts te ax ay az` | `d pos date duration ax ay az` (a burn declared as `ContinuousMan(date, duration,
date_pos=start|median|stop)`, pos 0|1|2: its window is computed by `manStartSrc` / `manStopSrc`, translated from man.py) (floats as bit patterns) -/
partial def parseMans : List String → Option (List Man)
  | [] => some []
  | "i" :: rest => do
    let (fs, rest) ← takeFloats 4 rest
    let ms ← parseMans rest
    match fs with
    | [tm, dx, dy, dz] => pure (Man.imp tm [dx, dy, dz] :: ms)
    | _ => none
  | "d" :: rest => do
    let (fs, rest) ← takeFloats 6 rest
    let ms ← parseMans rest
    match fs with
    | [pos, date, dur, ax, ay, az] =>
      let k := pos.toUInt64.toNat
      if k > 2 then none
      else pure (Man.cont (manStartSrc k date dur) (manStopSrc k date dur) [ax, ay, az] :: ms)
    | _ => none
  | "c" :: rest => do
    let (fs, rest) ← takeFloats 5 rest
    let ms ← parseMans rest
    match fs with
    | [ts, te, ax, ay, az] => pure (Man.cont ts te [ax, ay, az] :: ms)
    | _ => none
  | _ => none

/-- a maneuver list as floats: `0 tm dx dy dz` | `1 ts te ax ay az` -/
def flatMans : List Man → List Float
  | [] => []
  | Man.imp tm dv :: rest => [0.0, tm] ++ dv ++ flatMans rest
  | Man.cont ts te a :: rest => [1.0, ts, te] ++ a ++ flatMans rest

/-- a history of one process: `F <tnw> <mu>` new Hill frame | `P <frame> <sma>` propagator on a frame object | `H <sma>` propagator on
`frame="Hill"` | `C <p>` copy | `N <p>` read: emits n and the TNW flag | `R <p> <t> <x0..x5>` propagate a fresh orbit: emits the state and
records it as a point | `L <point> <t>` propagate a recorded point further: emits the state and records it.  (indices as floats) -/
partial def runWorld (w : World) (pts : List (Nat × List Float)) (acc : List Float) : List String → Option (List Float)
  | [] => some acc
  | "F" :: rest => do
    let (fs, rest) ← takeFloats 2 rest
    match fs with
    | [tnw, mu] => runWorld (w.step (.newFrame (tnw != 0.0) mu)) pts acc rest
    | _ => none
  | "P" :: rest => do
    let (fs, rest) ← takeFloats 2 rest
    match fs with
    | [f, sma] => runWorld (w.step (.newProp f.toUInt64.toNat sma)) pts acc rest
    | _ => none
  | "H" :: rest => do
    let (fs, rest) ← takeFloats 1 rest
    match fs with
    | [sma] => runWorld (w.step (.newPropHill sma)) pts acc rest
    | _ => none
  | "C" :: rest => do
    let (fs, rest) ← takeFloats 1 rest
    match fs with
    | [p] => runWorld (w.step (.copyProp p.toUInt64.toNat)) pts acc rest
    | _ => none
  | "N" :: rest => do
    let (fs, rest) ← takeFloats 1 rest
    match fs with
    | [p] =>
      let k := p.toUInt64.toNat
      let n ← w.n k
      let tnw ← w.tnw k
      runWorld (w.step (.read k)) pts (acc ++ [n, if tnw then 1.0 else 0.0]) rest
    | _ => none
  | "R" :: rest => do
    let (fs, rest) ← takeFloats 8 rest
    match fs with
    | [p, t, x0, x1, x2, x3, x4, x5] =>
      let k := p.toUInt64.toNat
      let r ← w.propagate k [] t 0.0 [x0, x1, x2, x3, x4, x5]
      runWorld (w.step (.read k)) (pts ++ [(k, r)]) (acc ++ r) rest
    | _ => none
  | "L" :: rest => do
    let (fs, rest) ← takeFloats 2 rest
    match fs with
    | [q, t] =>
      let (k, x) ← pts[q.toUInt64.toNat]?
      let r ← w.propagate k [] t 0.0 x
      runWorld (w.step (.read k)) (pts ++ [(k, r)]) (acc ++ r) rest
    | _ => none
  | _ => none

/-- `r` read n (emits it) | `w <mu> <sma>` in-place write | `c` the object is replaced by its copy -/
partial def runMemo (m : Memo) (acc : List Float) : List String → Option (List Float)
  | [] => some acc
  | "r" :: rest => let (v, m') := m.read; runMemo m' (acc ++ [v]) rest
  | "c" :: rest => runMemo m.copy acc rest
  | "w" :: rest => do
    let (fs, rest) ← takeFloats 2 rest
    match fs with
    | [mu, sma] => runMemo (m.write mu sma) acc rest
    | _ => none
  | _ => none

/-- `cw <tnw 0|1> <n> <t> <x0..x5> <mans…>` → six floats: `propagate` from epoch 0 to time t
    `cw0 <tnw> <n> <t> <t0> <x0..x5> <mans…>` → `propagate` of an orbit dated `t0` (a propagated orbit that still carries the list)
    `cwref <n> <t> <t0> <x0..x5> <mans…>` → `hillSol`, the reference solution (QSW)
    `cwfix <n> <t> <t0> <x0..x5> <mans…>` → `cwPropagateFixed` (the sequencing of the proposed fix, QSW)
    `cwstep <tnw> <n> <t> <x0..x5> <a0..a2>` → `_propagate` with acceleration
    `cwmat <n> <t>` → the 36 + 18 matrix entries
    `memo <mu> <sma> <r | w mu sma | c …>` → the reads of n of one propagator object along a history of writes / copies (`runMemo`)
    `world <tnw0> <mu0> <history…>` → what the reads of the history return (`runWorld`; object model Model/CWFrames)
    `helper <tnw> coelliptic|hohmann|eccentric|tangential|vbar <n> <3 arguments in the order of the Python signature; continuous as 0/1>`
       → the translated `CWHelper` method (Generated/CWHelperF.lean): state, or maneuvers flattened by `flatMans` -/
def handle : List String → Option String
  | "memo" :: rest => some <|
    match takeFloats 2 rest with
    | some ([mu, sma], ops) =>
      match runMemo ⟨mu, sma, none⟩ [] ops with
      | some fs => fsToStr fs
      | none => "bad-op"
    | _ => "bad-op"
  | "world" :: rest => some <|
    match takeFloats 2 rest with
    | some ([tnw0, mu0], ops) =>
      match runWorld (World.init (tnw0 != 0.0) mu0) [] [] ops with
      | some fs => fsToStr fs
      | none => "bad-op"
    | _ => "bad-op"
  | "cw" :: tnw :: rest => some <| Id.run do
    match takeFloats 8 rest with
    | some ([n, t, x0, x1, x2, x3, x4, x5], rest) =>
      match parseMans rest with
      | some mans => fsToStr (cwPropagate (tnw == "1") n mans t 0.0 [x0, x1, x2, x3, x4, x5])
      | none => "bad-op"
    | _ => "bad-op"
  | "cw0" :: tnw :: rest => some <| Id.run do
    match takeFloats 9 rest with
    | some ([n, t, t0, x0, x1, x2, x3, x4, x5], rest) =>
      match parseMans rest with
      | some mans => fsToStr (cwPropagate (tnw == "1") n mans t t0 [x0, x1, x2, x3, x4, x5])
      | none => "bad-op"
    | _ => "bad-op"
  | "cwref" :: rest => some <| Id.run do
    match takeFloats 9 rest with
    | some ([n, t, t0, x0, x1, x2, x3, x4, x5], rest) =>
      match parseMans rest with
      | some mans => fsToStr (hillSol n mans t t0 [x0, x1, x2, x3, x4, x5])
      | none => "bad-op"
    | _ => "bad-op"
  | "cwfix" :: rest => some <| Id.run do
    match takeFloats 9 rest with
    | some ([n, t, t0, x0, x1, x2, x3, x4, x5], rest) =>
      match parseMans rest with
      | some mans => fsToStr (cwPropagateFixed n mans t t0 [x0, x1, x2, x3, x4, x5])
      | none => "bad-op"
    | _ => "bad-op"
  | "cwstep" :: tnw :: rest => some <|
    match takeFloats 11 rest with
    | some ([n, t, x0, x1, x2, x3, x4, x5, a0, a1, a2], _) =>
      fsToStr (cwStep (tnw == "1") n t [x0, x1, x2, x3, x4, x5] [a0, a1, a2])
    | _ => "bad-op"
  | "helper" :: tnw :: which :: rest => some <|
    let m3 := if tnw == "1" then qsw2tnw else id3
    let m6 := if tnw == "1" then qsw2tnw6 else id6
    match which, takeFloats 4 rest with
    | "coelliptic", some ([n, d, r, tg], _) => fsToStr (helperCoelliptic m6 n d r tg ++ [helperPeriod n, helperHohmannDistance r false, helperHohmannDistance r true])
    | "hohmann", some ([n, r, d, c], _) => fsToStr (flatMans (helperHohmann m3 n r d (c != 0.0)))
    | "eccentric", some ([n, tg, d, c], _) => fsToStr (flatMans (helperEccentricBoost m3 n tg d (c != 0.0)))
    | "tangential", some ([n, tg, d, _], _) => fsToStr (flatMans (helperTangentialBoost m3 n tg d))
    | "vbar", some ([n, tg, d, v], _) => fsToStr (flatMans (helperVbarLinear m3 n tg d v))
    | _, _ => "bad-op"
  | "cwmat" :: rest => some <|
    match takeFloats 2 rest with
    | some ([n, t], _) => let m := cwMats n t; fsToStr (m.1.flatten ++ m.2.flatten)
    | _ => "bad-op"
  | _ => none

end BeyondVerif.Drv.C16
