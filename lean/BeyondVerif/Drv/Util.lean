/-! Helpers shared by the line-protocol handlers (no Mathlib). Floats travel as the decimal
rendering of their IEEE-754 bit pattern. -/
namespace BeyondVerif.Drv

def joinWith (sep : String) (xs : List String) : String := sep.intercalate xs

def fOfStr? (s : String) : Option Float := s.toNat?.map (fun n => Float.ofBits n.toUInt64)
def fToStr (f : Float) : String := toString f.toBits.toNat
def fsToStr (fs : List Float) : String := joinWith " " (fs.map fToStr)

def iOfStr? (s : String) : Option Int := s.toInt?

/-- parse the first `k` tokens as floats; returns them and the remaining tokens -/
def takeFloats (k : Nat) (toks : List String) : Option (List Float × List String) :=
  if toks.length < k then none
  else (toks.take k).mapM fOfStr? |>.map (fun fs => (fs, toks.drop k))

def takeInts (k : Nat) (toks : List String) : Option (List Int × List String) :=
  if toks.length < k then none
  else (toks.take k).mapM iOfStr? |>.map (fun fs => (fs, toks.drop k))

end BeyondVerif.Drv
