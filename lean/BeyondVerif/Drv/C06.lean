import BeyondVerif.Model.RKF
import BeyondVerif.Model.KNObjF
import BeyondVerif.Model.KNIter
import BeyondVerif.Drv.Util
namespace BeyondVerif.Drv.C06
open BeyondVerif BeyondVerif.Drv BeyondVerif.F BeyondVerif.F.KN

/-- `k` bodies: `mu px py pz vx vy vz` each -/
def parseBodies : Nat → List String → Option (List (Float × List Float) × List String)
  | 0, rest => some ([], rest)
  | k + 1, rest => do
    let (fs, rest) ← takeFloats 7 rest
    let (bs, rest) ← parseBodies k rest
    match fs with
    | mu :: st => pure ((mu, st) :: bs, rest)
    | _ => none

def tabToStr (tb : Tableau) : String :=
  let row (l : List Float) := joinWith "," (l.map fToStr)
  joinWith " " [joinWith ";" (tb.a.map row), row tb.b, row tb.c, match tb.bstar with | none => "none" | some bs => row bs]

/-- `k` views of an orbit: `<frame name> y0..y5` each -/
def parseViews : Nat → List String → Option (List (String × List Float) × List String)
  | 0, rest => some ([], rest)
  | k + 1, name :: rest => do
    let (fs, rest) ← takeFloats 6 rest
    let (vs, rest) ← parseViews k rest
    pure ((name, fs) :: vs, rest)
  | _ + 1, [] => none

/-- operations of a `c06seq` history, one after the other: `sm <name>` | `ss <f>` | `st <f>` | `sb <k> <bodies…>` | `ab <body>` | `db` |
`cp` | `mk <h> <y0..y5>` | `rb` | `sf <frame>` | `bd <k> <views…>` | `sd <h>` | `ro`.  `fuel` bounds the number of operations. -/
def parseOps : Nat → List String → Option (List Op)
  | 0, [] => some []
  | 0, _ => none
  | _ + 1, [] => some []
  | f + 1, "sm" :: m :: rest => (parseOps f rest).map (Op.setMethod m :: ·)
  | f + 1, "ss" :: x :: rest => do let h ← fOfStr? x; let r ← parseOps f rest; pure (Op.setStep h :: r)
  | f + 1, "st" :: x :: rest => do let t ← fOfStr? x; let r ← parseOps f rest; pure (Op.setTol t :: r)
  | f + 1, "sb" :: k :: rest => do
    let k ← k.toNat?
    let (bs, rest) ← parseBodies k rest
    let r ← parseOps f rest
    pure (Op.setBodies bs :: r)
  | f + 1, "ab" :: rest => do
    let (bs, rest) ← parseBodies 1 rest
    let r ← parseOps f rest
    match bs with
    | [b] => pure (Op.addBody b :: r)
    | _ => none
  | f + 1, "db" :: rest => (parseOps f rest).map (Op.dropBody :: ·)
  | f + 1, "cp" :: rest => (parseOps f rest).map (Op.copy :: ·)
  | f + 1, "rb" :: rest => (parseOps f rest).map (Op.readButcher :: ·)
  | f + 1, "ro" :: rest => (parseOps f rest).map (Op.readOrbit :: ·)
  | f + 1, "sf" :: m :: rest => (parseOps f rest).map (Op.setFrame m :: ·)
  | f + 1, "sd" :: x :: rest => do let h ← fOfStr? x; let r ← parseOps f rest; pure (Op.stepBound h :: r)
  | f + 1, "bd" :: k :: rest => do
    let k ← k.toNat?
    let (vs, rest) ← parseViews k rest
    let r ← parseOps f rest
    pure (Op.bind vs :: r)
  | f + 1, "mk" :: rest => do
    let (fs, rest) ← takeFloats 7 rest
    let r ← parseOps f rest
    match fs with
    | h :: y => pure (Op.makeStep y h :: r)
    | _ => none
  | _ + 1, _ => none

/-- reply to one operation of a history; a `_make_step` reply carries the error estimates of its passes after ` | ` -/
def outToStr (c : Cfg) (op : Op) : String :=
  match c.out op with
  | .quiet => "q"
  | .keyError => "unknown-name"
  | .indexError => "index-error"
  | .unknownFrame => "unknown-frame"
  | .attrError => "attribute-error"
  | .orbit none => "none"
  | .orbit (some (f, y)) => f ++ " " ++ fsToStr y
  | .tableau tb => tabToStr tb
  | .stepped r =>
    let errs := match op, butcher c.method, c.bound with
      | .makeStep y h, some tb, _ => fsToStr (makeStepErrs c.field tb c.step c.tol 0.0 y maxIter h)
      | .stepBound h, some tb, some (_, y) => fsToStr (makeStepErrs c.field tb c.step c.tol 0.0 y maxIter h)
      | _, _, _ => ""
    match r with
    | some (h', y') => fsToStr (h' :: y') ++ " | " ++ errs
    | none => "runtime-error | " ++ errs

def seqToStrs : Cfg → List Op → List String
  | _, [] => []
  | c, op :: ops => outToStr c op :: seqToStrs (c.next op) ops

def intsToStr (l : List Int) : String := joinWith "," (l.map toString)
def optNatToStr : Option Nat → String
  | none => "none"
  | some n => toString n

/-- `c06accel <k> <bodies…> <y0..y5>` → six floats (`_accel` with k point-mass bodies)
    `c06step <method> <maxStep> <h> <tol> <mu> <y0..y5>` → `h' y0..y5 | p_error of every pass` | `runtime-error | …` | `unknown-name` (`_make_step`, central body)
    `c06tab <method>` → the tableau: rows of a separated by `;`, then b, c, b_star
    `c06seq <method> <frame> <step> <tol> <k> <bodies…> <operations…>` → the replies of a history on one object `KeplerNum(step, bodies, method=, tol=)`, separated by ` ; `
    `c06iter <epoch> <start> <stop> <datesGiven> <stepGiven> <listening> <real steps…>` (µs; flags 0/1) →
       `<pos dates|none> <main dates> <interp> <order pos> <order main> <calls>` | `fuel` (`KeplerNum._iter` bookkeeping)
    `c06norm <epoch> <startGiven> <start> <stopIsDelta> <stop>` → `<start> <stop>` as `_iter` receives them (`NumericalPropagator.iter`)
    `c06target <epoch> <delta>` → `<start> <stop>` of `propagate(timedelta)`
    `c06graph <recv> <next> <n1> <n2> …` → identities of the propagators of the points of successive outputs of `n1`, `n2`, … points
    `c06reqs <k> <p0 … pk-1> <c|n|p><i> …` → which orbit's trajectory each consume (`n`) / propagate (`p`) returns, orbit `i` carrying the propagator `pi` (identities from `c06graph`) -/
def handle : List String → Option String
  | "c06seq" :: method :: frame :: rest => some <|
    match takeFloats 2 rest with
    | some ([step, tol], k :: rest) =>
      match k.toNat? with
      | none => "bad-op"
      | some k =>
        match parseBodies k rest with
        | none => "bad-op"
        | some (bodies, rest) =>
          match parseOps rest.length rest with
          | none => "bad-op"
          | some ops => joinWith " ; " (seqToStrs (Cfg.init step bodies method tol frame) ops)
    | _ => "bad-op"
  | "c06graph" :: rest => some <|
    match rest.mapM String.toNat? with
    | some (recv :: next :: ns) => joinWith " ; " ((KNIter.outputsProps recv next ns).map (fun l => joinWith "," (l.map toString)))
    | _ => "bad-op"
  | "c06reqs" :: k :: rest => some <|
    let parse : String → Option KNIter.Req := fun t =>
      match t.toList with
      | 'c' :: d => (String.ofList d).toNat?.map KNIter.Req.create
      | 'n' :: d => (String.ofList d).toNat?.map KNIter.Req.consume
      | 'p' :: d => (String.ofList d).toNat?.map KNIter.Req.propagate
      | _ => none
    match k.toNat? with
    | none => "bad-op"
    | some k =>
      match (rest.take k).mapM String.toNat?, (rest.drop k).mapM parse with
      | some ps, some rs =>
        if rest.length < k then "bad-op"
        else if KNIter.wellFormed [] rs then
          -- orbit `i` carries the propagator `ps[i]`; an orbit outside the list gets a propagator of its own
          joinWith " " ((KNIter.runReqs (fun i => (ps[i]?).getD (1000000 + i)) (fun _ => none) rs).map
            (fun r => match r with | some i => toString i | none => "unbound"))
        else "ill-formed"
      | _, _ => "bad-op"
  | "c06norm" :: rest => some <|
    match takeInts 5 rest with
    | some ([epoch, sg, start, rel, stop], []) =>
      let start' := if sg != 0 then start else epoch
      let stop' := if rel != 0 then Generated.KNIterSrc.relStop epoch start' stop else stop
      toString start' ++ " " ++ toString stop'
    | _ => "bad-op"
  | "c06target" :: rest => some <|
    match takeInts 2 rest with
    | some ([epoch, delta], []) =>
      let d := Generated.KNIterSrc.relTarget epoch delta
      toString d ++ " " ++ toString d
    | _ => "bad-op"
  | "c06iter" :: rest => some <|
    match takeInts 6 rest with
    | some ([epoch, start, stop, dg, sg, ls], rs) =>
      match rs.mapM iOfStr? with
      | none => "bad-op"
      | some rs =>
        match KNIter.iterTab epoch start stop (dg != 0) (sg != 0) (ls != 0) rs with
        | none => "fuel"
        | some t =>
          joinWith " " [match t.pos with | none => "none" | some p => intsToStr p, intsToStr t.main, if t.interp then "1" else "0",
            toString (KNIter.ephemOrder t.posOrderArg), toString (KNIter.ephemOrder t.orderArg), toString t.calls]
    | _ => "bad-op"
  | "c06accel" :: k :: rest => some <|
    match k.toNat? with
    | none => "bad-op"
    | some k =>
      match parseBodies k rest with
      | some (bodies, rest) =>
        match takeFloats 6 rest with
        | some (y, []) => fsToStr (accel bodies y)
        | _ => "bad-op"
      | none => "bad-op"
  | "c06step" :: method :: rest => some <|
    match butcher method with
    | none => "unknown-name"
    | some tb =>
      match takeFloats 10 rest with
      | some ([maxStep, h, tol, mu, y0, y1, y2, y3, y4, y5], []) =>
        let f : Float → List Float → List Float := fun _ y => accelCentral mu y
        let errs := fsToStr (makeStepErrs f tb maxStep tol 0.0 [y0, y1, y2, y3, y4, y5] maxIter h)
        match makeStep f tb maxStep tol 0.0 [y0, y1, y2, y3, y4, y5] maxIter h with
        | some (h', y') => fsToStr (h' :: y') ++ " | " ++ errs
        | none => "runtime-error | " ++ errs
      | _ => "bad-op"
  | ["c06tab", method] => some <|
    match butcher method with
    | none => "unknown-name"
    | some tb => tabToStr tb
  | _ => none

end BeyondVerif.Drv.C06
