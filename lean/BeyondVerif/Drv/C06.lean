import BeyondVerif.Model.RKF
import BeyondVerif.Drv.Util
namespace BeyondVerif.Drv.C06
open BeyondVerif BeyondVerif.Drv BeyondVerif.F BeyondVerif.F.KN

/-- `k` bodies: `mu px py pz vx vy vz` each -/
def parseBodies : Nat → List String → Option (List (Float × List Float) × List String)
  | 0, rest => some ([], rest)
  | k + 1, rest => do
    let (fs, rest) ← takeFloats 7 rest
    let (bs, rest) ← parseBodies k rest
    match fs with
    | mu :: st => pure ((mu, st) :: bs, rest)
    | _ => none

def tabToStr (tb : Tableau) : String :=
  let row (l : List Float) := joinWith "," (l.map fToStr)
  joinWith " " [joinWith ";" (tb.a.map row), row tb.b, row tb.c, match tb.bstar with | none => "none" | some bs => row bs]

/-- `c06accel <k> <bodies…> <y0..y5>` → six floats (`_accel` with k point-mass bodies)
    `c06step <method> <maxStep> <h> <tol> <mu> <y0..y5>` → `h' y0..y5 | p_error of every pass` | `runtime-error | …` | `unknown-name` (`_make_step`, central body)
    `c06tab <method>` → the tableau: rows of a separated by `;`, then b, c, b_star -/
def handle : List String → Option String
  | "c06accel" :: k :: rest => some <|
    match k.toNat? with
    | none => "bad-op"
    | some k =>
      match parseBodies k rest with
      | some (bodies, rest) =>
        match takeFloats 6 rest with
        | some (y, []) => fsToStr (accel bodies y)
        | _ => "bad-op"
      | none => "bad-op"
  | "c06step" :: method :: rest => some <|
    match butcher method with
    | none => "unknown-name"
    | some tb =>
      match takeFloats 10 rest with
      | some ([maxStep, h, tol, mu, y0, y1, y2, y3, y4, y5], []) =>
        let f : Float → List Float → List Float := fun _ y => accelCentral mu y
        let errs := fsToStr (makeStepErrs f tb maxStep tol 0.0 [y0, y1, y2, y3, y4, y5] maxIter h)
        match makeStep f tb maxStep tol 0.0 [y0, y1, y2, y3, y4, y5] maxIter h with
        | some (h', y') => fsToStr (h' :: y') ++ " | " ++ errs
        | none => "runtime-error | " ++ errs
      | _ => "bad-op"
  | ["c06tab", method] => some <|
    match butcher method with
    | none => "unknown-name"
    | some tb => tabToStr tb
  | _ => none

end BeyondVerif.Drv.C06
