import BeyondVerif.Model.JplF
import BeyondVerif.Generated.JplArgF
import BeyondVerif.Model.SolarSystemF
import BeyondVerif.Drv.Util
namespace BeyondVerif.Drv.C18
open BeyondVerif BeyondVerif.Drv BeyondVerif.F BeyondVerif.F.Jpl

def parsePair? (s : String) : Option (Nat × Nat) :=
  match s.splitOn "-" with
  | [a, b] => do let a ← a.toNat?; let b ← b.toNat?; pure (a, b)
  | _ => none

/-- six floats per pair, in the order of the pairs -/
def parseSegs : List (Nat × Nat) → List String → Option (List ((Nat × Nat) × List Float))
  | [], _ => some []
  | p :: ps, toks => do
    let (fs, rest) ← takeFloats 6 toks
    let more ← parseSegs ps rest
    pure ((p, fs) :: more)

def segOf (tab : List ((Nat × Nat) × List Float)) (c t : Nat) : V6 :=
  match tab.lookup (c, t) with
  | some fs => fun i => fs.getD i.val 0.0
  | none => vzero

def showRes : Res → String
  | .ok v => "ok " ++ fsToStr ((List.finRange 6).map v)
  | .unknownBody => "unknown-body"
  | .unknownFrame => "unknown-frame"
  | .noRoute => "value-error"
  | .keyError => "key-error"
  | .noProvider => "value-error"
  | .fuel => "fuel"

def parseAtt? (s : String) : Option Att :=
  match s.splitOn "-" with
  | [x, l, o, c] => do
    let x ← x.toNat?; let l ← l.toNat?; let o ← o.toNat?; let c ← c.toNat?
    pure ⟨x, l, o, c⟩
  | _ => none

/-- the segment tables of `n` dates, one after the other -/
def parseDates (ps : List (Nat × Nat)) : Nat → List String → Option (List (List ((Nat × Nat) × List Float)) × List String)
  | 0, toks => some ([], toks)
  | n + 1, toks => do
    let tab ← parseSegs ps (toks.take (6 * ps.length))
    let (more, rest) ← parseDates ps n (toks.drop (6 * ps.length))
    pure (tab :: more, rest)

def parseOps : List String → Option (List Op)
  | [] => some []
  | "get" :: k :: a :: rest => do
    let k ← k.toNat?; let a ← a.toNat?; let more ← parseOps rest; pure (.get k a :: more)
  | "hand" :: k :: o :: c :: rest => do
    let k ← k.toNat?; let o ← o.toNat?; let c ← c.toNat?; let more ← parseOps rest; pure (.hand k o c :: more)
  | "setframe" :: i :: b :: rest => do
    let i ← i.toNat?; let b ← b.toNat?; let more ← parseOps rest; pure (.setFrame i b :: more)
  | "setval" :: i :: j :: x :: rest => do
    let i ← i.toNat?; let j ← j.toNat?; let x ← fOfStr? x; let more ← parseOps rest; pure (.setVal i j x :: more)
  | "read" :: i :: rest => do
    let i ← i.toNat?; let more ← parseOps rest; pure (.read i :: more)
  | "copy" :: i :: b :: rest => do
    let i ← i.toNat?; let b ← b.toNat?; let more ← parseOps rest; pure (.copyTo i b :: more)
  | "offset" :: k :: a :: b :: rest => do
    let k ← k.toNat?; let a ← a.toNat?; let b ← b.toNat?; let more ← parseOps rest; pure (.offset k a b :: more)
  | "center" :: k :: a :: b :: rest => do
    let k ← k.toNat?; let a ← a.toNat?; let b ← b.toNat?; let more ← parseOps rest; pure (.center k a b :: more)
  | "asframe" :: i :: x :: rest => do
    let i ← i.toNat?; let x ← x.toNat?; let more ← parseOps rest; pure (.asFrame i x :: more)
  | "asframeeph" :: i :: x :: rest => do
    let i ← i.toNat?; let x ← x.toNat?; let more ← parseOps rest; pure (.asFrameEph i x :: more)
  | _ => none

/-- `seq <npairs> <c-t>… <natt> <x-link-obj-cen>… <ndates> <6·npairs·ndates floats> <ops…>`: a history of requests
against one kernel with the frames already attached in that process; the answers separated by `|`.
ops: `get k a` · `hand k o c` · `setframe i b` · `setval i j <bits>` · `read i` · `copy i b` · `offset k a b` ·
`center k a b` · `asframe i x` · `asframeeph i x` (k = date number, i = number of the object in order of creation). -/
def handleSeq (toks : List String) : String :=
  match toks with
  | n :: rest =>
    match n.toNat? with
    | none => "bad-op"
    | some n =>
      match (rest.take n).mapM parsePair?, (rest.drop n) with
      | some ps, na :: rest2 =>
        match na.toNat? with
        | none => "bad-op"
        | some na =>
          match (rest2.take na).mapM parseAtt?, (rest2.drop na) with
          | some att, nd :: rest3 =>
            match nd.toNat? with
            | none => "bad-op"
            | some nd =>
              match parseDates ps nd rest3 with
              | some (tabs, rest4) =>
                match parseOps rest4 with
                | some ops =>
                  let seg : Nat → Nat → Nat → V6 := fun k => segOf (tabs.getD k [])
                  let nAtt := (ops.filter (fun o => match o with | .asFrame _ _ => true | .asFrameEph _ _ => true | _ => false)).length
                  let fuel := 2 * (ps.length + att.length + nAtt) + 4
                  match run fuel ps seg ⟨[], att⟩ ops with
                  | some (_, rs) => joinWith " | " (rs.map showRes)
                  | none => "bad-index"
                | none => "bad-op"
              | none => "bad-op"
          | _, _ => "bad-op"
      | _, _ => "bad-op"
  | _ => "bad-op"

/-- three floats per requested date -/
def parseTriples : Nat → List String → Option (List (Float × Float × Float))
  | 0, [] => some []
  | 0, _ => none
  | n + 1, toks => do
    let (fs, rest) ← takeFloats 3 toks
    let more ← parseTriples n rest
    match fs with
    | [a, b, c] => pure ((a, b, c) :: more)
    | _ => none

/-- `suntab <n> <3n floats>` / `moontab …`: a tabulation over `n` dates, each given by the Julian centuries of
(date − step, date, date + step); the states separated by `|` -/
def handleTab (tab : List (Float × Float × Float) → List (List Float)) (n : String) (rest : List String) : String :=
  match n.toNat? with
  | none => "bad-op"
  | some n =>
    match parseTriples n rest with
    | some args => if args.isEmpty then "bad-op" else joinWith " | " ((tab args).map fsToStr)
    | none => "bad-op"

/-- `spk <orbit|offset> <a> <b> <npairs> <c-t>… <6·npairs floats>`:
    orbit  = `jpl.get_orbit(a, date).copy(frame=b)`;
    offset = zero state vector in the frame of a, `.copy(frame=b)`.
    Segment values are jplephem's raw outputs (km, km/day) at the TDB date.
    `sun <tm> <t0> <tp>` / `moon <tm> <t0> <tp>`: `SunPropagator.propagate` / `MoonPropagator.propagate` given the
    Julian centuries of date - step, date, date + step → six floats. -/
def handle : List String → Option String
  | "spk" :: op :: a :: b :: n :: rest => some <|
    match a.toNat?, b.toNat?, n.toNat? with
    | some a, some b, some n =>
      match (rest.take n).mapM parsePair? with
      | some ps =>
        match parseSegs ps (rest.drop n) with
        | some tab =>
          let fuel := 2 * ps.length + 4
          if op == "orbit" then showRes (orbitIn fuel ps (segOf tab) a b)
          else if op == "offset" then showRes (offsetIn fuel ps (segOf tab) a b)
          else "bad-op"
        | none => "bad-op"
      | none => "bad-op"
    | _, _, _ => "bad-op"
  | "seq" :: rest => some (handleSeq rest)
  | "jdarg" :: rest => some <|
    -- `jdarg <caller d> <caller s> <tdb d> <tdb s>`: the argument `JplPropagator.propagate` hands to jplephem (expression
    -- read from the source) for a caller's date and its TDB conversion, each seen through `Date.d`, `Date.s`
    match takeFloats 4 rest with
    | some ([cd, cs, td, ts], _) => fToStr (JplArg.kernelArg ⟨cd, cs⟩ ⟨td, ts⟩)
    | _ => "bad-op"
  | "sun" :: rest => some <|
    match takeFloats 3 rest with
    | some ([tm, t0, tp], _) => fsToStr (Solar.sunState tm t0 tp)
    | _ => "bad-op"
  | "moon" :: rest => some <|
    match takeFloats 3 rest with
    | some ([tm, t0, tp], _) => fsToStr (Solar.moonState tm t0 tp)
    | _ => "bad-op"
  | "suntab" :: n :: rest => some (handleTab Solar.sunTable n rest)
  | "moontab" :: n :: rest => some (handleTab Solar.moonTable n rest)
  | _ => none

end BeyondVerif.Drv.C18
