import BeyondVerif.Model.JplF
import BeyondVerif.Model.SolarSystemF
import BeyondVerif.Drv.Util
namespace BeyondVerif.Drv.C18
open BeyondVerif BeyondVerif.Drv BeyondVerif.F BeyondVerif.F.Jpl

def parsePair? (s : String) : Option (Nat × Nat) :=
  match s.splitOn "-" with
  | [a, b] => do let a ← a.toNat?; let b ← b.toNat?; pure (a, b)
  | _ => none

/-- six floats per pair, in the order of the pairs -/
def parseSegs : List (Nat × Nat) → List String → Option (List ((Nat × Nat) × List Float))
  | [], _ => some []
  | p :: ps, toks => do
    let (fs, rest) ← takeFloats 6 toks
    let more ← parseSegs ps rest
    pure ((p, fs) :: more)

def segOf (tab : List ((Nat × Nat) × List Float)) (c t : Nat) : V6 :=
  match tab.lookup (c, t) with
  | some fs => fun i => fs.getD i.val 0.0
  | none => vzero

def showRes : Res → String
  | .ok v => "ok " ++ fsToStr ((List.finRange 6).map v)
  | .unknownBody => "unknown-body"
  | .unknownFrame => "unknown-frame"
  | .noRoute => "value-error"
  | .keyError => "key-error"
  | .noProvider => "value-error"
  | .fuel => "fuel"

/-- `spk <orbit|offset> <a> <b> <npairs> <c-t>… <6·npairs floats>`:
    orbit  = `jpl.get_orbit(a, date).copy(frame=b)`;
    offset = zero state vector in the frame of a, `.copy(frame=b)`.
    Segment values are jplephem's raw outputs (km, km/day) at the TDB date.
    `sun <tm> <t0> <tp>` / `moon <tm> <t0> <tp>`: `SunPropagator.propagate` / `MoonPropagator.propagate` given the
    Julian centuries of date - step, date, date + step → six floats. -/
def handle : List String → Option String
  | "spk" :: op :: a :: b :: n :: rest => some <|
    match a.toNat?, b.toNat?, n.toNat? with
    | some a, some b, some n =>
      match (rest.take n).mapM parsePair? with
      | some ps =>
        match parseSegs ps (rest.drop n) with
        | some tab =>
          let fuel := 2 * ps.length + 4
          if op == "orbit" then showRes (orbitIn fuel ps (segOf tab) a b)
          else if op == "offset" then showRes (offsetIn fuel ps (segOf tab) a b)
          else "bad-op"
        | none => "bad-op"
      | none => "bad-op"
    | _, _, _ => "bad-op"
  | "sun" :: rest => some <|
    match takeFloats 3 rest with
    | some ([tm, t0, tp], _) => fsToStr (Solar.sunState tm t0 tp)
    | _ => "bad-op"
  | "moon" :: rest => some <|
    match takeFloats 3 rest with
    | some ([tm, t0, tp], _) => fsToStr (Solar.moonState tm t0 tp)
    | _ => "bad-op"
  | _ => none

end BeyondVerif.Drv.C18
