import BeyondVerif.Model.PropagF
import BeyondVerif.Drv.Util
namespace BeyondVerif.Drv.C05
open BeyondVerif BeyondVerif.Drv BeyondVerif.F

def eltsToStr (x : Elts) : String := fsToStr [x.a, x.e, x.i, x.raan, x.argp, x.M]

/-- the cartesian state of propagated mean elements; `fuel` when the M2E loop of the model does not exit in 10⁴ iterations -/
def cartToStr (mu : Float) (x : Elts) : String :=
  match meanToCart 10000 mu x with
  | some c => if c.length = 6 then fsToStr c else "bad-op"
  | none => "fuel"

def stepOf (prop : String) (mu : Float) : Option (Elts → Float → Elts) :=
  if prop = "kepler" then some (keplerStep mu) else if prop = "j2" then some (j2Step mu) else none

/-- history on ONE orbit object with ONE propagator object:
`S a e i Ω ω M` — the orbit now has these mean elements (creation or in-place modification);
`P dt` — `orbit.propagate(dt)`; every `P` appends `| <6 cartesian floats>` to the reply -/
partial def runHist (stepf : Elts → Float → Elts) (mu : Float) : PropObj → Option Elts → List String → List String → Option (List String)
  | _, _, [], acc => some acc.reverse
  | p, _, "S" :: rest, acc =>
    match takeFloats 6 rest with
    | some ([a, e, i, raan, argp, M], rest) => runHist stepf mu p (some ⟨a, e, i, raan, argp, M⟩) rest acc
    | _ => none
  | p, cur, "P" :: rest, acc =>
    match cur, takeFloats 1 rest with
    | some x, some ([dt], rest) =>
      let (p', r) := orbitPropagate stepf p x dt
      match r with
      | some y => runHist stepf mu p' cur rest (cartToStr mu y :: acc)
      | none => none
    | _, _ => none
  | _, _, _, _ => none

/-- `kepler <mu> <a e i Ω ω M> <dt>` → the six mean elements after `Kepler.propagate`, `|`, the cartesian state
    `j2 <mu> <a e i Ω ω M> <dt>`     → the same for `J2.propagate`
    `hist <kepler|j2> <mu> <S…|P…>…` → `|`-separated cartesian states, one per `P`
    `c05const`                       → G, Earth mass, Earth µ, Earth radius, J2 as regenerated
    `c05sso <a> <e>`                 → cos of the inclination returned by leo.sso(a=a, e=e), and ω_e -/
def handle : List String → Option String
  | "kepler" :: rest => some <|
    match takeFloats 8 rest with
    | some ([mu, a, e, i, raan, argp, M, dt], []) =>
      let y := keplerStep mu ⟨a, e, i, raan, argp, M⟩ dt
      eltsToStr y ++ " | " ++ cartToStr mu y
    | _ => "bad-op"
  | "j2" :: rest => some <|
    match takeFloats 8 rest with
    | some ([mu, a, e, i, raan, argp, M, dt], []) =>
      let y := j2Step mu ⟨a, e, i, raan, argp, M⟩ dt
      eltsToStr y ++ " | " ++ cartToStr mu y
    | _ => "bad-op"
  | "hist" :: prop :: mu :: rest => some <|
    match stepOf prop ((fOfStr? mu).getD 0.0), fOfStr? mu with
    | some stepf, some m =>
      match runHist stepf m ⟨none⟩ none rest [] with
      | some outs => joinWith " | " outs
      | none => "bad-op"
    | _, _ => "bad-op"
  | ["c05const"] => some (fsToStr [gravG, earthMass, earthMu, earthR, earthJ2])
  | "c05sso" :: rest => some <|
    match takeFloats 2 rest with
    | some ([a, e], []) => fsToStr [ssoCosI a e, ssoOmegaE]
    | _ => "bad-op"
  | _ => none

end BeyondVerif.Drv.C05
