import BeyondVerif.Model.PropagF
import BeyondVerif.Drv.Util
namespace BeyondVerif.Drv.C05
open BeyondVerif BeyondVerif.Drv BeyondVerif.F

def eltsToStr (x : Elts) : String := fsToStr [x.a, x.e, x.i, x.raan, x.argp, x.M]

/-- `kepler <mu> <a e i Ω ω M> <dt>` → the six mean elements after `Kepler.propagate`
    `j2 <mu> <a e i Ω ω M> <dt>`     → the six mean elements after `J2.propagate`
    `c05const`                       → G, Earth mass, Earth µ, Earth radius, J2 as regenerated
    `c05sso <a> <e>`                 → cos of the inclination returned by leo.sso(a=a, e=e), and ω_e -/
def handle : List String → Option String
  | "kepler" :: rest => some <|
    match takeFloats 8 rest with
    | some ([mu, a, e, i, raan, argp, M, dt], []) => eltsToStr (keplerStep mu ⟨a, e, i, raan, argp, M⟩ dt)
    | _ => "bad-op"
  | "j2" :: rest => some <|
    match takeFloats 8 rest with
    | some ([mu, a, e, i, raan, argp, M, dt], []) => eltsToStr (j2Step mu ⟨a, e, i, raan, argp, M⟩ dt)
    | _ => "bad-op"
  | ["c05const"] => some (fsToStr [gravG, earthMass, earthMu, earthR, earthJ2])
  | "c05sso" :: rest => some <|
    match takeFloats 2 rest with
    | some ([a, e], []) => fsToStr [ssoCosI a e, ssoOmegaE]
    | _ => "bad-op"
  | _ => none

end BeyondVerif.Drv.C05
