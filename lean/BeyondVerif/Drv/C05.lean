import BeyondVerif.Model.PropagF
import BeyondVerif.Model.DateCfg
import BeyondVerif.Generated.TdbF
import BeyondVerif.Drv.Util
namespace BeyondVerif.Drv.C05
open BeyondVerif BeyondVerif.Drv BeyondVerif.F

def eltsToStr (x : Elts) : String := fsToStr [x.a, x.e, x.i, x.raan, x.argp, x.M]

/-- the cartesian state of propagated mean elements; `fuel` when the M2E loop of the model does not exit in 10⁴ iterations -/
def cartToStr (mu : Float) (x : Elts) : String :=
  match meanToCart 10000 mu x with
  | some c => if c.length = 6 then fsToStr c else "bad-op"
  | none => "fuel"

def stepOf (prop : String) (mu : Float) : Option (Elts → Float → Elts) :=
  if prop = "kepler" then some (keplerStep mu) else if prop = "j2" then some (j2Step mu) else none

/-- history on ONE orbit object with ONE propagator object:
`S a e i Ω ω M` — the orbit now has these mean elements (creation or in-place modification);
`P dt` — `orbit.propagate(dt)`; every `P` appends `| <6 cartesian floats>` to the reply -/
partial def runHist (stepf : Elts → Float → Elts) (mu : Float) : PropObj → Option Elts → List String → List String → Option (List String)
  | _, _, [], acc => some acc.reverse
  | p, _, "S" :: rest, acc =>
    match takeFloats 6 rest with
    | some ([a, e, i, raan, argp, M], rest) => runHist stepf mu p (some ⟨a, e, i, raan, argp, M⟩) rest acc
    | _ => none
  | p, cur, "P" :: rest, acc =>
    match cur, takeFloats 1 rest with
    | some x, some ([dt], rest) =>
      let (p', r) := orbitPropagate stepf p x dt
      match r with
      | some y => runHist stepf mu p' cur rest (cartToStr mu y :: acc)
      | none => none
    | _, _ => none
  | _, _, _, _ => none


/-! ### dates: the C03 model instantiated with the configuration regenerated from /repo -/

/-- the TDB−TT term of the translated float formula, rounded to ticks (as in the C03 driver) -/
def tdbTicks (num : Int) : Int :=
  let mjd : Float := Float.ofInt num / 864000000000.0
  (Float.round (F.tdbMinusTt mjd * 10000000.0)).toInt64.toInt

/-- the Earth-orientation environment of a request (missing-data policy `pass` throughout):
`zero` — no database: every lookup misses, all corrections are 0;
`mock:<TAI−UTC ticks>:<UT1−UTC ticks>` — a database returning the same record for every date;
`real` — the IERS tables shipped with the repository (tests/data/pole, regenerated into Generated/EopTable) -/
def envOf? (s : String) : Option Date.Env :=
  if s = "zero" then some ⟨fun _ => none, [], .pass, tdbTicks⟩
  else if s = "real" then some ⟨Date.finalsLookup, Generated.leapTable, .pass, tdbTicks⟩
  else match s.splitOn ":" with
    | ["mock", t, u] =>
      match iOfStr? t, iOfStr? u with
      | some t, some u => some ⟨fun _ => some u, [(-1000000, t)], .pass, tdbTicks⟩
      | _, _ => none
    | _ => none

def scaleOf? (s : String) : Option Nat :=
  let i := Generated.scalesNames.idxOf s
  if i < Generated.scalesNames.length then some i else none

def errStr : Date.Err → String
  | .missingEop => "missing-eop"
  | .unknownConv => "unknown-conversion"
  | .noRoute => "no-route"
  | .nullStep => "null-step"
  | .incoherent => "incoherent"
  | .fuel => "fuel"

/-- `Date(datetime, scale=…)`: scale name and clock reading in µs since the MJD origin -/
def dateOf? (env : Date.Env) (scale us : String) : Option (Except Date.Err Date.Date) := do
  let sc ← scaleOf? scale
  let us ← iOfStr? us
  pure (Date.ofDatetime Date.cfg env sc us)

def toOf (prop : String) (mu : Float) : Option (Orb → Date.Date → Orb) :=
  if prop = "kepler" then some (keplerTo mu) else if prop = "j2" then some (j2To mu) else none

def toTdOf (prop : String) (env : Date.Env) (mu : Float) : Option (Orb → Int → Except Date.Err Orb) :=
  if prop = "kepler" then some (keplerToTd Date.cfg env mu) else if prop = "j2" then some (j2ToTd Date.cfg env mu) else none

/-- what is reported of a propagation to a date: the cartesian state, the span (`date − epoch`, µs), the reference-scale
datetime (µs) and the scale of the date the result carries -/
def showTo (mu : Float) (epoch : Date.Date) (r : Orb) : String :=
  cartToStr mu r.elts ++ " @ " ++ toString (Date.subDate r.date epoch) ++ " " ++ toString r.date.datetimeRef ++ " "
    ++ Generated.scalesNames.getD r.date.scale "?"

/-- the target of one propagation: `D <scale> <µs>` (a date) or `T <µs>` (a timedelta); returns the propagated orbit -/
def targetTo (prop : String) (env : Date.Env) (mu : Float) (p : PropObjD) (o : Orb) :
    List String → Option (Except Date.Err (PropObjD × Orb) × List String)
  | "D" :: scale :: us :: rest =>
    match toOf prop mu, dateOf? env scale us with
    | some toF, some (.ok d) =>
      match orbitPropagateTo toF p o d with
      | (p', some r) => some (.ok (p', r), rest)
      | _ => none
    | some _, some (.error e) => some (.error e, rest)
    | _, _ => none
  | "T" :: td :: rest =>
    match toTdOf prop env mu, iOfStr? td with
    | some toTd, some t =>
      -- the setter runs first (`orbitPropagateTo` with the identity), then the propagator works on `_orbit`
      match orbitPropagateTo (fun c _ => c) p o o.date with
      | (p', some c) =>
        match toTd c t with
        | .ok r => some (.ok (p', r), rest)
        | .error e => some (.error e, rest)
      | _ => none
    | _, _ => none
  | _ => none

/-- history on ONE orbit object with ONE propagator object, dates included:
`S a e i Ω ω M` — the orbit now has these mean elements; `E <scale> <µs>` — the orbit's epoch is now this date;
`D <scale> <µs>` / `T <µs>` — `orbit.propagate(date | timedelta)`; each appends `| <cartesian> @ <span µs> <datetime µs> <scale>` -/
partial def runHistD (prop : String) (env : Date.Env) (mu : Float) :
    PropObjD → Option Elts → Option Date.Date → List String → List String → Option (List String)
  | _, _, _, [], acc => some acc.reverse
  | p, _, dt, "S" :: rest, acc =>
    match takeFloats 6 rest with
    | some ([a, e, i, raan, argp, M], rest) => runHistD prop env mu p (some ⟨a, e, i, raan, argp, M⟩) dt rest acc
    | _ => none
  | p, x, _, "E" :: scale :: us :: rest, acc =>
    match dateOf? env scale us with
    | some (.ok d) => runHistD prop env mu p x (some d) rest acc
    | some (.error e) => some (("err " ++ errStr e) :: acc).reverse
    | none => none
  | p, some x, some d, toks, acc =>
    match targetTo prop env mu p ⟨x, d⟩ toks with
    | some (.ok (p', r), rest) => runHistD prop env mu p' (some x) (some d) rest (showTo mu d r :: acc)
    | some (.error e, _) => some (("err " ++ errStr e) :: acc).reverse
    | none => none
  | _, _, _, _, _ => none

/-- `kepler <mu> <a e i Ω ω M> <dt>` → the six mean elements after `Kepler.propagate`, `|`, the cartesian state
    `j2 <mu> <a e i Ω ω M> <dt>`     → the same for `J2.propagate`
    `propc <kepler|j2> <mu> <x y z vx vy vz> <dt>` → the whole of `Orbit.propagate` on a CARTESIAN orbit: the mean elements the
                                        setter computes, `|`, the cartesian state returned
    `hist <kepler|j2> <mu> <S…|P…>…` → `|`-separated cartesian states, one per `P`
    `histd <kepler|j2> <env> <mu> <S…|E…|D…|T…>…` → the same with dates: epoch and targets given as (scale, clock reading),
                                        the span is computed by the date model; `|`-separated `cart @ span datetime scale`
    `c05const`                       → G, Earth mass, Earth µ, Earth radius, J2 as regenerated
    `c05sso <a> <e>`                 → cos of the inclination returned by leo.sso(a=a, e=e), and ω_e -/
def handle : List String → Option String
  | "kepler" :: rest => some <|
    match takeFloats 8 rest with
    | some ([mu, a, e, i, raan, argp, M, dt], []) =>
      let y := keplerStep mu ⟨a, e, i, raan, argp, M⟩ dt
      eltsToStr y ++ " | " ++ cartToStr mu y
    | _ => "bad-op"
  | "j2" :: rest => some <|
    match takeFloats 8 rest with
    | some ([mu, a, e, i, raan, argp, M, dt], []) =>
      let y := j2Step mu ⟨a, e, i, raan, argp, M⟩ dt
      eltsToStr y ++ " | " ++ cartToStr mu y
    | _ => "bad-op"
  | "propc" :: prop :: rest => some <|
    match takeFloats 8 rest with
    | some ([mu, c0, c1, c2, c3, c4, c5, dt], []) =>
      match stepOf prop mu with
      | some stepf =>
        match eltsOfList (cartToMean mu [c0, c1, c2, c3, c4, c5]) with
        | some x =>
          eltsToStr x ++ " | " ++ (match orbitPropagateCart stepf 10000 mu [c0, c1, c2, c3, c4, c5] dt with
            | some c => if c.length = 6 then fsToStr c else "bad-op"
            | none => "fuel")
        | none => "bad-op"
      | none => "bad-op"
    | _ => "bad-op"
  | "hist" :: prop :: mu :: rest => some <|
    match stepOf prop ((fOfStr? mu).getD 0.0), fOfStr? mu with
    | some stepf, some m =>
      match runHist stepf m ⟨none⟩ none rest [] with
      | some outs => joinWith " | " outs
      | none => "bad-op"
    | _, _ => "bad-op"
  | "histd" :: prop :: envs :: mu :: rest => some <|
    match envOf? envs, fOfStr? mu with
    | some env, some m =>
      match runHistD prop env m ⟨none⟩ none none rest [] with
      | some outs => joinWith " | " outs
      | none => "bad-op"
    | _, _ => "bad-op"
  | ["c05const"] => some (fsToStr [gravG, earthMass, earthMu, earthR, earthJ2])
  | "c05sso" :: rest => some <|
    match takeFloats 2 rest with
    | some ([a, e], []) => fsToStr [ssoCosI a e, ssoOmegaE]
    | _ => "bad-op"
  | _ => none

end BeyondVerif.Drv.C05
