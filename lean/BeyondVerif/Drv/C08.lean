import BeyondVerif.Model.Iter
import BeyondVerif.Generated.IterConst
import BeyondVerif.Drv.Util
namespace BeyondVerif.Drv.C08
open BeyondVerif BeyondVerif.Drv BeyondVerif.Iter

def kindOf? : String → Option Kind
  | "sgp4" => some .sgp4 | "kepler" => some .kepler | "j2" => some .j2 | "none" => some .none
  | "num" => some .num | "cw" => some .cw | "ephem" => some .ephem | _ => none

def ints? (s : String) : Option (List Int) :=
  if s = "" then some [] else (s.splitOn ",").mapM iOfStr?

/-- `-` absent, `N` None, else an integer -/
def optopt? (s : String) : Option (Option (Option Int)) :=
  if s = "-" then some none else if s = "N" then some (some none) else (iOfStr? s).map (fun v => some (some v))

def stop? (s : String) : Option (Option Stop) :=
  if s = "-" then some none
  else match s.splitOn ":" with
    | ["a", v] => (iOfStr? v).map (fun v => some (.at v))
    | ["d", v] => (iOfStr? v).map (fun v => some (.delta v))
    | _ => none

/-- number of walks of the caller's `dates` object at the iteration site of the kind (`Generated.datesWalks`, from the source) -/
def walksOf (k : Kind) : Nat :=
  (Generated.datesWalks.lookup (match k with | .ephem => "ephem" | .num => "num" | _ => "analytical")).getD 1

/-- `L:` an object that can be walked again and again, `G:` a single-use iterator: what the propagation loop of the site sees -/
def dates? (k : Kind) (s : String) : Option (Option Dates) :=
  if s = "-" then some none
  else match s.splitOn ":" with
    | ["L", v] => (ints? v).map (fun l => some (.list ((Src.again l).walkN (walksOf k)).1))
    | ["G", v] => (ints? v).map (fun l => some (.list ((Src.once l).walkN (walksOf k)).1))
    | ["R", v] => match ints? v with
      | some [a, b, c, i] => some (some (.range a b c (i != 0)))
      | _ => none
    | _ => none

def field? (key : String) (kv : List String) : Option String :=
  kv.findSome? (fun t => match t.splitOn "=" with
    | [k, v] => if k = key then some v else none
    | _ => none)

/-- `start=..;stop=..;step=..;dates=..;strict=0|1` -/
def args? (k : Kind) (s : String) : Option Args := do
  let kv := s.splitOn ";"
  let start ← optopt? (← field? "start" kv)
  let stop ← stop? (← field? "stop" kv)
  let stepS ← field? "step" kv
  -- `S`: the object passed is `propagator.step` itself (its value is the `h` of the line, filled in by `mkWorld`'s caller)
  let step ← if stepS = "S" then some (some (some 0)) else optopt? stepS
  let dates ← dates? k (← field? "dates" kv)
  let strict ← field? "strict" kv
  pure { start := start, stop := stop, step := step, dates := dates, strict := strict != "0", stepSame := stepS = "S" }

def errStr : Err → String
  | .value => "value-error" | .attr => "attribute-error" | .type => "type-error" | .index => "index-error"

def finStr : Fin → String
  | .done => "done" | .fuel => "fuel" | .err e => errStr e

def runStr (r : Run) : String := joinWith "," (r.dates.map toString) ++ " " ++ finStr r.fin

/-- orbit values of the harness: (object, number of changes of its elements, number of changes of its drag term);
`Sgp4._state` sees both -/
def mkWorld (k : Kind) (order : Nat) (h : Int) (npts : Nat) (rs : List Int := []) : World (Nat × Nat × Nat) :=
  { kind := k, store := Prod.mk, sameState := fun a b => a == b, rs := fun len => rs.getD (len - 1) h,
    stepIdent := Generated.numStepTestIsIdentity, epoch := fun _ => 0, h := h, order := order, pts := (List.range npts).map (fun (j : Nat) => Int.ofNat j * h) }

def call? (k : Kind) (s : String) : Option Call :=
  match s.splitOn "/" with
  | ["P", o, d] => do pure (.propagate (← o.toNat?) (← iOfStr? d))
  | ["M", o] => do pure (.modify (← o.toNat?))
  | ["B", o] => do pure (.modifyMeta (← o.toNat?))
  | ["I", o, c, ls, a] => do
    let ls ← if ls = "-" then some [] else (ls.splitOn ".").mapM String.toNat?
    pure (.iter (← o.toNat?) (← args? k a) ls (← c.toNat?))
  | _ => none

def optStr : Option Int → String
  | none => "N" | some d => toString d

/-- the harness' test listener watches a quantity that changes sign every `flipPeriod` µs of the date -/
def flipPeriod : Int := 700000000
/-- the sign changes fall between the points of the 0.125 s grid the generated dates lie on (an event exactly on a
sampled date is C10's subject) -/
def flipOffset : Int := 31250

def flips (_k : Kind) (p d : Int) : Bool :=
  ((p - flipOffset) / flipPeriod) % 2 != ((d - flipOffset) / flipPeriod) % 2

/-- `step=S`: the value of `propagator.step` -/
def ownStep (h : Int) (a : Args) : Args := if a.stepSame then { a with step := some (some h) } else a

def histOp (k : Kind) (fuel order : Nat) (h : Int) (npts nls : Nat) (calls : List Call) : String :=
  let w := mkWorld k order h npts
  let calls := calls.map (fun c => match c with | .iter i a ls n => Call.iter i (ownStep h a) ls n | c => c)
  let s0 : St (Nat × Nat × Nat) := { prev := List.replicate nls none }
  let (_, outs) := calls.foldl (fun (acc : St (Nat × Nat × Nat) × List String) c =>
    let (s, res) := exec (R := Nat × Nat × Nat) w (fun v _ => v) (fun _ p d => flips k p d) fuel acc.1 c
    let b := match s.bound with | some (i, _) => toString i | none => "N"
    -- whose trajectory (orbit object, number of in-place modifications it had seen) the first state lies on
    let v := match res.states.head?, k with
      | _, .ephem => "-"
      | some (j, a, b), _ => s!"{j}.{a + b}"
      | none, _ => "-"
    (s, acc.2 ++ [runStr res.run ++ s!" b{b} r{s.rebinds} v{v} e{(res.evs.map List.length).sum} p" ++ joinWith "," (s.prev.map optStr)])) (s0, [])
  joinWith " | " outs

def iop? (k : Kind) (h : Int) (s : String) : Option IOp :=
  match s.splitOn "/" with
  | ["C", o, a] => do pure (.create (← o.toNat?) (ownStep h (← args? k a)))
  | ["A", it, k] => do pure (.advance (← it.toNat?) (← k.toNat?))
  | ["P", o, d] => do pure (.propagate (← o.toNat?) (← iOfStr? d))
  | _ => none

/-- interleaved generators: per operation `dates source end` (source = the orbit object whose trajectory the states lie on) -/
def interOp (k : Kind) (fuel order : Nat) (h : Int) (props : List Nat) (epochs : List Int) (ops : List IOp) : String :=
  let w : IWorld := { kind := k, propOf := fun o => props.getD o o, epoch := fun o => epochs.getD o 0, h := h, order := order }
  let (_, outs) := ops.foldl (fun (acc : ISt × List String) op =>
    let (s, out, fin) := istep w fuel acc.1 op
    let src := match out.head? with | some (_, o) => toString o | none => "-"
    (s, acc.2 ++ [joinWith "," (out.map (fun x => toString x.1)) ++ " " ++ src ++ " " ++ finStr fin])) ({}, [])
  joinWith " | " outs

def handle : List String → Option String
  | ["c08iter", k, fuel, order, h, npts, a, rs] =>
    -- `rs`: lengths of the integration steps the real propagator took in its main loop (`-`: none recorded: all `h`)
    some (match kindOf? k, fuel.toNat?, order.toNat?, iOfStr? h, npts.toNat?, (kindOf? k).bind (args? · a), (if rs = "-" then some [] else ints? rs) with
      | some k, some fuel, some order, some h, some npts, some a, some rs =>
        runStr (iterRun (mkWorld k order h npts rs) fuel 0 (ownStep h a) false).2
      | _, _, _, _, _, _, _ => "bad-op")
  | "c08inter" :: k :: fuel :: order :: h :: props :: epochs :: ops =>
    some (match kindOf? k, fuel.toNat?, order.toNat?, iOfStr? h, (props.splitOn ".").mapM String.toNat?, (epochs.splitOn ".").mapM iOfStr? with
      | some k, some fuel, some order, some h, some props, some epochs =>
        match ops.mapM (iop? k h) with
        | some ops => interOp k fuel order h props epochs ops
        | none => "bad-op"
      | _, _, _, _, _, _ => "bad-op")
  | "c08hist" :: k :: fuel :: order :: h :: npts :: nls :: calls =>
    some (match kindOf? k, fuel.toNat?, order.toNat?, iOfStr? h, npts.toNat?, nls.toNat?, (kindOf? k).bind (fun kk => calls.mapM (call? kk)) with
      | some k, some fuel, some order, some h, some npts, some nls, some calls => histOp k fuel order h npts nls calls
      | _, _, _, _, _, _, _ => "bad-op")
  | _ => none

end BeyondVerif.Drv.C08
