import BeyondVerif.Model.DateCfg
import BeyondVerif.Model.EopFile
import BeyondVerif.Model.DateDbl
import BeyondVerif.Generated.TdbF
import BeyondVerif.Drv.Util
/-! Line-protocol handler of C03 (dates). Times travel as decimal integers (ticks of 1e-7 s or microseconds). -/
namespace BeyondVerif.Drv.C03
open BeyondVerif BeyondVerif.Drv BeyondVerif.Date BeyondVerif.Generated

/-- the TDB−TT term of the translated float formula, rounded to ticks -/
def tdbTicks (num : Int) : Int :=
  let mjd : Float := Float.ofInt num / 864000000000.0
  (Float.round (F.tdbMinusTt mjd * 10000000.0)).toInt64.toInt

def envOf (p : Policy) : Env := ⟨finalsLookup, leapTable, p, tdbTicks⟩

def policyOf? : String → Option Policy
  | "pass" => some .pass
  | "warning" => some .warn
  | "error" => some .error
  | _ => none

def scaleOf? (s : String) : Option Nat :=
  let i := scalesNames.idxOf s
  if i < scalesNames.length then some i else none

def errStr : Err → String
  | .missingEop => "missing-eop"
  | .unknownConv => "unknown-conversion"
  | .noRoute => "no-route"
  | .nullStep => "null-step"
  | .incoherent => "incoherent"
  | .fuel => "fuel"

def b (x : Bool) : String := if x then "1" else "0"

/-- a file line travels with `~` for every blank (request lines are split at blanks) -/
def decodeLine (s : String) : List Char := s.toList.map (fun c => if c == '~' then ' ' else c)

/-- scale, `_datetime` µs, `datetime` µs, `_offset` ticks, eop (ticks), `d*D + s` of the scale's own clock (ticks) -/
def showDate (x : Date) : String :=
  let ds := x.toScale
  s!"ok {scalesNames.getD x.scale "?"} {x.datetimeRef} {x.datetime} {x.off} {x.eop.taiUtc} {x.eop.ut1Utc} {ds.1 * D + ds.2}"

def showRes : Except Err Date → String
  | .ok x => showDate x
  | .error e => "err " ++ errStr e

def showDbl : DblRes → String
  | .ok e d0 dU => s!"ok {e.taiUtc} {e.ut1Utc} {d0} " ++ (match dU with | some v => toString v | none => "-")
  | .raised => "raised"
  | .outOfModel => "out-of-model"

def mkOf (env : Env) (scale : String) (us : String) : Option (Except Err Date) := do
  let sc ← scaleOf? scale
  let us ← iOfStr? us
  pure (ofDatetime cfg env sc us)

def handle : List String → Option String
  -- Date(d, s) with s in ticks
  | ["d3mk", pol, scale, d, s] => some <| Id.run do
    let some p := policyOf? pol | return "bad-op"
    let some sc := scaleOf? scale | return "err unknown-scale"
    let some d := iOfStr? d | return "bad-op"
    let some s := iOfStr? s | return "bad-op"
    return showRes (mk cfg (envOf p) sc d s)
  -- Date(datetime, scale)
  | ["d3dt", pol, scale, us] => some <| Id.run do
    let some p := policyOf? pol | return "bad-op"
    let some r := mkOf (envOf p) scale us | return "bad-op"
    return showRes r
  | ["d3chg", pol, scale, us, new] => some <| Id.run do
    let some p := policyOf? pol | return "bad-op"
    let some r := mkOf (envOf p) scale us | return "bad-op"
    let some nw := scaleOf? new | return "err unknown-scale"
    match r with
    | .error e => return "err " ++ errStr e
    | .ok x => return showRes (changeScale cfg (envOf p) x nw)
  | ["d3add", pol, scale, us, t] => some <| Id.run do
    let some p := policyOf? pol | return "bad-op"
    let some r := mkOf (envOf p) scale us | return "bad-op"
    let some t := iOfStr? t | return "bad-op"
    match r with
    | .error e => return "err " ++ errStr e
    | .ok x => return showRes (add cfg (envOf p) x t)
  -- two dates: difference (µs), <, <=, ==, >=, >, hash equal
  | ["d3cmp", pol, sa, ua, sb, ub] => some <| Id.run do
    let some p := policyOf? pol | return "bad-op"
    let some ra := mkOf (envOf p) sa ua | return "bad-op"
    let some rb := mkOf (envOf p) sb ub | return "bad-op"
    match ra, rb with
    | .ok x, .ok y => return s!"ok {subDate x y} {b (x.lt y)} {b (x.le y)} {b (x.eq y)} {b (x.ge y)} {b (x.gt y)} {b (x.hashKey == y.hashKey)} {x.inst - y.inst}"
    | _, _ => return "err missing-eop"
  -- EopDb.get(mjd) with mjd = num / D
  | ["d3eop", pol, num] => some <| Id.run do
    let some p := policyOf? pol | return "bad-op"
    let some num := iOfStr? num | return "bad-op"
    match eopGet (envOf p) num with
    | .found e => return s!"found {e.taiUtc} {e.ut1Utc}"
    | .zeroSilent => return "zero-silent"
    | .zeroWarned => return "zero-warned"
    | .raised => return "raised"
  -- SimpleEopDatabase.tai_utc(mjd) alone (also outside the days of the finals files), mjd = num / D
  | ["d3tai", num] => some <| Id.run do
    let some num := iOfStr? num | return "bad-op"
    match taiUtcAt leapTable num with
    | some v => return s!"ok {v}"
    | none => return "err key"
  -- TaiUtc.get_last_next(mjd): past and future entries
  | ["d3lnx", num] => some <| Id.run do
    let some num := iOfStr? num | return "bad-op"
    let sh : Option (Int × Int) → String := fun o => match o with
      | some e => s!"{e.1} {e.2}"
      | none => "none none"
    let r := lastNext leapTable num
    return s!"ok {sh r.1} {sh r.2}"
  -- SimpleEopDatabase.finals(mjd)["ut1_utc"] alone: `_finals[int(mjd)]`
  | ["d3fin", num] => some <| Id.run do
    let some num := iOfStr? num | return "bad-op"
    match finalsLookup (Int.tdiv num D) with
    | some v => return s!"ok {v}"
    | none => return "err key"
  -- one line of tai-utc.dat (blanks travel as `~`) through the column parser of Model/EopFile.lean
  | ["d3ptai", line] => some <|
    match EopFile.taiLine (decodeLine line) with
    | .skip => "skip"
    | .crash => "crash"
    | .entry m v => s!"ok {m} {v}"
  | ["d3ptai"] => some "skip"
  -- one line of finals.* / finals2000A.*
  | ["d3pfin", line] => some <|
    match EopFile.finLine (decodeLine line) with
    | .crash => "crash"
    | .stop m => s!"stop {m}"
    | .row m u => s!"ok {m} {u}"
  | ["d3pfin"] => some "crash"
  -- the regenerated tables the theorems are instantiated with: entry i of leapTable, the finals cell of a day
  | ["d3gleap", i] => some <| Id.run do
    let some i := i.toNat? | return "bad-op"
    match leapTable[i]? with
    | some e => return s!"ok {e.1} {e.2}"
    | none => return "end"
  | ["d3tdb", mjd] => some <| Id.run do
    let some x := fOfStr? mjd | return "bad-op"
    return fToStr (F.tdbMinusTt x)
  -- offset between two scales, symbolic eop given explicitly: d3off from to num tai ut1
  | ["d3off", frm, to, num, tai, ut1] => some <| Id.run do
    let some f := scaleOf? frm | return "err unknown-scale"
    let some t := scaleOf? to | return "err unknown-scale"
    let some num := iOfStr? num | return "bad-op"
    let some tai := iOfStr? tai | return "bad-op"
    let some ut1 := iOfStr? ut1 | return "bad-op"
    match offset cfg (envOf .pass) f t num ⟨tai, ut1⟩ with
    | .ok v => return s!"ok {v}"
    | .error e => return "err " ++ errStr e
  -- DateRange on instants (µs): start stop step incl probe…
  | "d3rng" :: start :: stop :: step :: incl :: probes => some <| Id.run do
    let some start := iOfStr? start | return "bad-op"
    let some stop := iOfStr? stop | return "bad-op"
    let some step := iOfStr? step | return "bad-op"
    let some probes := probes.mapM iOfStr? | return "bad-op"
    match Range.make start stop step (incl == "1") with
    | .error e => return "err " ++ errStr e
    | .ok r =>
      match r.iter 100000 with
      | none => return "err fuel"
      | some l =>
        return s!"ok {r.len} I " ++ joinWith "," (l.map toString) ++ " C " ++ joinWith "" (probes.map (fun x => b (r.contains x)))
          ++ " Y " ++ joinWith "" (l.map (fun x => b (r.contains x)))
  -- the record `Date(d, s, scale=…)` picks, in exact binary64 arithmetic: `s` is the double `snum / sden`
  | ["d3dbl", pol, scale, d, snum, sden] => some <| Id.run do
    let some p := policyOf? pol | return "bad-op"
    let some sc := scaleOf? scale | return "err unknown-scale"
    let some d := iOfStr? d | return "bad-op"
    let some sn := iOfStr? snum | return "bad-op"
    let some sd := sden.toNat? | return "bad-op"
    if sd = 0 then return "bad-op"
    return showDbl (eopForF cfg (envOf p) sc d ((sn : Rat) / (sd : Rat)))
  -- … and of `Date(datetime, scale=…)`: `_convert_dt` gives `d`, `delta.seconds + delta.microseconds * 1e-6`
  | ["d3dbldt", pol, scale, us] => some <| Id.run do
    let some p := policyOf? pol | return "bad-op"
    let some sc := scaleOf? scale | return "err unknown-scale"
    let some us := iOfStr? us | return "bad-op"
    let tod := (us % DUS).toNat
    return showDbl (eopForF cfg (envOf p) sc (us / DUS) (sOfDt (tod / 1000000) (tod % 1000000)))
  | _ => none

end BeyondVerif.Drv.C03
