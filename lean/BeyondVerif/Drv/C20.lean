import BeyondVerif.Model.Node
import BeyondVerif.Model.Registry
import BeyondVerif.Model.RegistryStr
import BeyondVerif.Generated.RegSites
import BeyondVerif.Drv.Util
namespace BeyondVerif.Drv.C20
open BeyondVerif BeyondVerif.Drv

def parseEdge? (s : String) : Option (Nat × Nat) :=
  match s.splitOn "-" with
  | [a, b] => do let a ← a.toNat?; let b ← b.toNat?; pure (a, b)
  | _ => none

/-- `node <n> <a-b> …` : build nodes 0..n-1, apply the links in order, dump all tables and all paths -/
def nodeOp (args : List String) : String :=
  match args with
  | n :: es =>
    match n.toNat?, es.mapM parseEdge? with
    | some n, some es =>
      let fuel := n + 2
      let g := es.foldl (fun og (e : Nat × Nat) => og.bind (fun g => Node.link fuel g e.1 e.2)) (some ([] : Node.Graph))
      match g with
      | none => "fuel"
      | some g =>
        let nodes := List.range n
        let tabs := nodes.map (fun u =>
          let rs := (Node.get g u).routes
          let rs := rs.toArray.qsort (fun a b => a.target < b.target) |>.toList
          s!"{u}:" ++ joinWith "," (rs.map (fun r => s!"{r.target}>{r.dir}/{r.steps}")))
        let nb := nodes.map (fun u => s!"{u}:" ++ joinWith "," ((Node.get g u).nbrs.map toString))
        let paths := nodes.flatMap (fun s => nodes.map (fun t =>
          match Node.path (n + 2) g s t with
          | .ok p => joinWith "." (p.map toString)
          | .unknown => "U"
          | .keyError => "K"
          | .loop => "L"))
        "N " ++ joinWith ";" nb ++ " R " ++ joinWith ";" tabs ++ " P " ++ joinWith ";" paths
    | _, _ => "bad-op"
  | _ => "bad-op"

/-! ### named routing and the method table (`Model/Registry.lean`) -/

def natList? (s : String) : Option (List Nat) :=
  if s = "-" then some [] else (s.splitOn ",").mapM (·.toNat?)

def distinctSorted (xs : List Nat) : List Nat :=
  (xs.toArray.qsort (· < ·)).toList.eraseDups

def dumpGraph (n : Nat) (g : Node.Graph) : String :=
  let nodes := List.range n
  let tabs := nodes.map (fun u =>
    let rs := (Node.get g u).routes
    let rs := rs.toArray.qsort (fun a b => a.target < b.target) |>.toList
    s!"{u}:" ++ joinWith "," (rs.map (fun r => s!"{r.target}>{r.dir}/{r.steps}")))
  let nb := nodes.map (fun u => s!"{u}:" ++ joinWith "," ((Node.get g u).nbrs.map toString))
  "N " ++ joinWith ";" nb ++ " R " ++ joinWith ";" tabs

def showPath : Node.PathRes → String
  | .ok p => joinWith "." (p.map toString)
  | .unknown => "U"
  | .keyError => "K"
  | .loop => "L"

/-- `nnode <n> <name,name,…> <a-b> …` : nodes 0..n-1 with the given names (shared names allowed), links in order;
dump neighbours, tables (keyed by NAME) and `path(s, goal name)` for every node and every distinct name -/
def nnodeOp (args : List String) : String :=
  match args with
  | n :: names :: es =>
    match n.toNat?, natList? names, es.mapM parseEdge? with
    | some n, some names, some es =>
      if names.length ≠ n then "bad-op" else
      let nm := fun i => names.getD i i
      let fuel := n + 2
      match Reg.build nm fuel es with
      | none => "fuel"
      | some g =>
        let goals := distinctSorted names
        let paths := (List.range n).flatMap (fun s => goals.map (fun t => showPath (Reg.path nm (n + 2) g s t)))
        dumpGraph n g ++ " P " ++ joinWith ";" paths
    | _, _, _ => "bad-op"
  | _ => "bad-op"

def parseMro? (s : String) : Option (List (Nat × List Nat)) :=
  (s.splitOn ";").mapM (fun part =>
    match part.splitOn ":" with
    | [c, l] => do
      let c ← c.toNat?
      let l ← (l.splitOn ".").mapM (·.toNat?)
      pure (c, l)
    | _ => none)

def parseHolder? (s : String) : Option Reg.Holder :=
  if s.startsWith "c" then (s.drop 1).toNat?.map Reg.Holder.cls
  else if s.startsWith "i" then (s.drop 1).toNat?.map Reg.Holder.inst
  else none

/-- one token: `L:a:b` | `A:<c|i><k>:ka:kb:<owner|->` | `S:<site index>:self:parent:other` → primitive operations -/
def parseRegOp? (w : Reg.World) (root : Nat) (s : String) : Option (List Reg.Op) :=
  match s.splitOn ":" with
  | ["L", a, b] => do
    let a ← a.toNat?; let b ← b.toNat?
    pure [.link a b]
  | ["A", h, ka, kb, o] => do
    let h ← parseHolder? h
    let ka ← ka.toNat?; let kb ← kb.toNat?
    let o ← if o = "-" then some none else o.toNat?.map some
    pure [.setattr h ka kb o]
  | ["S", i, a, b, c] => do
    let i ← i.toNat?; let a ← a.toNat?; let b ← b.toNat?; let c ← c.toNat?
    let site ← BeyondVerif.Generated.regSites[i]?
    pure (Reg.instSite w root ⟨a, b, c⟩ site.2)
  | _ => none

def showConv : Reg.ConvRes → String
  | .ok steps => "ok=" ++ joinWith "," (steps.map (fun s =>
      s!"{s.a}>{s.b}:" ++ (if s.direct then "d" else "r") ++ ":" ++ (match s.owner with | some o => toString o | none => "-")))
  | .unknownNode => "UN"
  | .unknownTransformation a b => s!"UT:{a}:{b}"
  | .keyError => "K"
  | .loop => "L"

/-- `reg <n> <names> <classes> <mro> <root> <op> …` : objects 0..n-1 with names and classes, MRO of each class, base
class; run the operations; dump the graph and `convert_to(start, goal name)` for every object and distinct name -/
def regOp (args : List String) : String :=
  match args with
  | n :: names :: classes :: mro :: root :: ops =>
    match n.toNat?, natList? names, natList? classes, parseMro? mro, root.toNat? with
    | some n, some names, some classes, some mro, some root =>
      if names.length ≠ n ∨ classes.length ≠ n then "bad-op" else
      let w : Reg.World := {
        nm := fun i => names.getD i i
        cls := fun i => classes.getD i 0
        mro := fun c => match mro.lookup c with | some l => l | none => [c] }
      match ops.mapM (parseRegOp? w root) with
      | none => "bad-op"
      | some opss =>
        let fuel := n + 2
        match Reg.applyOps w fuel {} opss.flatten with
        | none => "fuel"
        | some st =>
          let goals := distinctSorted names
          let conv := (List.range n).flatMap (fun s => goals.map (fun t => showConv (Reg.convert w (n + 2) st s t)))
          dumpGraph n st.g ++ " C " ++ joinWith ";" conv
    | _, _, _, _, _ => "bad-op"
  | _ => "bad-op"

def cpList? (s : String) : Option (List Nat) :=
  if s = "-" then some [] else (s.splitOn ".").mapM (·.toNat?)

/-- `sreg <n> <names> <classes> <mro> <root> <strs> <op> …` : as `reg`, but the method table is keyed by the attribute-name
STRING `f"{a}_to_{b}"` (`Model/RegistryStr.lean`); `strs` gives, for the name identifiers 0, 1, …, the code points of the
name (`;`-separated, code points joined by `.`) -/
def sregOp (args : List String) : String :=
  match args with
  | n :: names :: classes :: mro :: root :: strs :: ops =>
    match n.toNat?, natList? names, natList? classes, parseMro? mro, root.toNat?, (strs.splitOn ";").mapM cpList? with
    | some n, some names, some classes, some mro, some root, some strs =>
      if names.length ≠ n ∨ classes.length ≠ n ∨ names.any (fun k => k ≥ strs.length) then "bad-op" else
      let w : Reg.World := {
        nm := fun i => names.getD i i
        cls := fun i => classes.getD i 0
        mro := fun c => match mro.lookup c with | some l => l | none => [c] }
      let str := fun k => strs.getD k []
      match ops.mapM (parseRegOp? w root) with
      | none => "bad-op"
      | some opss =>
        let fuel := n + 2
        match RegS.applyOpsS w str fuel {} opss.flatten with
        | none => "fuel"
        | some st =>
          let goals := distinctSorted names
          let conv := (List.range n).flatMap (fun s => goals.map (fun t => showConv (RegS.convertS w str (n + 2) st s t)))
          dumpGraph n st.g ++ " C " ++ joinWith ";" conv
    | _, _, _, _, _, _ => "bad-op"
  | _ => "bad-op"

/-- `goodname <code points>` : the decidable hypothesis of `linkKey_injective` on one name -/
def goodnameOp (args : List String) : String :=
  match args with
  | [s] => match cpList? s with
    | some l => if RegS.goodName l then "1" else "0"
    | none => "bad-op"
  | _ => "bad-op"

/-- `linkkey <a> <b>` : code points of `f"{a}_to_{b}"` -/
def linkkeyOp (args : List String) : String :=
  match args with
  | [a, b] => match cpList? a, cpList? b with
    | some a, some b => joinWith "." ((LinkKey.linkKey a b).map toString)
    | _, _ => "bad-op"
  | _ => "bad-op"

/-- `sites` : labels of the regenerated registration sites, in the order of their indices -/
def sitesOp : String := joinWith ";" (BeyondVerif.Generated.regSites.map (·.1))

def handle : List String → Option String
  | "node" :: args => some (nodeOp args)
  | "nnode" :: args => some (nnodeOp args)
  | "reg" :: args => some (regOp args)
  | "sreg" :: args => some (sregOp args)
  | "goodname" :: args => some (goodnameOp args)
  | "linkkey" :: args => some (linkkeyOp args)
  | "sites" :: _ => some sitesOp
  | _ => none

end BeyondVerif.Drv.C20
