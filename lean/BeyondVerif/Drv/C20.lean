import BeyondVerif.Model.Node
import BeyondVerif.Drv.Util
namespace BeyondVerif.Drv.C20
open BeyondVerif BeyondVerif.Drv

def parseEdge? (s : String) : Option (Nat × Nat) :=
  match s.splitOn "-" with
  | [a, b] => do let a ← a.toNat?; let b ← b.toNat?; pure (a, b)
  | _ => none

/-- `node <n> <a-b> …` : build nodes 0..n-1, apply the links in order, dump all tables and all paths -/
def nodeOp (args : List String) : String :=
  match args with
  | n :: es =>
    match n.toNat?, es.mapM parseEdge? with
    | some n, some es =>
      let fuel := n + 2
      let g := es.foldl (fun og (e : Nat × Nat) => og.bind (fun g => Node.link fuel g e.1 e.2)) (some ([] : Node.Graph))
      match g with
      | none => "fuel"
      | some g =>
        let nodes := List.range n
        let tabs := nodes.map (fun u =>
          let rs := (Node.get g u).routes
          let rs := rs.toArray.qsort (fun a b => a.target < b.target) |>.toList
          s!"{u}:" ++ joinWith "," (rs.map (fun r => s!"{r.target}>{r.dir}/{r.steps}")))
        let nb := nodes.map (fun u => s!"{u}:" ++ joinWith "," ((Node.get g u).nbrs.map toString))
        let paths := nodes.flatMap (fun s => nodes.map (fun t =>
          match Node.path (n + 2) g s t with
          | .ok p => joinWith "." (p.map toString)
          | .unknown => "U"
          | .keyError => "K"
          | .loop => "L"))
        "N " ++ joinWith ";" nb ++ " R " ++ joinWith ";" tabs ++ " P " ++ joinWith ";" paths
    | _, _ => "bad-op"
  | _ => "bad-op"

def handle : List String → Option String
  | "node" :: args => some (nodeOp args)
  | _ => none

end BeyondVerif.Drv.C20
