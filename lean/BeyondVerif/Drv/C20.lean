import BeyondVerif.Model.Node
import BeyondVerif.Model.NodeSmall
import BeyondVerif.Model.Registry
import BeyondVerif.Model.RegistryStr
import BeyondVerif.Generated.RegSites
import BeyondVerif.Drv.Util
import Std.Data.HashSet
namespace BeyondVerif.Drv.C20
open BeyondVerif BeyondVerif.Drv

def parseEdge? (s : String) : Option (Nat × Nat) :=
  match s.splitOn "-" with
  | [a, b] => do let a ← a.toNat?; let b ← b.toNat?; pure (a, b)
  | _ => none

/-- `node <n> <a-b> …` : build nodes 0..n-1, apply the links in order, dump all tables and all paths -/
def nodeOp (args : List String) : String :=
  match args with
  | n :: es =>
    match n.toNat?, es.mapM parseEdge? with
    | some n, some es =>
      let fuel := n + 2
      let g := es.foldl (fun og (e : Nat × Nat) => og.bind (fun g => Node.link fuel g e.1 e.2)) (some ([] : Node.Graph))
      match g with
      | none => "fuel"
      | some g =>
        let nodes := List.range n
        let tabs := nodes.map (fun u =>
          let rs := (Node.get g u).routes
          let rs := rs.toArray.qsort (fun a b => a.target < b.target) |>.toList
          s!"{u}:" ++ joinWith "," (rs.map (fun r => s!"{r.target}>{r.dir}/{r.steps}")))
        let nb := nodes.map (fun u => s!"{u}:" ++ joinWith "," ((Node.get g u).nbrs.map toString))
        let paths := nodes.flatMap (fun s => nodes.map (fun t =>
          match Node.path (n + 2) g s t with
          | .ok p => joinWith "." (p.map toString)
          | .unknown => "U"
          | .keyError => "K"
          | .loop => "L"))
        "N " ++ joinWith ";" nb ++ " R " ++ joinWith ";" tabs ++ " P " ++ joinWith ";" paths
    | _, _ => "bad-op"
  | _ => "bad-op"

/-! ### named routing and the method table (`Model/Registry.lean`) -/

def natList? (s : String) : Option (List Nat) :=
  if s = "-" then some [] else (s.splitOn ",").mapM (·.toNat?)

def distinctSorted (xs : List Nat) : List Nat :=
  (xs.toArray.qsort (· < ·)).toList.eraseDups

def dumpGraph (n : Nat) (g : Node.Graph) : String :=
  let nodes := List.range n
  let tabs := nodes.map (fun u =>
    let rs := (Node.get g u).routes
    let rs := rs.toArray.qsort (fun a b => a.target < b.target) |>.toList
    s!"{u}:" ++ joinWith "," (rs.map (fun r => s!"{r.target}>{r.dir}/{r.steps}")))
  let nb := nodes.map (fun u => s!"{u}:" ++ joinWith "," ((Node.get g u).nbrs.map toString))
  "N " ++ joinWith ";" nb ++ " R " ++ joinWith ";" tabs

def showPath : Node.PathRes → String
  | .ok p => joinWith "." (p.map toString)
  | .unknown => "U"
  | .keyError => "K"
  | .loop => "L"

/-- `nnode <n> <name,name,…> <a-b> …` : nodes 0..n-1 with the given names (shared names allowed), links in order;
dump neighbours, tables (keyed by NAME) and `path(s, goal name)` for every node and every distinct name -/
def nnodeOp (args : List String) : String :=
  match args with
  | n :: names :: es =>
    match n.toNat?, natList? names, es.mapM parseEdge? with
    | some n, some names, some es =>
      if names.length ≠ n then "bad-op" else
      let nm := fun i => names.getD i i
      let fuel := n + 2
      match Reg.build nm fuel es with
      | none => "fuel"
      | some g =>
        let goals := distinctSorted names
        let paths := (List.range n).flatMap (fun s => goals.map (fun t => showPath (Reg.path nm (n + 2) g s t)))
        dumpGraph n g ++ " P " ++ joinWith ";" paths
    | _, _, _ => "bad-op"
  | _ => "bad-op"

def parseMro? (s : String) : Option (List (Nat × List Nat)) :=
  (s.splitOn ";").mapM (fun part =>
    match part.splitOn ":" with
    | [c, l] => do
      let c ← c.toNat?
      let l ← (l.splitOn ".").mapM (·.toNat?)
      pure (c, l)
    | _ => none)

def parseHolder? (s : String) : Option Reg.Holder :=
  if s.startsWith "c" then (s.drop 1).toNat?.map Reg.Holder.cls
  else if s.startsWith "i" then (s.drop 1).toNat?.map Reg.Holder.inst
  else none

/-- one token: `L:a:b` | `A:<c|i><k>:ka:kb:<owner|->` | `S:<site index>:self:parent:other` → primitive operations -/
def parseRegOp? (w : Reg.World) (root : Nat) (s : String) : Option (List Reg.Op) :=
  match s.splitOn ":" with
  | ["L", a, b] => do
    let a ← a.toNat?; let b ← b.toNat?
    pure [.link a b]
  | ["A", h, ka, kb, o] => do
    let h ← parseHolder? h
    let ka ← ka.toNat?; let kb ← kb.toNat?
    let o ← if o = "-" then some none else o.toNat?.map some
    pure [.setattr h ka kb o]
  | ["S", i, a, b, c] => do
    let i ← i.toNat?; let a ← a.toNat?; let b ← b.toNat?; let c ← c.toNat?
    let site ← BeyondVerif.Generated.regSites[i]?
    pure (Reg.instSite w root ⟨a, b, c⟩ site.2)
  | _ => none

def showConv : Reg.ConvRes → String
  | .ok steps => "ok=" ++ joinWith "," (steps.map (fun s =>
      s!"{s.a}>{s.b}:" ++ (if s.direct then "d" else "r") ++ ":" ++ (match s.owner with | some o => toString o | none => "-")))
  | .unknownNode => "UN"
  | .unknownTransformation a b => s!"UT:{a}:{b}"
  | .keyError => "K"
  | .loop => "L"

/-- `reg <n> <names> <classes> <mro> <root> <op> …` : objects 0..n-1 with names and classes, MRO of each class, base
class; run the operations; dump the graph and `convert_to(start, goal name)` for every object and distinct name -/
def regOp (args : List String) : String :=
  match args with
  | n :: names :: classes :: mro :: root :: ops =>
    match n.toNat?, natList? names, natList? classes, parseMro? mro, root.toNat? with
    | some n, some names, some classes, some mro, some root =>
      if names.length ≠ n ∨ classes.length ≠ n then "bad-op" else
      let w : Reg.World := {
        nm := fun i => names.getD i i
        cls := fun i => classes.getD i 0
        mro := fun c => match mro.lookup c with | some l => l | none => [c] }
      match ops.mapM (parseRegOp? w root) with
      | none => "bad-op"
      | some opss =>
        let fuel := n + 2
        match Reg.applyOps w fuel {} opss.flatten with
        | none => "fuel"
        | some st =>
          let goals := distinctSorted names
          let conv := (List.range n).flatMap (fun s => goals.map (fun t => showConv (Reg.convert w (n + 2) st s t)))
          dumpGraph n st.g ++ " C " ++ joinWith ";" conv
    | _, _, _, _, _ => "bad-op"
  | _ => "bad-op"

def cpList? (s : String) : Option (List Nat) :=
  if s = "-" then some [] else (s.splitOn ".").mapM (·.toNat?)

/-- `sreg <n> <names> <classes> <mro> <root> <strs> <op> …` : as `reg`, but the method table is keyed by the attribute-name
STRING `f"{a}_to_{b}"` (`Model/RegistryStr.lean`); `strs` gives, for the name identifiers 0, 1, …, the code points of the
name (`;`-separated, code points joined by `.`) -/
def sregOp (args : List String) : String :=
  match args with
  | n :: names :: classes :: mro :: root :: strs :: ops =>
    match n.toNat?, natList? names, natList? classes, parseMro? mro, root.toNat?, (strs.splitOn ";").mapM cpList? with
    | some n, some names, some classes, some mro, some root, some strs =>
      if names.length ≠ n ∨ classes.length ≠ n ∨ names.any (fun k => k ≥ strs.length) then "bad-op" else
      let w : Reg.World := {
        nm := fun i => names.getD i i
        cls := fun i => classes.getD i 0
        mro := fun c => match mro.lookup c with | some l => l | none => [c] }
      let str := fun k => strs.getD k []
      match ops.mapM (parseRegOp? w root) with
      | none => "bad-op"
      | some opss =>
        let fuel := n + 2
        match RegS.applyOpsS w str fuel {} opss.flatten with
        | none => "fuel"
        | some st =>
          let goals := distinctSorted names
          let conv := (List.range n).flatMap (fun s => goals.map (fun t => showConv (RegS.convertS w str (n + 2) st s t)))
          dumpGraph n st.g ++ " C " ++ joinWith ";" conv
    | _, _, _, _, _, _ => "bad-op"
  | _ => "bad-op"

/-- `goodname <code points>` : the decidable hypothesis of `linkKey_injective` on one name -/
def goodnameOp (args : List String) : String :=
  match args with
  | [s] => match cpList? s with
    | some l => if RegS.goodName l then "1" else "0"
    | none => "bad-op"
  | _ => "bad-op"

/-- `linkkey <a> <b>` : code points of `f"{a}_to_{b}"` -/
def linkkeyOp (args : List String) : String :=
  match args with
  | [a, b] => match cpList? a, cpList? b with
    | some a, some b => joinWith "." ((LinkKey.linkKey a b).map toString)
    | _, _ => "bad-op"
  | _ => "bad-op"

/-! ### exhaustive exploration of the reachable states on `n` nodes (any sequence of links, repeated links included) -/

/-- hop distances from `s` over the neighbour lists of `g` (breadth first, at most `n` rounds) -/
def bfsDist (n : Nat) (g : Node.Graph) (s : Nat) : Array (Option Nat) :=
  let init : Array (Option Nat) := (Array.replicate n none).set! s (some 0)
  let step := fun (st : Array (Option Nat) × List Nat) (_ : Nat) =>
    st.2.foldl (fun (acc : Array (Option Nat) × List Nat) u =>
      match acc.1.getD u none with
      | none => acc
      | some du =>
        (Node.get g u).nbrs.foldl (fun (acc : Array (Option Nat) × List Nat) v =>
          if v < n then
            match acc.1.getD v none with
            | none => (acc.1.set! v (some (du + 1)), v :: acc.2)
            | some _ => acc
          else acc) acc) (st.1, [])
  ((List.range n).foldl step (init, [s])).1

structure CStats where
  states : Nat := 1
  nonshortStates : Nat := 0
  nonshortPairs : Nat := 0
  maxExcess : Nat := 0
  ratioNum : Nat := 1
  ratioDen : Nat := 1
  notSimple : Nat := 0        -- returned paths with a repeated node, K / L results on connected pairs, U on connected pairs
  stepsViolated : Nat := 0    -- returned paths longer than the steps field of the source's entry

/-- statistics of one state: pairs routed along a non-shortest path, worst detour -/
def analyse (n : Nat) (g : Node.Graph) (st : CStats) : CStats :=
  let res := (List.range n).foldl (fun (acc : Nat × Nat × Nat × Nat × Nat × Nat) s =>
    let d := bfsDist n g s
    (List.range n).foldl (fun (acc : Nat × Nat × Nat × Nat × Nat × Nat) t =>
      if t = s then acc else
      match d.getD t none with
      | none => (match Node.path (n + 2) g s t with | .unknown => acc | _ => (acc.1, acc.2.1, acc.2.2.1, acc.2.2.2.1, acc.2.2.2.2.1 + 1, acc.2.2.2.2.2))
      | some dt =>
        match Node.path (n + 2) g s t with
        | .ok p =>
          let hops := p.length - 1
          let bad := if p.eraseDups.length = p.length then 0 else 1
          let sv := match Node.lookupRoute (Node.get g s).routes t with
            | some r => if hops ≤ r.steps then 0 else 1
            | none => 1
          let acc := (acc.1, acc.2.1, acc.2.2.1, acc.2.2.2.1, acc.2.2.2.2.1 + bad, acc.2.2.2.2.2 + sv)
          if hops = dt then acc
          else
            let ex := hops - dt
            let (rn, rd) := if hops * acc.2.2.2.1 > acc.2.2.1 * dt then (hops, dt) else (acc.2.2.1, acc.2.2.2.1)
            (acc.1 + 1, max acc.2.1 ex, rn, rd, acc.2.2.2.2.1, acc.2.2.2.2.2)
        | _ => (acc.1, acc.2.1, acc.2.2.1, acc.2.2.2.1, acc.2.2.2.2.1 + 1, acc.2.2.2.2.2)) acc)
    (0, st.maxExcess, st.ratioNum, st.ratioDen, 0, 0)
  { st with nonshortStates := st.nonshortStates + (if res.1 > 0 then 1 else 0), nonshortPairs := st.nonshortPairs + res.1,
            maxExcess := res.2.1, ratioNum := res.2.2.1, ratioDen := res.2.2.2.1,
            notSimple := st.notSimple + res.2.2.2.2.1, stepsViolated := st.stepsViolated + res.2.2.2.2.2 }

/-- `closure <n> <limit> <rounds>` : every state reachable from the empty graph on nodes 0..n-1 by any sequence of links `a + b`
(`a ≠ b`; a state = neighbour lists in order + tables), explored breadth first for at most `rounds` rounds (`complete=1` when no new state appeared in the last one; `limit`
when more than `limit` states were seen): number of states, of states / pairs routed along a non-shortest chain, worst detour (hops - distance),
worst stretch (hops / distance), number of rounds -/
def closureOp (args : List String) : String :=
  match args with
  | [n, limit, rounds] =>
    match n.toNat?, limit.toNat?, rounds.toNat? with
    | some n, some limit, some rounds =>
      let pairs := (List.range n).flatMap (fun a => ((List.range n).filter (· ≠ a)).map (fun b => (a, b)))
      let fuel := n + 2
      let g0 : Node.Graph := []
      let seen0 : Std.HashSet String := (Std.HashSet.emptyWithCapacity 1024).insert (dumpGraph n g0)
      let round := fun (st : List Node.Graph × Std.HashSet String × CStats × Nat × Bool) (_ : Nat) =>
        if st.1.isEmpty || st.2.2.2.2 then st else
        let r := st.1.foldl (fun (acc : List Node.Graph × Std.HashSet String × CStats × Bool) g =>
          if acc.2.2.2 then acc else
          pairs.foldl (fun (acc : List Node.Graph × Std.HashSet String × CStats × Bool) e =>
            match Node.link fuel g e.1 e.2 with
            | none => (acc.1, acc.2.1, acc.2.2.1, true)
            | some g' =>
              let k := dumpGraph n g'
              if acc.2.1.contains k then acc
              else
                let stats := analyse n g' { acc.2.2.1 with states := acc.2.2.1.states + 1 }
                (g' :: acc.1, acc.2.1.insert k, stats, acc.2.2.2 || stats.states > limit)) acc)
          ([], st.2.1, st.2.2.1, false)
        (r.1.reverse, r.2.1, r.2.2.1, st.2.2.2.1 + 1, r.2.2.2)
      let fin := (List.range rounds).foldl round ([g0], seen0, {}, 0, false)
      let cs := fin.2.2.1
      if fin.2.2.2.2 then s!"limit states={cs.states}"
      else s!"states={cs.states} nonshort_states={cs.nonshortStates} nonshort_pairs={cs.nonshortPairs} maxexcess={cs.maxExcess} maxratio={cs.ratioNum}/{cs.ratioDen} notsimple={cs.notSimple} stepsviolated={cs.stepsViolated} rounds={fin.2.2.2.1} complete={if fin.1.isEmpty then 1 else 0}"
    | _, _, _ => "bad-op"
  | _ => "bad-op"

/-- `closed4` : the certificate of `Props/C20Small.lean` for the nodes 0..3 (and 0..2), evaluated by the compiled model:
number of states of the enumerated set and the value of `closedB` (hypothesis of `four_nodes_shortest_of_certificate`) -/
def closed4Op : String :=
  let t4 := BeyondVerif.C20.reachable BeyondVerif.C20.pairs4
  let t3 := BeyondVerif.C20.reachable BeyondVerif.C20.pairs3
  s!"states4={t4.toList.length} closed4={if BeyondVerif.C20.closedB BeyondVerif.C20.pairs4 t4 then 1 else 0} states3={t3.toList.length} closed3={if BeyondVerif.C20.closedB BeyondVerif.C20.pairs3 t3 then 1 else 0}"

/-- `sites` : labels of the regenerated registration sites, in the order of their indices -/
def sitesOp : String := joinWith ";" (BeyondVerif.Generated.regSites.map (·.1))

def handle : List String → Option String
  | "node" :: args => some (nodeOp args)
  | "nnode" :: args => some (nnodeOp args)
  | "reg" :: args => some (regOp args)
  | "sreg" :: args => some (sregOp args)
  | "closure" :: args => some (closureOp args)
  | "closed4" :: _ => some closed4Op
  | "goodname" :: args => some (goodnameOp args)
  | "linkkey" :: args => some (linkkeyOp args)
  | "sites" :: _ => some sitesOp
  | _ => none

end BeyondVerif.Drv.C20
