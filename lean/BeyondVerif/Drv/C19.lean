import BeyondVerif.Model.MissionF
import BeyondVerif.Drv.Util
namespace BeyondVerif.Drv.C19
open BeyondVerif BeyondVerif.Drv BeyondVerif.F

def v3s (v : V3) : List Float := [v.x, v.y, v.z]

/-- requests (floats as bit patterns, naturals in decimal):
 `lamfn nr0 nr1 A z duration mu`  → C S y F dF f g gdot
 `lama nr0 nr1 dtheta`            → A
 `lambert <prograde 0|1> r0(3) r1(3) duration mu` → v0(3) v1(3) z converged(1.0/0.0)   | `fuel`
 `sso a e i mu re j2`             → ssoI(a,e) ssoA(e,i) ssoE(a,i) j2NodeRate(meanMotion mu a, re, a, e, i, j2)
 `ltan raan ltan sun`             → raan2ltan(raan,sun) ltan2raan(ltan,sun)
 `walker <delta 0|1> t p f raan0` → 2·p·(t/p) floats raan nu …
 `beta p(3) v(3) ref(3)`          → beta
 `bplane mu aAbs r(3) v(3)`       → B(3) theta S(3) T(3) R(3) e(3) h(3)
 `td days seconds microseconds`    → tdTotal
 `dtheta <prograde 0|1> r0(3) r1(3)` → dtheta A
 `j2seq mu re j2 a e i raan argp M t <ops>` with ops `S k v` (orb[k] = v), `D t` (orb.date = t), `P dt` (propagate)
                                  → a e i raan argp M t of every `P`, in order -/
def parseOps : Nat → List String → Option (List J2Op)
  | _, [] => some []
  | fuel + 1, "S" :: k :: v :: rest =>
    match k.toNat?, fOfStr? v, parseOps fuel rest with
    | some k, some v, some ops => if k < 6 then some (J2Op.setEl k v :: ops) else none
    | _, _, _ => none
  | fuel + 1, "D" :: t :: rest =>
    match fOfStr? t, parseOps fuel rest with
    | some t, some ops => some (J2Op.setDate t :: ops)
    | _, _ => none
  | fuel + 1, "P" :: dt :: rest =>
    match fOfStr? dt, parseOps fuel rest with
    | some dt, some ops => some (J2Op.prop dt :: ops)
    | _, _ => none
  | _, _ => none

def handle : List String → Option String
  | "td" :: rest => some <|
    match takeFloats 3 rest with
    | some ([d, s, us], _) => fsToStr [tdTotal d s us]
    | _ => "bad-op"
  | "dtheta" :: pro :: rest => some <|
    match takeFloats 6 rest with
    | some ([a, b, c, d, e, f], _) =>
      let r0 : V3 := ⟨a, b, c⟩
      let r1 : V3 := ⟨d, e, f⟩
      let dth := lamDtheta r0 r1 (pro == "1")
      fsToStr [dth, lamA (V3.norm r0) (V3.norm r1) dth]
    | _ => "bad-op"
  | "j2seq" :: rest => some <|
    match takeFloats 10 rest with
    | some ([mu, re, j2, a, e, i, raan, argp, M, t], ops) =>
      match parseOps ops.length ops with
      | some ops =>
        fsToStr ((J2Obj.run mu re j2 ⟨⟨a, e, i, raan, argp, M, t⟩, none⟩ ops).flatMap
          (fun o => [o.a, o.e, o.i, o.raan, o.argp, o.M, o.t]))
      | none => "bad-op"
    | _ => "bad-op"
  | "lamfn" :: rest => some <|
    match takeFloats 6 rest with
    | some ([nr0, nr1, A, z, d, mu], _) =>
      let fg := lamFG nr0 nr1 A z mu
      fsToStr [lamC z, lamS z, lamY nr0 nr1 A z, lamF nr0 nr1 A z d mu, lamDF nr0 nr1 A z, fg.1, fg.2.1, fg.2.2]
    | _ => "bad-op"
  | "lama" :: rest => some <|
    match takeFloats 3 rest with
    | some ([a, b, c], _) => fsToStr [lamA a b c]
    | _ => "bad-op"
  | "lambert" :: pro :: rest => some <|
    match takeFloats 8 rest with
    | some ([a, b, c, d, e, f, dur, mu], _) =>
      match lambert ⟨a, b, c⟩ ⟨d, e, f⟩ dur mu (pro == "1") 100000 with
      | some (v0, v1, z, conv) => fsToStr (v3s v0 ++ v3s v1 ++ [z, if conv then 1.0 else 0.0])
      | none => "fuel"
    | _ => "bad-op"
  | "sso" :: rest => some <|
    match takeFloats 6 rest with
    | some ([a, e, i, mu, re, j2], _) =>
      fsToStr [ssoI a e mu re j2, ssoA e i mu re j2, ssoE a i mu re j2, j2NodeRate (meanMotion mu a) re a e i j2]
    | _ => "bad-op"
  | "ltan" :: rest => some <|
    match takeFloats 3 rest with
    | some ([raan, ltan, sun], _) => fsToStr [raan2ltan raan sun, ltan2raan ltan sun]
    | _ => "bad-op"
  | "walker" :: delta :: t :: p :: f :: rest => some <|
    match t.toNat?, p.toNat?, f.toNat?, takeFloats 1 rest with
    | some t, some p, some f, some ([raan0], _) =>
      if p = 0 then "zero-division"
      else fsToStr ((walkerFleet (delta == "1") t p f raan0).flatMap (fun x => [x.1, x.2]))
    | _, _, _, _ => "bad-op"
  | "beta" :: rest => some <|
    match takeFloats 9 rest with
    | some ([a, b, c, d, e, f, g, h, i], _) => fsToStr [betaAngle ⟨a, b, c⟩ ⟨d, e, f⟩ ⟨g, h, i⟩]
    | _ => "bad-op"
  | "bplane" :: rest => some <|
    match takeFloats 8 rest with
    | some ([mu, aAbs, a, b, c, d, e, f], _) =>
      let bp := bplane mu aAbs ⟨a, b, c⟩ ⟨d, e, f⟩
      fsToStr (v3s bp.B ++ [bp.theta] ++ v3s bp.S ++ v3s bp.T ++ v3s bp.Rv ++ v3s bp.e ++ v3s bp.h)
    | _ => "bad-op"
  | _ => none

end BeyondVerif.Drv.C19
