import BeyondVerif.Model.FormsF
import BeyondVerif.Model.SVMachineF
import BeyondVerif.Drv.Util
namespace BeyondVerif.Drv.C01
open BeyondVerif BeyondVerif.Drv BeyondVerif.F

/-- `form <method name> <mu> <c0..c5>` → six floats (one edge; `fuel` if the Kepler loop does not end within 10⁴ iterations)
    `walk <mu> <c0..c5> <method names…>` → six floats (a chain of edges)
    `m2e <e> <M>` → one float | `fuel`
    `infos <mu> <r> <a> <e> <nu>` → 13 floats
    `hist <form> <frame id> <mu> <c0..c5> <op>…` → the object of Model/SVMachine driven through a history of in-place operations:
      `seti i v` | `setn name v` | `muls lo hi k` | `adds lo hi k` | `sets lo n v1..vn` | `form name` | `frame id mu <36 matrix entries by rows> <6 offsets>` |
      `copy 0|1 [id mu <42>] 0|1 [name]` | `infos`;
      reply: one segment per operation joined by `|`: `D|A|U <six numbers>` (done / AttributeError / UnknownFormError) or `I <six numbers> <14 infos values>`;
      a conversion that runs out of fuel ends the reply with `fuel`, an unreadable operation with `bad-op` -/
def parseAffine (fs : List Float) : SV.Affine :=
  ⟨(List.range 6).map (fun i => (fs.drop (6 * i)).take 6), (fs.drop 36).take 6⟩

def parseOp : List String → Option (SV.Op × List String)
  | "seti" :: i :: v :: rest => do pure (.setIdx (← i.toNat?) (← fOfStr? v), rest)
  | "setn" :: n :: v :: rest => do pure (.setName n (← fOfStr? v), rest)
  | "muls" :: lo :: hi :: k :: rest => do pure (.mulSlice (← lo.toNat?) (← hi.toNat?) (← fOfStr? k), rest)
  | "adds" :: lo :: hi :: k :: rest => do pure (.addSlice (← lo.toNat?) (← hi.toNat?) (← fOfStr? k), rest)
  | "sets" :: lo :: n :: rest => do
    let n ← n.toNat?
    let (vs, rest) ← takeFloats n rest
    pure (.setSlice (← lo.toNat?) vs, rest)
  | "form" :: n :: rest => some (.setForm n, rest)
  | "frame" :: id :: rest => do
    let (fs, rest) ← takeFloats 43 rest
    pure (.setFrame (← id.toNat?) (fs.headD 0) (parseAffine fs.tail), rest)
  | "copy" :: rest => do
    let (fr, rest) ← match rest with
      | "0" :: rest => some (none, rest)
      | "1" :: id :: rest => do
        let (fs, rest) ← takeFloats 43 rest
        pure (some ((← id.toNat?), fs.headD 0, parseAffine fs.tail), rest)
      | _ => none
    match rest with
    | "0" :: rest => pure (.copyTo fr none, rest)
    | "1" :: n :: rest => pure (.copyTo fr (some n), rest)
    | _ => none
  | "infos" :: rest => some (.infos, rest)
  | _ => none

def histLoop : Nat → SV.St → List String → List String → String
  | 0, _, _, acc => joinWith " | " (acc.reverse ++ ["bad-op"])
  | _, _, [], acc => joinWith " | " acc.reverse
  | n + 1, s, toks, acc =>
    match parseOp toks with
    | none => joinWith " | " (acc.reverse ++ ["bad-op"])
    | some (op, rest) =>
      match SV.applyOp 10000 s op with
      | none => joinWith " | " (acc.reverse ++ ["fuel"])
      | some (s', o) =>
        let seg := match o with
          | .done => "D " ++ fsToStr s'.c
          | .attrError => "A " ++ fsToStr s'.c
          | .unknownForm => "U " ++ fsToStr s'.c
          | .infos xs => "I " ++ fsToStr s'.c ++ " " ++ fsToStr xs
        histLoop n s' rest (seg :: acc)

def handle : List String → Option String
  | "form" :: name :: rest => some <|
    match takeFloats 7 rest with
    | some (mu :: c, _) =>
      match step 10000 mu name c with
      | some r => if r.length = 6 then fsToStr r else "bad-op"
      | none => if name = "keplerian_mean_to_keplerian_eccentric" then "fuel" else "bad-op"
    | _ => "bad-op"
  | "walk" :: rest => some <|
    match takeFloats 7 rest with
    | some (mu :: c, names) =>
      match walk 10000 mu names c with
      | some r => if r.length = 6 then fsToStr r else "bad-op"
      | none => "fuel"
    | _ => "bad-op"
  | "m2e" :: rest => some <|
    match takeFloats 2 rest with
    | some ([e, M], _) =>
      match m2e 10000 e M with
      | some r => fToStr r
      | none => "fuel"
    | _ => "bad-op"
  | "infos" :: rest => some <|
    match takeFloats 5 rest with
    | some ([mu, r, a, e, nu], _) => fsToStr (infosAll mu r a e nu)
    | _ => "bad-op"
  | "hist" :: form :: fr :: rest => some <|
    match fr.toNat?, takeFloats 7 rest with
    | some fr, some (mu :: c, ops) => histLoop (ops.length + 1) ⟨c, form, fr, mu, none⟩ ops []
    | _, _ => "bad-op"
  | _ => none

end BeyondVerif.Drv.C01
