import BeyondVerif.Model.FormsF
import BeyondVerif.Drv.Util
namespace BeyondVerif.Drv.C01
open BeyondVerif BeyondVerif.Drv BeyondVerif.F

/-- `form <method name> <mu> <c0..c5>` → six floats (one edge; `fuel` if the Kepler loop does not end within 10⁴ iterations)
    `walk <mu> <c0..c5> <method names…>` → six floats (a chain of edges)
    `m2e <e> <M>` → one float | `fuel`
    `infos <mu> <r> <a> <e> <nu>` → 13 floats -/
def handle : List String → Option String
  | "form" :: name :: rest => some <|
    match takeFloats 7 rest with
    | some (mu :: c, _) =>
      match step 10000 mu name c with
      | some r => if r.length = 6 then fsToStr r else "bad-op"
      | none => if name = "keplerian_mean_to_keplerian_eccentric" then "fuel" else "bad-op"
    | _ => "bad-op"
  | "walk" :: rest => some <|
    match takeFloats 7 rest with
    | some (mu :: c, names) =>
      match walk 10000 mu names c with
      | some r => if r.length = 6 then fsToStr r else "bad-op"
      | none => "fuel"
    | _ => "bad-op"
  | "m2e" :: rest => some <|
    match takeFloats 2 rest with
    | some ([e, M], _) =>
      match m2e 10000 e M with
      | some r => fToStr r
      | none => "fuel"
    | _ => "bad-op"
  | "infos" :: rest => some <|
    match takeFloats 5 rest with
    | some ([mu, r, a, e, nu], _) => fsToStr (infosAll mu r a e nu)
    | _ => "bad-op"
  | _ => none

end BeyondVerif.Drv.C01
