import BeyondVerif.Model.ListenKinds
import BeyondVerif.Generated.LightSrcF
import BeyondVerif.Drv.Util
namespace BeyondVerif.Drv.C10
open BeyondVerif BeyondVerif.Drv BeyondVerif.Listen

def parseInts? (s : String) : Option (List Int) :=
  if s = "-" then some [] else (s.splitOn ",").mapM (fun x => x.toInt?)

def parseKind? (s : String) : Option Kind :=
  match s with
  | "node" => some .node
  | "apside" => some .apside
  | "signal" => some .signal
  | "mask" => some .mask
  | "max" => some .max
  | "radvel0" => some (.radvel false)
  | "radvel1" => some (.radvel true)
  | "umbra" => some (.light true)
  | "penumbra" => some (.light false)
  | "terminator" => some .terminator
  | _ =>
    match s.splitOn ":" with
    | ["anomaly", key] => if (Generated.ListenSrc.anomalyLabels.lookup key).isSome then some (.anomaly key) else none
    | _ => none

/-- `<kind> <A> <B> <C> <D> <elev>` repeated: a listener of the given class whose own frame / station has the components
A–D; `<kind>@ - - - - 0`: the same class created with `frame=None` -/
def parseSpecs? : List String → Option (List Spec)
  | [] => some []
  | k :: a :: b :: c :: d :: e :: rest => do
    let more ← parseSpecs? rest
    match k.splitOn "@" with
    | [base, ""] =>
      let k ← parseKind? base
      if a == "-" && b == "-" && c == "-" && d == "-" && e == "0" then pure ((k, none) :: more) else none
    | _ =>
      let k ← parseKind? k
      let a ← parseInts? a; let b ← parseInts? b; let c ← parseInts? c; let d ← parseInts? d
      let e ← e.toInt?
      pure ((k, some ⟨evalPoly a, evalPoly b, evalPoly c, evalPoly d, e⟩) :: more)
  | _ => none

/-- `<A> <B> <C> <D>`: components of a frame (elevation / latitude, its rate, range rate, mask) -/
def parseChan? (a b c d : String) : Option Chan := do
  let a ← parseInts? a; let b ← parseInts? b; let c ← parseInts? c; let d ← parseInts? d
  pure ⟨evalPoly a, evalPoly b, evalPoly c, evalPoly d, 0⟩

def showItem (it : Item) : String :=
  match it.ev with
  | none => s!"{it.t}/-"
  | some (i, lab) => s!"{it.t}/{i}/{lab}"

/-- `c10 <samples> <own A B C D> <kind A B C D elev>…` : the whole output stream of `iter(dates=samples, listeners=…)`;
`own`: components of the states in the frame the propagator yields them in (read by the `frame=None` listeners) -/
def iterOp (args : List String) : String :=
  match args with
  | s :: a :: b :: c :: d :: rest =>
    match parseInts? s, parseChan? a b c d, parseSpecs? rest with
    | some samples, some own, some specs =>
      -- listeners start with an arbitrary state: `iter` clears it
      joinWith ";" ((Listen.iterS own specs (specs.map (fun _ => some 12345)) samples).map showItem)
    | _, _, _ => "bad-op"
  | _ => "bad-op"

/-- `c10b <b> <e> <poly>` : `_bisect` alone: final begin, final end, number of loop passes -/
def bisectOp (args : List String) : String :=
  match args with
  | [b, e, p] =>
    match b.toInt?, e.toInt?, parseInts? p with
    | some b, some e, some p =>
      let r := bisect2 (evalPoly p) b e
      s!"{r.1} {r.2} {bisectSteps (evalPoly p) b e}"
    | _, _, _ => "bad-op"
  | _ => "bad-op"

/-- `c10v <events 0|1> <hasMask 0|1> <samples> <own A B C D> <station A B C D> <user listeners…>` : the stream of
`TopocentricFrame.visibility`; the second group are the components in the station's frame (elevation, its rate, range
rate, mask) -/
def visOp (args : List String) : String :=
  match args with
  | ev :: hm :: s :: oa :: ob :: oc :: od :: a :: b :: c :: d :: rest =>
    match parseInts? s, parseChan? oa ob oc od, parseChan? a b c d, parseSpecs? rest with
    | some samples, some own, some sta, some user =>
      let n := (Listen.visListeners user sta (hm == "1") (ev == "1")).length
      joinWith ";" ((Listen.visibility own user sta (hm == "1") (ev == "1")
        (List.replicate n (some 12345)) samples).map showItem)
    | _, _, _, _ => "bad-op"
  | _ => "bad-op"

/-- labels travel with `_` for the space -/
def unLabel (s : String) : String := s.replace "_" " "

/-- `c10e <labels|-> <samples> <own A B C D> <listeners…>` : `events_iterator(iter(…), *labels)`; labels separated by `,` -/
def eventsOp (args : List String) : String :=
  match args with
  | labs :: s :: a :: b :: c :: d :: rest =>
    match parseInts? s, parseChan? a b c d, parseSpecs? rest with
    | some samples, some own, some specs =>
      let labels := if labs = "-" then [] else (labs.splitOn ",").map unLabel
      joinWith ";" ((Listen.eventsIterator labels (Listen.iterS own specs (specs.map (fun _ => none)) samples)).map showItem)
    | _, _, _ => "bad-op"
  | _ => "bad-op"

/-- `c10f <label> <offset> <samples> <own A B C D> <listeners…>` : `find_event(iter(…), label, offset)` -/
def findOp (args : List String) : String :=
  match args with
  | lab :: off :: s :: a :: b :: c :: d :: rest =>
    match off.toInt?, parseInts? s, parseChan? a b c d, parseSpecs? rest with
    | some off, some samples, some own, some specs =>
      match Listen.findEvent (Listen.iterS own specs (specs.map (fun _ => none)) samples) (unLabel lab) off with
      | some it => showItem it
      | none => "runtime-error"
    | _, _, _, _ => "bad-op"
  | _ => "bad-op"

/-- `c10l <penumbra 0|1> <rsun> <rbody> <|x_sun|> <|x_sat|> <x_sun·x_sat>` (floats as bit patterns) :
`LightListener.__call__` after its geometric inputs -/
def lightOp (args : List String) : String :=
  match args with
  | [pen, a, b, c, d, e] =>
    match fOfStr? a, fOfStr? b, fOfStr? c, fOfStr? d, fOfStr? e with
    | some rsun, some rbody, some nsun, some nsat, some dot => fToStr (F.lightValue (pen == "1") rsun rbody nsun nsat dot)
    | _, _, _, _, _ => "bad-op"
  | _ => "bad-op"

def handle : List String → Option String
  | "c10v" :: args => some (visOp args)
  | "c10" :: args => some (iterOp args)
  | "c10b" :: args => some (bisectOp args)
  | "c10e" :: args => some (eventsOp args)
  | "c10f" :: args => some (findOp args)
  | "c10l" :: args => some (lightOp args)
  | _ => none

end BeyondVerif.Drv.C10
