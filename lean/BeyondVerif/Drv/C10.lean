import BeyondVerif.Model.ListenKinds
import BeyondVerif.Drv.Util
namespace BeyondVerif.Drv.C10
open BeyondVerif BeyondVerif.Drv BeyondVerif.Listen

def parseInts? (s : String) : Option (List Int) :=
  if s = "-" then some [] else (s.splitOn ",").mapM (fun x => x.toInt?)

def parseKind? (s : String) : Option Kind :=
  match s with
  | "node" => some .node
  | "apside" => some .apside
  | "signal" => some .signal
  | "mask" => some .mask
  | "max" => some .max
  | "radvel0" => some (.radvel false)
  | "radvel1" => some (.radvel true)
  | "umbra" => some (.light true)
  | "penumbra" => some (.light false)
  | "terminator" => some .terminator
  | _ =>
    match s.splitOn ":" with
    | ["anomaly", key] => if (Generated.ListenSrc.anomalyLabels.lookup key).isSome then some (.anomaly key) else none
    | _ => none

/-- `<kind> <A> <B> <C> <D> <elev>` repeated -/
def parseLsts? : List String → Option (List Lst)
  | [] => some []
  | k :: a :: b :: c :: d :: e :: rest => do
    let k ← parseKind? k
    let a ← parseInts? a; let b ← parseInts? b; let c ← parseInts? c; let d ← parseInts? d
    let e ← e.toInt?
    let more ← parseLsts? rest
    pure (mkLst k ⟨evalPoly a, evalPoly b, evalPoly c, evalPoly d, e⟩ :: more)
  | _ => none

/-- the same, keeping the kind and the channels apart -/
def parseKinds? : List String → Option (List (Kind × Chan))
  | [] => some []
  | k :: a :: b :: c :: d :: e :: rest => do
    let k ← parseKind? k
    let a ← parseInts? a; let b ← parseInts? b; let c ← parseInts? c; let d ← parseInts? d
    let e ← e.toInt?
    let more ← parseKinds? rest
    pure ((k, ⟨evalPoly a, evalPoly b, evalPoly c, evalPoly d, e⟩) :: more)
  | _ => none

def showItem (it : Item) : String :=
  match it.ev with
  | none => s!"{it.t}/-"
  | some (i, lab) => s!"{it.t}/{i}/{lab}"

/-- `c10 <samples> <kind A B C D elev>…` : the whole output stream of `iter(dates=samples, listeners=…)` -/
def iterOp (args : List String) : String :=
  match args with
  | s :: rest =>
    match parseInts? s, parseLsts? rest with
    | some samples, some ls =>
      -- listeners start with an arbitrary state: `iter` clears it
      joinWith ";" ((Listen.iter ls (ls.map (fun _ => some 12345)) samples).map showItem)
    | _, _ => "bad-op"
  | _ => "bad-op"

/-- `c10b <b> <e> <poly>` : `_bisect` alone: final begin, final end, number of loop passes -/
def bisectOp (args : List String) : String :=
  match args with
  | [b, e, p] =>
    match b.toInt?, e.toInt?, parseInts? p with
    | some b, some e, some p =>
      let r := bisect2 (evalPoly p) b e
      s!"{r.1} {r.2} {bisectSteps (evalPoly p) b e}"
    | _, _, _ => "bad-op"
  | _ => "bad-op"

/-- `c10v <events 0|1> <hasMask 0|1> <samples> <A> <B> <C> <D> <user listeners…>` : the stream of
`TopocentricFrame.visibility`; A–D are the components in the station's frame (elevation, its rate, range rate, mask) -/
def visOp (args : List String) : String :=
  match args with
  | ev :: hm :: s :: a :: b :: c :: d :: rest =>
    match parseInts? s, parseInts? a, parseInts? b, parseInts? c, parseInts? d, parseKinds? rest with
    | some samples, some a, some b, some c, some d, some user =>
      let n := user.length + (if ev == "1" then (Listen.stationKinds (hm == "1")).length else 0)
      joinWith ";" ((Listen.visibility user ⟨evalPoly a, evalPoly b, evalPoly c, evalPoly d, 0⟩ (hm == "1") (ev == "1")
        (List.replicate n (some 12345)) samples).map showItem)
    | _, _, _, _, _, _ => "bad-op"
  | _ => "bad-op"

def handle : List String → Option String
  | "c10v" :: args => some (visOp args)
  | "c10" :: args => some (iterOp args)
  | "c10b" :: args => some (bisectOp args)
  | _ => none

end BeyondVerif.Drv.C10
