import BeyondVerif.Model.Cov
import BeyondVerif.Model.CovHeap
import BeyondVerif.Model.LocalF
import BeyondVerif.Generated.Frames
import BeyondVerif.Drv.Util
namespace BeyondVerif.Drv.C14
open BeyondVerif BeyondVerif.Drv BeyondVerif.Cov BeyondVerif.CovHeap

abbrev M := List (List Float)

def dotF : List Float → List Float → Float
  | x :: a, y :: b => x * y + dotF a b
  | _, _ => 0.0

def trF (m : M) : M := (List.range 6).map (fun j => m.map (fun row => row.getD j 0.0))
def mulF (a b : M) : M := let bt := trF b; a.map (fun row => bt.map (fun col => dotF row col))
def oneF : M := (List.range 6).map (fun i => (List.range 6).map (fun j => if i = j then 1.0 else 0.0))
def nanM : M := (List.range 6).map (fun _ => (List.range 6).map (fun _ => 0.0 / 0.0))
def applyF (m : M) (v : List Float) : List Float := m.map (fun row => dotF row v)

def rows6 (fs : List Float) : M := (List.range 6).map (fun i => (fs.drop (6 * i)).take 6)

/-- `get_frame(name)` through the registry regenerated from the source -/
def getFrame (name : String) : Option String := (Generated.frameAlias.find? (·.1 == name)).map (·.2)

def envOf (table : List (String × String × M)) : Env String M (List Float) where
  conv a b := match table.find? (fun e => e.1 == a && e.2.1 == b) with
    | some e => e.2.2
    | none => nanM
  toLocal k x := F.toLocal6 (k == Loc.tnw) x
  mul := mulF
  tr := trF
  one := oneF
  apply := applyF

partial def parseTable : Nat → List String → Option (List (String × String × M) × List String)
  | 0, rest => some ([], rest)
  | n + 1, a :: b :: rest => do
    let (fs, rest) ← takeFloats 36 rest
    let (t, rest) ← parseTable n rest
    pure ((a, b, rows6 fs) :: t, rest)
  | _, _ => none

def tagStr : Tag String → String
  | .frame f => f
  | .loc .qsw => "QSW"
  | .loc .tnw => "TNW"

def dump (v : Sv String M (List Float)) : String :=
  joinWith " " [v.frame, tagStr v.cov.tag, v.cov.orbFrame, v.cov.orbCur, fsToStr v.cov.orb, fsToStr v.cov.mat.flatten]

/-- the target of `cov.frame = name`: "QSW"/"TNW" stay strings, anything else goes through `get_frame` -/
def target (name : String) : Option (Tag String) :=
  if name == "QSW" then some (.loc .qsw) else if name == "TNW" then some (.loc .tnw) else (getFrame name).map .frame

/-- one operation (two tokens): `h <name>` cov hop, `s <name>` state hop, `c <name>` / `c -` state copy (with frame),
`a -` the covariance is attached again to its state as that state is expressed now (`c = sv.cov; sv.cov = c`): the state
was given as `x0` in `f0` and has only changed frame since -/
def step (E : Env String M (List Float)) (f0 : String) (x0 : List Float) (v : Sv String M (List Float)) (kind name : String) : Except String (Sv String M (List Float)) :=
  if kind == "a" then
    .ok { v with cov := attach v.cov v.frame (if v.frame == f0 then x0 else E.apply (E.conv f0 v.frame) x0) }
  else if kind == "h" then
    match target name with
    | some t => .ok { v with cov := setFrame E v.cov t }
    | none => .error "unknown-frame"
  else if kind == "s" then
    match getFrame name with
    | some g => .ok (svSetFrame E v g)
    | none => .error "unknown-frame"
  else if kind == "c" then
    if name == "-" then .ok (svCopy E v none)
    else match getFrame name with
      | some g => .ok (svCopy E v (some g))
      | none => .error "unknown-frame"
  else .error "bad-op"

/-- `cov <start frame> <start tag> <x 6> <c 36> <k> {<a> <b> <36 floats>}^k <ops…>` →
after every op: state frame, cov tag, `_orb_frame`, `orb.frame`, orb (6), matrix (36)
    `tolocal <Q|T> <x 6>` → the 36 entries of `to_local(name, x)` -/
def pairs : List String → List (String × String)
  | a :: b :: rest => (a, b) :: pairs rest
  | _ => []


/-! ### several objects in one process (Model/CovHeap.lean) -/

abbrev H := Heap String Nat M (List Float)

def emptyHeap : H :=
  { buf := fun _ => nanM, data := fun _ => { tag := .loc .qsw, orb := 0 },
    orb := fun _ => { date := 0, frame := "", x := [] },
    obj := fun _ => { buf := 0, tr := false, data := 0, orbFrame := none },
    sv := fun _ => { date := 0, frame := "", x := [], cov := none },
    nbuf := 0, ndata := 0, norb := 0, nobj := 0 }

def henvOf (table : List (Nat × String × String × M)) : HEnv String Nat M (List Float) where
  base := envOf []
  convAt d a b := match table.find? (fun e => e.1 == d && e.2.1 == a && e.2.2.1 == b) with
    | some e => e.2.2.2
    | none => nanM

partial def parseSvs : Nat → Nat → H → List String → Option (H × List String)
  | 0, _, h, rest => some (h, rest)
  | n + 1, k, h, d :: f :: rest => do
    let d ← d.toNat?
    let f ← getFrame f
    let (x, rest) ← takeFloats 6 rest
    parseSvs n (k + 1) { h with sv := upd h.sv k { date := d, frame := f, x := x, cov := none } } rest
  | _, _, _, _ => none

partial def parseTableD : Nat → List String → Option (List (Nat × String × String × M) × List String)
  | 0, rest => some ([], rest)
  | n + 1, d :: a :: b :: rest => do
    let d ← d.toNat?
    let (fs, rest) ← takeFloats 36 rest
    let (t, rest) ← parseTableD n rest
    pure ((d, a, b, rows6 fs) :: t, rest)
  | _, _ => none

def dumpH (E : HEnv String Nat M (List Float)) (h : H) (ns : Nat) : String :=
  let objs := (List.range h.nobj).map (fun i =>
    let v := h.view E i
    let cell := fun (k : Nat) => (h.data (h.obj k).data).orb
    -- which objects hold the SAME private state copy (a dict copied by `__array_finalize__` points to the same one): the first of them
    let first := ((List.range h.nobj).find? (fun k => cell k == cell i)).getD i
    joinWith " " [tagStr v.tag, (v.orbFrame.getD "-"), v.orbCur, toString v.date, fsToStr v.orb, fsToStr v.mat.flatten, toString first])
  let svs := (List.range ns).map (fun s => (h.sv s).frame)
  joinWith " " ([toString h.nobj] ++ objs ++ svs)

def scaleF (k : Float) (m : M) : M := m.map (fun r => r.map (fun v => k * v))
def addF (a b : M) : M := (a.zip b).map (fun p => (p.1.zip p.2).map (fun q => q.1 + q.2))

/-- one operation; returns the new heap, the error token ("ok" when the statement completed) and the remaining tokens -/
def stepH (E : HEnv String Nat M (List Float)) (ns : Nat) (h : H) : List String → Option (H × String × List String)
  | "new" :: s :: tag :: rest => do
    let s ← s.toNat?
    let (fs, rest) ← takeFloats 36 rest
    if s ≥ ns then none
    else match target tag with
      | some t => pure (h.newCov s t (rows6 fs), "ok", rest)
      | none => pure (h, "unknown-frame", rest)
  | "from" :: s :: i :: rest => do
    let s ← s.toNat?; let i ← i.toNat?
    if s ≥ ns || i ≥ h.nobj then none else pure (h.fromCov E s i, "ok", rest)
  | "att" :: s :: i :: rest => do
    let s ← s.toNat?; let i ← i.toNat?
    if s ≥ ns || i ≥ h.nobj then none else pure (h.attach s i, "ok", rest)
  | "hop" :: i :: name :: rest => do
    let i ← i.toNat?
    if i ≥ h.nobj then none
    else match target name with
      | none => pure (h, "unknown-frame", rest)
      | some t => pure (h.hop E i t, if hopOk (h.view E i) t then "ok" else "attribute", rest)
  | "svh" :: s :: name :: rest => do
    let s ← s.toNat?
    if s ≥ ns then none
    else match getFrame name with
      | none => pure (h, "unknown-frame", rest)
      | some g => pure (h.svHop E s g, if h.svHopOk E s g then "ok" else "attribute", rest)
  | "svw" :: s :: d :: rest => do
    let s ← s.toNat?; let d ← d.toNat?
    let (x, rest) ← takeFloats 6 rest
    if s ≥ ns then none else pure (h.svSet s d x, "ok", rest)
  | "scale" :: i :: k :: rest => do
    let i ← i.toNat?; let k ← fOfStr? k
    if i ≥ h.nobj then none else pure (h.map E i (scaleF k), "ok", rest)
  | "dup" :: i :: rest => do
    let i ← i.toNat?
    if i ≥ h.nobj then none else pure (h.map E i id, "ok", rest)
  | "add" :: i :: j :: rest => do
    let i ← i.toNat?; let j ← j.toNat?
    if i ≥ h.nobj || j ≥ h.nobj then none else pure (h.map2 E i j addF, "ok", rest)
  | "view" :: i :: k :: rest => do
    let i ← i.toNat?
    if i ≥ h.nobj then none else pure (h.mkView i (k == "T"), "ok", rest)
  | "imul" :: i :: k :: rest => do
    let i ← i.toNat?; let k ← fOfStr? k
    if i ≥ h.nobj then none else pure (h.write E i (scaleF k), "ok", rest)
  | "copy" :: i :: name :: rest => do
    let i ← i.toNat?
    if i ≥ h.nobj then none
    else if name == "-" then pure (h.copyCov E i, "ok", rest)
    else match target name with
      | none => pure (h, "unknown-frame", rest)
      | some t => pure ((h.copyCov E i).hop E h.nobj t, "ok", rest)
  | "pkl" :: i :: rest => do
    let i ← i.toNat?
    if i ≥ h.nobj then none else pure (h.pickle E i, "ok", rest)
  | _ => none

partial def runH (E : HEnv String Nat M (List Float)) (ns : Nat) (h : H) (toks : List String) (acc : List String) : List String :=
  match toks with
  | [] => acc.reverse
  | _ =>
    match stepH E ns h toks with
    | some (h', e, rest) => runH E ns h' rest ((e ++ " " ++ dumpH E h' ns) :: acc)
    | none => ("bad-op" :: acc).reverse

/-- `heap <ns> {<date idx> <frame> <x 6>}^ns <k> {<date idx> <a> <b> <36 floats>}^k <ops…>` →
after every op, separated by `|`: error token, number of objects, per object (tag, `_orb_frame` or `-`,
frame of the private copy, its date index, its 6 coordinates, the 36 values, the first object holding the same private copy), the frame of every state -/
def handleHeap : List String → String
  | ns :: rest =>
    match ns.toNat? with
    | none => "bad-op"
    | some ns =>
      match parseSvs ns 0 emptyHeap rest with
      | none => "unknown-frame"
      | some (h, k :: rest) =>
        match k.toNat? with
        | none => "bad-op"
        | some k =>
          match parseTableD k rest with
          | none => "bad-op"
          | some (table, ops) => joinWith " | " (runH (henvOf table) ns h ops [])
      | some _ => "bad-op"
  | _ => "bad-op"

def handle : List String → Option String
  | "heap" :: rest => some (handleHeap rest)
  | "cov" :: f0 :: tag0 :: rest => some <| Id.run do
    match takeFloats 42 rest with
    | some (fs, k :: rest) =>
      match k.toNat? with
      | none => "bad-op"
      | some k =>
        match parseTable k rest, getFrame f0, target tag0 with
        | some (table, ops), some f0, some t0 =>
          let E := envOf table
          let c0 : St String M (List Float) := St.new f0 (fs.take 6) t0 (rows6 (fs.drop 6))
          let mut v : Sv String M (List Float) := { frame := f0, cov := c0 }
          let mut out : List String := []
          let mut err : Option String := none
          for op in pairs ops do
            if err.isNone then
              match step E f0 (fs.take 6) v op.1 op.2 with
              | .ok v' => v := v'; out := out ++ [dump v]
              | .error e => err := some e
          match err with
          | some e => joinWith " " (out ++ [e])
          | none => joinWith " " out
        | _, none, _ => "unknown-frame"
        | _, _, none => "unknown-frame"
        | none, _, _ => "bad-op"
    | _ => "bad-op"
  | "tolocal" :: k :: rest => some <|
    match takeFloats 6 rest with
    | some (x, _) => fsToStr (F.toLocal6 (k == "T") x).flatten
    | none => "bad-op"
  | _ => none

end BeyondVerif.Drv.C14
