import BeyondVerif.Model.Cov
import BeyondVerif.Model.LocalF
import BeyondVerif.Generated.Frames
import BeyondVerif.Drv.Util
namespace BeyondVerif.Drv.C14
open BeyondVerif BeyondVerif.Drv BeyondVerif.Cov

abbrev M := List (List Float)

def dotF : List Float → List Float → Float
  | x :: a, y :: b => x * y + dotF a b
  | _, _ => 0.0

def trF (m : M) : M := (List.range 6).map (fun j => m.map (fun row => row.getD j 0.0))
def mulF (a b : M) : M := let bt := trF b; a.map (fun row => bt.map (fun col => dotF row col))
def oneF : M := (List.range 6).map (fun i => (List.range 6).map (fun j => if i = j then 1.0 else 0.0))
def nanM : M := (List.range 6).map (fun _ => (List.range 6).map (fun _ => 0.0 / 0.0))
def applyF (m : M) (v : List Float) : List Float := m.map (fun row => dotF row v)

def rows6 (fs : List Float) : M := (List.range 6).map (fun i => (fs.drop (6 * i)).take 6)

/-- `get_frame(name)` through the registry regenerated from the source -/
def getFrame (name : String) : Option String := (Generated.frameAlias.find? (·.1 == name)).map (·.2)

def envOf (table : List (String × String × M)) : Env String M (List Float) where
  conv a b := match table.find? (fun e => e.1 == a && e.2.1 == b) with
    | some e => e.2.2
    | none => nanM
  toLocal k x := F.toLocal6 (k == Loc.tnw) x
  mul := mulF
  tr := trF
  one := oneF
  apply := applyF

partial def parseTable : Nat → List String → Option (List (String × String × M) × List String)
  | 0, rest => some ([], rest)
  | n + 1, a :: b :: rest => do
    let (fs, rest) ← takeFloats 36 rest
    let (t, rest) ← parseTable n rest
    pure ((a, b, rows6 fs) :: t, rest)
  | _, _ => none

def tagStr : Tag String → String
  | .frame f => f
  | .loc .qsw => "QSW"
  | .loc .tnw => "TNW"

def dump (v : Sv String M (List Float)) : String :=
  joinWith " " [v.frame, tagStr v.cov.tag, v.cov.orbFrame, v.cov.orbCur, fsToStr v.cov.orb, fsToStr v.cov.mat.flatten]

/-- the target of `cov.frame = name`: "QSW"/"TNW" stay strings, anything else goes through `get_frame` -/
def target (name : String) : Option (Tag String) :=
  if name == "QSW" then some (.loc .qsw) else if name == "TNW" then some (.loc .tnw) else (getFrame name).map .frame

/-- one operation (two tokens): `h <name>` cov hop, `s <name>` state hop, `c <name>` / `c -` state copy (with frame) -/
def step (E : Env String M (List Float)) (v : Sv String M (List Float)) (kind name : String) : Except String (Sv String M (List Float)) :=
  if kind == "h" then
    match target name with
    | some t => .ok { v with cov := setFrame E v.cov t }
    | none => .error "unknown-frame"
  else if kind == "s" then
    match getFrame name with
    | some g => .ok (svSetFrame E v g)
    | none => .error "unknown-frame"
  else if kind == "c" then
    if name == "-" then .ok (svCopy E v none)
    else match getFrame name with
      | some g => .ok (svCopy E v (some g))
      | none => .error "unknown-frame"
  else .error "bad-op"

/-- `cov <start frame> <start tag> <x 6> <c 36> <k> {<a> <b> <36 floats>}^k <ops…>` →
after every op: state frame, cov tag, `_orb_frame`, `orb.frame`, orb (6), matrix (36)
    `tolocal <Q|T> <x 6>` → the 36 entries of `to_local(name, x)` -/
def pairs : List String → List (String × String)
  | a :: b :: rest => (a, b) :: pairs rest
  | _ => []

def handle : List String → Option String
  | "cov" :: f0 :: tag0 :: rest => some <| Id.run do
    match takeFloats 42 rest with
    | some (fs, k :: rest) =>
      match k.toNat? with
      | none => "bad-op"
      | some k =>
        match parseTable k rest, getFrame f0, target tag0 with
        | some (table, ops), some f0, some t0 =>
          let E := envOf table
          let c0 : St String M (List Float) := St.new f0 (fs.take 6) t0 (rows6 (fs.drop 6))
          let mut v : Sv String M (List Float) := { frame := f0, cov := c0 }
          let mut out : List String := []
          let mut err : Option String := none
          for op in pairs ops do
            if err.isNone then
              match step E v op.1 op.2 with
              | .ok v' => v := v'; out := out ++ [dump v]
              | .error e => err := some e
          match err with
          | some e => joinWith " " (out ++ [e])
          | none => joinWith " " out
        | _, none, _ => "unknown-frame"
        | _, _, none => "unknown-frame"
        | none, _, _ => "bad-op"
    | _ => "bad-op"
  | "tolocal" :: k :: rest => some <|
    match takeFloats 6 rest with
    | some (x, _) => fsToStr (F.toLocal6 (k == "T") x).flatten
    | none => "bad-op"
  | _ => none

end BeyondVerif.Drv.C14
