import BeyondVerif.Model.StationF
import BeyondVerif.Drv.Util
namespace BeyondVerif.Drv.C11
open BeyondVerif BeyondVerif.Drv BeyondVerif.F

def pairs : List Float → List (Float × Float)
  | a :: e :: rest => (a, e) :: pairs rest
  | _ => []

def storeStr : MaskStore → String
  | .none => "none"
  | .junk => "junk"
  | .table tbl => tbl.foldl (fun s p => s ++ "," ++ fToStr p.1 ++ "," ++ fToStr p.2) ("t" ++ toString tbl.length)

def replyStr : MaskReply → String
  | .done => "ok"
  | .value v => fToStr v
  | .indexError => "index-error"
  | .noMask => "no-mask"
  | .typeError => "type-error"

def takeTable : List String → Option (List (Float × Float) × List String)
  | n :: rest =>
    match n.toNat? with
    | some n => (takeFloats (2 * n) rest).map (fun fr => (pairs fr.1, fr.2))
    | none => none
  | [] => none

def parseArg : List String → Option (MaskArg × List String)
  | "absent" :: rest => some (.absent, rest)
  | "eseq" :: rest => some (.emptySeq, rest)
  | "seq" :: rest => (takeTable rest).map (fun tr => (.seq tr.1, tr.2))
  | "arr" :: rest => (takeTable rest).map (fun tr => (.arr tr.1, tr.2))
  | _ => none

def parseOps : Nat → List String → Option (List MaskOp)
  | _, [] => some []
  | 0, _ => none
  | fuel + 1, "A" :: rest =>
    match takeTable rest with
    | some (t, r) => (parseOps fuel r).map (fun ops => MaskOp.assign t :: ops)
    | none => none
  | fuel + 1, "N" :: rest => (parseOps fuel rest).map (fun ops => MaskOp.clear :: ops)
  | fuel + 1, "P" :: i :: a :: e :: rest =>
    match i.toNat?, fOfStr? a, fOfStr? e with
    | some i, some a, some e => (parseOps fuel rest).map (fun ops => MaskOp.poke i (a, e) :: ops)
    | _, _, _ => none
  | fuel + 1, "Q" :: x :: rest =>
    match fOfStr? x with
    | some x => (parseOps fuel rest).map (fun ops => MaskOp.query x :: ops)
    | none => none
  | _, _ => none

def parseReg : Nat → List String → Option (List RegOp)
  | _, [] => some []
  | 0, _ => none
  | fuel + 1, "C" :: name :: rest =>
    match takeFloats 3 rest with
    | some ([a, b, c], r) => (parseReg fuel r).map (fun ops => RegOp.create name a b c :: ops)
    | _ => none
  | fuel + 1, "U" :: name :: rest =>
    match takeFloats 6 rest with
    | some (st, r) => (parseReg fuel r).map (fun ops => RegOp.use name st :: ops)
    | none => none
  | _, _ => none

/-- requests (floats as bit patterns):
 `c11const`                                   → earthR earthF earthE
 `c11create latd lond alt`                    → `create_station` from degrees: centre offset (3), orientation matrix (9), stored radians/alt (3)
 `c11geo lat lon alt`                         → `_geodetic_to_cartesian` position (radians)
 `c11topom lat lon`                           → the 9 entries of `TopocentricOrientation._m`
 `c11topo latd lond alt x y z vx vy vz` (degrees, as given to create_station)         → cartesian (6) then spherical (6) state in the station frame
 `c11back latd lond alt x y z vx vy vz`         → station-frame cartesian state expressed in the parent frame
 `c11hand latdA londA altA latdB londB altB x y z vx vy vz` → a cartesian state of the frame of station A expressed in the frame of station B (same parent): cartesian (6) then spherical (6)
 `c11meas kind npath latd lond alt x y z vx vy vz` → value of the measure (0 Range 1 Azimut 2 Elevation 3 Doppler)
 `c11expand m00 … m22 r0 r1 r2 x y z vx vy vz` → `expand(m, rate) @ state`
 `c11mask n a1 e1 … an en azim`               → `get_mask(azim)` or `index-error`
 `c11maskrun <arg> <op>*`                     → a station created with `mask=<arg>` then driven through the operations:
      <arg> = `absent` | `eseq` | `seq n a1 e1 … an en` | `arr n a1 e1 … an en`;
      <op> = `A n a1 e1 …` (assign a table) | `N` (assign None) | `P i a e` (write column i in place) | `Q azim` (get_mask);
      reply `raises` or `<store after construction> | <reply>* | <final store>` with <store> = `none` | `junk` | `t<n>,a1,e1,…`
 `c11reg <op>*`                               → a history of `C name latd lond alt` (create_station, possibly under a name already used) and
      `U name x y z vx vy vz` (a parent-frame state seen from the station of that name): per `U` the 12 floats cartesian + spherical joined by `,`, or `unknown` -/
def handle : List String → Option String
  | ["c11const"] => some (fsToStr [earthR, earthF, earthE])
  | "c11geo" :: rest => some <|
    match takeFloats 3 rest with
    | some ([lat, lon, alt], []) => fsToStr (geodeticToCartesian lat lon alt)
    | _ => "bad-op"
  | "c11create" :: rest => some <|
    match takeFloats 3 rest with
    | some ([latd, lond, alt], []) =>
      let c := createStation latd lond alt
      fsToStr (c.1 ++ c.2.1.flatten ++ c.2.2)
    | _ => "bad-op"
  | "c11topom" :: rest => some <|
    match takeFloats 2 rest with
    | some ([lat, lon], []) => fsToStr (topoM lat lon).flatten
    | _ => "bad-op"
  | "c11topo" :: rest => some <|
    match takeFloats 9 rest with
    | some ([latd, lond, alt, x, y, z, vx, vy, vz], []) =>
      let c := toStation (stationRadians latd) (stationRadians lond) alt [x, y, z, vx, vy, vz]
      fsToStr (c ++ toSpherical c)
    | _ => "bad-op"
  | "c11back" :: rest => some <|
    match takeFloats 9 rest with
    | some ([latd, lond, alt, x, y, z, vx, vy, vz], []) =>
      fsToStr (fromStation (stationRadians latd) (stationRadians lond) alt [x, y, z, vx, vy, vz])
    | _ => "bad-op"
  | "c11hand" :: rest => some <|
    match takeFloats 12 rest with
    | some ([latdA, londA, altA, latdB, londB, altB, x, y, z, vx, vy, vz], []) =>
      let c := stationToStation (stationRadians latdA) (stationRadians londA) altA (stationRadians latdB) (stationRadians londB) altB [x, y, z, vx, vy, vz]
      fsToStr (c ++ toSpherical c)
    | _ => "bad-op"
  | "c11meas" :: kind :: npath :: rest => some <|
    match kind.toNat?, npath.toNat?, takeFloats 9 rest with
    | some k, some np, some ([latd, lond, alt, x, y, z, vx, vy, vz], []) =>
      if k < 4 then fToStr (stationMeasure k np.toFloat (stationRadians latd) (stationRadians lond) alt [x, y, z, vx, vy, vz]) else "bad-op"
    | _, _, _ => "bad-op"
  | "c11expand" :: rest => some <|
    match takeFloats 18 rest with
    | some ([a, b, c, d, e, f, g, h, i, r0, r1, r2, x, y, z, vx, vy, vz], []) =>
      fsToStr (expandApply [[a, b, c], [d, e, f], [g, h, i]] [r0, r1, r2] [x, y, z, vx, vy, vz])
    | _ => "bad-op"
  | "c11mask" :: n :: rest => some <|
    match n.toNat? with
    | some n =>
      match takeFloats (2 * n + 1) rest with
      | some (fs, []) =>
        match getMask (pairs (fs.take (2 * n))) (fs.getD (2 * n) 0.0) with
        | some v => fToStr v
        | none => "index-error"
      | _ => "bad-op"
    | none => "bad-op"
  | "c11maskrun" :: rest => some <|
    match parseArg rest with
    | some (arg, r) =>
      match parseOps r.length r with
      | some ops =>
        match stationMaskRun arg ops with
        | none => "raises"
        | some (s0, s1, replies) => joinWith " " ([storeStr s0, "|"] ++ replies.map replyStr ++ ["|", storeStr s1])
      | none => "bad-op"
    | none => "bad-op"
  | "c11reg" :: rest => some <|
    match parseReg rest.length rest with
    | some ops =>
      joinWith " " ((regRun [] ops).2.map (fun r =>
        match r with
        | some v => joinWith "," (v.map fToStr)
        | none => "unknown"))
    | none => "bad-op"
  | _ => none

end BeyondVerif.Drv.C11
