import BeyondVerif.Model.InterpF
import BeyondVerif.Drv.Util
namespace BeyondVerif.Drv.C09
open BeyondVerif BeyondVerif.Drv BeyondVerif.F

def errStr : Err → String
  | .value => "value-error"
  | .index => "index-error"
  | .type => "type-error"

def method? : String → Option Method
  | "l" => some .linear
  | "g" => some .lagrange
  | _ => none

/-- `none` token or an integer -/
def optInt? (s : String) : Option (Option Int) :=
  if s == "none" then some none else s.toInt?.map some

def chunks {α : Type} (d : Nat) : Nat → List α → List (List α)
  | 0, _ => []
  | n + 1, l => l.take d :: chunks d n (l.drop d)

def resStr : Except Err (List Float) → String
  | .ok v => "ok " ++ fsToStr v
  | .error e => errStr e

/-- `n` points, each `<mjd> <form> <frame> <d coords>` -/
def parsePts (d : Nat) : Nat → List String → Option (List Pt × List String)
  | 0, rest => some ([], rest)
  | n + 1, m :: fo :: fr :: rest => do
    let mjd ← fOfStr? m
    let (cs, rest) ← takeFloats d rest
    let (ps, rest) ← parsePts d n rest
    pure ({ mjd := mjd, coord := cs, form := fo, frame := fr } :: ps, rest)
  | _, _ => none

/-- one point `<mjd> <form> <frame> <d coords>` -/
def parsePt (d : Nat) : List String → Option (Pt × List String)
  | m :: fo :: fr :: rest => do
    let mjd ← fOfStr? m
    let (cs, rest) ← takeFloats d rest
    pure ({ mjd := mjd, coord := cs, form := fo, frame := fr }, rest)
  | _ => none

def objStr (h : EphH) : Except Err (Nat × Pt) → String
  | .ok (oid, p) => s!"ok {if h.ids.contains oid then "rec" else "new"} {p.form} {p.frame} {fToStr p.mjd} " ++ fsToStr p.coord
  | .error err => errStr err

def oidOf : Except Err (Nat × Pt) → Option Nat
  | .ok (oid, _) => some oid
  | .error _ => none

/-- ops on an ephemeris (state `EphH`: points with their identities, method, order, interpolator's array):
`I <date>` interpolate, `P <date>` propagate, `G <i>` `ephem[i]` (one reply each, `ok new|rec <form> <frame> <date> <coords>`:
`new` = an object that is none of the recorded points); `W <j> <point>` the caller modifies in place the object of
the j-th reply so that it now reads `<point>`; `C <n points>` `ephem.frame/form = …` (every point converted in place);
`O <k>` set the order, `M <l|g>` set the method.  `objs`: the object of every reply so far. -/
partial def runOps (d n : Nat) (h : EphH) (objs : Array (Option Nat)) (acc : List String) : List String → Option (List String)
  | [] => some acc.reverse
  | "I" :: date :: rest => do
    let t ← fOfStr? date
    let (r, h') := h.interpolate t
    runOps d n h' (objs.push (oidOf r)) (objStr h' r :: acc) rest
  | "P" :: date :: rest => do
    let t ← fOfStr? date
    let (r, h') := h.interpolate t
    runOps d n h' (objs.push (oidOf r)) (objStr h' r :: acc) rest
  | "G" :: i :: rest => do
    let i ← i.toInt?
    let r := h.getitem i
    runOps d n h (objs.push (oidOf r)) (objStr h r :: acc) rest
  | "W" :: j :: rest => do
    let j ← j.toNat?
    let (p, rest) ← parsePt d rest
    match objs[j]? with
    | some (some oid) => runOps d n (h.mutate oid (fun _ => p)) objs acc rest
    | _ => runOps d n h objs acc rest
  | "C" :: rest => do
    let (ps, rest) ← parsePts d n rest
    let conv : Pt → Pt := fun p => (ps.find? (fun q => q.mjd == p.mjd)).getD p
    runOps d n (h.convert conv) objs acc rest
  | "O" :: k :: rest => do
    let k ← k.toInt?
    runOps d n (h.setOrder k) objs acc rest
  | "M" :: m :: rest => do
    let m ← method? m
    runOps d n (h.setMethod m) objs acc rest
  | _ => none

/--
* `c9prev <n> <x> <xs…>` → `ok p` : `_prev_idx`
* `c9win <p> <order> <n>` → `start stop` : the raw window of `_lagrange`
* `c9window <order> <n> <x> <xs…>` → `ok p a b` : prev_idx and the effective slice `[a, b)` of a table of length n
* `c9call <l|g> <order|none> <nx> <n> <d> <x> <xs… nx> <ys… n·d>` → `ok v…` | error kind : `Interp(xs, ys, method, order)(x)`
* `c9eph <l|g|none> <order|none> <n> <d> <n points> <ops…>` → replies of the `I` ops joined by ` | `
-/
def handle : List String → Option String
  | "c9prev" :: n :: rest => some <|
    match n.toNat?, takeFloats 1 rest with
    | some n, some ([x], rest) =>
      match takeFloats n rest with
      | some (xs, _) => match prevIdx xs x with
        | some p => s!"ok {p}"
        | none => "index-error"
      | none => "bad-op"
    | _, _ => "bad-op"
  | ["c9win", p, o, n] => some <|
    match p.toInt?, o.toInt?, n.toInt? with
    | some p, some o, some n => let w := windowRaw p o n; s!"{w.1} {w.2}"
    | _, _, _ => "bad-op"
  | "c9window" :: o :: n :: rest => some <|
    match o.toInt?, n.toNat?, takeFloats 1 rest with
    | some o, some n, some ([x], rest) =>
      match takeFloats n rest with
      | some (xs, _) => match prevIdx xs x with
        | some p => let w := windowRaw p o n; s!"ok {p} {pyBound n w.1} {pyBound n w.2}"
        | none => "index-error"
      | none => "bad-op"
    | _, _, _ => "bad-op"
  | "c9call" :: m :: o :: nx :: n :: d :: rest => some <|
    match method? m, optInt? o, nx.toNat?, n.toNat?, d.toNat?, takeFloats 1 rest with
    | some m, some o, some nx, some n, some d, some ([x], rest) =>
      match takeFloats nx rest with
      | some (xs, rest) =>
        match takeFloats (n * d) rest with
        | some (ys, _) => resStr (interp m o xs (chunks d n ys) x)
        | none => "bad-op"
      | none => "bad-op"
    | _, _, _, _, _, _ => "bad-op"
  | "c9eph" :: m :: o :: n :: d :: rest => some <|
    let m? : Option (Option Method) := if m == "none" then some none else (method? m).map some
    match m?, optInt? o, n.toNat?, d.toNat? with
    | some m, some o, some n, some d =>
      match parsePts d n rest with
      | some (ps, ops) =>
        match runOps d n (EphH.new ps m o) #[] [] ops with
        | some rs => joinWith " | " rs
        | none => "bad-op"
      | none => "bad-op"
    | _, _, _, _ => "bad-op"
  | _ => none

end BeyondVerif.Drv.C09
