import BeyondVerif.Model.Tle
import BeyondVerif.Model.TleOrb
import BeyondVerif.Model.TleQuant
import BeyondVerif.Drv.Util
namespace BeyondVerif.Drv.C12
open BeyondVerif BeyondVerif.Drv BeyondVerif.Tle

/-! Strings travel as `x` followed by the hexadecimal code points (two digits each, ASCII only). -/

def hexVal (c : Char) : Option Nat :=
  if '0' ≤ c ∧ c ≤ '9' then some (c.toNat - 48)
  else if 'a' ≤ c ∧ c ≤ 'f' then some (c.toNat - 87)
  else none

def unhexAux : List Char → Option Str
  | [] => some []
  | a :: b :: r => do
    let x ← hexVal a
    let y ← hexVal b
    let t ← unhexAux r
    pure (Char.ofNat (16 * x + y) :: t)
  | _ => none

def unhex (s : String) : Option Str :=
  match s.toList with
  | 'x' :: r => unhexAux r
  | _ => none

def hexDigit (n : Nat) : Char := if n < 10 then Char.ofNat (48 + n) else Char.ofNat (87 + n)

def hex (s : Str) : String :=
  String.ofList ('x' :: s.flatMap (fun c => [hexDigit (c.toNat / 16 % 16), hexDigit (c.toNat % 16)]))

def errStr : Err → String
  | .lineNumber => "err parse-error line-number"
  | .lineCount n => s!"err parse-error line-count {n}"
  | .eccentricity => "err parse-error eccentricity"
  | .size l n => s!"err parse-error size {l} {n}"
  | .checksum l => s!"err parse-error checksum {l}"
  | .valueError => "err value-error"
  | .indexError => "err index-error"
  | .outOfModel => "err out-of-model"

def decStr (d : Dec) : String := s!"{if d.neg then 1 else 0}:{d.mant}:{d.scale}"

def parsedStr (p : Parsed) : String :=
  let cospar := match p.cospar with
    | none => "-"
    | some (y, piece) => s!"{y}:{hex piece}"
  joinWith " " [hex p.name, toString p.norad, hex p.classification, cospar, toString p.year, toString p.epochUs,
    decStr p.ndot, decStr p.ndd, decStr p.bstar, toString p.elnb, toString p.revs, toString p.etype,
    decStr p.inc, decStr p.raan, decStr p.ecc, decStr p.argp, decStr p.ma, decStr p.mm, joinWith "," ((tleStr p).map hex)]

def unflOfToks : List String → Option (Unfl × List String)
  | "z" :: r => some (.zero, r)
  | "s" :: n :: d :: r => do
    let n ← n.toNat?
    let d ← d.toNat?
    pure (.small (n = 1) d, r)
  | n :: m :: e :: r => do
    let n ← n.toNat?
    let m ← m.toNat?
    let e ← e.toInt?
    pure (.val (n = 1) m e, r)
  | _ => none

/-- `name norad cospar yy day8 ndotNeg ndot8 <unfl> <unfl> elnb i4 raan4 e7 argp4 ma4 n8 revs` -/
def recOfToks (t : List String) : Option Rec :=
  match t with
  | name :: norad :: cospar :: yy :: day8 :: nneg :: nd8 :: r => do
    let name ← unhex name
    let norad ← norad.toInt?
    let cospar ← unhex cospar
    let yy ← yy.toNat?
    let day8 ← day8.toNat?
    let nneg ← nneg.toNat?
    let nd8 ← nd8.toNat?
    let (ndd, r) ← unflOfToks r
    let (bstar, r) ← unflOfToks r
    match r with
    | [elnb, i4, raan4, e7, argp4, ma4, n8, revs] =>
      let elnb ← elnb.toInt?
      let i4 ← i4.toNat?
      let raan4 ← raan4.toNat?
      let e7 ← e7.toNat?
      let argp4 ← argp4.toNat?
      let ma4 ← ma4.toNat?
      let n8 ← n8.toNat?
      let revs ← revs.toInt?
      pure { name, norad, cospar, yy, day8, ndotNeg := nneg = 1, ndot8 := nd8, ndd, bstar, elnb, inc4 := i4, raan4, ecc7 := e7, argp4, ma4, mm8 := n8, revs }
    | _ => none
  | _ => none

def linesOf (args : List String) : Option (List Str) := args.mapM unhex

def resParsed : Except Err Parsed → String
  | .ok p => "ok " ++ parsedStr p
  | .error e => errStr e


/-! ### operation histories on one orbit (`Model/TleOrb.lean`) -/

def optStr (t : String) : Option (Option Str) :=
  if t = "-" then some none else (unhex t).map some

def optId (t : String) : Option (Option IdArg) :=
  if t = "-" then some none
  else match t.toList with
    | 'i' :: r => (String.ofList r).toInt?.map (fun i => some (.int i))
    | 's' :: r => (unhex (String.ofList r)).map (fun s => some (.str s))
    | _ => none

def numFld : String → Option NumFld
  | "yy" => some .yy | "day8" => some .day8 | "ndot8" => some .ndot8 | "inc4" => some .inc4 | "raan4" => some .raan4
  | "ecc7" => some .ecc7 | "argp4" => some .argp4 | "ma4" => some .ma4 | "mm8" => some .mm8 | _ => none

def opOfToks : List String → Option Op
  | ["name", v] => (optStr v).map .setName
  | ["norad", v] => (optId v).map .setNorad
  | ["cospar", v] => (optStr v).map .setCospar
  | ["num", f, v] => do pure (.setNum (← numFld f) (← v.toNat?))
  | ["ndotneg", b] => b.toNat?.map (fun b => .setNdotNeg (b = 1))
  | "ndd" :: t => (match unflOfToks t with | some (u, []) => some (.setNdd u) | _ => none)
  | "bstar" :: t => (match unflOfToks t with | some (u, []) => some (.setBstar u) | _ => none)
  | ["elnb", v] => v.toInt?.map .setElnb
  | ["revs", v] => v.toInt?.map .setRevs
  | ["copy"] => some .copy
  | ["reread"] => some .reread
  | ["read", n, i, c] => do pure (.read { name := ← optStr n, norad := ← optId i, cospar := ← optStr c })
  | _ => none

/-- split a token list at every `|` -/
def splitBar : List String → List (List String)
  | [] => [[]]
  | t :: ts =>
    match splitBar ts with
    | g :: gs => if t = "|" then [] :: g :: gs else (t :: g) :: gs
    | [] => [[t]]

def resText : Except Err Parsed → String
  | .ok p => "ok " ++ joinWith "," ((tleStr p).map hex)
  | .error e => errStr e

/-- `tle.hist <ident name> <ident norad> <ident cospar> <src 0|1> <record tokens> | op | op …` -/
def histReply (toks : List String) : Option String :=
  match splitBar toks with
  | (n :: i :: c :: src :: rec) :: ops => do
    let ident : Ident := { name := ← optStr n, norad := ← optId i, cospar := ← optStr c }
    let r ← recOfToks rec
    let ops ← ops.mapM opOfToks
    let st : OrbState := { ident, vals := r, src := if src = "1" then some [] else none }
    pure (joinWith " ; " ((run ops st).2.map resText))
  | _ => none

/-! ### off-grid orbits (`Model/TleQuant.lean`): every number as the exact rational of a double -/

def qOfToks : List String → Option (Q × List String)
  | n :: d :: r => do pure (⟨← n.toInt?, ← d.toNat?⟩, r)
  | _ => none

def sqOfToks : List String → Option (Bool × Q × List String)
  | s :: n :: d :: r => do pure ((← s.toNat?) = 1, ⟨← n.toInt?, ← d.toNat?⟩, r)
  | _ => none

/-- `name norad cospar dateUs offsetUs <s n d: ndot> <s n d: ndd> <s n d: bstar> elnb <n d: inc raan ecc argp ma mm> revs` -/
def qorbOfToks (t : List String) : Option QOrb :=
  match t with
  | name :: norad :: cospar :: dateUs :: offsetUs :: r => do
    let name ← unhex name
    let norad ← norad.toInt?
    let cospar ← unhex cospar
    let dateUs ← dateUs.toInt?
    let offsetUs ← offsetUs.toInt?
    let (ndotNeg, ndot, r) ← sqOfToks r
    let (nddNeg, ndd, r) ← sqOfToks r
    let (bstarNeg, bstar, r) ← sqOfToks r
    match r with
    | elnb :: r =>
      let elnb ← elnb.toInt?
      let (inc, r) ← qOfToks r
      let (raan, r) ← qOfToks r
      let (ecc, r) ← qOfToks r
      let (argp, r) ← qOfToks r
      let (ma, r) ← qOfToks r
      let (mm, r) ← qOfToks r
      match r with
      | [revs] =>
        let revs ← revs.toInt?
        pure { name, norad, cospar, dateUs, offsetUs, ndotNeg, ndot, nddNeg, ndd, bstarNeg, bstar, elnb, inc, raan, ecc, argp, ma, mm, revs }
      | _ => none
    | _ => none
  | _ => none

def handle : List String → Option String
  | ["tle.ck", l] => some (match unhex l with
      | some l => (match checksum l with | some c => s!"ok {c}" | none => "err value-error")
      | none => "bad-op")
  | "tle.valid" :: ls => some (match linesOf ls with
      | some ls => (match checkValidity ls with | .ok _ => "ok" | .error e => errStr e)
      | none => "bad-op")
  | "tle.parse" :: ls => some (match linesOf ls with
      | some ls => resParsed (parseTle ls)
      | none => "bad-op")
  | "tle.rw" :: ls => some (match linesOf ls with
      | some ls => resParsed (rewrite ls)
      | none => "bad-op")
  | "tle.write" :: t => some (match recOfToks t with
      | some r => resParsed (fromOrbit r)
      | none => "bad-op")
  | ["tle.float", s] => some (match unhex s with
      | some s => (match tleFloat s with | .ok d => "ok " ++ decStr d | .error e => errStr e)
      | none => "bad-op")
  | "tle.unfloat" :: t => some (match unflOfToks t with
      | some (u, []) => "ok " ++ hex (unfloat u)
      | _ => "bad-op")
  | ["tle.tounfl", n, m, s] => some (match n.toNat?, m.toNat?, s.toInt? with
      | some n, some m, some s => "ok " ++ hex (unfloat (toUnfl ⟨n = 1, m, s⟩))
      | _, _, _ => "bad-op")
  | "tle.wq" :: t => some (match qorbOfToks t with
      | some o => resParsed (fromOrbitQ o)
      | none => "bad-op")
  | ["tle.unflq", s, n, d] => some (match s.toNat?, n.toInt?, d.toNat? with
      | some s, some n, some d => "ok " ++ hex (unfloat (unflQ (s = 1) ⟨n, d⟩))
      | _, _, _ => "bad-op")
  | ["tle.wrapq", n, d] => some (match n.toInt?, d.toNat? with
      | some n, some d => let w := wrapDeg ⟨n, d⟩; s!"ok {w.num} {w.den} {fixQ 4 w}"
      | _, _ => "bad-op")
  | ["tle.epochabs", t] => some (match t.toInt? with
      | some t => s!"ok {(epochOfAbs t).1} {(epochOfAbs t).2}"
      | none => "bad-op")
  | "tle.hist" :: t => some (match histReply t with | some r => r | none => "bad-op")
  | "tle.fs" :: ls => some (match linesOf ls with
      | some ls =>
        let st := fromString ls
        let ab := match st.abort with | some e => errStr e | none => "done"
        joinWith " " (st.out.map (fun p => joinWith "," ((tleStr p).map hex))) ++ " | " ++ ab
      | none => "bad-op")
  | _ => none

end BeyondVerif.Drv.C12
