import BeyondVerif.Model.FramesF
import BeyondVerif.Drv.Util
namespace BeyondVerif.Drv.C02
open BeyondVerif BeyondVerif.Drv BeyondVerif.F

abbrev Toks := List String

def takeNat : Toks → Option (Nat × Toks)
  | t :: rest => t.toNat?.map (fun n => (n, rest))
  | [] => none

/-- `k` groups, each parsed by `one` -/
def takeMany {α : Type} (one : Toks → Option (α × Toks)) : Nat → Toks → Option (List α × Toks)
  | 0, toks => some ([], toks)
  | k + 1, toks => do
    let (x, toks) ← one toks
    let (xs, toks) ← takeMany one k toks
    pure (x :: xs, toks)

/-- `<n> group…` -/
def takeCounted {α : Type} (one : Toks → Option (α × Toks)) (toks : Toks) : Option (List α × Toks) := do
  let (n, toks) ← takeNat toks
  takeMany one n toks

def takePair (toks : Toks) : Option ((Nat × Nat) × Toks) := do
  let (a, toks) ← takeNat toks
  let (b, toks) ← takeNat toks
  pure ((a, b), toks)

def v3Of : List Float → Option V3
  | [x, y, z] => some ⟨x, y, z⟩
  | _ => none

def m3Of : List Float → Option M3
  | [a, b, c, d, e, f, g, h, i] => some ⟨a, b, c, d, e, f, g, h, i⟩
  | _ => none

def takeV3 (toks : Toks) : Option (V3 × Toks) := do
  let (fs, toks) ← takeFloats 3 toks
  let v ← v3Of fs
  pure (v, toks)

def takeDate (toks : Toks) : Option (DateArgs × Toks) := do
  let (fs, toks) ← takeFloats 18 toks
  match fs with
  | [ttt, tut1, jd, day, xp, yp, dx, dy, lod, p106, e106, p4, e4, x, y, s, eb106, eb4] =>
    pure (⟨ttt, tut1, jd, day, xp, yp, dx, dy, lod, p106, e106, p4, e4, x, y, s, eb106, eb4⟩, toks)
  | _ => none

def takeExtra (toks : Toks) : Option (Extra × Toks) := do
  let ((c, p), toks) ← takePair toks
  let (fs, toks) ← takeFloats 9 toks
  let m ← m3Of fs
  pure (⟨c, p, m⟩, toks)

def takeCLink (toks : Toks) : Option (CLink × Toks) := do
  let ((c, p), toks) ← takePair toks
  let (o, toks) ← takeNat toks
  let (pos, toks) ← takeV3 toks
  let (vel, toks) ← takeV3 toks
  pure (⟨c, p, o, pos, vel⟩, toks)

def takeLof (toks : Toks) : Option (LofSpec × Toks) := do
  let ((c, p), toks) ← takePair toks
  let ((tnw, g), toks) ← takePair toks
  let (pos, toks) ← takeV3 toks
  let (vel, toks) ← takeV3 toks
  let (own, toks) ← takeNat toks
  if own == 1 then
    let (D, toks) ← takeDate toks
    pure (⟨c, p, tnw == 1, g, pos, vel, some D⟩, toks)
  else
    pure (⟨c, p, tnw == 1, g, pos, vel, none⟩, toks)

def takeRow (k : Nat) (toks : Toks) : Option (List Float × Toks) := takeFloats k toks

def takeBlock (toks : Toks) : Option ((Nat × Nat × List (List Float)) × Toks) := do
  let ((tab, j), toks) ← takePair toks
  let (rows, toks) ← takeCounted (takeRow 16) toks
  pure ((tab, j, rows), toks)

def names : List String := Generated.orientNames

def ser80 (toks : Toks) : Option String := do
  let (ts, toks) ← takeCounted (takeRow 1) toks
  let (rows, _) ← takeCounted (takeRow 9) toks
  pure (fsToStr (ts.flatMap (fun t => let r := nutSeries80 (t.headD 0) rows; [epsBar80 (t.headD 0), r.1, r.2])))

def ser10 (toks : Toks) : Option String := do
  let (ts, toks) ← takeCounted (takeRow 1) toks
  let (blocks, _) ← takeCounted takeBlock toks
  pure (fsToStr (ts.flatMap (fun t => xys10 (t.headD 0) blocks)))

def conv (toks : Toks) : Option String := do
  let (D, toks) ← takeDate toks
  let (h, toks) ← takeCounted takePair toks
  let (ex, toks) ← takeCounted takeExtra toks
  let (ls, toks) ← takeCounted takeLof toks
  let ex ← resolveLofs D names (Generated.orientHist ++ h) ex ls
  let ((a, b), _) ← takePair toks
  match orientConvert D names (Generated.orientHist ++ h) ex a b with
  | some m => pure (fsToStr m.toList)
  | none => pure "value-error"

def xf (toks : Toks) : Option String := do
  let (D, toks) ← takeDate toks
  let (h, toks) ← takeCounted takePair toks
  let (ex, toks) ← takeCounted takeExtra toks
  let (ls, toks) ← takeCounted takeLof toks
  let ex ← resolveLofs D names (Generated.orientHist ++ h) ex ls
  let (ch, toks) ← takeCounted takePair toks
  let (cl, toks) ← takeCounted takeCLink toks
  let ((oa, ca), toks) ← takePair toks
  let ((ob, cb), toks) ← takePair toks
  let (p, toks) ← takeV3 toks
  let (v, _) ← takeV3 toks
  match frameTransform D names (Generated.orientHist ++ h) ex ch cl oa ca ob cb p v with
  | some r => pure (fsToStr (r.1.toList ++ r.2.toList))
  | none => pure "value-error"

/-- `Center.convert_to(date, new_center, orientation)` alone -/
def cen (toks : Toks) : Option String := do
  let (D, toks) ← takeDate toks
  let (h, toks) ← takeCounted takePair toks
  let (ex, toks) ← takeCounted takeExtra toks
  let (ls, toks) ← takeCounted takeLof toks
  let ex ← resolveLofs D names (Generated.orientHist ++ h) ex ls
  let (ch, toks) ← takeCounted takePair toks
  let (cl, toks) ← takeCounted takeCLink toks
  let ((ca, cb), toks) ← takePair toks
  let (t, _) ← takeNat toks
  match centerConvert D names (Generated.orientHist ++ h) ex ch cl ca cb t with
  | some r => pure (fsToStr (r.1.toList ++ r.2.toList))
  | none => pure "value-error"

def takeCall (h : List (Nat × Nat)) (ex : List Extra) (toks : Toks) : Option (Call × Toks) := do
  let (D, toks) ← takeDate toks
  let ((a, b), toks) ← takePair toks
  pure (⟨D, Generated.orientHist ++ h, ex, a, b⟩, toks)

/-- a whole history of `Orientation.convert_to` requests in one line: the `_nutation_series` memo is threaded through the calls;
the nutation fields of the date floats are ignored (filled from the series on the rows of tab5.1 given first) -/
def seq (toks : Toks) : Option String := do
  let (rows, toks) ← takeCounted (takeRow 9) toks
  let (h, toks) ← takeCounted takePair toks
  let (ex, toks) ← takeCounted takeExtra toks
  let (calls, _) ← takeCounted (takeCall h ex) toks
  let rs := sessionRun names rows [] calls
  pure (" ".intercalate (rs.map (fun r => match r with | some m => fsToStr m.toList | none => "E")))

/-- `iau1980.nutation(date)` with `eop_correction=True`: series on the rows given + the tail translated from the source -/
def nutc (toks : Toks) : Option String := do
  let (rows, toks) ← takeCounted (takeRow 9) toks
  let (fs, _) ← takeFloats 3 toks
  match fs with
  | [ttt, dpsi, deps] =>
    let n := nutCorrected (nutOf rows (ttt, rows.length)) dpsi deps
    pure (fsToStr (nutation80 n.eps n.dpsi n.deps).toList)
  | _ => none

/--
* `c02seq <nrows> <a1..a5 A B C D>… <nH> (a b)… <nE> (child parent 9 floats)… <ncalls> (<18 date floats> <a> <b>)…` → per call 18 floats or `E`
  (the process starts with an empty `_nutation_series` memo)
* `c02nutc <nrows> rows… <ttt> <dpsi mas> <deps mas>` → 9 floats: `iau1980.nutation(date)` with the EOP corrections
* `c02ser80 <n> <ttt>… <nrows> <a1..a5 A B C D>…`                → n × (ε̄, Δψ, Δε) in degrees
* `c02ser10 <n> <ttt>… <nblocks> (<tab> <j> <nrows> <16 floats>…)…` → n × (X, Y, s+XY/2) in arcsec
* `c02cen  <18 date floats> <nH> … <nE> … <nL> … <nCH> (a b)… <nCL> (child parent ori 6 floats)… <ca> <cb> <target orientation>` → 6 floats
* `c02lofrate <tnw 0|1> <p> <v> <a>` → 3 + 9 floats: the angular velocity `lofRate` of the local frame (own axes) and `d/dt to_local = −[ω]× to_local`
* `c02lof <tnw 0|1> <p> <v>` → 9 floats;  `c02topo <lat> <lon>` → 9;  `c02geod <lat> <lon> <alt>` → 6
* `c02conv <18 date floats> <nH> (a b)… <nE> (child parent 9 floats)… <nL> (child parent tnw gori 6 floats own 0|1 [18 date floats])… <a> <b>` → 18 floats (r block, b block)
* `c02xf   <18 date floats> <nH> … <nE> … <nL> … <nCH> (a b)… <nCL> (child parent ori 6 floats)… <oa> <ca> <ob> <cb> <p> <v>` → 6 floats
-/
def handle : List String → Option String
  | "c02ser80" :: rest => some ((ser80 rest).getD "bad-op")
  | "c02ser10" :: rest => some ((ser10 rest).getD "bad-op")
  | "c02lof" :: tnw :: rest => some <|
    match takeFloats 6 rest with
    | some ([a, b, c, d, e, f], _) => fsToStr (lofMat (tnw == "1") ⟨a, b, c⟩ ⟨d, e, f⟩).toList
    | _ => "bad-op"
  | "c02lofrate" :: tnw :: rest => some <|
    match takeFloats 9 rest with
    | some ([a, b, c, d, e, f, g, h, i], _) =>
      let w := lofRate (tnw == "1") ⟨a, b, c⟩ ⟨d, e, f⟩ ⟨g, h, i⟩
      let P := (lofMat (tnw == "1") ⟨a, b, c⟩ ⟨d, e, f⟩).tr
      fsToStr (w.toList ++ ((M3.skew w).mul P).neg.toList)
    | _ => "bad-op"
  | "c02topo" :: rest => some <|
    match takeFloats 2 rest with
    | some ([lat, lon], _) => fsToStr (topoMat lat lon).toList
    | _ => "bad-op"
  | "c02geod" :: rest => some <|
    match takeFloats 3 rest with
    | some ([lat, lon, alt], _) => fsToStr (geodetic lat lon alt)
    | _ => "bad-op"
  | "c02conv" :: rest => some ((conv rest).getD "bad-op")
  | "c02xf" :: rest => some ((xf rest).getD "bad-op")
  | "c02cen" :: rest => some ((cen rest).getD "bad-op")
  | "c02seq" :: rest => some ((seq rest).getD "bad-op")
  | "c02nutc" :: rest => some ((nutc rest).getD "bad-op")
  | _ => none

end BeyondVerif.Drv.C02
