import BeyondVerif.Model.Sgp4Wrap
import BeyondVerif.Drv.Util
namespace BeyondVerif.Drv.C07
open BeyondVerif BeyondVerif.Drv

/-- `sgp4fields <us>` → `Y M D h m secUs <bits of float("SS.ffffff")>`: the arguments `Sgp4.propagate` hands to the
library for the UTC datetime `us` microseconds after 0001-01-01 (rejects negative / non-numeric input) -/
def handle : List String → Option String
  | ["sgp4fields", us] => some <|
    match us.toNat? with
    | some n =>
      let f := Sgp4Wrap.utcFields n
      joinWith " " [toString f.year, toString f.month, toString f.day, toString f.hour, toString f.minute, toString f.secUs, fToStr (Sgp4Wrap.secFloat f)]
    | none => "value-error"
  | _ => none

end BeyondVerif.Drv.C07
