import BeyondVerif.Model.Sgp4Wrap
import BeyondVerif.Model.Sgp4Inst
import BeyondVerif.Generated.Sgp4BetaInst
import BeyondVerif.Generated.Sgp4BetaF
import BeyondVerif.Model.Sgp4RefF
import BeyondVerif.Drv.Util
namespace BeyondVerif.Drv.C07
open BeyondVerif BeyondVerif.Drv

/-- `sgp4fields <us>` → `Y M D h m secUs <bits of float("SS.ffffff")>`: the arguments `Sgp4.propagate` hands to the
library for the UTC datetime `us` microseconds after 0001-01-01 (rejects negative / non-numeric input)
`sgp4utc <tai_us> <tai_minus_utc_us>` → the same tuple for the instant `tai_us` (TAI clock) whose day carries that TAI − UTC (`Wrapper.runInstant`)
`sgp4beta <i0 Ω0 e0 ω0 M0 n0 bstar tdiff>` → six floats: `Sgp4Beta` (setter + propagate), tdiff in minutes
`sgp4init <i0 Ω0 e0 ω0 M0 n0 bstar>` → the twenty cached `_init` values
`natseq b<inst>:<orbit> … p<inst> …` → per `p`: `<orbit whose elements are used>:<orbit whose cached constants are used>` (`Sgp4Inst.runSeq` with the storage read from the source)
`wrapseq e<key>:<version> … p …` → per `p`: `<setter ran>:<version the record in use was built from>` (`Sgp4Wrap.runSeq`, the binding state machine)
`refinit <ecco inclo argpo no_kozai bstar>` → the reference spec's `[isimp, deep, no_unkozai, ao, eta, cc1, cc3, cc4, …]` (`F.refInit`)
`refsgp4 <ecco inclo nodeo argpo mo no_kozai bstar t>` → the reference spec's mean elements and state (`F.refSgp4`), t in minutes -/
def handle : List String → Option String
  | ["sgp4fields", us] => some <|
    match us.toNat? with
    | some n =>
      let f := Sgp4Wrap.utcFields n
      joinWith " " [toString f.year, toString f.month, toString f.day, toString f.hour, toString f.minute, toString f.secUs, fToStr (Sgp4Wrap.secFloat f)]
    | none => "value-error"
  | ["sgp4utc", tai, off] => some <|
    match tai.toInt?, off.toInt? with
    | some t, some o =>
      if Sgp4Wrap.utcReading t o < 0 then "value-error" else
      let f := Sgp4Wrap.utcFields (Sgp4Wrap.utcReading t o).toNat
      joinWith " " [toString f.year, toString f.month, toString f.day, toString f.hour, toString f.minute, toString f.secUs, fToStr (Sgp4Wrap.secFloat f)]
    | _, _ => "value-error"
  | "sgp4beta" :: rest => some <|
    match takeFloats 8 rest with
    | some ([i0, raan, e0, argp, m0, n0, bstar, tdiff], []) => fsToStr (F.sgp4Beta i0 raan e0 argp m0 n0 bstar tdiff)
    | _ => "bad-op"
  | "sgp4init" :: rest => some <|
    match takeFloats 7 rest with
    | some ([i0, raan, e0, argp, m0, n0, bstar], []) => fsToStr (F.sgp4Init i0 raan e0 argp m0 n0 bstar)
    | _ => "bad-op"
  | "natseq" :: rest => some <|
    match Sgp4Inst.runSeq Sgp4BetaInst.initStorage Sgp4Inst.State.empty rest with
    | some l => if l.isEmpty then "-" else joinWith " " l
    | none => "bad-op"
  | "wrapseq" :: rest => some <|
    match Sgp4Wrap.runSeq none (0, 0) rest with
    | some l => if l.isEmpty then "-" else joinWith " " l
    | none => "bad-op"
  | "refinit" :: rest => some <|
    match takeFloats 5 rest with
    | some ([ecco, inclo, argpo, no, bstar], []) => fsToStr (F.refInit ecco inclo argpo no bstar)
    | _ => "bad-op"
  | "refsgp4" :: rest => some <|
    match takeFloats 8 rest with
    | some ([ecco, inclo, nodeo, argpo, mo, no, bstar, t], []) => fsToStr (F.refSgp4 ecco inclo nodeo argpo mo no bstar t)
    | _ => "bad-op"
  | _ => none

end BeyondVerif.Drv.C07
