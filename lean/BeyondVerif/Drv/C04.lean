import BeyondVerif.Model.DateUse
import BeyondVerif.Drv.Util
namespace BeyondVerif.Drv.C04
open BeyondVerif BeyondVerif.Drv BeyondVerif.DateUse

/-- `c04.delta ra oa rb ob` : readings (µs) and offsets-to-TAI (µs, `TAI − label`) of two dates; reply `b − a` in µs.
    `c04.eopday r` : day number used for the EOP lookup of a date whose own-scale reading is r -/
def handle : List String → Option String
  | ["c04.delta", ra, oa, rb, ob] => some <|
    match ra.toInt?, oa.toInt?, rb.toInt?, ob.toInt? with
    | some ra, some oa, some rb, some ob =>
      -- label 0 for a, 1 for b; `off l = label − TAI = −(TAI − label)`
      let off : Nat → Int := fun l => if l = 0 then -oa else -ob
      toString (sub (ofReading off rb 1) (ofReading off ra 0))
    | _, _, _, _ => "bad-op"
  | ["c04.eopday", r] => some <|
    match r.toInt? with
    | some r => toString (eopDay (fun _ => 0) ⟨r, 0⟩)
    | none => "bad-op"
  | _ => none

end BeyondVerif.Drv.C04
