import BeyondVerif.Model.DateCfg
import BeyondVerif.Model.CcsdsDate
import BeyondVerif.Model.DateIter
import BeyondVerif.Generated.CcsdsDates
import BeyondVerif.Drv.C03
import BeyondVerif.Drv.Util
/-!
Line-protocol handler of C04.  Everything runs on C03's integer model of `Date` (`Model/Date.lean` with the
configuration regenerated from /repo, `Model/DateCfg.lean`) under one of three EOP environments:

* `real`  — the IERS tables of tests/data/pole (`Generated/EopTable.lean`), missing-data policy "pass";
* `zero`  — no database at all: every lookup falls back to the all-zero record;
* `const` — the constant record the library's own test-suite mocks `EopDb.get` with (TAI−UTC = 36 s, UT1−UTC = 0.0175602 s).

Times travel as decimal integers: microseconds for clock readings and timedeltas, ticks of 1e-7 s for offsets.
-/
namespace BeyondVerif.Drv.C04
open BeyondVerif BeyondVerif.Drv BeyondVerif.Date BeyondVerif.Generated

def envOf? : String → Option Env
  | "real" => some (C03.envOf .pass)
  | "zero" => some ⟨fun _ => none, [], .pass, C03.tdbTicks⟩
  | "const" => some ⟨fun _ => some 175602, [(0, 360000000)], .pass, C03.tdbTicks⟩
  | _ => none

/-- scale, `_datetime` µs, `datetime` µs, `_offset` ticks, eop (ticks), own clock `d*D + s` (ticks) — as `d3…` of C03 -/
def showDate (x : Date) : String := (C03.showDate x).drop 3 |>.toString

def errS (e : Err) : String := "err " ++ C03.errStr e

/-- one step of a history: `a<µs>` = `+ timedelta`, `s<µs>` = `- timedelta`, `c<SCALE>` = `change_scale`,
`n` = `Date(date)` (copy constructor: `d`, `s`, `scale` of the argument through `__init__`),
`p` = a copy that does not go through `__init__` (pickle, deepcopy): the same slots -/
def step (env : Env) (x : Date) (op : String) : Option (Except Err Date) :=
  match op.toList with
  | 'a' :: r => (iOfStr? (String.ofList r)).map (fun t => add cfg env x t)
  | 's' :: r => (iOfStr? (String.ofList r)).map (fun t => subTd cfg env x t)
  | 'c' :: r => (C03.scaleOf? (String.ofList r)).map (fun sc => changeScale cfg env x sc)
  | ['n'] => some (let ds := x.toScale; mk cfg env x.scale ds.1 ds.2)
  | ['p'] => some (.ok x)
  | _ => none

/-- a history from a start date: the date after every step -/
def chain (env : Env) (x : Date) : List String → List String → Option (List String)
  | [], acc => some acc.reverse
  | op :: ops, acc =>
    match step env x op with
    | none => none
    | some (.error e) => some ((errS e) :: acc).reverse
    | some (.ok y) => chain env y ops (showDate y :: acc)

def strOfCodes? (s : String) : Option String :=
  if s = "-" then some "" else
  ((s.splitOn ",").mapM (fun (t : String) => t.toNat?.map Char.ofNat)).map String.ofList

def branches : List CcsdsDate.Branch := parseDateBranches.map (fun p => ⟨p.1, p.2⟩)

def handle : List String → Option String
  -- c04.chain env scale us op… : the start date and the date after every operation
  | "c04.chain" :: e :: scale :: us :: ops => some <| Id.run do
    let some env := envOf? e | return "bad-op"
    let some sc := C03.scaleOf? scale | return "err unknown-scale"
    let some us := iOfStr? us | return "bad-op"
    match ofDatetime cfg env sc us with
    | .error er => return errS er
    | .ok x =>
      match chain env x ops [showDate x] with
      | none => return "bad-op"
      | some l => return joinWith " | " l
  -- c04.cmp env sa ua sb ub : b − a (µs) and the six comparisons / hash of two dates
  | ["c04.cmp", e, sa, ua, sb, ub] => some <| Id.run do
    let some env := envOf? e | return "bad-op"
    let some a := C03.mkOf env sa ua | return "bad-op"
    let some b := C03.mkOf env sb ub | return "bad-op"
    match a, b with
    | .ok x, .ok y => return s!"ok {subDate y x} {C03.b (y.lt x)} {C03.b (y.le x)} {C03.b (y.eq x)} {C03.b (y.ge x)} {C03.b (y.gt x)} {C03.b (y.hashKey == x.hashKey)}"
    | _, _ => return "err missing-eop"
  -- c04.range env scale us durUs stepUs incl : the dates a DateRange yields (start + timedelta as stop)
  | ["c04.range", e, scale, us, dur, st, incl] => some <| Id.run do
    let some env := envOf? e | return "bad-op"
    let some sc := C03.scaleOf? scale | return "err unknown-scale"
    let some us := iOfStr? us | return "bad-op"
    let some dur := iOfStr? dur | return "bad-op"
    let some st := iOfStr? st | return "bad-op"
    match ofDatetime cfg env sc us with
    | .error er => return errS er
    | .ok x =>
      match add cfg env x dur with
      | .error er => return errS er
      | .ok stop =>
        match Range.make x.datetimeRef stop.datetimeRef st (incl == "1") with
        | .error er => return errS er
        | .ok _ =>
          match rangeIter cfg env stop st (incl == "1") 5000 x with
          | .error er => return errS er
          | .ok l => return joinWith " | " ("ok" :: l.map showDate)
  -- c04.pd env scale codes : parse_date(string, scale); codes = the text as comma-separated code points
  | ["c04.pd", e, scale, codes] => some <| Id.run do
    let some env := envOf? e | return "bad-op"
    let some sc := C03.scaleOf? scale | return "err unknown-scale"
    let some s := strOfCodes? codes | return "bad-op"
    match CcsdsDate.parseDate cfg env defaultScale branches s sc with
    | none => return "err value-error"
    | some (.error er) => return errS er
    | some (.ok x) => return showDate x
  -- c04.fmt codes-of-format codes-of-text : datetime.strptime as a clock reading
  | ["c04.fmt", f, codes] => some <| Id.run do
    let some f := strOfCodes? f | return "bad-op"
    let some s := strOfCodes? codes | return "bad-op"
    match CcsdsDate.strptime f s with
    | none => return "err value-error"
    | some us => return s!"ok {us}"
  | _ => none

end BeyondVerif.Drv.C04
