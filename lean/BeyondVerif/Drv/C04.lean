import BeyondVerif.Model.DateUse
import BeyondVerif.Drv.Util
namespace BeyondVerif.Drv.C04
open BeyondVerif BeyondVerif.Drv BeyondVerif.DateUse

/-- `c04.delta ra oa rb ob` : readings (µs) and offsets-to-TAI (µs, `TAI − label`) of two dates; reply `b − a` in µs.
    `c04.eopday r o ou` : UTC day number used for the EOP lookup -/
def handle : List String → Option String
  | ["c04.delta", ra, oa, rb, ob] => some <|
    match ra.toInt?, oa.toInt?, rb.toInt?, ob.toInt? with
    | some ra, some oa, some rb, some ob =>
      -- label 0 for a, 1 for b; `off l = label − TAI = −(TAI − label)`
      let off : Nat → Int := fun l => if l = 0 then -oa else -ob
      toString (sub (ofReading off rb 1) (ofReading off ra 0))
    | _, _, _, _ => "bad-op"
  | ["c04.eopday", r, o, ou] => some <|
    -- own-scale reading r (µs), TAI − label = o, TAI − UTC = ou  →  UTC day number used for the EOP lookup
    match r.toInt?, o.toInt?, ou.toInt? with
    | some r, some o, some ou =>
      let off : Nat → Int := fun l => if l = 0 then -ou else -o
      toString (eopDay off 0 (ofReading off r 1))
    | _, _, _ => "bad-op"
  | _ => none

end BeyondVerif.Drv.C04
