import BeyondVerif.Model.Ccsds
import BeyondVerif.Model.CcsdsExt
import BeyondVerif.Drv.Util
/-!
Line protocol for C13:  `c13 <op> <type> <fmt> <message tokens…>`

* `rt`      : `load (dump_fmt m)`                         → `ok <tokens of the loaded message>` | `err <stage> <kind>`
* `redump`  : `dump_f2 (load (dump_fmt m))` (`fmt` = `kvn>xml` …) → `ok` | `err <stage> <kind>`
* `stamp <opm|oem|tdm> <TIME_SYSTEM> <scale> <clock µs> <off scale> <off TIME_SYSTEM>` → `<clock written> <label read back>`
* `segs <oem|tdm> <nseg> {<n> {<clock µs> <scale>}ⁿ}… <k> {<scale> <off>}ᵏ` → per segment `<n> {<clock read back> <label>}ⁿ`
              (a message of several segments, each labelled with the scale of its first date; `off` = clock of the scale − reference)
* `window <date µs> <duration µs> <start|median|stop>` → `<start> <stop>` of the maneuver read back | `none`
* `form <kvn|xml> <form>` → `ok` | `err dump AttributeError`      (OEM writers and the form of the points)
* `center <kvn|xml> <centre name, blanks as _>` → `<CENTER_NAME written> <frame name the readers rebuild>` (blanks as _)
* `udkey <name>` → the user-defined name the KVN readers recover from the key the writers print | `none`
* `kepl <0|1>` → what the OPM writers do with a Keplerian impulsive (0) / continuous (1) maneuver: `err dump AttributeError` | `zeros` | `dv`

Free strings travel as opaque tokens (the harness hex-encodes them); numbers as the text the writer
prints (opaque), except maneuver durations (integer milliseconds).
-/
namespace BeyondVerif.Drv.C13
open BeyondVerif BeyondVerif.Drv BeyondVerif.Ccsds

abbrev P := StateT (List String) Option

def tok : P String := fun s => match s with
  | [] => none
  | t :: r => some (t, r)

def nat : P Nat := do let t ← tok; match t.toNat? with | some n => pure n | none => failure
def int : P Int := do let t ← tok; match t.toInt? with | some n => pure n | none => failure
def opt : P (Option String) := do let t ← tok; pure (if t = "-" then none else some t)
def txt : P Txt := do pure (.s (← tok))

def rep (n : Nat) (p : P α) : P (List α) :=
  match n with
  | 0 => pure []
  | k + 1 => do let x ← p; let xs ← rep k p; pure (x :: xs)

def pCov : P (Option CovM) := do
  match (← nat) with
  | 0 => pure none
  | _ => do
    let f ← opt
    let tri ← rep 21 txt
    pure (some { frame := f, tri := tri })

def pUd : P (Option (List (String × String))) := do
  match (← opt) with
  | none => pure none
  | some k => match k.toNat? with
    | none => failure
    | some k => do
      let kvs ← rep k (do let a ← tok; let b ← tok; pure (a, b))
      pure (some kvs)

def pMan : P Man := do
  let dur ← int
  let epoch ← txt
  let frame ← opt
  let comment ← opt
  let dv ← rep 3 txt
  pure { dur := dur, epoch := epoch, frame := frame, comment := comment, dv := dv }

def pOpm : P Opm := do
  let name ← tok; let id ← tok; let frame ← tok; let scale ← tok; let epoch ← txt
  let state ← rep 6 txt
  let kep ← match (← nat) with
    | 0 => pure none
    | _ => some <$> rep 7 txt
  let cov ← pCov
  let mans ← rep (← nat) pMan
  let ud ← pUd
  pure { name := name, id := id, frame := frame, scale := scale, epoch := epoch, state := state, kep := kep, cov := cov, mans := mans, ud := ud }

def pOmm : P Omm := do
  let name ← tok; let id ← tok; let frame ← tok; let scale ← tok; let epoch ← txt
  let elems ← rep 6 txt
  let tle ← rep 6 txt
  let cov ← pCov
  let ud ← pUd
  let hasTle ← nat
  pure { name := name, id := id, frame := frame, scale := scale, epoch := epoch, elems := elems, tle := tle, cov := cov, ud := ud, hasTle := hasTle != 0 }

def pPoint : P Point := do
  let epoch ← txt
  let state ← rep 6 txt
  let cov ← pCov
  pure { epoch := epoch, state := state, cov := cov }

def pSeg : P Seg := do
  let name ← tok; let id ← tok; let frame ← tok; let scale ← tok; let method ← tok
  let order ← opt
  let pts ← rep (← nat) pPoint
  pure { name := name, id := id, frame := frame, scale := scale, method := method, order := order.map .s, points := pts }

def pOem : P Oem := do rep (← nat) pSeg

def pObs : P Obs := do
  let kind ← tok
  let path ← rep (← nat) tok
  let epoch ← txt
  let value ← txt
  pure { kind := kind, path := path, epoch := epoch, value := value }

def pTdm : P Tdm := do
  let scale ← tok
  let obs ← rep (← nat) pObs
  pure { scale := scale, obs := obs }

/-! printing (same grammar) -/

def sTxt : Txt → String
  | .s v => v
  | .n v => toString v
  | .l v => joinWith "," (v.map toString)

def sOpt : Option String → String
  | none => "-"
  | some v => v

def sCov : Option CovM → List String
  | none => ["0"]
  | some c => ["1", sOpt c.frame] ++ c.tri.map sTxt

def sUd : Option (List (String × String)) → List String
  | none => ["-"]
  | some kvs => toString kvs.length :: kvs.flatMap fun (k, v) => [k, v]

def sMan (m : Man) : List String :=
  [toString m.dur, sTxt m.epoch, sOpt m.frame, sOpt m.comment] ++ m.dv.map sTxt

def sOpm (m : Opm) : List String :=
  [m.name, m.id, m.frame, m.scale, sTxt m.epoch] ++ m.state.map sTxt ++
  (match m.kep with | none => ["0"] | some ks => "1" :: ks.map sTxt) ++ sCov m.cov ++
  [toString m.mans.length] ++ m.mans.flatMap sMan ++ sUd m.ud

def sOmm (m : Omm) : List String :=
  [m.name, m.id, m.frame, m.scale, sTxt m.epoch] ++ m.elems.map sTxt ++ m.tle.map sTxt ++ sCov m.cov ++ sUd m.ud ++
  [if m.hasTle then "1" else "0"]

def sPoint (p : Point) : List String := [sTxt p.epoch] ++ p.state.map sTxt ++ sCov p.cov

def sSeg (s : Seg) : List String :=
  [s.name, s.id, s.frame, s.scale, s.method, sOpt (s.order.map sTxt), toString s.points.length] ++ s.points.flatMap sPoint

def sOem (m : Oem) : List String := toString m.length :: m.flatMap sSeg

def sObs (o : Obs) : List String := [o.kind, toString o.path.length] ++ o.path ++ [sTxt o.epoch, sTxt o.value]

def sSets (r : String × List (List Obs)) : List String :=
  [r.1, toString r.2.length] ++ r.2.flatMap fun set => toString set.length :: set.flatMap sObs

def sErr : Err → String
  | .keyError => "KeyError" | .typeError => "TypeError" | .attrError => "AttributeError" | .ccsdsError => "CcsdsError"
  | .unboundLocal => "UnboundLocalError" | .valueError => "ValueError" | .nameError => "NameError"

def reply (stage : String) (x : R α) (k : α → String) : String :=
  match x with
  | .ok v => k v
  | .error e => "err " ++ stage ++ " " ++ sErr e

/-- round trip and, when asked, re-dump of the loaded object -/
def run (type fmt : String) (refmt : Option String) (toks : List String) : Option String :=
  let fin (s : List String) := match refmt with | none => "ok " ++ joinWith " " s | some _ => "ok"
  match type with
  | "opm" => do
    let (m, rest) ← pOpm toks
    if ¬ rest.isEmpty then none
    let ld := fun (f : String) (m : Opm) => if f = "kvn" then opmKvn m >>= loadOpmKvn else opmXml m >>= loadOpmXml
    let dumpOnly := fun (f : String) (m : Opm) => if f = "kvn" then (opmKvn m).map (fun _ => ()) else (opmXml m).map (fun _ => ())
    let d1 := dumpOnly fmt m
    pure <| reply "dump" d1 fun _ => reply "load" (ld fmt m) fun l =>
      match refmt with
      | none => fin (sOpm l)
      | some f2 => reply "redump" (dumpOnly f2 l) fun _ => "ok"
  | "omm" => do
    let (m, rest) ← pOmm toks
    if ¬ rest.isEmpty then none
    let ld := fun (f : String) (m : Omm) => if f = "kvn" then ommKvn m >>= loadOmmKvn else ommXml m >>= loadOmmXml
    let dumpOnly := fun (f : String) (m : Omm) => if f = "kvn" then (ommKvn m).map (fun _ => ()) else (ommXml m).map (fun _ => ())
    pure <| reply "dump" (dumpOnly fmt m) fun _ => reply "load" (ld fmt m) fun l =>
      match refmt with
      | none => fin (sOmm l)
      | some f2 => reply "redump" (dumpOnly f2 l) fun _ => "ok"
  | "oem" => do
    let (m, rest) ← pOem toks
    if ¬ rest.isEmpty then none
    let ld := fun (f : String) (m : Oem) => if f = "kvn" then oemKvn m >>= loadOemKvn else oemXml m >>= loadOemXml
    let dumpOnly := fun (f : String) (m : Oem) => if f = "kvn" then (oemKvn m).map (fun _ => ()) else (oemXml m).map (fun _ => ())
    pure <| reply "dump" (dumpOnly fmt m) fun _ => reply "load" (ld fmt m) fun l =>
      match refmt with
      | none => fin (sOem l)
      | some f2 => reply "redump" (dumpOnly f2 l) fun _ => "ok"
  | "tdm" => do
    let (m, rest) ← pTdm toks
    if ¬ rest.isEmpty then none
    let ld := fun (f : String) (m : Tdm) => if f = "kvn" then tdmKvn m >>= loadTdmKvn else tdmXml m >>= loadTdmXml
    let dumpOnly := fun (f : String) (m : Tdm) => if f = "kvn" then (tdmKvn m).map (fun _ => ()) else (tdmXml m).map (fun _ => ())
    pure <| reply "dump" (dumpOnly fmt m) fun _ => reply "load" (ld fmt m) fun l =>
      match refmt with
      | none => fin (sSets l)
      | some f2 => reply "redump" (tdmOfSets l >>= dumpOnly f2) fun _ => "ok"
  | _ => none

open BeyondVerif.CcsdsExt in
def ext : List String → Option String
  | ["stamp", site, msg, scale, clock, offS, offM] => do
    let c ← clock.toInt?
    let oS ← offS.toInt?
    let oM ← offM.toInt?
    let conv ← (match site with
      | "opm" => some Generated.opmManScaleConv | "oem" => some Generated.oemPointScaleConv | "tdm" => some Generated.tdmObsScaleConv | _ => none)
    let off := fun (s : String) => if s = msg then oM else if s = scale then oS else 0
    let r := readBack msg (written conv off msg ⟨c, scale⟩)
    pure (toString r.clock ++ " " ++ r.scale)
  | "segs" :: site :: toks => do
    let p : P (List (List Stamp) × List (String × Int)) := do
      let segs ← rep (← nat) (do rep (← nat) (do let c ← int; let sc ← tok; pure (⟨c, sc⟩ : Stamp)))
      let offs ← rep (← nat) (do let sc ← tok; let o ← int; pure (sc, o))
      pure (segs, offs)
    let ((segs, offs), rest) ← p toks
    if ¬ rest.isEmpty then none
    let (conv, ofSeg) ← (match site with
      | "oem" => some (Generated.oemPointScaleConv, Generated.oemPointScaleOfSegment)
      | "tdm" => some (Generated.tdmObsScaleConv, Generated.tdmObsScaleOfSegment) | _ => none)
    let off := fun (sc : String) => (offs.lookup sc).getD 0
    pure <| joinWith " " ((segsBack conv ofSeg off segs).flatMap fun seg =>
      toString seg.length :: seg.flatMap fun st => [toString st.clock, st.scale])
  | ["window", date, dur, pos] => do
    let d ← date.toInt?
    let u ← dur.toInt?
    let p ← DatePos.ofString pos
    pure (match manWindowBack ⟨d, u, p⟩ with
      | some (a, b) => toString a ++ " " ++ toString b
      | none => "none")
  | ["form", fmt, form] => some (if oemDumpForm fmt form then "ok" else "err dump AttributeError")
  | ["center", fmt, name] =>
    let us := fun (l : List Char) => l.map fun c => if c = '_' then ' ' else c
    let su := fun (l : List Char) => String.ofList (l.map fun c => if c = ' ' then '_' else c)
    let w := centerWrite (if fmt = "kvn" then Generated.kvnCenterPats else Generated.xmlCenterPats) (us name.toList)
    some (su w ++ " " ++ su (centerRead w))
  | ["udkey", name] => some (match udKeyIn (udKeyOut name.toList) with
      | some k => String.ofList k
      | none => "none")
  | ["kepl", k] => some (match kepManWritten (k = "1") with
      | .attrError => "err dump AttributeError" | .zeros => "zeros" | .dv => "dv")
  | _ => none

def handle : List String → Option String
  | "c13" :: "rt" :: type :: fmt :: toks => some ((run type fmt none toks).getD "bad-op")
  | "c13" :: "ext" :: toks => some ((ext toks).getD "bad-op")
  | "c13" :: "redump" :: type :: fmt :: f2 :: toks => some ((run type fmt (some f2) toks).getD "bad-op")
  | _ => none

end BeyondVerif.Drv.C13
