import BeyondVerif.Model.ManF
import BeyondVerif.Model.ManWin
import BeyondVerif.Model.FrameReg
import BeyondVerif.Model.FrameName
import BeyondVerif.Model.ManObj
import BeyondVerif.Drv.Util
namespace BeyondVerif.Drv.C17
open BeyondVerif BeyondVerif.Drv BeyondVerif.F BeyondVerif.ManWin BeyondVerif.Generated

def tagOf : String → Option Tag
  | "QSW" => some Tag.qsw
  | "TNW" => some Tag.tnw
  | "-" => some Tag.other
  | _ => none

def v3 (a b c : Float) : V3 := ⟨a, b, c⟩

def intsToStr (l : List Int) : String := joinWith " " (l.map toString)

def splitOnBar (toks : List String) : List String × List String :=
  (toks.takeWhile (· ≠ "|"), (toks.dropWhile (· ≠ "|")).drop 1)

/-- `reg <name> <tag> <orbit id>` | `conv <name>` … -/
partial def parseOps : List String → Option (List FrameReg.Op)
  | [] => some []
  | "reg" :: name :: tag :: id :: rest => do
    -- `<id>` or `<id>@<number of orientation links from the parent to EME2000>`
    let parts := id.splitOn "@"
    let n ← (parts.getD 0 "").toNat?
    let pd ← if parts.length = 2 then (parts.getD 1 "").toNat? else some 0
    let ops ← parseOps rest
    pure (FrameReg.Op.reg name ⟨tag, n, pd⟩ :: ops)
  | "conv" :: name :: rest => do
    let ops ← parseOps rest
    pure (FrameReg.Op.conv name :: ops)
  | _ => none

/-- a name on the wire: `~` = None, `-` = the empty string, otherwise the code points joined by commas -/
def nameOf (tok : String) : Option (Option (List Char)) :=
  if tok = "~" then some none
  else if tok = "-" then some (some [])
  else ((tok.splitOn ",").mapM (fun (t : String) => t.toNat?)).map (fun cs => some (cs.map Char.ofNat))

def butcherOf : String → Option (List (Int × Int) × List Int × Int)
  | "euler" => some (butcherC_euler, butcherW_euler, butcherD_euler)
  | "rk4" => some (butcherC_rk4, butcherW_rk4, butcherD_rk4)
  | "rkf54" => some (butcherC_rkf54, butcherW_rkf54, butcherD_rkf54)
  | "dopri54" => some (butcherC_dopri54, butcherW_dopri54, butcherD_dopri54)
  | _ => none

/-- `nb (mu px py pz)*nb nm (on tag ax ay az)*nm` -/
def parseBodies : Nat → List String → Option (List (Float × V3) × List String)
  | 0, rest => some ([], rest)
  | n + 1, toks => do
    let (fs, rest) ← takeFloats 4 toks
    match fs with
    | [mu, x, y, z] =>
      let (bs, rest') ← parseBodies n rest
      pure ((mu, v3 x y z) :: bs, rest')
    | _ => none

def parseMans : Nat → List String → Option (List ContMan × List String)
  | 0, rest => some ([], rest)
  | n + 1, on :: tag :: toks => do
    let t ← tagOf tag
    let (fs, rest) ← takeFloats 3 toks
    match fs with
    | [x, y, z] =>
      let (ms, rest') ← parseMans n rest
      pure (⟨on = "1", t, v3 x y z⟩ :: ms, rest')
    | _ => none
  | _, _ => none

/-- `ref <kind> <frame> <form> b0..b5` … `|` ops -/
partial def parseRefs : List String → Option (List FrameReg.RefObj × List String)
  | "ref" :: kind :: frame :: form :: rest =>
    if rest.length < 6 then none else do
      let cs ← (rest.take 6).mapM (fun (t : String) => t.toNat?)
      let (rs, rest') ← parseRefs (rest.drop 6)
      pure (⟨kind, frame, form, cs⟩ :: rs, rest')
  | "|" :: rest => some ([], rest)
  | _ => none

/--
`c17.world ref <kind> <frame> <form> b0..b5 … | reg <name> <tag> <id> conv <name> …` → for each conv what it reads:
                                                `tag:id:kind:frame:form:b0,…,b5` (or `unknown`)
`c17.offset num den step`                     → `step * c` in µs for the float node `c = num/den`
`c17.thrust <method> start stop t0 h1 h2 …`   → `D ·` thrust time (µs) and `D`
`c17.accel x0..x5 nb (mu px py pz)… nm (on tag ax ay az)…` → 3 floats `_accel(orb)[3:]` (or `unbound`)
`c17.name <imp|cont|o2f|local|kepcont> <name>` → `qsw | tnw | identity | value-error`
`c17.toc <tag> cRef(6) cParent(6) cX(6) ref(6) x(6)` → 6 floats, conversion into a frame attached to an orbit around another centre
`c17.kcont x0..x5 mu a i v da di dO duration`  → 3 floats, `KeplerianContinuousMan.accel`
`c17.kepplane c0..c5`                         → inclination, node-direction arguments (Y, X) of `_cartesian_to_keplerian`
`c17.session reg <name> <tag> <id>[@<pdist>] conv <name> …` → for each conv `tag:id/tagInto:idInto` (or `unknown`): the latest
                                                registration and the one whose axes a conversion *into* the frame uses
`c17.local <QSW|TNW> x0..x5`                 → 9 floats, `to_local(tag, x, expanded=False)` row-major; other tags: `value-error`
`c17.proj <QSW|TNW|-> x0..x5 d0 d1 d2`       → 3 floats, `ImpulsiveMan.dv` / `ContinuousMan.accel`
`c17.accdv <QSW|TNW|-> x0..x5 d0 d1 d2 dur`  → 3 floats, `ContinuousMan(dv=…).accel`
`c17.kseq cont|imp dur da di dO sx sy sz (x0..x5 mu a i v)*` → 3 floats per state: the same object called on the states in turn
`c17.kepdv x0..x5 dvt dvw`                    → 3 floats, `to_tnw(orb).T @ [dvt, 0, dvw]`
`c17.to <tag> ref0..ref5 x0..x5`              → 6 floats, parent → attached frame
`c17.from <tag> ref0..ref5 y0..y5`            → 6 floats
`c17.dkep mu a i v da di dO`                  → dv_t dv_w (floats)
`c17.aol i di dO`                             → float
`c17.win tm t0 h1 h2 … `                      → count, then fired (start length) pairs (integers)
`c17.wins t0 h1 … | tm1 tm2 …`                → per step the applied indices: `i,j;;k;…`
`c17.cont <euler|rk4|rkf54|dopri54> start stop date step` → 0/1 per stage
-/
def handle : List String → Option String
  | "c17.world" :: rest => some <|
    match parseRefs rest with
    | some (refs, opsT) =>
      match parseOps opsT with
      | some ops => joinWith " " ((FrameReg.runW ⟨[], refs⟩ ops).map (fun
          | some (e, some r) => e.tag ++ ":" ++ toString e.orbit ++ ":" ++ r.kind ++ ":" ++ r.frame ++ ":" ++ r.form ++ ":" ++ joinWith "," (r.coords.map toString)
          | some (e, none) => e.tag ++ ":" ++ toString e.orbit ++ ":no-such-object"
          | none => "unknown"))
      | none => "bad-op"
    | none => "bad-op"
  | ["c17.offset", num, den, step] => some <|
    match num.toInt?, den.toInt?, step.toInt? with
    | some a, some b, some h => toString (stageOffset (a, b) h)
    | _, _, _ => "bad-op"
  | "c17.thrust" :: meth :: rest => some <|
    match butcherOf meth, takeInts rest.length rest with
    | some (cs, ws, d), some (start :: stop :: t0 :: steps, _) => toString (thrustUnits cs ws start stop t0 steps) ++ " " ++ toString d
    | _, _ => "bad-op"
  | "c17.accel" :: rest => some <|
    match takeFloats 6 rest with
    | some ([a, b, c, d, e, f], nb :: rest1) =>
      match nb.toNat? with
      | some nbn =>
        match parseBodies nbn rest1 with
        | some (bodies, nm :: rest2) =>
          match nm.toNat? with
          | some nmn =>
            match parseMans nmn rest2 with
            | some (mans, []) =>
              match accelOf (v3 a b c) (v3 d e f) bodies mans with
              | some r => fsToStr r.toList
              | none => "unbound"
            | _ => "bad-op"
          | none => "bad-op"
        | _ => "bad-op"
      | none => "bad-op"
    | _ => "bad-op"
  | ["c17.name", what, tok] => some <|
    match nameOf tok with
    | some f =>
      match what, f with
      | "imp", _ => (FrameName.impulsiveSel f).toString
      | "cont", _ => (FrameName.continuousSel f).toString
      | "o2f", _ => (FrameName.orbit2frameSel f).toString
      | "local", some s => (FrameName.toLocalSel Generated.FrameNames.toLocalTable s).toString
      | "kepcont", _ => FrameName.keplerianContinuousSel.toString
      | _, _ => "bad-op"
    | none => "bad-op"
  | "c17.toc" :: tag :: rest => some <|
    match tagOf tag, takeFloats 30 rest with
    | some t, some (fs, _) =>
      let st : Nat → St := fun k => ⟨v3 (fs.getD (6 * k) 0) (fs.getD (6 * k + 1) 0) (fs.getD (6 * k + 2) 0), v3 (fs.getD (6 * k + 3) 0) (fs.getD (6 * k + 4) 0) (fs.getD (6 * k + 5) 0)⟩
      let r := frameToC Generated.FrameNames.centreLinkedTo t (st 0) (st 1) (st 2) (st 3) (st 4)
      fsToStr (r.p.toList ++ r.v.toList)
    | _, _ => "bad-op"
  | "c17.kcont" :: rest => some <|
    match takeFloats 14 rest with
    | some ([a, b, c, d, e, f, mu, sma, i, v, da, di, dO, dur], _) => fsToStr (kepContAccel (v3 a b c) (v3 d e f) mu sma i v da di dO dur).toList
    | _ => "bad-op"
  | "c17.kseq" :: kind :: rest => some <|
    -- one Keplerian maneuver object called on several states in turn: the statement list of the method (regenerated from the
    -- source) run by the state machine of Model/ManObj.lean from the stored vector (sx, sy, sz)
    match takeFloats rest.length rest with
    | some (dur :: da :: di :: dO :: sx :: sy :: sz :: fs, _) =>
      let sts : List (List Float) := (List.range (fs.length / 10)).map (fun k => (fs.drop (10 * k)).take 10)
      let g : List Float → Nat → Float := fun l k => l.getD k 0
      let level : List Float → V3 := fun o =>
        let d : V3 := ⟨dkepDvT (g o 6) (g o 7) (g o 8) (g o 9) da di dO, 0, dkepDvW (g o 6) (g o 7) (g o 8) (g o 9) da di dO⟩
        if kind == "cont" then accelOfDv d dur else d
      let proj : List Float → V3 → V3 := fun o acc => manProject Tag.tnw (v3 (g o 0) (g o 1) (g o 2)) (v3 (g o 3) (g o 4) (g o 5)) acc
      let prog := if kind == "cont" then Generated.FrameNames.kepContAccelProg else Generated.FrameNames.kepImpDvProg
      joinWith " " ((ManObj.runCalls prog level proj (v3 sx sy sz) sts).map (fun r =>
        match r with
        | some w => fsToStr w.toList
        | none => "none none none"))
    | _ => "bad-op"
  | "c17.kepplane" :: rest => some <|
    match takeFloats 6 rest with
    | some ([a, b, c, d, e, f], _) => fsToStr [kepInc a b c d e f, kepNodeY a b c d e f, kepNodeX a b c d e f]
    | _ => "bad-op"
  | "c17.session" :: rest => some <|
    match parseOps rest with
    | some ops =>
      -- per conversion: the latest registration (origin, conversions out of the frame) `/` the one whose axes a conversion into it uses
      let show1 : Option FrameReg.Entry → String := fun
        | some e => e.tag ++ ":" ++ toString e.orbit
        | none => "unknown"
      joinWith " " (((FrameReg.run [] ops).zip (FrameReg.runInto [] ops)).map (fun p => show1 p.1 ++ "/" ++ show1 p.2))
    | none => "bad-op"
  | "c17.local" :: tag :: rest => some <|
    match tagOf tag, takeFloats 6 rest with
    | some Tag.other, _ => "value-error"
    | none, _ => "value-error"
    | some t, some ([a, b, c, d, e, f], _) => fsToStr (toLocal t (v3 a b c) (v3 d e f)).toList
    | _, _ => "bad-op"
  | "c17.proj" :: tag :: rest => some <|
    match tagOf tag, takeFloats 9 rest with
    | some t, some ([a, b, c, d, e, f, x, y, z], _) => fsToStr (manProject t (v3 a b c) (v3 d e f) (v3 x y z)).toList
    | _, _ => "bad-op"
  | "c17.accdv" :: tag :: rest => some <|
    match tagOf tag, takeFloats 10 rest with
    | some t, some ([a, b, c, d, e, f, x, y, z, dur], _) =>
      fsToStr (manProject t (v3 a b c) (v3 d e f) (accelOfDv (v3 x y z) dur)).toList
    | _, _ => "bad-op"
  | "c17.kepdv" :: rest => some <|
    match takeFloats 8 rest with
    | some ([a, b, c, d, e, f, dvt, dvw], _) => fsToStr (kepManDv (v3 a b c) (v3 d e f) dvt dvw).toList
    | _ => "bad-op"
  | "c17.to" :: tag :: rest => some <|
    match tagOf tag, takeFloats 12 rest with
    | some t, some ([a, b, c, d, e, f, x0, x1, x2, x3, x4, x5], _) =>
      let r := frameTo t ⟨v3 a b c, v3 d e f⟩ ⟨v3 x0 x1 x2, v3 x3 x4 x5⟩
      fsToStr (r.p.toList ++ r.v.toList)
    | _, _ => "bad-op"
  | "c17.from" :: tag :: rest => some <|
    match tagOf tag, takeFloats 12 rest with
    | some t, some ([a, b, c, d, e, f, x0, x1, x2, x3, x4, x5], _) =>
      let r := frameFrom t ⟨v3 a b c, v3 d e f⟩ ⟨v3 x0 x1 x2, v3 x3 x4 x5⟩
      fsToStr (r.p.toList ++ r.v.toList)
    | _, _ => "bad-op"
  | "c17.dkep" :: rest => some <|
    match takeFloats 7 rest with
    | some ([mu, a, i, v, da, di, dO], _) =>
      fsToStr [dkepDvT mu a i v da di dO, dkepDvW mu a i v da di dO]
    | _ => "bad-op"
  | "c17.aol" :: rest => some <|
    match takeFloats 3 rest with
    | some ([i, di, dO], _) => fToStr (dkep2aol i di dO)
    | _ => "bad-op"
  | "c17.win" :: rest => some <|
    match takeInts rest.length rest with
    | some (tm :: t0 :: steps, _) =>
      toString (countFired tm t0 steps) ++ " " ++ intsToStr ((firedSteps tm t0 steps).flatMap (fun p => [p.1, p.2]))
    | _ => "bad-op"
  | "c17.wins" :: rest => some <|
    let (a, b) := splitOnBar rest
    match takeInts a.length a, takeInts b.length b with
    | some (t0 :: steps, _), some (mans, _) =>
      joinWith ";" ((appliedPerStep mans t0 steps).map (fun l => joinWith "," (l.map toString)))
    | _, _ => "bad-op"
  | "c17.cont" :: meth :: rest => some <|
    let cs? : Option (List (Int × Int)) := match meth with
      | "euler" => some butcherC_euler
      | "rk4" => some butcherC_rk4
      | "rkf54" => some butcherC_rkf54
      | "dopri54" => some butcherC_dopri54
      | _ => none
    match cs?, takeInts 4 rest with
    | some cs, some ([start, stop, date, step], _) =>
      joinWith " " ((stagesOn cs start stop date step).map (fun b => if b then "1" else "0"))
    | _, _ => "bad-op"
  | _ => none

end BeyondVerif.Drv.C17
