import BeyondVerif.Model.Ccsds
open BeyondVerif.Ccsds BeyondVerif.Generated

def pt (e : String) : Point := { epoch := .s e, state := [.s "1", .s "2", .s "3", .s "4", .s "5", .s "6"], cov := none }
def seg1 : Seg := { name := "A", id := "B", frame := "EME2000", scale := "UTC", method := "LAGRANGE", order := some (.s "8"), points := [pt "t0"] }
def seg2 : Seg := { seg1 with points := [pt "t0", pt "t1"] }

example : "MAN_X".startsWith "MAN_" = true := by decide
example : "EARTH".toLower = "earth" := by decide
example : ("USER_DEFINED_FOO".drop 13).toString = "FOO" := by decide
example : "X_DOT".endsWith "DOT" = true := by decide
example : ("a" < "b") := by decide
