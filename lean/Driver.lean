/-
Line-protocol driver: one request per line on stdin, one reply per line on stdout.
Imports only Mathlib-free model files, so it links as a native executable.
-/
import BeyondVerif.Model.Node

open BeyondVerif

namespace Drv

def parseNat? (s : String) : Option Nat := s.toNat?

/-- "a-b" -/
def parseEdge? (s : String) : Option (Nat × Nat) :=
  match s.splitOn "-" with
  | [a, b] => do let a ← a.toNat?; let b ← b.toNat?; pure (a, b)
  | _ => none

def joinWith (sep : String) (xs : List String) : String := sep.intercalate xs

def sortNat (xs : List Nat) : List Nat := (xs.toArray.qsort (· < ·)).toList

/-- `node <n> <a-b> …` : build nodes 0..n-1, apply the links in order, dump all tables and all paths -/
def nodeOp (args : List String) : String :=
  match args with
  | n :: es =>
    match n.toNat?, es.mapM parseEdge? with
    | some n, some es =>
      let fuel := n + 2
      let g := es.foldl (fun og (e : Nat × Nat) => og.bind (fun g => Node.link fuel g e.1 e.2)) (some ([] : Node.Graph))
      match g with
      | none => "fuel"
      | some g =>
        let nodes := List.range n
        let tabs := nodes.map (fun u =>
          let rs := (Node.get g u).routes
          let rs := rs.toArray.qsort (fun a b => a.target < b.target) |>.toList
          s!"{u}:" ++ joinWith "," (rs.map (fun r => s!"{r.target}>{r.dir}/{r.steps}")))
        let nb := nodes.map (fun u => s!"{u}:" ++ joinWith "," ((Node.get g u).nbrs.map toString))
        let paths := nodes.flatMap (fun s => nodes.map (fun t =>
          match Node.path (n + 2) g s t with
          | .ok p => joinWith "." (p.map toString)
          | .unknown => "U"
          | .keyError => "K"
          | .loop => "L"))
        "N " ++ joinWith ";" nb ++ " R " ++ joinWith ";" tabs ++ " P " ++ joinWith ";" paths
    | _, _ => "bad-op"
  | _ => "bad-op"

def dispatch (line : String) : String :=
  match (line.trimAscii.toString.splitOn " ").filter (· ≠ "") with
  | "node" :: args => nodeOp args
  | _ => "bad-op"

partial def loop (h : IO.FS.Stream) (out : IO.FS.Stream) : IO Unit := do
  let line ← h.getLine
  if line.isEmpty then return ()
  out.putStrLn (dispatch line)
  loop h out

end Drv

def main : IO Unit := do
  let out ← IO.getStdout
  Drv.loop (← IO.getStdin) out
  out.flush
