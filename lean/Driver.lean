/-
Line-protocol driver: one request per line on stdin, one reply per line on stdout.
Imports only Mathlib-free model files, so it links as a native executable.
Each property contributes a handler `BeyondVerif.Drv.Cxx.handle : List String → Option String`.
-/
import BeyondVerif.Drv.C20
import BeyondVerif.Drv.C16

open BeyondVerif

def handlers : List (List String → Option String) :=
  [Drv.C20.handle, Drv.C16.handle]

def dispatch (line : String) : String :=
  let toks := (line.trimAscii.toString.splitOn " ").filter (· ≠ "")
  match handlers.findSome? (fun h => h toks) with
  | some r => r
  | none => "bad-op"

partial def loop (h : IO.FS.Stream) (out : IO.FS.Stream) : IO Unit := do
  let line ← h.getLine
  if line.isEmpty then return ()
  out.putStrLn (dispatch line)
  loop h out

def main : IO Unit := do
  let out ← IO.getStdout
  loop (← IO.getStdin) out
  out.flush
