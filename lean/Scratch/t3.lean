import BeyondVerif.Lemmas.TleEpoch
namespace BeyondVerif.Tle
open BeyondVerif.Sgp4Wrap (daysBeforeYear yearDay yearDay_spec)
set_option profiler true
theorem absOfYear_eq (Y : Nat) (us : Int) : absOfYear Y us = (daysBeforeYear Y : Int) * 86400000000 + us := rfl

/-- the epoch written for the instant `us` microseconds into year `Y` (any year CPython's calendar knows): the two-digit
year is `Y % 100`, the day field is `day of year + f · 1e-8` with `f` the day fraction rounded to within half a unit -/
theorem epochOfAbs_spec (Y us : Nat) (hY : 1 ≤ Y) (hus : us < (if Sgp4Wrap.isLeap Y then 366 else 365) * 86400000000) :
    (epochOfAbs (absOfYear Y us)).1 = Y % 100 ∧
    ∃ f : Nat, f ≤ 100000000 ∧ (epochOfAbs (absOfYear Y us)).2 = (us / 86400000000 + 1) * 100000000 + f ∧
      2 * (f * 864) ≤ 2 * (us % 86400000000) + 864 ∧ 2 * (us % 86400000000) ≤ 2 * (f * 864) + 864 := by
  have hd : us / 86400000000 < (if Sgp4Wrap.isLeap Y then 366 else 365) := by split at hus <;> simp_all <;> omega
  obtain ⟨y1, y2⟩ := yearDay_of_year Y (us / 86400000000) hY hd
  have ht : (absOfYear Y us).toNat = daysBeforeYear Y * 86400000000 + us := by
    rw [absOfYear_eq]
    have : (daysBeforeYear Y : Int) * 86400000000 + (us : Int) = ((daysBeforeYear Y * 86400000000 + us : Nat) : Int) := by
      simp [Int.natCast_add, Int.natCast_mul]
    rw [this, Int.toNat_natCast]
  have hdiv : (daysBeforeYear Y * 86400000000 + us) / 86400000000 = daysBeforeYear Y + us / 86400000000 := by omega
  have hmod : (daysBeforeYear Y * 86400000000 + us) % 86400000000 = us % 86400000000 := by omega
  unfold epochOfAbs
  simp only [ht, hdiv, hmod, y1, y2]
  refine ⟨trivial, (roundDiv ((us % 86400000000 * 100000000 : Nat) : Int) 86400000000).toNat, ?_, rfl, ?_⟩
  · have hm : us % 86400000000 < 86400000000 := Nat.mod_lt _ (by omega)
    exact rdN_le _ 86400000000 100000000 (by omega) (by omega)
  · obtain ⟨b1, b2⟩ := roundDiv_bounds ((us % 86400000000 * 100000000 : Nat) : Int) 86400000000 (by omega)
    have hn := roundDiv_nonneg ((us % 86400000000 * 100000000 : Nat) : Int) 86400000000 (by omega) (by omega)
    generalize us % 86400000000 = u at *
    generalize roundDiv ((u * 100000000 : Nat) : Int) 86400000000 = R at *
    omega

end BeyondVerif.Tle
