import BeyondVerif.Props.C12
import BeyondVerif.Model.TleOrb
namespace BeyondVerif.C12
open BeyondVerif.Tle
open BeyondVerif.Generated.Tle (Seg Fld)

theorem bind_ok {α β : Type} {x : Except Err α} {f : α → Except Err β} {b : β} (h : (x >>= f) = .ok b) :
    ∃ a, x = .ok a ∧ f a = .ok b := by
  cases x with
  | error e => cases h
  | ok a => exact ⟨a, rfl, h⟩

theorem parseBody_ok_fields {t : List Str} {p : Parsed} (h : parseBody t = .ok p) :
    checkValidity t = .ok () ∧ p.text = t.map strip ∧
    (∀ first second rest, t.map strip = first :: second :: rest → pyInt (slice first G.norad) = .ok p.norad) := by
  unfold parseBody at h
  obtain ⟨u, hv, h⟩ := bind_ok h
  refine ⟨hv, ?_⟩
  dsimp only at h
  split at h
  · next first second rest heq =>
    obtain ⟨norad, hn, h⟩ := bind_ok h
    repeat (obtain ⟨_, _, h⟩ := bind_ok h)
    simp only [pure, Except.pure] at h
    injection h with h
    subst h
    refine ⟨rfl, ?_⟩
    intro f s r' e
    rw [heq] at e
    injection e with e1 e2
    subst e1
    exact hn
  · cases h
end BeyondVerif.C12
