"""C20 — scenarios on the REAL frame registry (beyond.frames, beyond.env.solarsystem, beyond.env.jpl,
beyond.frames.lagrange), each run in a forked child under a step / time / memory bound.

A scenario is a JSON list of operations (public-API calls registering frames); after every operation the child

  1. sweeps the two node graphs (centres below `Earth`, orientations around `ITRF`) by OBJECT IDENTITY and checks,
     with a step-bounded walk of the routing tables, that from every node every NAME present in its component is
     reached along existing links (nearest such node in a forest) and that every other name is reported unknown
     (a looping / non-terminating route is a failing input — `Node.path` itself is never called on it);
  2. checks the REGISTRY layer: from every start object, every consecutive pair of every route resolves to a link
     method (`hasattr(start, "<a>_to_<b>")` in either direction) — what `Center.convert_to` /
     `Orientation.convert_to` need in order not to raise `Unknown transformation`;
  3. converts a fixed state between every ordered pair of live frames (both directions, round trip), and compares
     the conversions between frames that existed before the operation with their value before it whenever the
     operation registered new names only.

Nothing here imports beyond at module level (core puts REPO first on sys.path).
"""
import json
import os
import re
import signal
import struct
import sys
import time
import traceback

BUILTIN = ["EME2000", "ITRF", "TOD", "TEME", "MOD", "PEF", "GCRF", "CIRF", "TIRF", "G50"]   # the first five are the initial slots (GCRF is slow: IAU2010 series)
STEP_BOUND_EXTRA = 2


class RouteFailure(Exception):
    def __init__(self, family, what, detail):
        super().__init__(what)
        self.family, self.what, self.detail = family, what, detail


# ---------------------------------------------------------------- graph sweep (identity based, bounded)

def component(roots):
    """all Node objects reachable from the roots through `neighbors` (object identity); adjacency = union of both ends' views"""
    seen = {}
    q = []
    for r in roots:
        if id(r) not in seen:
            seen[id(r)] = r
            q.append(r)
    for u in q:
        for v in u.neighbors:
            if id(v) not in seen:
                seen[id(v)] = v
                q.append(v)
    adj = {id(u): {} for u in q}
    for u in q:
        for v in u.neighbors:
            adj[id(u)][id(v)] = v
            adj[id(v)][id(u)] = u
    return q, adj


def bounded_walk(start, goal, bound):
    """the walk of Node.path with a step bound; returns (status, [nodes]) with status in ok/U/K/L"""
    if goal == start.name:
        return "ok", [start]
    if goal not in start.routes:
        return "U", []
    obj = start
    path = [obj]
    for _ in range(bound):
        r = obj.routes.get(goal)
        if r is None:
            return "K", path
        obj = r.direction
        path.append(obj)
        if obj.name == goal:
            return "ok", path
    return "L", path


def sweep(roots, kind, fails, label, extra_names=()):
    """every node of the component of `root`: every name of the component is routed along existing links to a node
    carrying that name (a nearest one when the component is a tree), names outside are unknown"""
    nodes, adj = component(roots)
    n = len(nodes)
    nedges = sum(len(a) for a in adj.values()) // 2
    # connected components (identity), to know which names a node must reach
    comp = {}
    for u in nodes:
        if id(u) not in comp:
            comp[id(u)] = id(u)
            q = [u]
            for x in q:
                for y in adj[id(x)].values():
                    if id(y) not in comp:
                        comp[id(y)] = id(u)
                        q.append(y)
    ncomp = len(set(comp.values()))
    forest = nedges == n - ncomp
    asym = [(u.name, v.name) for u in nodes for v in u.neighbors if u not in v.neighbors]
    if asym:
        fails.append(dict(family=f"{kind}-link-asymmetric", what="a link is held by one of its two ends only (a neighbour was removed on one side)",
                          detail={"after": label, "pairs": asym[:4]}))
    ok = True
    for u in nodes:
        # identity BFS distances
        d = {id(u): 0}
        q = [u]
        for x in q:
            for y in adj[id(x)].values():
                if id(y) not in d:
                    d[id(y)] = d[id(x)] + 1
                    q.append(y)
        names = sorted({v.name for v in q})
        for goal in names:
            st, p = bounded_walk(u, goal, n + STEP_BOUND_EXTRA)
            if goal == u.name:
                continue
            near = min(d[id(v)] for v in q if v.name == goal)
            if st != "ok":
                what = {"L": "routing loop: the walk of Node.path does not reach the goal within n+2 steps (Node.path would not terminate)",
                        "U": "connected node reported as Unknown", "K": "route breaks at an intermediate node (KeyError in Node.path)"}[st]
                fails.append(dict(family=f"{kind}-route-{ {'L': 'loop', 'U': 'unknown', 'K': 'keyerror'}[st]}", what=what,
                                  detail={"after": label, "from": u.name, "goal": goal, "walk": [x.name for x in p][:12], "nodes": n}))
                ok = False
                continue
            chain_ok = all(p[i + 1] in p[i].neighbors for i in range(len(p) - 1))
            if not chain_ok:
                fails.append(dict(family=f"{kind}-route-invalid-chain", what="route follows a pair that is not linked",
                                  detail={"after": label, "from": u.name, "goal": goal, "walk": [x.name for x in p]}))
                ok = False
            elif forest and len(p) - 1 != near:
                fails.append(dict(family=f"{kind}-route-not-unique-chain", what="route in a tree is not the chain to the nearest node of that name",
                                  detail={"after": label, "from": u.name, "goal": goal, "walk": [x.name for x in p], "nearest": near}))
                ok = False
        for goal in extra_names:
            if goal not in names:
                st, p = bounded_walk(u, goal, n + STEP_BOUND_EXTRA)
                if st != "U":
                    fails.append(dict(family=f"{kind}-unconnected-not-reported", what="name absent from the component is not reported as Unknown",
                                      detail={"after": label, "from": u.name, "goal": goal, "status": st}))
                    ok = False
    return nodes, ok


def plain_key_collisions(nodes):
    """pairs of DIFFERENT (a, b) name pairs of linked nodes whose attribute names f"{a}_to_{b}" coincide"""
    keys = {}
    out = []
    for u in nodes:
        for v in u.neighbors:
            k = f"{u.name}_to_{v.name}"
            if k in keys and keys[k] != (u.name, v.name):
                out.append([list(keys[k]), [u.name, v.name], k])
            keys.setdefault(k, (u.name, v.name))
    return out


def resolvable(start_obj, a, b):
    """what convert_to does for one step: 'd' direct, 'r' reverse, None = would raise Unknown transformation"""
    if hasattr(start_obj, f"{a}_to_{b}"):
        return "d"
    if hasattr(start_obj, f"{b}_to_{a}"):
        return "r"
    return None


def sweep_methods(nodes, owner_of, kind, fails, label, site_of=None, confirm=None):
    """from every start object, every step of every route has a resolvable link method"""
    n = len(nodes)
    names = sorted({u.name for u in nodes})
    bad = set()
    for u in nodes:
        start = owner_of(u)
        if start is None:
            continue
        for goal in names:
            st, p = bounded_walk(u, goal, n + STEP_BOUND_EXTRA)
            if st != "ok":
                continue
            for i in range(len(p) - 1):
                a, b = p[i].name, p[i + 1].name
                if resolvable(start, a, b) is None and (a, b, type(start).__name__) not in bad:
                    # `resolvable` forms the attribute name the way the code is known to; the verdict is the real call's
                    if confirm is not None and not confirm(start, goal):
                        continue
                    bad.add((a, b, type(start).__name__))
                    site = (site_of or {}).get(b) or (site_of or {}).get(a) or "builtin"
                    fails.append(dict(family=f"link-method-unresolvable:{site}",
                                      what="two linked nodes have no '<a>_to_<b>' method visible from the start object: convert_to raises 'Unknown transformation' on a connected pair",
                                      detail={"after": label, "start": u.name, "start_class": type(start).__name__, "goal": goal, "step": [a, b],
                                              "class_of_a": type(owner_of(p[i])).__name__ if owner_of(p[i]) is not None else None,
                                              "class_of_b": type(owner_of(p[i + 1])).__name__ if owner_of(p[i + 1]) is not None else None}))
    return not bad


# ---------------------------------------------------------------- the scenario interpreter (runs in the child)

class World:
    def __init__(self):
        import numpy as np
        from beyond.config import config
        from beyond.dates import Date
        from beyond.frames import frames as fr
        from beyond.orbits import StateVector
        config.set("eop", "missing_policy", "pass")
        self.np = np
        self.date = Date(2018, 2, 25, 12)
        self.frames = [(nm, fr.get_frame(nm)) for nm in BUILTIN[:5]]
        self.sv = StateVector([7.1e6, 1.2e5, -3.4e5, 120.0, 7400.0, 300.0], self.date, "cartesian", "EME2000")
        self.centers = {}      # id(node) -> Center object
        self.used = set(BUILTIN) | {"Earth", "WGS84", "Hill"}
        self.jpl_done = False
        self.user_classes = {}
        self.site_of = {}      # node name -> kind of the operation that (last) registered it

    def frame(self, k):
        return self.frames[k % len(self.frames)][1]

    def user_class(self, depth):
        """Orientation subclasses defined the way beyond.frames.lagrange.LagrangeOrient is (link method registered on the
        Orientation base class, then linked to the parent); depth 2 = subclass of the subclass"""
        import numpy as np
        from beyond.frames.orient import Orientation
        from beyond.utils.matrix import rot3
        if "1" not in self.user_classes:
            class BodyFixed(Orientation):
                RATE = 2 * np.pi / (27.321661 * 86400.0)

                def __init__(self, name, parent, epoch, phase):
                    super().__init__(name)
                    self.epoch, self.phase = epoch, phase
                    setattr(Orientation, f"{name}_to_{parent.name}", self._to_parent)
                    parent + self

                def _to_parent(self, date):
                    angle = self.phase + self.RATE * (date - self.epoch).total_seconds()
                    return rot3(-angle), np.array([0.0, 0.0, self.RATE])

            class BodyFixedTilted(BodyFixed):
                pass
            self.user_classes = {"1": BodyFixed, "2": BodyFixedTilted}
        return self.user_classes[str(depth)]

    def apply(self, op):
        """returns (new frame or None, set of names the operation registers)"""
        import numpy as np
        from beyond.frames import frames as fr
        from beyond.frames.stations import create_station
        from beyond.orbits import StateVector
        k = op["op"]
        if k == "station":
            parent = self.frame(op["parent"])
            f = create_station(op["name"], (op["lat"], op["lon"], op["alt"]), parent_frame=parent, equatorial=op.get("equatorial", False))
            return f, {op["name"]}
        if k == "topo_direct":
            # a TopocentricOrientation built directly (public class), used as the orientation of a frame at an existing centre
            from beyond.frames.orient import TopocentricOrientation
            parent = self.frame(op["parent"])
            o = TopocentricOrientation(op["name"], (np.radians(op["lat"]), np.radians(op["lon"]), op["alt"]), parent=parent.orientation)
            return fr.Frame(op["name"], o, parent.center, exists_warning=False), {op["name"]}
        if k == "userframe":
            parent = self.frame(op["parent"])
            cls = self.user_class(op.get("depth", 1))
            o = cls(op["name"], parent.orientation, self.date, op.get("phase", 0.3))
            return fr.Frame(op["name"], o, self.frame(op["center"]).center, exists_warning=False), {op["name"]}
        if k == "orbitframe":
            src = self.frame(op["state_frame"])
            parent = self.frame(op["parent"])
            pv = np.array(op["pv"], dtype=float)
            st = StateVector(pv, self.date, "cartesian", src)
            kw = {}
            if op.get("orientation"):
                kw["orientation"] = op["orientation"]
                kw["parent"] = parent
            return st.as_frame(op["name"], exists_warning=False, **kw), {op["name"]}
        if k == "sol":
            from beyond.env import solarsystem as sol
            return sol.get_frame(op["body"]), {op["body"], op["body"].title()}
        if k == "jpl":
            from beyond.config import config
            from beyond.env import jpl
            import beyond
            data = os.path.join(os.path.dirname(os.path.dirname(beyond.__file__)), "tests", "data", "jpl")
            config.set("env", "jpl", "files", [os.path.join(data, x) for x in ("de403_2000-2020.bsp", "pck00010.tpc", "gm_de431.tpc")])
            jpl.create_frames()
            self.jpl_done = True
            out = []
            for nm in op.get("take", ["Mars", "Moon", "Sun"]):
                try:
                    out.append(jpl.get_frame(nm))
                except KeyError:
                    continue
            return out, {f.name for f in jpl.list_frames()}
        if k == "lagrange":
            from beyond.frames.lagrange import lagrange
            f1, f2 = self.frame(op["f1"]), self.frame(op["f2"])
            if f1.center.body is None or f2.center.body is None or f1 is f2 or not hasattr(f2.center.body, "propagate") \
                    or f1.center.body.name == f2.center.body.name:
                return None, set()
            orientation = None if op.get("sinodic", True) else self.frame(op["f1"]).orientation
            f = lagrange(f1, f2, op["number"], name=op["name"], orientation=orientation)
            return f, {op["name"], f.center.name, f"{f1.center.body.name}{f2.center.body.name}Lagrange"}
        raise ValueError(f"unknown op {k}")

    # ------------------------------------------------------------ checks
    def all_center_objects(self):
        from beyond.frames import frames as fr
        out = {}
        for _, f in self.frames:
            out[id(f.center.node)] = f.center
        for f in fr.dynamic.values():
            c = getattr(f, "center", None)
            if c is not None and hasattr(c, "node"):
                out.setdefault(id(c.node), c)
        return out

    def snapshot(self, pairs):
        np = self.np
        out = {}
        for i, j in pairs:
            a, b = self.frames[i][1], self.frames[j][1]
            out[i, j] = np.array(self.sv.copy(frame=a).copy(frame=b))
        return out



# ---------------------------------------------------------------- tie of the REAL registries to Model/Registry.lean

class Recorder:
    """records, while a scenario runs on the real registry, every `Node.__add__` (in order) and, by comparing the class
    and instance dicts before / after each operation, every `<a>_to_<b>` attribute that was stored; produces the `reg`
    request for the Lean model and the real side's answer in the same format"""

    def __init__(self, builtin):
        from beyond.utils import node as nmod
        from beyond.frames import center as cmod, orient as omod
        self.nmod, self.cmod, self.omod = nmod, cmod, omod
        self.links = []
        self.centers = {id(cmod.Earth.node): cmod.Earth}
        rec = self
        self._add = nmod.Node.__add__
        self._cinit = cmod.Center.__init__

        def add(a, b):
            rec.links.append((a, b))
            return rec._add(a, b)

        def cinit(obj, *args, **kw):
            rec._cinit(obj, *args, **kw)
            rec.centers[id(obj.node)] = obj
        nmod.Node.__add__ = add
        cmod.Center.__init__ = cinit
        # objects (identity) per world, in order of appearance; builtin orientations first, in the order of the recorded import history
        onames, ohist, omethods = builtin
        live = {n: getattr(omod, n) for n in onames}
        self.objs = {"orient": [live[n] for n in onames], "center": [cmod.Earth]}
        self.ops = {"orient": [f"A:c0:{a}:{b}:-" for a, b in omethods] + [f"L:{a}:{b}" for a, b in ohist], "center": []}
        self.names = {"orient": list(onames), "center": ["Earth"]}
        self.classes = {"orient": [omod.Orientation], "center": [cmod.Center]}
        self.snap = {w: self.snapshot(w) for w in ("orient", "center")}

    def close(self):
        self.nmod.Node.__add__ = self._add
        self.cmod.Center.__init__ = self._cinit

    def obj_of(self, world, node):
        return node if world == "orient" else self.centers.get(id(node))

    def node_of(self, world, obj):
        return obj if world == "orient" else obj.node

    def index(self, world, obj):
        for i, o in enumerate(self.objs[world]):
            if o is obj:
                return i
        self.objs[world].append(obj)
        return len(self.objs[world]) - 1

    def name_id(self, world, name):
        if name not in self.names[world]:
            self.names[world].append(name)
        return self.names[world].index(name)

    def class_id(self, world, cls):
        root = self.classes[world][0]
        for c in reversed([k for k in cls.__mro__ if issubclass(k, root)]):
            if c not in self.classes[world]:
                self.classes[world].append(c)
        return self.classes[world].index(cls)

    def holders(self, world):
        for o in self.objs[world]:
            self.class_id(world, type(o))
        return [("c", i, c) for i, c in enumerate(self.classes[world])] + [("i", i, o) for i, o in enumerate(self.objs[world])]

    def snapshot(self, world):
        out = {}
        for kind, i, h in self.holders(world):
            for k, v in list(vars(h).items()):
                if "_to_" in k and callable(v) and not k.startswith("_"):
                    out[(kind, i, k)] = v
        return out

    def after_op(self):
        """turn what happened since the last call into model operations"""
        links, self.links = self.links, []
        for a, b in links:
            world = "orient" if isinstance(a, self.omod.Orientation) else "center"
            oa, ob = self.obj_of(world, a), self.obj_of(world, b)
            if oa is None or ob is None:
                raise RuntimeError("a linked centre node belongs to no recorded Center")
            self.ops[world].append(f"L:{self.index(world, oa)}:{self.index(world, ob)}")
        for world in ("orient", "center"):
            new = self.snapshot(world)
            for (kind, i, k), v in new.items():
                if self.snap[world].get((kind, i, k)) is v:
                    continue
                a, _, b = k.partition("_to_")
                if "_to_" in b:
                    raise RuntimeError(f"ambiguous attribute name {k}")
                owner = getattr(v, "__self__", None)
                fn = getattr(v, "__func__", None)
                if owner is None or fn is None or fn.__name__ != "_to_parent":
                    o = "-"
                else:
                    o = str(self.index(world, owner))
                self.ops[world].append(f"A:{kind}{i}:{self.name_id(world, a)}:{self.name_id(world, b)}:{o}")
            self.snap[world] = self.snapshot(world)

    def request_and_reply(self, world):
        objs = self.objs[world]
        n = len(objs)
        nodes = [self.node_of(world, o) for o in objs]
        for u in nodes:
            self.name_id(world, u.name)
        names = [self.names[world].index(u.name) for u in nodes]
        classes = [self.class_id(world, type(o)) for o in objs]
        root = self.classes[world][0]
        mro = ";".join(f"{i}:" + ".".join(str(self.classes[world].index(k)) for k in c.__mro__ if issubclass(k, root)) for i, c in enumerate(self.classes[world]))
        line = f"reg {n} " + ",".join(map(str, names)) + " " + ",".join(map(str, classes)) + f" {mro} 0 " + " ".join(self.ops[world])
        idx = {id(x): i for i, x in enumerate(nodes)}
        nid = {nm: i for i, nm in enumerate(self.names[world])}
        for u in nodes:
            for x in u.neighbors:
                if id(x) not in idx:
                    return line, "real graph holds a node that was never linked through Node.__add__"
        nb = ";".join(f"{u}:" + ",".join(str(idx[id(x)]) for x in nodes[u].neighbors) for u in range(n))
        tabs = ";".join(f"{u}:" + ",".join(f"{nid[t]}>{idx[id(r.direction)]}/{r.steps}" for t, r in sorted(nodes[u].routes.items(), key=lambda kv: nid[kv[0]]))
                        for u in range(n))
        conv = []
        for s in range(n):
            for g in sorted(set(names)):
                goal = self.names[world][g]
                st, p = bounded_walk(nodes[s], goal, n + 2)
                if st != "ok":
                    conv.append({"U": "UN"}.get(st, st))
                    continue
                steps = []
                for i in range(len(p) - 1):
                    a, b = p[i].name, p[i + 1].name
                    d = resolvable(objs[s], a, b)
                    if d is None:
                        steps = f"UT:{idx[id(p[i])]}:{idx[id(p[i + 1])]}"
                        break
                    m = getattr(objs[s], f"{a}_to_{b}" if d == "d" else f"{b}_to_{a}")
                    owner, fn = getattr(m, "__self__", None), getattr(m, "__func__", None)
                    if fn is None or fn.__name__ != "_to_parent":
                        o = "-"
                    else:
                        o = next((str(k) for k, x in enumerate(objs) if x is owner), "?")
                    steps.append(f"{idx[id(p[i])]}>{idx[id(p[i + 1])]}:{d}:{o}")
                conv.append(steps if isinstance(steps, str) else "ok=" + ",".join(steps))
        return line, "N " + nb + " R " + tabs + " C " + ";".join(conv)


def f2hex(x):
    return struct.pack("<d", float(x)).hex()


def run_scenario(ops, opts=None):
    """executed in the child; returns {"fails": [...], "counts": {...}}"""
    import warnings
    warnings.filterwarnings("ignore")
    import logging
    logging.disable(logging.CRITICAL)
    opts = opts or {}
    fails = []
    counts = {"ops": 0, "conversions": 0, "unchanged_compared": 0, "route_walks": 0, "method_steps": 0}
    w = World()
    np = w.np
    from beyond.frames import center as cmod, orient as omod
    max_pairs = opts.get("max_pairs", 40)
    rec = Recorder(opts["builtin"]) if opts.get("builtin") else None

    def pairs_now():
        n = len(w.frames)
        ps = [(i, j) for i in range(n) for j in range(n) if i != j]
        if len(ps) > max_pairs:
            # always keep the pairs involving the newest frame and EME2000 / ITRF, then a deterministic stride
            keep = [p for p in ps if n - 1 in p and (p[0] < 2 or p[1] < 2)]
            rest = [p for p in ps if p not in keep]
            stride = max(1, len(rest) // (max_pairs - len(keep)))
            ps = keep + rest[::stride][: max_pairs - len(keep)]
        return ps

    before = {}
    label = "start"
    live_names = set()
    for step, op in enumerate([None] + list(ops)):
        new_names = set()
        if op is not None:
            label = f"op{step - 1}:{op['op']}:{op.get('name', op.get('body', ''))}"
            try:
                f, new_names = w.apply(op)
            except RouteFailure as e:
                fails.append(dict(family=e.family, what=e.what, detail=e.detail))
                break
            except Exception as e:  # noqa: BLE001
                rec = rec.close() if rec is not None else None
                fails.append(dict(family=f"registration-raises:{op['op']}", what="a registration through the public API raises",
                                  detail={"after": label, "error": repr(e)[:300], "tb": traceback.format_exc()[-600:]}))
                break
            counts["ops"] += 1
            for x in (f if isinstance(f, list) else [f]):
                if x is not None:
                    w.frames.append((f"{len(w.frames)}:{x.name}", x))
        if rec is not None:
            rec.after_op()
        fresh = op is not None and not (new_names & w.used)
        w.used |= new_names
        for nm_ in new_names:
            w.site_of[nm_] = op["op"]
        # 1. routing sweep on both graphs, bounded
        cnodes, ok1 = sweep([cmod.Earth.node] + [f.center.node for _, f in w.frames], "center", fails, label, extra_names=("C20-absent",))
        onodes, ok2 = sweep([omod.ITRF] + [f.orientation for _, f in w.frames], "orient", fails, label, extra_names=("C20-absent",))
        counts["route_walks"] += len(cnodes) ** 2 + len(onodes) ** 2
        live_names |= {u.name for u in cnodes} | {u.name for u in onodes}
        if not (ok1 and ok2):
            break   # never call the real path()/convert on a graph whose tables loop or break
        # 2. registry layer
        cobj = w.all_center_objects()
        def raises_unknown(call):
            try:
                call()
            except ValueError as e:
                return "Unknown transformation" in str(e)
            except Exception:  # noqa: BLE001
                return False
            return False
        ok3 = sweep_methods(cnodes, lambda u: cobj.get(id(u)), "center", fails, label, w.site_of,
                            confirm=lambda st, goal: raises_unknown(lambda: st.convert_to(w.date, goal, omod.EME2000)))
        ok4 = sweep_methods(onodes, lambda u: u, "orient", fails, label, w.site_of,
                            confirm=lambda st, goal: raises_unknown(lambda: st.convert_to(w.date, goal)))
        counts["method_steps"] += len(cnodes) ** 2 + len(onodes) ** 2
        # 3. conversions (a target is designated by NAME: with several live nodes of one name the nearest one is meant, so
        # value-level checks are restricted to unambiguous names)
        amb_c = {x for x in {u.name for u in cnodes} if sum(1 for u in cnodes if u.name == x) > 1}
        amb_o = {x for x in {u.name for u in onodes} if sum(1 for u in onodes if u.name == x) > 1}
        pairs = [] if opts.get("no_convert") else pairs_now()
        after = {}
        for i, j in pairs:
            a, b = w.frames[i][1], w.frames[j][1]
            counts["conversions"] += 1
            try:
                x = w.sv.copy(frame=a)
                y = x.copy(frame=b)
                z = y.copy(frame=a)
            except Exception as e:  # noqa: BLE001
                rc = {u.name for u in bounded_walk(a.center.node, b.center.name, len(cnodes) + 2)[1]} | {a.center.name, b.center.name}
                ro = {u.name for u in bounded_walk(a.orientation, b.orientation.name, len(onodes) + 2)[1]} | {a.orientation.name, b.orientation.name}
                if isinstance(e, RecursionError) and (rc & amb_c or ro & amb_o):
                    # a frame re-registered under an EXISTING name whose own definition (the state vector of an orbit-attached frame)
                    # is expressed in the older frame of that name: the newer '<name>_to_<parent>' shadows the older one and calls
                    # itself.  Re-registration under an existing name is outside the property (NOT_COVERED: several live nodes of one name)
                    counts["ambiguous_self_reference"] = counts.get("ambiguous_self_reference", 0) + 1
                    continue
                m = re.search(r"Unknown transformation (\S+) <-> (\S+)", str(e))
                if m:
                    fam = "link-method-unresolvable:" + (w.site_of.get(m.group(2)) or w.site_of.get(m.group(1)) or "builtin")
                else:
                    fam = "connected-not-convertible:" + ("unknown-node" if "Unknown '" in str(e) else type(e).__name__)
                fails.append(dict(family=fam, what="two connected frames cannot be converted into each other",
                                  detail={"after": label, "from": w.frames[i][0], "to": w.frames[j][0], "error": repr(e)[:200],
                                          "to_orientation_class": type(b.orientation).__name__, "from_orientation_class": type(a.orientation).__name__}))
                continue
            after[i, j] = np.array(y)
            scale = max(1.0, float(np.abs(np.array(x)[:3]).max()), float(np.abs(np.array(y)[:3]).max()))
            err = float(np.abs(np.array(z) - np.array(x))[:3].max())
            on_route = {u.name for u in bounded_walk(a.center.node, b.center.name, len(cnodes) + 2)[1]} | {a.center.name, b.center.name}
            on_route_o = {u.name for u in bounded_walk(a.orientation, b.orientation.name, len(onodes) + 2)[1]} | {a.orientation.name, b.orientation.name}
            amb = (on_route & amb_c) or (on_route_o & amb_o)
            if not amb and not err <= 1e-7 * scale + 1e-6:
                fails.append(dict(family="conversion-roundtrip", what="a -> b -> a does not come back",
                                  detail={"after": label, "from": w.frames[i][0], "to": w.frames[j][0], "err_m": err, "scale": scale}))
            if fresh and (i, j) in before:
                counts["unchanged_compared"] += 1
                if not np.array_equal(before[i, j], after[i, j], equal_nan=True):
                    coll = plain_key_collisions(cnodes) + plain_key_collisions(onodes)
                    fails.append(dict(family="link-name-collision" if coll else "registration-changes-conversion",
                                      what="registering frames under new names changed a conversion between pre-existing frames"
                                      + (" (two different pairs of names form the same '<a>_to_<b>' attribute name)" if coll else ""),
                                      detail={"after": label, "from": w.frames[i][0], "to": w.frames[j][0], "colliding": coll[:3],
                                              "moved_m": float(np.abs(before[i, j][:3] - after[i, j][:3]).max()),
                                              "before": [float(v) for v in before[i, j]], "now": [float(v) for v in after[i, j]]}))
        before = after
        if len(fails) > 12:
            break
    tie = {}
    if rec is not None:
        rec.close()
        for world in ("orient", "center"):
            tie[world] = rec.request_and_reply(world)
    return {"fails": fails, "counts": counts, "tie": tie, "names": sorted(live_names)}


# ---------------------------------------------------------------- forked execution under bounds

def _child(ops, opts, wfd, time_limit, mem_gb):
    import resource
    try:
        resource.setrlimit(resource.RLIMIT_AS, (int(mem_gb * 2**30), int(mem_gb * 2**30)))
    except Exception:  # noqa: BLE001
        pass
    signal.signal(signal.SIGALRM, signal.SIG_DFL)    # default action: kill the child
    signal.setitimer(signal.ITIMER_REAL, time_limit)
    try:
        res = run_scenario(ops, opts)
    except MemoryError:
        res = {"fails": [dict(family="scenario-memory", what="scenario exhausted its memory bound", detail={})], "counts": {}}
    except Exception as e:  # noqa: BLE001
        res = {"error": repr(e), "tb": traceback.format_exc()[-1500:], "fails": [], "counts": {}}
    data = json.dumps(res, default=str).encode()
    with os.fdopen(wfd, "wb") as f:
        f.write(data)
    os._exit(0)


def run_forked(ops, opts=None, time_limit=20.0, mem_gb=2.0):
    """run one scenario in a forked child. returns the child's dict, or a dict with a `bound` failure when the child was
    killed by its time / memory bound (a failing input, not an infrastructure error)"""
    rfd, wfd = os.pipe()
    sys.stdout.flush()
    sys.stderr.flush()
    pid = os.fork()
    if pid == 0:
        os.close(rfd)
        try:
            _child(ops, opts, wfd, time_limit, mem_gb)
        finally:
            os._exit(3)
    os.close(wfd)
    chunks = []
    with os.fdopen(rfd, "rb") as f:
        while True:
            b = f.read(65536)
            if not b:
                break
            chunks.append(b)
    _, status = os.waitpid(pid, 0)
    data = b"".join(chunks)
    if data:
        try:
            return json.loads(data.decode())
        except Exception:  # noqa: BLE001
            pass
    why = f"killed by signal {os.WTERMSIG(status)}" if os.WIFSIGNALED(status) else f"exit status {os.WEXITSTATUS(status)}"
    return {"fails": [dict(family="scenario-exceeds-bound", what=f"scenario did not finish within its time/memory bound ({why}): a conversion or registration does not terminate",
                           detail={"time_limit_s": time_limit, "mem_gb": mem_gb})], "counts": {}}


# ---------------------------------------------------------------- generators

def fixed_scenarios():
    """hand-picked histories: every registration site of the anchored files, same-name re-registrations, subclass parents"""
    leo = [7.0e6, 1.0e5, -2.0e5, 150.0, 7500.0, 200.0]
    lunar = [1.9e6, 1.2e4, -4.0e4, 15.0, 1500.0, 1170.0]
    rel = [120.0, -300.0, 50.0, 0.1, -0.2, 0.05]
    S = []
    # analytical solar system, Lagrange point, then the JPL frames under the same centre names (and the reverse order)
    S.append(("sol-lagrange-jpl", [
        {"op": "sol", "body": "Earth"}, {"op": "sol", "body": "Sun"},
        {"op": "lagrange", "f1": 6, "f2": 5, "number": 2, "name": "SEL2", "sinodic": False},
        {"op": "jpl"},
        {"op": "station", "name": "Tls", "lat": 43.6, "lon": 1.4, "alt": 150.0, "parent": 1},
    ]))
    S.append(("jpl-sol-lagrange", [
        {"op": "jpl"}, {"op": "sol", "body": "Earth"}, {"op": "sol", "body": "Sun"}, {"op": "sol", "body": "Moon"},
        {"op": "lagrange", "f1": -2, "f2": -3, "number": 1, "name": "SEL1", "sinodic": True},
        {"op": "sol", "body": "Moon"},
    ]))
    # stations below non-ITRF parents: user-defined body-fixed orientation (subclass, sub-subclass), Lagrange orientation, LOF, another station
    S.append(("station-subclass-parents", [
        {"op": "sol", "body": "Moon"},
        {"op": "userframe", "name": "MoonFixed", "parent": 0, "center": 5, "depth": 1},
        {"op": "station", "name": "Tranquility", "lat": 0.67, "lon": 23.47, "alt": 0.0, "parent": 6},
        {"op": "userframe", "name": "MoonFixedB", "parent": 0, "center": 5, "depth": 2},
        {"op": "station", "name": "Shackleton", "lat": -89.9, "lon": 0.0, "alt": 10.0, "parent": 8},
        {"op": "station", "name": "OnStation", "lat": 10.0, "lon": 20.0, "alt": 0.0, "parent": 7},
    ]))
    S.append(("station-lagrange-lof-parents", [
        {"op": "sol", "body": "Earth"}, {"op": "sol", "body": "Sun"},
        {"op": "lagrange", "f1": 6, "f2": 5, "number": 4, "name": "SEL4", "sinodic": True},
        {"op": "station", "name": "OnL4", "lat": 5.0, "lon": 6.0, "alt": 0.0, "parent": 7},
        {"op": "orbitframe", "name": "LeoQsw", "pv": leo, "state_frame": 0, "parent": 0, "orientation": "QSW"},
        {"op": "station", "name": "OnQsw", "lat": -15.0, "lon": 60.0, "alt": 0.0, "parent": 9},
    ]))
    # re-registration under an existing name (stations, orbit frames), nested orbit frames
    S.append(("same-name-reregistration", [
        {"op": "station", "name": "Dup", "lat": 43.6, "lon": 1.4, "alt": 150.0, "parent": 1},
        {"op": "orbitframe", "name": "Tgt", "pv": leo, "state_frame": 0, "parent": 0, "orientation": None},
        {"op": "orbitframe", "name": "Chs", "pv": rel, "state_frame": 6, "parent": 0, "orientation": "TNW"},
        {"op": "station", "name": "Dup", "lat": -20.0, "lon": 100.0, "alt": 10.0, "parent": 1},
        {"op": "orbitframe", "name": "Tgt", "pv": leo, "state_frame": 0, "parent": 0, "orientation": "QSW"},
        {"op": "station", "name": "Behind", "lat": 1.0, "lon": 2.0, "alt": 3.0, "parent": 5},
        {"op": "station", "name": "Dup", "lat": 20.0, "lon": -100.0, "alt": 10.0, "parent": 7},
    ]))
    S.append(("moon-orbiter-frames", [
        {"op": "sol", "body": "Moon"},
        {"op": "orbitframe", "name": "Lro", "pv": lunar, "state_frame": 5, "parent": 5, "orientation": "QSW"},
        {"op": "orbitframe", "name": "LroI", "pv": lunar, "state_frame": 5, "parent": 5, "orientation": None},
        {"op": "sol", "body": "Moon"},
        {"op": "orbitframe", "name": "Lro2", "pv": lunar, "state_frame": 8, "parent": 8, "orientation": "TNW"},
        {"op": "station", "name": "EqSta", "lat": 3.0, "lon": 4.0, "alt": 0.0, "parent": 1, "equatorial": True},
    ]))
    # two Lagrange frames of one system: the library itself creates two live LagrangeOrient nodes named 'SunEarthLagrange';
    # then single-link attachments of new leaves (local orbital orientation, bare topocentric orientation, user orientation)
    S.append(("lagrange-twins-then-leaves", [
        {"op": "sol", "body": "Sun"}, {"op": "sol", "body": "Earth"},
        {"op": "lagrange", "f1": 5, "f2": 6, "number": 1, "name": "SEL1", "sinodic": True},
        {"op": "lagrange", "f1": 5, "f2": 6, "number": 2, "name": "SEL2", "sinodic": True},
        {"op": "orbitframe", "name": "ProbeQsw", "pv": leo, "state_frame": 0, "parent": 0, "orientation": "QSW"},
        {"op": "topo_direct", "name": "BareOnL2", "lat": 1.0, "lon": 2.0, "alt": 0.0, "parent": 8},
        {"op": "userframe", "name": "FixedOnL1", "parent": 7, "center": 7, "depth": 1},
        {"op": "orbitframe", "name": "ProbeTnw", "pv": leo, "state_frame": 7, "parent": 8, "orientation": "TNW"},
    ]))
    # free-text names: distinct names that differ by a non-word character only, spaces, dots, unicode, names that are prefixes /
    # suffixes of each other; every one is a NEW name: conversions between the frames already there must not move
    sites = [("Site-1", 43.6, 1.44), ("Site 1", 5.25, -52.8), ("Site.1", -25.9, 27.7), ("Site_1", 35.0, 139.0), ("Sit\u00e9 1", -33.0, 151.0),
             ("Site", 10.0, 10.0), ("Site-1 bis", 60.0, 25.0), ("1-Site", -10.0, -60.0)]
    S.append(("names-nonword", [{"op": "station", "name": nm, "lat": la, "lon": lo, "alt": 100.0, "parent": 1} for nm, la, lo in sites]
              + [{"op": "orbitframe", "name": "Leo/1", "pv": leo, "state_frame": 0, "parent": 0, "orientation": None},
                 {"op": "orbitframe", "name": "Leo 1", "pv": [x * 1.01 for x in leo], "state_frame": 0, "parent": 0, "orientation": "QSW"},
                 {"op": "station", "name": "Leo-1", "lat": 1.0, "lon": 2.0, "alt": 0.0, "parent": 13}]))
    return S


def to_names_scenario():
    """names that contain the separator of the link-method names: 'S_to' below Earth and 'S' below a centre called 'to_Earth'
    both store their offset under 'S_to_to_Earth' (known finding C20-link-name-collision; Props/C20LinkKey.lean collision_suffix)"""
    leo = [7.0e6, 1.0e5, -2.0e5, 150.0, 7500.0, 200.0]
    return ("names-with-to", [
        {"op": "orbitframe", "name": "to_Earth", "pv": leo, "state_frame": 0, "parent": 0, "orientation": None},
        {"op": "station", "name": "S_to", "lat": 43.6, "lon": 1.44, "alt": 100.0, "parent": 1},
        {"op": "station", "name": "S", "lat": -20.0, "lon": 100.0, "alt": 0.0, "parent": 5},
    ])


def topo_direct_scenario():
    return ("topo-direct", [
        {"op": "topo_direct", "name": "BareTopo", "lat": 12.0, "lon": 34.0, "alt": 0.0, "parent": 1},
    ])


def random_scenario(rng, length):
    """random interleaving of registrations; slot indices are taken modulo the number of live frames when applied"""
    ops = []
    names = []
    nframes = 5
    have_sol = []
    tag = f"R{rng.randrange(10**5)}"

    def name():
        if names and rng.random() < 0.25:
            return rng.choice(names)      # re-registration under an existing name
        nm = f"{tag}n{len(names)}"
        if names and rng.random() < 0.45:
            # a NEW name close to an existing one: differs by a non-word character, a space, a dot, a unicode letter, or is a
            # prefix / suffix extension of it (never containing the separator '_to' of the link-method names)
            base = rng.choice(names)
            stem = re.sub(r"[^0-9A-Za-z]+", "", base)[:12]
            cand = rng.choice([stem + "-1", stem + " 1", stem + ".1", stem + "_1", stem + "\u00e9", stem + "/", "x" + stem, stem + "x",
                               stem[:-1] + "-" + stem[-1:], stem[:-1] + " " + stem[-1:], stem[:-1] + "_" + stem[-1:], stem + "\u03b1"])
            if cand not in names and cand != base:
                nm = cand
        names.append(nm)
        return nm

    def slot():
        r = rng.random()
        if r < 0.3:
            return rng.randrange(2)       # EME2000 / ITRF
        return rng.randrange(nframes)

    for _ in range(length):
        r = rng.random()
        if r < 0.30:
            ops.append({"op": "station", "name": name(), "lat": round(rng.uniform(-89, 89), 3), "lon": round(rng.uniform(-180, 180), 3),
                        "alt": round(rng.uniform(0, 3000), 1), "parent": slot(), "equatorial": rng.random() < 0.1})
            nframes += 1
        elif r < 0.45:
            ops.append({"op": "userframe", "name": name(), "parent": slot(), "center": slot(), "depth": rng.choice([1, 2]), "phase": round(rng.uniform(0, 6), 3)})
            nframes += 1
        elif r < 0.70:
            pv = [round(rng.uniform(-1, 1) * 8e6, 1), round(rng.uniform(-1, 1) * 8e6, 1), round(rng.uniform(1, 2) * 3e6, 1),
                  round(rng.uniform(-1, 1) * 3e3, 3), round(rng.uniform(1, 2) * 3e3, 3), round(rng.uniform(-1, 1) * 3e3, 3)]
            ops.append({"op": "orbitframe", "name": name(), "pv": pv, "state_frame": slot(), "parent": slot(),
                        "orientation": rng.choice([None, "QSW", "TNW"])})
            nframes += 1
        elif r < 0.85:
            body = rng.choice(["Earth", "Moon", "Sun"])
            ops.append({"op": "sol", "body": body})
            have_sol.append((body, nframes))
            nframes += 1
        elif r < 0.92:
            ops.append({"op": "jpl", "take": rng.sample(["Mars", "Moon", "Sun", "Earth", "EarthBarycenter", "Venus"], 2)})
            nframes += 2
        else:
            suns = [s for b, s in have_sol if b == "Sun"]
            others = [s for b, s in have_sol if b != "Sun"]
            if suns and others:
                ops.append({"op": "lagrange", "f1": rng.choice(suns), "f2": rng.choice(others), "number": rng.randint(1, 5),
                            "name": name(), "sinodic": rng.random() < 0.5})
                nframes += 1
            else:
                ops.append({"op": "sol", "body": "Sun"})
                have_sol.append(("Sun", nframes))
                nframes += 1
    return ops


if __name__ == "__main__":
    # python harness/c20_registry.py '<json ops>'   (REPO from VERIF_REPO)
    sys.path.insert(0, os.environ.get("VERIF_REPO", "/repo"))
    t = time.time()
    if len(sys.argv) > 1:
        scen = [("cli", json.loads(sys.argv[1]))]
    else:
        scen = fixed_scenarios() + [topo_direct_scenario(), to_names_scenario()]
    for nm, ops in scen:
        res = run_forked(ops)
        print(nm, json.dumps(res.get("counts")), res.get("error", ""), res.get("tb", ""))
        for f in res["fails"][:6]:
            print("   FAIL", f["family"], "|", f["what"], "|", json.dumps(f["detail"], default=str)[:400])
    print("t", round(time.time() - t, 2))


# ================================================================ correspondence with Model/Registry.lean
#
# (a) named routing: real Node objects, several of which may carry one name, against `nnode`
# (b) method table: real Orientation / Center classes (and their subclasses, and user-defined subclasses), driven
#     through the registration sites of the code and through raw `+` / `setattr`, against `reg`

def named_line(names, hist):
    return f"nnode {len(names)} " + ",".join(str(x) for x in names) + "".join(f" {a}-{b}" for a, b in hist)


def real_named_dump(names, hist):
    """same format as the driver's `nnode` reply, from real Node objects (paths through a step-bounded walk first)"""
    from beyond.utils.node import Node
    n = len(names)
    nodes = [Node(str(x)) for x in names]
    for a, b in hist:
        nodes[a] + nodes[b]
    return dump_real_nodes(nodes) + " P " + ";".join(real_named_paths(nodes, names))


def dump_real_nodes(nodes):
    idx = {id(x): i for i, x in enumerate(nodes)}
    n = len(nodes)
    nb = ";".join(f"{u}:" + ",".join(str(idx[id(x)]) for x in nodes[u].neighbors) for u in range(n))
    tabs = ";".join(f"{u}:" + ",".join(f"{t}>{idx[id(r.direction)]}/{r.steps}" for t, r in sorted(nodes[u].routes.items(), key=lambda kv: int(kv[0])))
                    for u in range(n))
    return "N " + nb + " R " + tabs


def real_named_paths(nodes, names):
    idx = {id(x): i for i, x in enumerate(nodes)}
    n = len(nodes)
    out = []
    for s in range(n):
        for goal in sorted(set(names)):
            st, p = bounded_walk(nodes[s], str(goal), n + 2)
            if st == "ok":
                p = nodes[s].path(str(goal))       # the real method, now known to terminate
                out.append(".".join(str(idx[id(x)]) for x in p))
            elif st == "U":
                try:
                    nodes[s].path(str(goal))
                    out.append("?")
                except ValueError:
                    out.append("U")
            else:
                out.append(st)
    return out


ORIENT_CLASSES = ["Orientation", "TopocentricOrientation", "LocalOrbitalOrientation", "LagrangeOrient", "UserA", "UserB"]
CENTER_CLASSES = ["Center", "JplCenter", "UserCenter"]


def reg_line(sc):
    n = len(sc["names"])
    mro = ";".join(f"{c}:" + ".".join(str(x) for x in l) for c, l in sorted(sc["mro"].items()))
    return (f"reg {n} " + ",".join(map(str, sc["names"])) + " " + ",".join(map(str, sc["classes"])) + f" {mro} 0 " + " ".join(sc["ops"])).rstrip()


class _RegWorld:
    """real classes for one world ('orient' or 'center'); the `_to_parent` of every class is replaced by a recorder, so
    that a real convert_to call tells which objects' methods it resolved, in order"""

    def __init__(self, world):
        import numpy as np
        from types import SimpleNamespace
        from beyond.dates import Date
        from beyond.frames import center as cmod, orient as omod, frames as fmod, lagrange as lmod
        from beyond.env import jpl
        self.np, self.NS = np, SimpleNamespace
        self.world = world
        self.log = []
        self.date = Date(2018, 2, 25, 12)
        self.cmod, self.omod, self.fmod, self.lmod, self.jpl = cmod, omod, fmod, lmod, jpl
        log = self.log
        if world == "orient":
            def rec(obj, date):
                log.append(obj)
                return np.identity(3), None

            class UserA(omod.Orientation):
                """registered the way beyond.frames.lagrange.LagrangeOrient is: by hand, by the raw operations of the scenario"""
                _to_parent = rec

            class UserB(UserA):
                pass
            self.classes = [omod.Orientation, omod.TopocentricOrientation, omod.LocalOrbitalOrientation, lmod.LagrangeOrient, UserA, UserB]
            self.saved = [(c, c.__dict__.get("_to_parent")) for c in self.classes[1:4]]
            for c in self.classes[1:4]:
                c._to_parent = rec
            omod.Orientation._to_parent = rec      # plain Orientation objects registered by hand (raw ops) need a method to bind
            self.saved.append((omod.Orientation, None))
        else:
            def rec(obj, date, orientation):
                log.append(obj)
                return np.zeros(6)

            class UserCenter(cmod.Center):
                pass
            self.classes = [cmod.Center, jpl.JplCenter, UserCenter]
            self.saved = [(cmod.Center, cmod.Center.__dict__["_to_parent"])]
            cmod.Center._to_parent = rec

    def restore(self):
        for c, f in self.saved:
            if f is None:
                try:
                    delattr(c, "_to_parent")
                except AttributeError:
                    pass
            else:
                c._to_parent = f

    def mro(self):
        out = {}
        for i, c in enumerate(self.classes):
            out[i] = [self.classes.index(k) for k in c.__mro__ if k in self.classes]
        return out

    # ---------------------------------------------------------------- one scenario
    def run(self, sc, site_labels):
        np, NS = self.np, self.NS
        omod, cmod, fmod = self.omod, self.cmod, self.fmod
        tag = sc["tag"]
        names, classes = sc["names"], sc["classes"]
        if self.mro() != {int(k): v for k, v in sc["mro"].items()}:
            raise RuntimeError(f"class hierarchy differs from the table of the harness: {self.mro()}")
        n = len(names)
        lag = {names[i] for i in range(n) if self.world == "orient" and classes[i] == 3}

        strs = sc.get("strs")

        def nstr(k):
            if strs is not None:
                # names spelled by the scenario ('{t}' = the scenario tag): names containing '_to_' / ending with '_to'
                return strs[k].replace("{t}", tag)
            # free-text names: four consecutive integers give names that differ by one non-word character only
            return f"{tag}N{('', '-', '.', '~')[k % 4]}{k // 4}" + ("Lagrange" if k in lag else "")
        objs = [None] * n
        dummy_center = cmod.Center(f"{tag}DC")
        dummy_orient = omod.Orientation(f"{tag}DO")
        for i in range(n):
            if self.world == "orient" and classes[i] in (0, 4, 5):
                objs[i] = self.classes[classes[i]](nstr(names[i]))
            elif self.world == "center" and classes[i] in (0, 2):
                objs[i] = self.classes[classes[i]](nstr(names[i]))
            elif self.world == "center" and classes[i] == 1:
                objs[i] = self.jpl.JplCenter(nstr(names[i]), 1000 + i)
                if objs[i].name != nstr(names[i]):
                    raise RuntimeError("JplCenter mangled the name")

        def node(o):
            return o if self.world == "orient" else o.node

        def frame_for(role_parent, other):
            """a Frame whose orientation / centre is the parent object, named after `other`"""
            if self.world == "orient":
                return fmod.Frame(nstr(names[other]) + "F", objs[role_parent], dummy_center, exists_warning=False)
            return fmod.Frame(nstr(names[other]) + "F", dummy_orient, objs[role_parent], exists_warning=False)

        for tok in sc["ops"]:
            parts = tok.split(":")
            if parts[0] == "L":
                a, b = int(parts[1]), int(parts[2])
                node(objs[a]) + node(objs[b])
            elif parts[0] == "A":
                h, ka, kb, o = parts[1], int(parts[2]), int(parts[3]), int(parts[4])
                holder = self.classes[int(h[1:])] if h[0] == "c" else objs[int(h[1:])]
                setattr(holder, f"{nstr(ka)}_to_{nstr(kb)}", objs[o]._to_parent)
            elif parts[0] == "S":
                label = site_labels[int(parts[1])]
                s, p, o = int(parts[2]), int(parts[3]), int(parts[4])
                nm = nstr(names[s])
                if label == "TopocentricOrientation.__init__":
                    objs[s] = omod.TopocentricOrientation(nm, (0.3, 0.4, 0.0), parent=objs[p])
                elif label in ("create_station[orient]", "create_station[center]"):
                    from beyond.frames.stations import create_station
                    f = create_station(nm, (12.0, 34.0, 56.0), parent_frame=frame_for(p, o))
                    objs[s] = f.orientation if self.world == "orient" else f.center
                elif label == "LocalOrbitalOrientation.__init__":
                    objs[s] = omod.LocalOrbitalOrientation(nm, None, "QSW", NS(orientation=objs[p], name=nstr(names[o]) + "F"))
                elif label in ("orbit2frame[orient]", "orbit2frame[center]"):
                    from beyond.orbits import StateVector
                    if self.world == "orient":
                        src = fmod.Frame(f"{tag}src{s}", dummy_orient, dummy_center, exists_warning=False)
                        sv = StateVector([7e6, 0, 0, 0, 7500.0, 0], self.date, "cartesian", src)
                        f = fmod.orbit2frame(nm, sv, orientation="TNW", parent=frame_for(p, o), exists_warning=False)
                        objs[s] = f.orientation
                    else:
                        sv = StateVector([7e6, 0, 0, 0, 7500.0, 0], self.date, "cartesian", frame_for(p, o))
                        f = fmod.orbit2frame(nm, sv, exists_warning=False)
                        objs[s] = f.center
                elif label == "LagrangeOrient.__init__":
                    prefix = nm[: -len("Lagrange")]
                    objs[s] = self.lmod.LagrangeOrient(NS(center=NS(body=NS(name=prefix)), orientation=objs[p]), NS(name=""))
                elif label in ("lagrange[orient]", "lagrange[center]"):
                    if self.world == "orient":
                        prefix = nm[: -len("Lagrange")]
                        f1 = NS(center=NS(body=NS(name=prefix)), orientation=objs[p])
                        f2 = NS(center=dummy_center)
                        dummy_center.body = NS(name="")
                        f = self.lmod.lagrange(f1, f2, 2, name=f"{tag}lag{s}")
                        objs[s] = f.orientation
                    else:
                        raise RuntimeError("lagrange[center]: the centre name is computed from body names; not driven here")
                elif label == "Center.add_link" and isinstance(objs[s], self.jpl.JplCenter):
                    cmod.Center.add_link(objs[s], objs[p], dummy_orient, np.zeros(6))
                elif label == "Center.add_link":
                    objs[s].add_link(objs[p], dummy_orient, np.zeros(6))
                elif label == "JplCenter.add_link":
                    objs[s].add_link(objs[p], np.zeros(6))
                else:
                    raise RuntimeError(f"site {label} is not driven by the synthetic correspondence")
                if objs[s].name != nm:
                    raise RuntimeError(f"site {label} produced an object named {objs[s].name}, expected {nm}")
            else:
                raise RuntimeError(f"bad op {tok}")
        if any(o is None for o in objs):
            raise RuntimeError("scenario leaves an object unconstructed")
        nodes = [node(o) for o in objs]
        back = {nstr(k): k for k in set(names)}
        idx = {id(x): i for i, x in enumerate(nodes)}
        # graph dump with names mapped back to integers
        nb = ";".join(f"{u}:" + ",".join(str(idx[id(x)]) for x in nodes[u].neighbors) for u in range(n))
        tabs = ";".join(f"{u}:" + ",".join(f"{back[t]}>{idx[id(r.direction)]}/{r.steps}" for t, r in sorted(nodes[u].routes.items(), key=lambda kv: back[kv[0]]))
                        for u in range(n))
        conv = []
        for s in range(n):
            for goal in sorted(set(names)):
                conv.append(self.real_convert(objs, nodes, idx, s, nstr(goal)))
        return "N " + nb + " R " + tabs + " C " + ";".join(conv)

    def real_convert(self, objs, nodes, idx, s, goal):
        n = len(nodes)
        st, p = bounded_walk(nodes[s], goal, n + 2)
        if st in ("K", "L"):
            return st
        del self.log[:]
        try:
            if self.world == "orient":
                objs[s].convert_to(self.date, goal)
            else:
                objs[s].convert_to(self.date, goal, self.omod.EME2000)
        except ValueError as e:
            msg = str(e)
            if msg.startswith("Unknown transformation"):
                for i in range(len(p) - 1):
                    if resolvable(objs[s], p[i].name, p[i + 1].name) is None:
                        exp = f"Unknown transformation {p[i].name} <-> {p[i + 1].name}"
                        return f"UT:{idx[id(p[i])]}:{idx[id(p[i + 1])]}" if msg == exp else f"UT?{msg}"
                return f"UT?{msg}"
            if msg.startswith("Unknown '"):
                return "UN"
            return "E:" + msg[:60]
        if st == "U":
            return "noerror-on-unknown"
        owners = [idx.get(id(o if self.world == "orient" else o.node), "x") for o in self.log]
        if len(owners) != len(p) - 1:
            return f"steps?{owners}"
        out = []
        for i in range(len(p) - 1):
            d = resolvable(objs[s], p[i].name, p[i + 1].name)
            out.append(f"{idx[id(p[i])]}>{idx[id(p[i + 1])]}:{d}:{owners[i]}")
        return "ok=" + ",".join(out)


def real_reg_dumps(scenarios, site_labels):
    """run every scenario on the real classes; returns one reply string per scenario ('ERR …' when the real code raises)"""
    import warnings
    import logging
    warnings.filterwarnings("ignore")
    logging.disable(logging.CRITICAL)
    out = []
    worlds = {}
    try:
        for sc in scenarios:
            w = worlds.get(sc["world"])
            if w is None:
                w = worlds[sc["world"]] = _RegWorld(sc["world"])
            try:
                out.append(w.run(sc, site_labels))
            except Exception as e:  # noqa: BLE001
                out.append("ERR " + repr(e)[:200] + " " + traceback.format_exc()[-400:].replace("\n", " | "))
    finally:
        for w in worlds.values():
            w.restore()
    return out


def forked(fn, *args, time_limit=120.0, mem_gb=3.0):
    """run fn(*args) in a forked child under a time / memory bound; returns (result, None) or (None, reason)"""
    rfd, wfd = os.pipe()
    sys.stdout.flush()
    sys.stderr.flush()
    pid = os.fork()
    if pid == 0:
        os.close(rfd)
        try:
            import resource
            resource.setrlimit(resource.RLIMIT_AS, (int(mem_gb * 2**30), int(mem_gb * 2**30)))
            signal.signal(signal.SIGALRM, signal.SIG_DFL)
            signal.setitimer(signal.ITIMER_REAL, time_limit)
            res = {"ok": fn(*args)}
        except BaseException as e:  # noqa: BLE001
            res = {"error": repr(e), "tb": traceback.format_exc()[-1500:]}
        try:
            with os.fdopen(wfd, "wb") as f:
                f.write(json.dumps(res, default=str).encode())
        finally:
            os._exit(0)
    os.close(wfd)
    chunks = []
    with os.fdopen(rfd, "rb") as f:
        while True:
            b = f.read(65536)
            if not b:
                break
            chunks.append(b)
    _, status = os.waitpid(pid, 0)
    data = b"".join(chunks)
    if data:
        res = json.loads(data.decode())
        if "ok" in res:
            return res["ok"], None
        return None, res.get("error", "?") + " " + res.get("tb", "")
    return None, (f"killed by signal {os.WTERMSIG(status)}" if os.WIFSIGNALED(status) else f"exit status {os.WEXITSTATUS(status)}")


# ---------------------------------------------------------------- generators of registry scenarios

def random_reg_scenario(rng, world, site_labels, mro, tagno, orient_classes=(0, 1, 1, 2, 3, 4, 5), center_classes=(0, 0, 1, 2)):
    """objects 0..n-1; object 0 is a plain base-class object; every other object is brought in by a registration site of
    the code or by raw operations, then extra raw operations (re-links, shadowing setattr, same-name objects)"""
    S = {lab: i for i, lab in enumerate(site_labels)}
    n = rng.randint(3, 8)
    share = rng.random() < 0.4
    names = []
    for i in range(n):
        if share and names and rng.random() < 0.35:
            names.append(rng.choice(names))
        else:
            names.append(max(names, default=-1) + 1)
    if world == "orient":
        classes = [0] + [rng.choice(list(orient_classes)) for _ in range(n - 1)]
        # a LagrangeOrient's name ends with 'Lagrange': every object sharing that name gets the suffix too (handled by nstr)
    else:
        classes = [rng.choice(list(center_classes)) for _ in range(n)]
    ops = []
    order = list(range(1, n))
    rng.shuffle(order)
    have = [0] if world == "orient" or True else []
    pre = [i for i in range(n) if (world == "orient" and classes[i] in (0, 4, 5)) or world == "center"]

    def raw_registration(i, p):
        r = rng.random()
        a, b = (i, p) if rng.random() < 0.7 else (p, i)
        key = f"{names[a]}:{names[b]}"
        owner = i
        if r < 0.70:
            hold = "c0"
        elif r < 0.80:
            hold = f"c{classes[i]}"          # registered on the object's own class only
        elif r < 0.88:
            hold = f"i{i}"                   # on the instance only
        elif r < 0.94:
            hold = f"c{classes[p]}"          # on type(parent)
        else:
            hold = None                      # forgotten
        seq = []
        if hold is not None:
            seq.append(f"A:{hold}:{key}:{owner}")
        seq.append(f"L:{p}:{i}" if rng.random() < 0.5 else f"L:{i}:{p}")
        if rng.random() < 0.5:
            seq.reverse()
        return seq

    for i in order:
        p = rng.choice(have)
        o = rng.randrange(n)
        c = classes[i]
        if world == "orient":
            if c in (0, 4, 5):
                ops += raw_registration(i, p)
            elif c == 1:
                ops.append(f"S:{S['TopocentricOrientation.__init__'] if rng.random() < 0.25 else S['create_station[orient]']}:{i}:{p}:{o}")
            elif c == 2:
                ops.append(f"S:{S['LocalOrbitalOrientation.__init__'] if rng.random() < 0.5 else S['orbit2frame[orient]']}:{i}:{p}:{o}")
            elif c == 3:
                ops.append(f"S:{S['LagrangeOrient.__init__'] if rng.random() < 0.5 else S['lagrange[orient]']}:{i}:{p}:{o}")
        else:
            r = rng.random()
            if c == 1:
                ops.append(f"S:{S['JplCenter.add_link']}:{i}:{p}:{o}")
            elif r < 0.5:
                ops.append(f"S:{S['Center.add_link']}:{i}:{p}:{o}")
            elif r < 0.8:
                ops += raw_registration(i, p)
            else:
                ops.append(f"S:{S['Center.add_link']}:{i}:{p}:{o}")
        have.append(i)
    # extra operations on existing objects
    for _ in range(rng.randint(0, 3)):
        r = rng.random()
        a, b = rng.sample(range(n), 2)
        if r < 0.4:
            ops.append(f"L:{a}:{b}")                                           # a second link / a cycle, unregistered
        elif r < 0.7:
            hold = rng.choice([f"i{rng.randrange(n)}", f"c{rng.choice(sorted(mro))}", "c0"])
            ops.append(f"A:{hold}:{names[a]}:{names[b]}:{rng.randrange(n)}")   # shadowing / overriding entry
        elif world == "center":
            ops.append(f"S:{S['Center.add_link']}:{a}:{b}:0")                  # a centre attached a second time
        else:
            ops += raw_registration(a, b)
    return {"world": world, "tag": f"T{tagno}", "names": names, "classes": classes, "mro": {int(k): v for k, v in mro.items()}, "ops": ops}


# ---------------------------------------------------------------- string-keyed registry (Model/RegistryStr.lean, driver op `sreg`)

NAME_POOLS = [
    ["{t}E", "{t}S_to", "{t}S", "to_{t}E", "{t}X", "{t}Y", "{t}Z", "{t}W"],
    ["{t}C", "{t}A_to_{t}B", "{t}A", "{t}B_to_{t}C", "{t}D", "{t}B", "{t}F", "{t}G"],
    ["{t}E", "{t}S", "{t}S_to", "to_{t}E", "{t}E_to", "to_{t}S", "{t}_to_", "{t}_to"],
    ["{t}Site 1", "{t}Site-1", "{t}É_tö", "{t}to", "{t}_", "{t}to_", "{t}a_to", "to_{t}a_to"],
]


def codepoints(s):
    return ".".join(str(ord(c)) for c in s) if s else "-"


def sreg_line(sc):
    n = len(sc["names"])
    mro = ";".join(f"{c}:" + ".".join(str(x) for x in l) for c, l in sorted(sc["mro"].items()))
    strs = ";".join(codepoints(x.replace("{t}", sc["tag"])) for x in sc["strs"])
    return (f"sreg {n} " + ",".join(map(str, sc["names"])) + " " + ",".join(map(str, sc["classes"])) + f" {mro} 0 {strs} " + " ".join(sc["ops"])).rstrip()


def scenario_keys(sc, site_labels):
    """(name id, name id) pairs under which the scenario stores a link method, for the collision statistics"""
    pairs = set()
    names = sc["names"]
    for tok in sc["ops"]:
        parts = tok.split(":")
        if parts[0] == "A":
            pairs.add((int(parts[2]), int(parts[3])))
        elif parts[0] == "S":
            pairs.add((names[int(parts[2])], names[int(parts[3])]))
    return pairs


def has_key_collision(sc, site_labels):
    strs = [x.replace("{t}", sc["tag"]) for x in sc["strs"]]
    seen = {}
    for a, b in scenario_keys(sc, site_labels):
        k = f"{strs[a]}_to_{strs[b]}"
        if seen.setdefault(k, (a, b)) != (a, b):
            return True
        # the reverse lookup of another pair
    keys = {f"{strs[a]}_to_{strs[b]}": (a, b) for a, b in scenario_keys(sc, site_labels)}
    ids = sorted(set(sc["names"]))
    for a in ids:
        for b in ids:
            k = f"{strs[a]}_to_{strs[b]}"
            if k in keys and keys[k] != (a, b):
                return True
    return False


def fixed_string_scenarios(site_labels, orient_mro, center_mro):
    """the collision of the open finding C20-link-name-collision, realised on the real classes: 'S_to' below 'E' and 'S' below
    'to_E' (both worlds), and 'A_to_B' below 'C' / 'A' below 'B_to_C'"""
    S = {lab: i for i, lab in enumerate(site_labels)}
    out = []
    k = 0
    for pool, order in ((NAME_POOLS[0], (0, 1, 3, 2)), (NAME_POOLS[0], (0, 3, 2, 1)), (NAME_POOLS[1], (0, 1, 3, 2)), (NAME_POOLS[1], (0, 3, 2, 1))):
        # object i carries name id i: 0 = root, 1 = '<x>_to' style child of the root, 3 = the 'to_<root>' style object, 2 = the child of 3
        for world in ("orient", "center"):
            ops = []
            for i in order[1:]:
                p = 0 if i in (1, 3) else 3
                if world == "orient":
                    if i == 3:
                        ops += [f"A:c0:3:0:3", f"L:0:3"]
                    else:
                        ops.append(f"S:{S['create_station[orient]']}:{i}:{p}:0")
                else:
                    ops.append(f"S:{S['Center.add_link']}:{i}:{p}:0")
            out.append({"world": world, "tag": f"X{k}", "names": [0, 1, 2, 3], "classes": [0, 1, 1, 0] if world == "orient" else [0, 0, 0, 0],
                        "mro": orient_mro if world == "orient" else center_mro, "ops": ops, "strs": pool[:4], "kind": "sreg-fixed-collision"})
            k += 1
    return out


def random_string_scenario(rng, world, site_labels, mro, tagno):
    sc = random_reg_scenario(rng, world, site_labels, mro, tagno, orient_classes=(0, 1, 1, 4, 5), center_classes=(0, 0, 2))
    pool = list(rng.choice(NAME_POOLS))
    if rng.random() < 0.5:
        rng.shuffle(pool)
    sc["strs"] = pool[:max(sc["names"]) + 1]
    sc["tag"] = f"Y{tagno}"
    # the drivers of the sites take the station frame name from the name string; every site used here accepts free text
    S = {lab: i for i, lab in enumerate(site_labels)}
    ok = {S[x] for x in ("TopocentricOrientation.__init__", "create_station[orient]", "Center.add_link")}
    if any(t.startswith("S:") and int(t.split(":")[1]) not in ok for t in sc["ops"]):
        raise RuntimeError("string scenario uses a site whose name is not free text")
    return sc
