"""C20 — scenarios on the REAL frame registry (beyond.frames, beyond.env.solarsystem, beyond.env.jpl,
beyond.frames.lagrange), each run in a forked child under a step / time / memory bound.

A scenario is a JSON list of operations (public-API calls registering frames); after every operation the child

  1. sweeps the two node graphs (centres below `Earth`, orientations around `ITRF`) by OBJECT IDENTITY and checks,
     with a step-bounded walk of the routing tables, that from every node every NAME present in its component is
     reached along existing links (nearest such node in a forest) and that every other name is reported unknown
     (a looping / non-terminating route is a failing input — `Node.path` itself is never called on it);
  2. checks the REGISTRY layer: from every start object, every consecutive pair of every route resolves to a link
     method (`hasattr(start, "<a>_to_<b>")` in either direction) — what `Center.convert_to` /
     `Orientation.convert_to` need in order not to raise `Unknown transformation`;
  3. converts a fixed state between every ordered pair of live frames (both directions, round trip), and compares
     the conversions between frames that existed before the operation with their value before it whenever the
     operation registered new names only.

Nothing here imports beyond at module level (core puts REPO first on sys.path).
"""
import json
import os
import signal
import struct
import sys
import time
import traceback

BUILTIN = ["EME2000", "ITRF", "TOD", "TEME", "MOD", "PEF", "GCRF", "CIRF", "TIRF", "G50"]   # the first five are the initial slots (GCRF is slow: IAU2010 series)
STEP_BOUND_EXTRA = 2


class RouteFailure(Exception):
    def __init__(self, family, what, detail):
        super().__init__(what)
        self.family, self.what, self.detail = family, what, detail


# ---------------------------------------------------------------- graph sweep (identity based, bounded)

def component(roots):
    """all Node objects reachable from the roots through `neighbors` (object identity); adjacency = union of both ends' views"""
    seen = {}
    q = []
    for r in roots:
        if id(r) not in seen:
            seen[id(r)] = r
            q.append(r)
    for u in q:
        for v in u.neighbors:
            if id(v) not in seen:
                seen[id(v)] = v
                q.append(v)
    adj = {id(u): {} for u in q}
    for u in q:
        for v in u.neighbors:
            adj[id(u)][id(v)] = v
            adj[id(v)][id(u)] = u
    return q, adj


def bounded_walk(start, goal, bound):
    """the walk of Node.path with a step bound; returns (status, [nodes]) with status in ok/U/K/L"""
    if goal == start.name:
        return "ok", [start]
    if goal not in start.routes:
        return "U", []
    obj = start
    path = [obj]
    for _ in range(bound):
        r = obj.routes.get(goal)
        if r is None:
            return "K", path
        obj = r.direction
        path.append(obj)
        if obj.name == goal:
            return "ok", path
    return "L", path


def sweep(roots, kind, fails, label, extra_names=()):
    """every node of the component of `root`: every name of the component is routed along existing links to a node
    carrying that name (a nearest one when the component is a tree), names outside are unknown"""
    nodes, adj = component(roots)
    n = len(nodes)
    nedges = sum(len(a) for a in adj.values()) // 2
    # connected components (identity), to know which names a node must reach
    comp = {}
    for u in nodes:
        if id(u) not in comp:
            comp[id(u)] = id(u)
            q = [u]
            for x in q:
                for y in adj[id(x)].values():
                    if id(y) not in comp:
                        comp[id(y)] = id(u)
                        q.append(y)
    ncomp = len(set(comp.values()))
    forest = nedges == n - ncomp
    asym = [(u.name, v.name) for u in nodes for v in u.neighbors if u not in v.neighbors]
    if asym:
        fails.append(dict(family=f"{kind}-link-asymmetric", what="a link is held by one of its two ends only (a neighbour was removed on one side)",
                          detail={"after": label, "pairs": asym[:4]}))
    ok = True
    for u in nodes:
        # identity BFS distances
        d = {id(u): 0}
        q = [u]
        for x in q:
            for y in adj[id(x)].values():
                if id(y) not in d:
                    d[id(y)] = d[id(x)] + 1
                    q.append(y)
        names = sorted({v.name for v in q})
        for goal in names:
            st, p = bounded_walk(u, goal, n + STEP_BOUND_EXTRA)
            if goal == u.name:
                continue
            near = min(d[id(v)] for v in q if v.name == goal)
            if st != "ok":
                what = {"L": "routing loop: the walk of Node.path does not reach the goal within n+2 steps (Node.path would not terminate)",
                        "U": "connected node reported as Unknown", "K": "route breaks at an intermediate node (KeyError in Node.path)"}[st]
                fails.append(dict(family=f"{kind}-route-{ {'L': 'loop', 'U': 'unknown', 'K': 'keyerror'}[st]}", what=what,
                                  detail={"after": label, "from": u.name, "goal": goal, "walk": [x.name for x in p][:12], "nodes": n}))
                ok = False
                continue
            chain_ok = all(p[i + 1] in p[i].neighbors for i in range(len(p) - 1))
            if not chain_ok:
                fails.append(dict(family=f"{kind}-route-invalid-chain", what="route follows a pair that is not linked",
                                  detail={"after": label, "from": u.name, "goal": goal, "walk": [x.name for x in p]}))
                ok = False
            elif forest and len(p) - 1 != near:
                fails.append(dict(family=f"{kind}-route-not-unique-chain", what="route in a tree is not the chain to the nearest node of that name",
                                  detail={"after": label, "from": u.name, "goal": goal, "walk": [x.name for x in p], "nearest": near}))
                ok = False
        for goal in extra_names:
            if goal not in names:
                st, p = bounded_walk(u, goal, n + STEP_BOUND_EXTRA)
                if st != "U":
                    fails.append(dict(family=f"{kind}-unconnected-not-reported", what="name absent from the component is not reported as Unknown",
                                      detail={"after": label, "from": u.name, "goal": goal, "status": st}))
                    ok = False
    return nodes, ok


def resolvable(start_obj, a, b):
    """what convert_to does for one step: 'd' direct, 'r' reverse, None = would raise Unknown transformation"""
    if hasattr(start_obj, f"{a}_to_{b}"):
        return "d"
    if hasattr(start_obj, f"{b}_to_{a}"):
        return "r"
    return None


def sweep_methods(nodes, owner_of, kind, fails, label):
    """from every start object, every step of every route has a resolvable link method"""
    n = len(nodes)
    names = sorted({u.name for u in nodes})
    bad = set()
    for u in nodes:
        start = owner_of(u)
        if start is None:
            continue
        for goal in names:
            st, p = bounded_walk(u, goal, n + STEP_BOUND_EXTRA)
            if st != "ok":
                continue
            for i in range(len(p) - 1):
                a, b = p[i].name, p[i + 1].name
                if resolvable(start, a, b) is None and (a, b, type(start).__name__) not in bad:
                    bad.add((a, b, type(start).__name__))
                    fails.append(dict(family=f"{kind}-link-method-unresolvable",
                                      what="two linked nodes have no '<a>_to_<b>' method visible from the start object: convert_to raises 'Unknown transformation' on a connected pair",
                                      detail={"after": label, "start": u.name, "start_class": type(start).__name__, "goal": goal, "step": [a, b],
                                              "class_of_a": type(owner_of(p[i])).__name__ if owner_of(p[i]) is not None else None,
                                              "class_of_b": type(owner_of(p[i + 1])).__name__ if owner_of(p[i + 1]) is not None else None}))
    return not bad


# ---------------------------------------------------------------- the scenario interpreter (runs in the child)

class World:
    def __init__(self):
        import numpy as np
        from beyond.config import config
        from beyond.dates import Date
        from beyond.frames import frames as fr
        from beyond.orbits import StateVector
        config.set("eop", "missing_policy", "pass")
        self.np = np
        self.date = Date(2018, 2, 25, 12)
        self.frames = [(nm, fr.get_frame(nm)) for nm in BUILTIN[:5]]
        self.sv = StateVector([7.1e6, 1.2e5, -3.4e5, 120.0, 7400.0, 300.0], self.date, "cartesian", "EME2000")
        self.centers = {}      # id(node) -> Center object
        self.used = set(BUILTIN) | {"Earth", "WGS84", "Hill"}
        self.jpl_done = False
        self.user_classes = {}

    def frame(self, k):
        return self.frames[k % len(self.frames)][1]

    def user_class(self, depth):
        """Orientation subclasses defined the way beyond.frames.lagrange.LagrangeOrient is (link method registered on the
        Orientation base class, then linked to the parent); depth 2 = subclass of the subclass"""
        import numpy as np
        from beyond.frames.orient import Orientation
        from beyond.utils.matrix import rot3
        if "1" not in self.user_classes:
            class BodyFixed(Orientation):
                RATE = 2 * np.pi / (27.321661 * 86400.0)

                def __init__(self, name, parent, epoch, phase):
                    super().__init__(name)
                    self.epoch, self.phase = epoch, phase
                    setattr(Orientation, f"{name}_to_{parent.name}", self._to_parent)
                    parent + self

                def _to_parent(self, date):
                    angle = self.phase + self.RATE * (date - self.epoch).total_seconds()
                    return rot3(-angle), np.array([0.0, 0.0, self.RATE])

            class BodyFixedTilted(BodyFixed):
                pass
            self.user_classes = {"1": BodyFixed, "2": BodyFixedTilted}
        return self.user_classes[str(depth)]

    def apply(self, op):
        """returns (new frame or None, set of names the operation registers)"""
        import numpy as np
        from beyond.frames import frames as fr
        from beyond.frames.stations import create_station
        from beyond.orbits import StateVector
        k = op["op"]
        if k == "station":
            parent = self.frame(op["parent"])
            f = create_station(op["name"], (op["lat"], op["lon"], op["alt"]), parent_frame=parent, equatorial=op.get("equatorial", False))
            return f, {op["name"]}
        if k == "topo_direct":
            # a TopocentricOrientation built directly (public class), used as the orientation of a frame at an existing centre
            from beyond.frames.orient import TopocentricOrientation
            parent = self.frame(op["parent"])
            o = TopocentricOrientation(op["name"], (np.radians(op["lat"]), np.radians(op["lon"]), op["alt"]), parent=parent.orientation)
            return fr.Frame(op["name"], o, parent.center, exists_warning=False), {op["name"]}
        if k == "userframe":
            parent = self.frame(op["parent"])
            cls = self.user_class(op.get("depth", 1))
            o = cls(op["name"], parent.orientation, self.date, op.get("phase", 0.3))
            return fr.Frame(op["name"], o, self.frame(op["center"]).center, exists_warning=False), {op["name"]}
        if k == "orbitframe":
            src = self.frame(op["state_frame"])
            parent = self.frame(op["parent"])
            pv = np.array(op["pv"], dtype=float)
            st = StateVector(pv, self.date, "cartesian", src)
            kw = {}
            if op.get("orientation"):
                kw["orientation"] = op["orientation"]
                kw["parent"] = parent
            return st.as_frame(op["name"], exists_warning=False, **kw), {op["name"]}
        if k == "sol":
            from beyond.env import solarsystem as sol
            return sol.get_frame(op["body"]), {op["body"], op["body"].title()}
        if k == "jpl":
            from beyond.config import config
            from beyond.env import jpl
            import beyond
            data = os.path.join(os.path.dirname(os.path.dirname(beyond.__file__)), "tests", "data", "jpl")
            config.set("env", "jpl", "files", [os.path.join(data, x) for x in ("de403_2000-2020.bsp", "pck00010.tpc", "gm_de431.tpc")])
            jpl.create_frames()
            self.jpl_done = True
            out = []
            for nm in op.get("take", ["Mars", "Moon", "Sun"]):
                try:
                    out.append(jpl.get_frame(nm))
                except KeyError:
                    continue
            return out, {f.name for f in jpl.list_frames()}
        if k == "lagrange":
            from beyond.frames.lagrange import lagrange
            f1, f2 = self.frame(op["f1"]), self.frame(op["f2"])
            if f1.center.body is None or f2.center.body is None or f1 is f2 or not hasattr(f2.center.body, "propagate") \
                    or f1.center.body.name == f2.center.body.name:
                return None, set()
            orientation = None if op.get("sinodic", True) else self.frame(op["f1"]).orientation
            f = lagrange(f1, f2, op["number"], name=op["name"], orientation=orientation)
            return f, {op["name"], f.center.name, f"{f1.center.body.name}{f2.center.body.name}Lagrange"}
        raise ValueError(f"unknown op {k}")

    # ------------------------------------------------------------ checks
    def all_center_objects(self):
        from beyond.frames import frames as fr
        out = {}
        for _, f in self.frames:
            out[id(f.center.node)] = f.center
        for f in fr.dynamic.values():
            c = getattr(f, "center", None)
            if c is not None and hasattr(c, "node"):
                out.setdefault(id(c.node), c)
        return out

    def snapshot(self, pairs):
        np = self.np
        out = {}
        for i, j in pairs:
            a, b = self.frames[i][1], self.frames[j][1]
            out[i, j] = np.array(self.sv.copy(frame=a).copy(frame=b))
        return out


def f2hex(x):
    return struct.pack("<d", float(x)).hex()


def run_scenario(ops, opts=None):
    """executed in the child; returns {"fails": [...], "counts": {...}}"""
    import warnings
    warnings.filterwarnings("ignore")
    import logging
    logging.disable(logging.CRITICAL)
    opts = opts or {}
    fails = []
    counts = {"ops": 0, "conversions": 0, "unchanged_compared": 0, "route_walks": 0, "method_steps": 0}
    w = World()
    np = w.np
    from beyond.frames import center as cmod, orient as omod
    max_pairs = opts.get("max_pairs", 40)

    def pairs_now():
        n = len(w.frames)
        ps = [(i, j) for i in range(n) for j in range(n) if i != j]
        if len(ps) > max_pairs:
            # always keep the pairs involving the newest frame and EME2000 / ITRF, then a deterministic stride
            keep = [p for p in ps if n - 1 in p and (p[0] < 2 or p[1] < 2)]
            rest = [p for p in ps if p not in keep]
            stride = max(1, len(rest) // (max_pairs - len(keep)))
            ps = keep + rest[::stride][: max_pairs - len(keep)]
        return ps

    before = {}
    label = "start"
    for step, op in enumerate([None] + list(ops)):
        new_names = set()
        if op is not None:
            label = f"op{step - 1}:{op['op']}:{op.get('name', op.get('body', ''))}"
            try:
                f, new_names = w.apply(op)
            except RouteFailure as e:
                fails.append(dict(family=e.family, what=e.what, detail=e.detail))
                break
            except Exception as e:  # noqa: BLE001
                fails.append(dict(family=f"registration-raises:{op['op']}", what="a registration through the public API raises",
                                  detail={"after": label, "error": repr(e)[:300], "tb": traceback.format_exc()[-600:]}))
                break
            counts["ops"] += 1
            for x in (f if isinstance(f, list) else [f]):
                if x is not None:
                    w.frames.append((f"{len(w.frames)}:{x.name}", x))
        fresh = op is not None and not (new_names & w.used)
        w.used |= new_names
        # 1. routing sweep on both graphs, bounded
        cnodes, ok1 = sweep([cmod.Earth.node] + [f.center.node for _, f in w.frames], "center", fails, label, extra_names=("C20-absent",))
        onodes, ok2 = sweep([omod.ITRF] + [f.orientation for _, f in w.frames], "orient", fails, label, extra_names=("C20-absent",))
        counts["route_walks"] += len(cnodes) ** 2 + len(onodes) ** 2
        if not (ok1 and ok2):
            break   # never call the real path()/convert on a graph whose tables loop or break
        # 2. registry layer
        cobj = w.all_center_objects()
        ok3 = sweep_methods(cnodes, lambda u: cobj.get(id(u)), "center", fails, label)
        ok4 = sweep_methods(onodes, lambda u: u, "orient", fails, label)
        counts["method_steps"] += len(cnodes) ** 2 + len(onodes) ** 2
        # 3. conversions
        pairs = pairs_now()
        after = {}
        for i, j in pairs:
            a, b = w.frames[i][1], w.frames[j][1]
            counts["conversions"] += 1
            try:
                x = w.sv.copy(frame=a)
                y = x.copy(frame=b)
                z = y.copy(frame=a)
            except Exception as e:  # noqa: BLE001
                site = "unknown-transformation" if "Unknown transformation" in str(e) else ("unknown-node" if "Unknown '" in str(e) else type(e).__name__)
                fails.append(dict(family=f"connected-not-convertible:{site}", what="two connected frames cannot be converted into each other",
                                  detail={"after": label, "from": w.frames[i][0], "to": w.frames[j][0], "error": repr(e)[:200],
                                          "to_orientation_class": type(b.orientation).__name__, "from_orientation_class": type(a.orientation).__name__}))
                continue
            after[i, j] = np.array(y)
            scale = max(1.0, float(np.abs(np.array(x)[:3]).max()), float(np.abs(np.array(y)[:3]).max()))
            err = float(np.abs(np.array(z) - np.array(x))[:3].max())
            if not err <= 1e-7 * scale + 1e-6:
                fails.append(dict(family="conversion-roundtrip", what="a -> b -> a does not come back",
                                  detail={"after": label, "from": w.frames[i][0], "to": w.frames[j][0], "err_m": err, "scale": scale}))
            if fresh and (i, j) in before:
                counts["unchanged_compared"] += 1
                if not np.array_equal(before[i, j], after[i, j]):
                    fails.append(dict(family="registration-changes-conversion", what="registering frames under new names changed a conversion between pre-existing frames",
                                      detail={"after": label, "from": w.frames[i][0], "to": w.frames[j][0],
                                              "before": [float(v) for v in before[i, j]], "now": [float(v) for v in after[i, j]]}))
        before = after
        if len(fails) > 12:
            break
    return {"fails": fails, "counts": counts}


# ---------------------------------------------------------------- forked execution under bounds

def _child(ops, opts, wfd, time_limit, mem_gb):
    import resource
    try:
        resource.setrlimit(resource.RLIMIT_AS, (int(mem_gb * 2**30), int(mem_gb * 2**30)))
    except Exception:  # noqa: BLE001
        pass
    signal.signal(signal.SIGALRM, signal.SIG_DFL)    # default action: kill the child
    signal.setitimer(signal.ITIMER_REAL, time_limit)
    try:
        res = run_scenario(ops, opts)
    except MemoryError:
        res = {"fails": [dict(family="scenario-memory", what="scenario exhausted its memory bound", detail={})], "counts": {}}
    except Exception as e:  # noqa: BLE001
        res = {"error": repr(e), "tb": traceback.format_exc()[-1500:], "fails": [], "counts": {}}
    data = json.dumps(res, default=str).encode()
    with os.fdopen(wfd, "wb") as f:
        f.write(data)
    os._exit(0)


def run_forked(ops, opts=None, time_limit=20.0, mem_gb=2.0):
    """run one scenario in a forked child. returns the child's dict, or a dict with a `bound` failure when the child was
    killed by its time / memory bound (a failing input, not an infrastructure error)"""
    rfd, wfd = os.pipe()
    sys.stdout.flush()
    sys.stderr.flush()
    pid = os.fork()
    if pid == 0:
        os.close(rfd)
        try:
            _child(ops, opts, wfd, time_limit, mem_gb)
        finally:
            os._exit(3)
    os.close(wfd)
    chunks = []
    with os.fdopen(rfd, "rb") as f:
        while True:
            b = f.read(65536)
            if not b:
                break
            chunks.append(b)
    _, status = os.waitpid(pid, 0)
    data = b"".join(chunks)
    if data:
        try:
            return json.loads(data.decode())
        except Exception:  # noqa: BLE001
            pass
    why = f"killed by signal {os.WTERMSIG(status)}" if os.WIFSIGNALED(status) else f"exit status {os.WEXITSTATUS(status)}"
    return {"fails": [dict(family="scenario-exceeds-bound", what=f"scenario did not finish within its time/memory bound ({why}): a conversion or registration does not terminate",
                           detail={"time_limit_s": time_limit, "mem_gb": mem_gb})], "counts": {}}


# ---------------------------------------------------------------- generators

def fixed_scenarios():
    """hand-picked histories: every registration site of the anchored files, same-name re-registrations, subclass parents"""
    leo = [7.0e6, 1.0e5, -2.0e5, 150.0, 7500.0, 200.0]
    lunar = [1.9e6, 1.2e4, -4.0e4, 15.0, 1500.0, 1170.0]
    rel = [120.0, -300.0, 50.0, 0.1, -0.2, 0.05]
    S = []
    # analytical solar system, Lagrange point, then the JPL frames under the same centre names (and the reverse order)
    S.append(("sol-lagrange-jpl", [
        {"op": "sol", "body": "Earth"}, {"op": "sol", "body": "Sun"},
        {"op": "lagrange", "f1": 6, "f2": 5, "number": 2, "name": "SEL2", "sinodic": False},
        {"op": "jpl"},
        {"op": "station", "name": "Tls", "lat": 43.6, "lon": 1.4, "alt": 150.0, "parent": 1},
    ]))
    S.append(("jpl-sol-lagrange", [
        {"op": "jpl"}, {"op": "sol", "body": "Earth"}, {"op": "sol", "body": "Sun"}, {"op": "sol", "body": "Moon"},
        {"op": "lagrange", "f1": -2, "f2": -3, "number": 1, "name": "SEL1", "sinodic": True},
        {"op": "sol", "body": "Moon"},
    ]))
    # stations below non-ITRF parents: user-defined body-fixed orientation (subclass, sub-subclass), Lagrange orientation, LOF, another station
    S.append(("station-subclass-parents", [
        {"op": "sol", "body": "Moon"},
        {"op": "userframe", "name": "MoonFixed", "parent": 0, "center": 5, "depth": 1},
        {"op": "station", "name": "Tranquility", "lat": 0.67, "lon": 23.47, "alt": 0.0, "parent": 6},
        {"op": "userframe", "name": "MoonFixedB", "parent": 0, "center": 5, "depth": 2},
        {"op": "station", "name": "Shackleton", "lat": -89.9, "lon": 0.0, "alt": 10.0, "parent": 8},
        {"op": "station", "name": "OnStation", "lat": 10.0, "lon": 20.0, "alt": 0.0, "parent": 7},
    ]))
    S.append(("station-lagrange-lof-parents", [
        {"op": "sol", "body": "Earth"}, {"op": "sol", "body": "Sun"},
        {"op": "lagrange", "f1": 6, "f2": 5, "number": 4, "name": "SEL4", "sinodic": True},
        {"op": "station", "name": "OnL4", "lat": 5.0, "lon": 6.0, "alt": 0.0, "parent": 7},
        {"op": "orbitframe", "name": "LeoQsw", "pv": leo, "state_frame": 0, "parent": 0, "orientation": "QSW"},
        {"op": "station", "name": "OnQsw", "lat": -15.0, "lon": 60.0, "alt": 0.0, "parent": 9},
    ]))
    # re-registration under an existing name (stations, orbit frames), nested orbit frames
    S.append(("same-name-reregistration", [
        {"op": "station", "name": "Dup", "lat": 43.6, "lon": 1.4, "alt": 150.0, "parent": 1},
        {"op": "orbitframe", "name": "Tgt", "pv": leo, "state_frame": 0, "parent": 0, "orientation": None},
        {"op": "orbitframe", "name": "Chs", "pv": rel, "state_frame": 6, "parent": 0, "orientation": "TNW"},
        {"op": "station", "name": "Dup", "lat": -20.0, "lon": 100.0, "alt": 10.0, "parent": 1},
        {"op": "orbitframe", "name": "Tgt", "pv": leo, "state_frame": 0, "parent": 0, "orientation": "QSW"},
        {"op": "station", "name": "Behind", "lat": 1.0, "lon": 2.0, "alt": 3.0, "parent": 5},
        {"op": "station", "name": "Dup", "lat": 20.0, "lon": -100.0, "alt": 10.0, "parent": 7},
    ]))
    S.append(("moon-orbiter-frames", [
        {"op": "sol", "body": "Moon"},
        {"op": "orbitframe", "name": "Lro", "pv": lunar, "state_frame": 5, "parent": 5, "orientation": "QSW"},
        {"op": "orbitframe", "name": "LroI", "pv": lunar, "state_frame": 5, "parent": 5, "orientation": None},
        {"op": "sol", "body": "Moon"},
        {"op": "orbitframe", "name": "Lro2", "pv": lunar, "state_frame": 8, "parent": 8, "orientation": "TNW"},
        {"op": "station", "name": "EqSta", "lat": 3.0, "lon": 4.0, "alt": 0.0, "parent": 1, "equatorial": True},
    ]))
    return S


def topo_direct_scenario():
    return ("topo-direct", [
        {"op": "topo_direct", "name": "BareTopo", "lat": 12.0, "lon": 34.0, "alt": 0.0, "parent": 1},
    ])


def random_scenario(rng, length):
    """random interleaving of registrations; slot indices are taken modulo the number of live frames when applied"""
    ops = []
    names = []
    nframes = 5
    have_sol = []
    tag = f"R{rng.randrange(10**5)}"

    def name():
        if names and rng.random() < 0.25:
            return rng.choice(names)      # re-registration under an existing name
        nm = f"{tag}n{len(names)}"
        names.append(nm)
        return nm

    def slot():
        r = rng.random()
        if r < 0.3:
            return rng.randrange(2)       # EME2000 / ITRF
        return rng.randrange(nframes)

    for _ in range(length):
        r = rng.random()
        if r < 0.30:
            ops.append({"op": "station", "name": name(), "lat": round(rng.uniform(-89, 89), 3), "lon": round(rng.uniform(-180, 180), 3),
                        "alt": round(rng.uniform(0, 3000), 1), "parent": slot(), "equatorial": rng.random() < 0.1})
            nframes += 1
        elif r < 0.45:
            ops.append({"op": "userframe", "name": name(), "parent": slot(), "center": slot(), "depth": rng.choice([1, 2]), "phase": round(rng.uniform(0, 6), 3)})
            nframes += 1
        elif r < 0.70:
            pv = [round(rng.uniform(-1, 1) * 8e6, 1), round(rng.uniform(-1, 1) * 8e6, 1), round(rng.uniform(1, 2) * 3e6, 1),
                  round(rng.uniform(-1, 1) * 3e3, 3), round(rng.uniform(1, 2) * 3e3, 3), round(rng.uniform(-1, 1) * 3e3, 3)]
            ops.append({"op": "orbitframe", "name": name(), "pv": pv, "state_frame": slot(), "parent": slot(),
                        "orientation": rng.choice([None, "QSW", "TNW"])})
            nframes += 1
        elif r < 0.85:
            body = rng.choice(["Earth", "Moon", "Sun"])
            ops.append({"op": "sol", "body": body})
            have_sol.append((body, nframes))
            nframes += 1
        elif r < 0.92:
            ops.append({"op": "jpl", "take": rng.sample(["Mars", "Moon", "Sun", "Earth", "EarthBarycenter", "Venus"], 2)})
            nframes += 2
        else:
            suns = [s for b, s in have_sol if b == "Sun"]
            others = [s for b, s in have_sol if b != "Sun"]
            if suns and others:
                ops.append({"op": "lagrange", "f1": rng.choice(suns), "f2": rng.choice(others), "number": rng.randint(1, 5),
                            "name": name(), "sinodic": rng.random() < 0.5})
                nframes += 1
            else:
                ops.append({"op": "sol", "body": "Sun"})
                have_sol.append(("Sun", nframes))
                nframes += 1
    return ops


if __name__ == "__main__":
    # python harness/c20_registry.py '<json ops>'   (REPO from VERIF_REPO)
    sys.path.insert(0, os.environ.get("VERIF_REPO", "/repo"))
    t = time.time()
    if len(sys.argv) > 1:
        scen = [("cli", json.loads(sys.argv[1]))]
    else:
        scen = fixed_scenarios() + [topo_direct_scenario()]
    for nm, ops in scen:
        res = run_forked(ops)
        print(nm, json.dumps(res.get("counts")), res.get("error", ""), res.get("tb", ""))
        for f in res["fails"][:6]:
            print("   FAIL", f["family"], "|", f["what"], "|", json.dumps(f["detail"], default=str)[:400])
    print("t", round(time.time() - t, 2))
