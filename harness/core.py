"""Common machinery of every check: build, audit, line-protocol driver, verdict, evidence.

A property module (harness/props/Cxx.py) provides

    ID            "C20"
    LEAN_TARGETS  lake targets holding the model, generated tables and property theorems
    THEOREMS      fully qualified names of the property theorems (axiom audit)
    extract(ctx)          optional: regenerate lean/BeyondVerif/Generated/*.lean from /repo
    correspondence(ctx)   model (driver) vs implementation on generated cases  -> Outcome
    oracle(ctx, widened)  theorem statements as predicates on the real API     -> Outcome
    TRUSTED / ASSUMPTIONS / NOT_COVERED   lists of strings for the evidence file

and core.run(module) turns that into the verdict described in DESIGN.md section 2.3.
"""
import fcntl
import hashlib
import json
import os
import random
import re
import subprocess
import sys
import time
import traceback

VERIF = os.path.dirname(os.path.dirname(os.path.abspath(__file__)))
REPO = os.environ.get("VERIF_REPO", "/repo")
LEAN = os.path.join(VERIF, "lean")
DRIVER = os.path.join(LEAN, ".lake", "build", "bin", "driver")   # legacy single driver (unused)
CURRENT_ID = None   # set by run(): the property whose driver executable Driver() talks to


def driver_path(pid=None):
    return os.path.join(LEAN, ".lake", "build", "bin", f"driver_{pid or CURRENT_ID}")
ALLOWED_AXIOMS = {"propext", "Classical.choice", "Quot.sound"}
FORBIDDEN = re.compile(r"\bsorry\b|\badmit\b|^axiom |native_decide|bv_decide|implemented_by|unsafe |maxHeartbeats 0")

if REPO not in sys.path:
    sys.path.insert(0, REPO)


class Outcome:
    """Result of a correspondence run or an oracle sweep."""

    def __init__(self):
        self.cases = 0
        self.keys = set()          # distinct non-trivial case keys
        self.failures = []         # list of dicts: {family, what, input, observed, expected}
        self.samples = []
        self.dist = {}
        self.notes = []

    def count(self, key=None, nontrivial=True, **dist):
        self.cases += 1
        if key is not None and nontrivial:
            self.keys.add(key if isinstance(key, (str, int, tuple)) else repr(key))
        for k, v in dist.items():
            kk = f"{k}={v}"
            self.dist[kk] = self.dist.get(kk, 0) + 1

    def tally(self, k):
        self.dist[k] = self.dist.get(k, 0) + 1

    def sample(self, s, limit=5):
        if len(self.samples) < limit:
            self.samples.append(s)

    def fail(self, family, what, input, observed=None, expected=None, **extra):
        d = {"family": family, "what": what, "input": input, "observed": observed, "expected": expected}
        d.update(extra)
        self.failures.append(d)


class Ctx:
    def __init__(self, prop_id, tier, seed):
        self.id = prop_id
        self.tier = tier
        self.seed = seed
        self.rng = random.Random(f"{prop_id}-{seed}")
        self.thorough = tier == "thorough"
        self.log = []
        self.broken = []   # names of theorems / correspondences that no longer check

    def n(self, quick, thorough):
        return thorough if self.thorough else quick

    def say(self, *a):
        msg = " ".join(str(x) for x in a)
        self.log.append(msg)
        print(msg, flush=True)


# ---------------------------------------------------------------- lean side

class _Lock:
    def __enter__(self):
        os.makedirs(os.path.join(LEAN, ".lake"), exist_ok=True)
        self.f = open(os.path.join(LEAN, ".lake", "verif.lock"), "w")
        fcntl.flock(self.f, fcntl.LOCK_EX)

    def __exit__(self, *a):
        fcntl.flock(self.f, fcntl.LOCK_UN)
        self.f.close()


def write_if_changed(path, text):
    old = None
    if os.path.exists(path):
        with open(path) as f:
            old = f.read()
    if old != text:
        os.makedirs(os.path.dirname(path), exist_ok=True)
        with open(path, "w") as f:
            f.write(text)
        return True
    return False


def lake_build(targets, timeout=3000):
    """returns (ok, log)"""
    with _Lock():
        p = subprocess.run(["lake", "build"] + list(targets), cwd=LEAN, capture_output=True, text=True, timeout=timeout)
    return p.returncode == 0, p.stdout + p.stderr


def failing_decls(log):
    """names of modules / declarations that lake reports as failing"""
    out = []
    for m in re.finditer(r"error: ([^\n]*)", log):
        out.append(m.group(1)[:300])
    return out[:20]


def audit(prop_id, theorems, modules=None):
    """#print axioms for every property theorem. returns (ok, {thm: [axioms]}, problems)"""
    problems = []
    mods = sorted({".".join(t.split("@")[0].split(".")[:0]) for t in theorems})
    src = [f"import {m}" for m in (modules or [f"BeyondVerif.Props.{prop_id}"])]
    for t in theorems:
        src.append(f"#print axioms {t}")
    path = os.path.join(LEAN, "Audit", f"{prop_id}.lean")
    write_if_changed(path, "\n".join(src) + "\n")
    with _Lock():
        p = subprocess.run(["lake", "env", "lean", path], cwd=LEAN, capture_output=True, text=True, timeout=1800)
    out = p.stdout + p.stderr
    axioms = {}
    for m in re.finditer(r"'([^']+)' depends on axioms: \[([^\]]*)\]", out):
        axioms[m.group(1)] = [a.strip() for a in m.group(2).replace("\n", " ").split(",") if a.strip()]
    for m in re.finditer(r"'([^']+)' does not depend on any axioms", out):
        axioms[m.group(1)] = []
    for t in theorems:
        if t not in axioms:
            problems.append(f"theorem {t} not found / not checked")
        else:
            bad = [a for a in axioms[t] if a not in ALLOWED_AXIOMS]
            if bad:
                problems.append(f"theorem {t} depends on {bad}")
    if p.returncode != 0 and not problems:
        problems.append("audit file failed to elaborate: " + out[-500:])
    return not problems, axioms, problems


def grep_forbidden():
    """sorry/admit/axiom/native_decide/... outside comments anywhere in the Lean tree"""
    hits = []
    for root, _, files in os.walk(LEAN):
        if ".lake" in root:
            continue
        for fn in files:
            if not fn.endswith(".lean"):
                continue
            p = os.path.join(root, fn)
            text = open(p).read()
            text = re.sub(r"/-.*?-/", lambda m: "\n" * m.group(0).count("\n"), text, flags=re.S)
            for i, line in enumerate(text.split("\n"), 1):
                code = line.split("--")[0]
                if FORBIDDEN.search(code):
                    hits.append(f"{os.path.relpath(p, VERIF)}:{i}: {line.strip()[:120]}")
    return hits


def leanchecker(modules):
    with _Lock():
        p = subprocess.run(["lake", "env", "leanchecker"] + modules, cwd=LEAN, capture_output=True, text=True, timeout=3000)
    return p.returncode == 0, (p.stdout + p.stderr)[-2000:]


class Driver:
    """Pipes request lines to the compiled Lean driver, returns reply lines."""

    def __init__(self, pid=None):
        self.path = driver_path(pid)
        self.ok = os.path.exists(self.path)

    def run(self, lines, timeout=3000):
        if not lines:
            return []
        data = "\n".join(lines) + "\n"
        p = subprocess.run([self.path], input=data, capture_output=True, text=True, timeout=timeout)
        if p.returncode != 0:
            raise RuntimeError("driver failed: " + p.stderr[-500:])
        out = p.stdout.split("\n")
        if out and out[-1] == "":
            out.pop()
        if len(out) != len(lines):
            raise RuntimeError(f"driver returned {len(out)} lines for {len(lines)} requests")
        return out


# ---------------------------------------------------------------- floats on the wire

import struct


def f2b(x):
    """float -> decimal string of the IEEE-754 bit pattern"""
    return str(struct.unpack("<Q", struct.pack("<d", float(x)))[0])


def b2f(s):
    return struct.unpack("<d", struct.pack("<Q", int(s)))[0]


def close(a, b, rtol=1e-9, atol=0.0, scale=None):
    import math
    if math.isnan(a) or math.isnan(b) or math.isinf(a) or math.isinf(b):
        return (math.isnan(a) and math.isnan(b)) or a == b
    s = scale if scale is not None else max(abs(a), abs(b))
    return abs(a - b) <= atol + rtol * s


# ---------------------------------------------------------------- known findings

def load_known():
    """known_findings.json is the committed file; it is assembled from known_findings.d/*.json by
    harness/merge_findings.py at development time, never at run time"""
    p = os.path.join(VERIF, "known_findings.json")
    if not os.path.exists(p):
        return []
    return json.load(open(p)).get("findings", [])


def match_known(prop_id, failure, known):
    for k in known:
        if k.get("status", "open") != "open":
            continue
        if k["property"] == prop_id and k["family"] == failure["family"]:
            return k
    return None


# ---------------------------------------------------------------- main driver of one check

def run(mod, argv=None):
    argv = sys.argv[1:] if argv is None else argv
    tier = os.environ.get("VERIF_TIER", "quick")
    if "--tier" in argv:
        tier = argv[argv.index("--tier") + 1]
    seed = int(os.environ.get("VERIF_SEED", "0") or 0)
    t0 = time.time()
    pid = mod.ID
    # guards: a check that runs away (a mutated library may loop or allocate without bound) ends as an
    # infrastructure error (exit 2), never as a verdict
    import resource
    import threading
    limit = int(os.environ.get("VERIF_TIMEOUT", "900" if tier == "quick" else "3300"))
    mem_limit_kb = int(os.environ.get("VERIF_MAXRSS_GB", "12")) * 2**20

    def _watchdog():
        # a daemon thread, not SIGALRM: several property modules use SIGALRM for their own per-call watchdogs
        while True:
            time.sleep(5)
            rss = resource.getrusage(resource.RUSAGE_SELF).ru_maxrss   # own resident set only (Lean children are left alone)
            if rss > mem_limit_kb or time.time() - t0 > limit:
                why = f"resident set above {mem_limit_kb // 2**20} GB" if rss > mem_limit_kb else f"wall clock above {limit} s"
                print(f"TIMEOUT/RESOURCE check {pid}: {why}", flush=True)
                os._exit(2)
    threading.Thread(target=_watchdog, daemon=True).start()
    global CURRENT_ID
    CURRENT_ID = pid
    ctx = Ctx(pid, tier, seed)
    try:
        code = _run(mod, ctx, t0)
    except (subprocess.TimeoutExpired, MemoryError) as e:
        print(f"TIMEOUT/RESOURCE {e!r}", flush=True)
        code = 2
    except Exception:
        traceback.print_exc()
        code = 2
    sys.exit(code)


def _run(mod, ctx, t0):
    pid = ctx.id
    obligations = []   # (name, ok)
    # 1. regenerate tables from /repo
    gen_note = []
    if hasattr(mod, "extract"):
        try:
            changed = mod.extract(ctx) or []
            gen_note = list(changed)
            ctx.say(f"[{pid}] extract: regenerated tables; changed files: {changed}")
        except Exception as e:
            traceback.print_exc()
            ctx.broken.append(f"extract: translator could not read the source: {e!r}")
    # 2. build (templates and driver are re-instantiated first; no-op when unchanged)
    from harness import instantiate
    instantiate.main()
    drv = f"driver_{pid}"
    ok, log = lake_build(list(mod.LEAN_TARGETS) + [drv])
    if not ok:
        ctx.say(f"[{pid}] lake build FAILED")
        print(log[-3000:])
        # which part? try the driver alone so the correspondence can still run
        dok, _ = lake_build([drv])
        for d in failing_decls(log):
            ctx.broken.append("build: " + d)
        if not ctx.broken:
            ctx.broken.append("build: lake build failed")
        if not dok:
            ctx.broken.append("build: driver (executable model) does not compile")
            # never run the correspondence against a stale executable left over from an earlier build
            try:
                os.remove(driver_path(pid))
            except OSError:
                pass
    else:
        ctx.say(f"[{pid}] lake build ok: {mod.LEAN_TARGETS}")
    # 3. audit
    axioms = {}
    if ok:
        aok, axioms, problems = audit(pid, mod.THEOREMS, [t for t in mod.LEAN_TARGETS if t.startswith('BeyondVerif.')])
        for t in mod.THEOREMS:
            obligations.append((t, t in axioms and all(a in ALLOWED_AXIOMS for a in axioms[t])))
        if not aok:
            for p in problems:
                ctx.broken.append("audit: " + p)
        hits = grep_forbidden()
        if hits:
            for h in hits:
                ctx.broken.append("forbidden construct: " + h)
        ctx.say(f"[{pid}] audit: {sum(1 for _, o in obligations if o)}/{len(obligations)} theorems, axioms ⊆ {sorted(ALLOWED_AXIOMS)}; forbidden-construct hits: {len(hits)}")
        if ctx.thorough and getattr(mod, "LEANCHECK", True):
            lok, lout = leanchecker([t for t in mod.LEAN_TARGETS if t.startswith("BeyondVerif.")])
            ctx.say(f"[{pid}] leanchecker: {'ok' if lok else 'FAILED'}")
            if not lok:
                ctx.broken.append("leanchecker: " + lout[-300:])
    else:
        for t in mod.THEOREMS:
            obligations.append((t, False))
    # 4. correspondence
    corr = Outcome()
    if hasattr(mod, "correspondence"):
        if Driver().ok:
            try:
                corr = mod.correspondence(ctx)
                ctx.say(f"[{pid}] correspondence: {corr.cases} cases, {len(corr.keys)} distinct non-trivial, {len(corr.failures)} disagreements")
                for f in corr.failures[:5]:
                    ctx.say(f"    disagreement: {f['what']} input={str(f['input'])[:200]} impl={str(f['observed'])[:200]} model={str(f['expected'])[:200]}")
                if corr.failures:
                    ctx.broken.append(f"correspondence: {corr.failures[0]['family']}: {corr.failures[0]['what']}")
            except Exception as e:
                traceback.print_exc()
                ctx.broken.append(f"correspondence: harness error {e!r}")
        else:
            ctx.broken.append("correspondence: driver not built")
    # 5. oracle sweep (widened when something above is broken)
    widened = bool(ctx.broken)
    orc = Outcome()
    try:
        orc = mod.oracle(ctx, widened)
    except Exception as e:
        traceback.print_exc()
        ctx.say(f"[{pid}] oracle harness error {e!r}")
        return 2
    ctx.say(f"[{pid}] oracle{' (widened)' if widened else ''}: {orc.cases} evaluations, {len(orc.keys)} distinct non-trivial, {len(orc.failures)} failing inputs")
    # 6. verdict
    known = load_known()
    reported = []
    known_hit = {}
    for f in orc.failures:
        k = match_known(pid, f, known)
        if k is not None:
            known_hit.setdefault(k["id"], (k, f))
        else:
            reported.append(f)
    # correspondence disagreements whose implementation side violates the statement are given by the module
    for f in corr.failures:
        if f.get("violates_property"):
            k = match_known(pid, f, known)
            if k is not None:
                known_hit.setdefault(k["id"], (k, f))
            else:
                reported.append(f)
    for kid, (k, f) in known_hit.items():
        print(f"KNOWN-FINDING: property={pid} {k['what']} [{kid}]", flush=True)
    code = 0
    violations = 0
    os.makedirs(os.path.join(VERIF, "replays"), exist_ok=True)
    if reported:
        f = reported[0]
        rp = os.path.join("replays", f"{pid}-{ctx.tier}-{ctx.seed}.json")
        json.dump({"property": pid, "kind": "failing-input", "failure": f, "others": reported[1:10],
                   "broken": ctx.broken, "replay_cmd": f"harness/replay.py {rp}"},
                  open(os.path.join(VERIF, rp), "w"), indent=1, default=str)
        print(f"VIOLATION property={pid} replay={rp}", flush=True)
        ctx.say(f"    failing input: {f['what']} :: {str(f['input'])[:300]}")
        violations = len(reported)
        code = 1
    elif ctx.broken:
        # a known finding explains a broken proof only if the module says so (never by default)
        rp = os.path.join("replays", f"{pid}-{ctx.tier}-{ctx.seed}.json")
        json.dump({"property": pid, "kind": "no-failing-input-found", "no_longer_checks": ctx.broken,
                   "oracle_evaluations": orc.cases}, open(os.path.join(VERIF, rp), "w"), indent=1)
        print(f"VIOLATION property={pid} replay={rp} no-failing-input-found", flush=True)
        for b in ctx.broken[:10]:
            ctx.say("    no longer checks: " + b)
        violations = 1
        code = 1
    # evidence
    n_ob = len(obligations) + (1 if hasattr(mod, "correspondence") else 0)
    n_ok = sum(1 for _, o in obligations if o) + (1 if hasattr(mod, "correspondence") and not corr.failures and not any(b.startswith("correspondence") for b in ctx.broken) else 0)
    ev = {
        "property_id": pid,
        "tier": ctx.tier,
        "seed": ctx.seed,
        "level": "proof",
        "coverage": {
            "obligations": n_ob,
            "discharged": n_ok,
            "checker_cmd": f"cd lean && lake build {' '.join(mod.LEAN_TARGETS)} && lake env lean Audit/{pid}.lean  (#print axioms)" + ("; lake env leanchecker" if ctx.thorough else ""),
            "trusted_base": ["Lean 4.33.0 kernel", "axioms: propext, Classical.choice, Quot.sound (Mathlib real analysis); no native_decide, no bv_decide, no sorry"] + list(getattr(mod, "TRUSTED", [])),
            "theorems": [{"name": t, "checked": o, "axioms": axioms.get(t)} for t, o in obligations],
            "generated_from_source": gen_note,
            "evaluations": corr.cases + orc.cases,
            "distinct_nontrivial": len(corr.keys) + len(orc.keys),
            "rule": getattr(mod, "RULE", ""),
            "samples": (corr.samples + orc.samples)[:8] or ["(none)"],
            "correspondence": {"cases": corr.cases, "distinct_nontrivial": len(corr.keys), "disagreements": len(corr.failures), "distribution": corr.dist},
            "oracle": {"evaluations": orc.cases, "distinct_nontrivial": len(orc.keys), "failing_inputs": len(orc.failures), "distribution": orc.dist, "widened": widened},
            "traces_validated_against_impl": corr.cases,
            "not_covered_by_any_theorem": list(getattr(mod, "NOT_COVERED", [])),
            "open_obligations": list(getattr(mod, "OPEN", [])),
            "known_findings_hit": sorted(known_hit),
            "broken": ctx.broken,
            "notes": corr.notes + orc.notes,
        },
        "assumptions": list(getattr(mod, "ASSUMPTIONS", [])),
        "wall_s": round(time.time() - t0, 2),
        "violations": violations,
    }
    # evidence/ describes /repo itself; a run pointed at a scratch copy (VERIF_REPO, development only) writes elsewhere
    evdir = os.path.join(VERIF, "evidence") if os.path.realpath(REPO) == "/repo" else os.path.join(VERIF, "replays", "scratch-evidence")
    os.makedirs(evdir, exist_ok=True)
    json.dump(ev, open(os.path.join(evdir, f"{pid}.json"), "w"), indent=1, default=str)
    ctx.say(f"[{pid}] {'OK' if code == 0 else 'FAIL'} in {ev['wall_s']} s")
    return code
