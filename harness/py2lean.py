"""A small translator from straight-line numeric Python (as written in galactics/beyond) to Lean 4.

The translated text is neutral in the number type `R`; `instantiate` writes it twice:
  Generated/<Name>F.lean   namespace BeyondVerif.F, `open NumFloat`  (executable, linked into the driver)
  Generated/<Name>R.lean   namespace BeyondVerif.R, `open NumReal`   (noncomputable, what the theorems are about)

Supported: a backward slice of a function body — assignments `name = expr` (also tuple targets with
tuple values), `if/elif/else` blocks that assign the same names in every branch (becoming `if … then …
else …` on tuples), expressions over + - * / ** unary -, comparisons, and/or/not, conditional
expressions, calls of numpy/math scalar functions, np.array / list literals (nested lists), a flat array
literal scaled by scalars (`r * np.array([...]) * AU`, numpy broadcasting), functions defined inside the translated
function by a single `return` (they become auxiliary definitions `<name>_<f>`), constants.  Anything else raises Untranslatable — the check then reports the translator as broken
(which is not by itself a violation, see DESIGN.md).
"""
import ast
import os

LEAN_KEYWORDS = {"λ": "lam", "fun": "fun_", "at": "at_", "from": "from_", "end": "end_", "in": "in_", "then": "then_",
                 "Π": "Pi_", "Σ": "Sigma_", "∑": "Sum_", "open": "open_", "show": "show_", "have": "have_", "by": "by_",
                 "e": "e", "do": "do_", "let": "let_", "if": "if_", "else": "else_", "pi": "pi_v", "sqrt": "sqrt_v", "sin": "sin_v",
                 "cos": "cos_v", "tan": "tan_v", "exp": "exp_v", "log": "log_v", "R": "R_v"}

FUNCS = {
    "cos": "cos", "sin": "sin", "tan": "tan", "sqrt": "sqrt", "arccos": "acos", "arcsin": "asin", "arctan": "atan",
    "arctan2": "atan2", "acos": "acos", "asin": "asin", "atan": "atan", "atan2": "atan2", "cosh": "cosh", "sinh": "sinh",
    "tanh": "tanh", "arcsinh": "asinh", "arctanh": "atanh", "asinh": "asinh", "atanh": "atanh", "exp": "exp", "log": "log",
    "abs": "absR", "fabs": "absR", "floor": "floorR", "radians": "radians", "deg2rad": "radians", "degrees": "degrees", "rad2deg": "degrees",
}


class Untranslatable(Exception):
    pass


def lname(n):
    return LEAN_KEYWORDS.get(n, n)


class Tr:
    def __init__(self, consts=None, funcs=None, int_names=(), target_map=None, matmul=None, mat3=False, local_funcs=None):
        self.consts = consts or {}      # python dotted name (or unparsed subscript, e.g. "self.orbit[5]") -> lean text
        self.target_map = target_map or {}  # unparsed subscript assignment target (e.g. "new[5]") -> python-level name
        self.matmul = matmul            # lean function standing for numpy's `@` (None: `@` is untranslatable)
        self.mat3 = mat3                # 3x3 np.array literals become `M3.mk …`, `@` becomes `M3.mul` (C02)
        self.funcs = dict(FUNCS)
        self.funcs.update(funcs or {})
        self.int_names = set(int_names)  # names that are Nat-typed (exponents etc.)
        self.local_funcs = local_funcs or {}   # functions defined inside the translated function: plain name -> lean def name

    def arr(self, e):
        """element texts of a flat array-valued expression (list / np.array literal, possibly scaled by scalars with * or /), else None"""
        if isinstance(e, (ast.List, ast.Tuple)):
            if any(isinstance(x, (ast.List, ast.Tuple)) for x in e.elts):
                return None
            return [self.expr(x) for x in e.elts]
        if isinstance(e, ast.Call) and self.dotted(e.func) in ("np.array", "numpy.array", "np.asarray") and len(e.args) == 1:
            return self.arr(e.args[0])
        if isinstance(e, ast.BinOp) and isinstance(e.op, (ast.Mult, ast.Div)):
            left, right = self.arr(e.left), self.arr(e.right)
            op = "*" if isinstance(e.op, ast.Mult) else "/"
            if left is not None and right is None:
                b = self.expr(e.right)
                return [f"({x} {op} {b})" for x in left]
            if left is None and right is not None and op == "*":
                a = self.expr(e.left)
                return [f"({a} * {x})" for x in right]
        return None

    def dotted(self, node):
        if isinstance(node, ast.Name):
            return node.id
        if isinstance(node, ast.Attribute):
            b = self.dotted(node.value)
            return None if b is None else b + "." + node.attr
        return None

    def expr(self, e):
        if isinstance(e, ast.Constant):
            v = e.value
            if isinstance(v, bool):
                return "true" if v else "false"
            if isinstance(v, int):
                return f"({v} : R)"
            if isinstance(v, float):
                r = repr(v)
                if "e" in r or "E" in r:
                    m, ex = r.lower().split("e")
                    if "." not in m:
                        m += ".0"
                    r = f"{m}e{int(ex)}"
                if r in ("inf", "nan", "-inf"):
                    raise Untranslatable("non-finite constant")
                return f"({r} : R)"
            raise Untranslatable(f"constant {v!r}")
        if isinstance(e, ast.Name):
            if e.id in self.consts:
                return self.consts[e.id]
            return lname(e.id)
        if isinstance(e, ast.Attribute):
            d = self.dotted(e)
            if d in self.consts:
                return self.consts[d]
            if d in ("np.pi", "math.pi", "numpy.pi"):
                return "pi"
            raise Untranslatable(f"attribute {d}")
        if isinstance(e, ast.Subscript):
            d = ast.unparse(e)
            if d in self.consts:
                return self.consts[d]
            raise Untranslatable(f"subscript {d}")
        if isinstance(e, ast.UnaryOp):
            if isinstance(e.op, ast.USub):
                return f"(-{self.expr(e.operand)})"
            if isinstance(e.op, ast.UAdd):
                return self.expr(e.operand)
            if isinstance(e.op, ast.Not):
                return f"(¬ {self.expr(e.operand)})"
        if isinstance(e, ast.BinOp) and isinstance(e.op, (ast.Mult, ast.Div)) and self._array_elts(e.left) is not None \
                and self._array_elts(e.right) is None:
            # numpy broadcasting of a 1-d array literal with a scalar: elementwise
            b = self.expr(e.right)
            op = "*" if isinstance(e.op, ast.Mult) else "/"
            return "[" + ", ".join(f"({self.expr(x)} {op} {b})" for x in self._array_elts(e.left)) + "]"
        if isinstance(e, ast.BinOp):
            if isinstance(e.op, (ast.Mult, ast.Div)):
                elems = self.arr(e)     # numpy broadcasting of a scalar over a flat array literal
                if elems is not None:
                    return "[" + ", ".join(elems) + "]"
            a = self.expr(e.left)
            if isinstance(e.op, ast.Pow):
                if isinstance(e.right, ast.Constant) and isinstance(e.right.value, int) and e.right.value >= 0:
                    return f"(powi {a} {e.right.value})"
                if isinstance(e.right, ast.UnaryOp) and isinstance(e.right.op, ast.USub) and isinstance(e.right.operand, ast.Constant) and isinstance(e.right.operand.value, int):
                    return f"((1 : R) / powi {a} {e.right.operand.value})"
                return f"(rpow {a} {self.expr(e.right)})"
            b = self.expr(e.right)
            op = {ast.Add: "+", ast.Sub: "-", ast.Mult: "*", ast.Div: "/"}.get(type(e.op))
            if op is None:
                if isinstance(e.op, ast.MatMult) and self.matmul:
                    return f"({self.matmul} {a} {b})"
                if isinstance(e.op, ast.Mod):
                    return f"(fmod {a} {b})"
                if isinstance(e.op, ast.FloorDiv):
                    # integer code (C09 window arithmetic); the caller's namespace supplies `fdiv`
                    return f"(fdiv {a} {b})"
                if isinstance(e.op, ast.MatMult) and self.mat3:
                    return f"(M3.mul {a} {b})"
                raise Untranslatable(f"operator {type(e.op).__name__}")
            return f"({a} {op} {b})"
        if isinstance(e, ast.Call):
            d = self.dotted(e.func)
            if d is None:
                raise Untranslatable("call of non-name")
            short = d.split(".")[-1]
            if d in self.local_funcs:
                return f"({self.local_funcs[d]} {' '.join(self.expr(a) for a in e.args)})"
            if d in self.funcs or short in self.funcs and d.split(".")[0] in ("np", "math", "numpy", short):
                f = self.funcs.get(d, self.funcs.get(short))
                args = " ".join(self.expr(a) for a in e.args)
                if f == "radians":
                    return f"({self.expr(e.args[0])} * pi / (180 : R))"
                if f == "degrees":
                    return f"({self.expr(e.args[0])} * (180 : R) / pi)"
                return f"({f} {args})"
            if d in ("np.array", "numpy.array", "np.asarray"):
                a0 = e.args[0]
                if self.mat3 and isinstance(a0, (ast.List, ast.Tuple)) and len(a0.elts) == 3 and all(
                        isinstance(r, (ast.List, ast.Tuple)) and len(r.elts) == 3 for r in a0.elts):
                    return "(M3.mk " + " ".join(self.expr(x) for r in a0.elts for x in r.elts) + ")"
                return self.expr(a0)
            if d in ("np.isclose", "numpy.isclose") and len(e.args) == 2 and not e.keywords:
                # numpy default tolerances: |a - b| <= atol + rtol * |b|, atol = 1e-8, rtol = 1e-5
                a, b = self.expr(e.args[0]), self.expr(e.args[1])
                return f"(absR ({a} - {b}) ≤ (1.0e-8 : R) + (1.0e-5 : R) * absR {b})"
            raise Untranslatable(f"call {d}")
        if isinstance(e, (ast.List, ast.Tuple)):
            return "[" + ", ".join(self.expr(x) for x in e.elts) + "]"
        if isinstance(e, ast.IfExp):
            return f"(if {self.expr(e.test)} then {self.expr(e.body)} else {self.expr(e.orelse)})"
        if isinstance(e, ast.Compare) and len(e.ops) == 1:
            op = {ast.Lt: "<", ast.LtE: "≤", ast.Gt: ">", ast.GtE: "≥", ast.Eq: "=", ast.NotEq: "≠"}.get(type(e.ops[0]))
            if op is None:
                raise Untranslatable("comparison")
            return f"({self.expr(e.left)} {op} {self.expr(e.comparators[0])})"
        if isinstance(e, ast.Compare) and len(e.ops) > 1:
            # chained comparison  a < b <= c  ==  a < b and b <= c  (operands here are side-effect free)
            terms = [e.left] + list(e.comparators)
            parts = []
            for l, o, r in zip(terms[:-1], e.ops, terms[1:]):
                op = {ast.Lt: "<", ast.LtE: "≤", ast.Gt: ">", ast.GtE: "≥", ast.Eq: "=", ast.NotEq: "≠"}.get(type(o))
                if op is None:
                    raise Untranslatable("comparison")
                parts.append(f"({self.expr(l)} {op} {self.expr(r)})")
            return "(" + " ∧ ".join(parts) + ")"
        if isinstance(e, ast.BoolOp):
            op = " ∧ " if isinstance(e.op, ast.And) else " ∨ "
            return "(" + op.join(self.expr(v) for v in e.values) + ")"
        raise Untranslatable(f"expression {ast.dump(e)[:80]}")

    # -------- statements: backward slice ----------------------------------------------------
    def assigned(self, stmts):
        out = []
        for s in stmts:
            if isinstance(s, ast.Assign):
                for t in s.targets:
                    out += self.target_names(t)
            elif isinstance(s, ast.AugAssign):
                out += self.target_names(s.target)
            elif isinstance(s, ast.If):
                out += self.assigned(s.body) + self.assigned(s.orelse)
        return out

    def target_names(self, t):
        if isinstance(t, ast.Name):
            return [t.id]
        if isinstance(t, ast.Subscript) and ast.unparse(t) in self.target_map:
            return [self.target_map[ast.unparse(t)]]
        if isinstance(t, (ast.Tuple, ast.List)):
            r = []
            for x in t.elts:
                r += self.target_names(x)
            return r
        return []

    def block(self, stmts, result, wanted=None):
        """Translate a statement list into nested `let`s ending in `result` (a Lean expression text).
        Statements that do not assign plain names are skipped when `wanted` is given and they are not needed."""
        lines = []
        for s in stmts:
            if isinstance(s, ast.Assign) and len(s.targets) == 1:
                names = self.target_names(s.targets[0])
                if not names:
                    continue
                if wanted is not None and not (set(names) & wanted):
                    continue
                t = s.targets[0]
                if isinstance(t, ast.Subscript):
                    t = ast.Name(id=names[0])
                if isinstance(t, ast.Name):
                    lines.append(f"let {lname(t.id)} : R := {self.expr(s.value)}" if not isinstance(s.value, (ast.List, ast.Tuple)) and not self._is_array(s.value)
                                 and not self._is_listy(s.value) and self.arr(s.value) is None
                                 else f"let {lname(t.id)} := {self.expr(s.value)}")
                else:
                    if isinstance(s.value, (ast.Tuple, ast.List)) and len(s.value.elts) == len(t.elts):
                        for tt, vv in zip(t.elts, s.value.elts):
                            lines.append(f"let {lname(tt.id)} : R := {self.expr(vv)}")
                    else:
                        raise Untranslatable("tuple assignment from non-tuple")
            elif isinstance(s, ast.AugAssign) and isinstance(s.target, ast.Name):
                if wanted is not None and s.target.id not in wanted:
                    continue
                op = {ast.Add: "+", ast.Sub: "-", ast.Mult: "*", ast.Div: "/"}[type(s.op)]
                n = lname(s.target.id)
                lines.append(f"let {n} : R := ({n} {op} {self.expr(s.value)})")
            elif isinstance(s, ast.If):
                names = sorted(set(self.assigned(s.body) + self.assigned(s.orelse)))
                if wanted is not None:
                    names = [n for n in names if n in wanted]
                if not names:
                    continue
                tup = "(" + ", ".join(lname(n) for n in names) + ")" if len(names) > 1 else lname(names[0])
                a = self.block(s.body, tup, wanted)
                b = self.block(s.orelse, tup, wanted) if s.orelse else tup
                ty = " × ".join(["R"] * len(names))
                lines.append(f"let {tup} : {ty} := (if {self.expr(s.test)} then\n{indent(a)}\nelse\n{indent(b)})")
            elif wanted is None:
                raise Untranslatable(f"statement {type(s).__name__}")
        return "\n".join(lines + [result])

    def _is_array(self, v):
        return isinstance(v, ast.Call) and self.dotted(v.func) in ("np.array", "numpy.array")

    def _array_elts(self, v):
        """elements of a 1-d array literal (list of scalars or np.array of one), else None"""
        if self._is_array(v) and v.args:
            v = v.args[0]
        if isinstance(v, (ast.List, ast.Tuple)) and not any(isinstance(x, (ast.List, ast.Tuple)) for x in v.elts):
            return v.elts
        return None

    def _is_listy(self, v):
        return isinstance(v, ast.BinOp) and isinstance(v.op, (ast.Mult, ast.Div)) and self._array_elts(v.left) is not None \
            and self._array_elts(v.right) is None


def indent(s, n=2):
    return "\n".join(" " * n + l for l in s.split("\n"))


def needed_names(stmts, outputs, inputs=(), tr=None):
    """names needed (transitively) to compute `outputs`, by a backward pass over the statement list"""
    wanted = set(outputs)
    inputs = set(inputs)
    def uses(node):
        return {n.id for n in ast.walk(node) if isinstance(n, ast.Name)}
    changed = True
    tr = tr or Tr()
    while changed:
        changed = False
        def visit(ss):
            nonlocal changed
            for s in ss:
                if isinstance(s, ast.Assign):
                    if (set(n for t in s.targets for n in tr.target_names(t)) - inputs) & wanted:
                        u = uses(s.value)
                        if not u <= wanted:
                            wanted.update(u); changed = True
                elif isinstance(s, ast.AugAssign):
                    if isinstance(s.target, ast.Name) and s.target.id in wanted and s.target.id not in inputs:
                        u = uses(s.value)
                        if not u <= wanted:
                            wanted.update(u); changed = True
                elif isinstance(s, ast.If):
                    if (set(tr.assigned(s.body) + tr.assigned(s.orelse)) - inputs) & wanted:
                        u = uses(s.test)
                        if not u <= wanted:
                            wanted.update(u); changed = True
                    visit(s.body); visit(s.orelse)
        visit(stmts)
    return wanted


def find_function(tree, qualname):
    parts = qualname.split(".")
    body = tree.body
    node = None
    for p in parts:
        node = next((n for n in body if isinstance(n, (ast.FunctionDef, ast.ClassDef)) and n.name == p), None)
        if node is None:
            raise Untranslatable(f"{qualname} not found")
        body = node.body
    return node


def translate_slice(path, qualname, inputs, outputs, lean_name, result_expr=None, consts=None, funcs=None, stop_before=None, target_map=None, mat3=False):
    """def <lean_name> (inputs : R) := let …; result   — result defaults to the tuple/list of outputs"""
    tree = ast.parse(open(path).read())
    fn = find_function(tree, qualname)
    stmts = [s for s in fn.body if not (isinstance(s, ast.Expr) and isinstance(s.value, ast.Constant))]
    if stop_before is not None:
        cut = next((i for i, s in enumerate(stmts) if stop_before(s)), len(stmts))
        stmts = stmts[:cut]
    # functions defined inside the function (single `return <expr>`): translated to auxiliary definitions <lean_name>_<f>
    aux = ""
    local_funcs = {}
    for s in stmts:
        if isinstance(s, ast.FunctionDef):
            fb = [x for x in s.body if not (isinstance(x, ast.Expr) and isinstance(x.value, ast.Constant))]
            if len(fb) == 1 and isinstance(fb[0], ast.Return) and fb[0].value is not None and not s.args.vararg and not s.args.kwonlyargs:
                text = Tr(consts=consts, funcs=funcs).expr(fb[0].value)
                local_funcs[s.name] = f"{lean_name}_{s.name}"
                aux += f"def {lean_name}_{s.name} ({' '.join(lname(a.arg) for a in s.args.args)} : R) : R :=\n  {text}\n\n"
    tr = Tr(consts=consts, funcs=funcs, target_map=target_map, mat3=mat3, local_funcs=local_funcs)
    wanted = needed_names(stmts, outputs, inputs, tr) - set(inputs)
    res = result_expr or ("(" + ", ".join(lname(o) for o in outputs) + ")" if len(outputs) > 1 else lname(outputs[0]))
    body = tr.block(stmts, res, wanted)
    args = " ".join(lname(i) for i in inputs)
    binder = f" ({args} : R)" if inputs else ""
    return aux + f"def {lean_name}{binder} :=\n{indent(body)}\n"


def translate_return(path, qualname, inputs, lean_name, consts=None, funcs=None, select=None):
    """def <lean_name> (inputs : R) : R := <the expression returned by the function / property `qualname`>.
    The function body must be a single `return expr` (docstring allowed) unless `select(fn) -> ast.expr` picks the expression."""
    tree = ast.parse(open(path).read())
    fn = find_function(tree, qualname)
    if select is not None:
        e = select(fn)
    else:
        stmts = [s for s in fn.body if not (isinstance(s, ast.Expr) and isinstance(s.value, ast.Constant))]
        if len(stmts) != 1 or not isinstance(stmts[0], ast.Return) or stmts[0].value is None:
            raise Untranslatable(f"{qualname}: body is not a single return")
        e = stmts[0].value
    tr = Tr(consts=consts, funcs=funcs)
    args = " ".join(lname(i) for i in inputs)
    binder = f" ({args} : R)" if inputs else ""
    return f"def {lean_name}{binder} : R :=\n  {tr.expr(e)}\n"


class VecTr:
    """Straight-line numpy 3-vector code (beyond/frames/local.py style) -> Lean over the `V3` structure of
    lean/templates/Vec3.tpl.  Supported statements: `a, b = _split(x)` (skipped: `a`, `b` become the inputs),
    `name = expr`, `name /= expr`, `name *= expr`, `return np.array([u, v, w])` (rows of a matrix -> `M3.mk u v w`).
    Expressions are typed 'v' (3-vector) or 's' (scalar): names, `norm(v)`, `np.cross(u, v)`, `np.dot(u, v)`, v / s, s * v,
    v * s, v + v, v - v, -v and scalar arithmetic through `Tr`."""

    def __init__(self, vec_names):
        self.vecs = set(vec_names)
        self.tr = Tr()

    def typ(self, e):
        if isinstance(e, ast.Name):
            return "v" if e.id in self.vecs else "s"
        if isinstance(e, ast.Call):
            d = self.tr.dotted(e.func) or ""
            if d.split(".")[-1] == "cross":
                return "v"
            return "s"
        if isinstance(e, ast.BinOp):
            return "v" if "v" in (self.typ(e.left), self.typ(e.right)) else "s"
        if isinstance(e, ast.UnaryOp):
            return self.typ(e.operand)
        return "s"

    def expr(self, e):
        if self.typ(e) == "s":
            if isinstance(e, ast.Call):
                d = self.tr.dotted(e.func) or ""
                short = d.split(".")[-1]
                if short == "norm" and len(e.args) == 1 and self.typ(e.args[0]) == "v":
                    return f"(V3.norm {self.expr(e.args[0])})"
                if short == "dot" and len(e.args) == 2:
                    return f"(V3.dot {self.expr(e.args[0])} {self.expr(e.args[1])})"
            if isinstance(e, ast.BinOp) and not isinstance(e.op, ast.Pow):
                op = {ast.Add: "+", ast.Sub: "-", ast.Mult: "*", ast.Div: "/"}.get(type(e.op))
                if op is None:
                    raise Untranslatable("vector code: scalar operator")
                return f"({self.expr(e.left)} {op} {self.expr(e.right)})"
            return self.tr.expr(e)
        if isinstance(e, ast.Name):
            return lname(e.id)
        if isinstance(e, ast.Call):
            d = self.tr.dotted(e.func) or ""
            if d.split(".")[-1] == "cross" and len(e.args) == 2:
                return f"(V3.cross {self.expr(e.args[0])} {self.expr(e.args[1])})"
        if isinstance(e, ast.UnaryOp) and isinstance(e.op, ast.USub):
            return f"(V3.neg {self.expr(e.operand)})"
        if isinstance(e, ast.BinOp):
            tl, tr_ = self.typ(e.left), self.typ(e.right)
            a, b = self.expr(e.left), self.expr(e.right)
            if isinstance(e.op, ast.Div) and tl == "v" and tr_ == "s":
                return f"(V3.divS {a} {b})"
            if isinstance(e.op, ast.Mult) and tl == "v" and tr_ == "s":
                return f"(V3.smul {b} {a})"
            if isinstance(e.op, ast.Mult) and tl == "s" and tr_ == "v":
                return f"(V3.smul {a} {b})"
            if isinstance(e.op, ast.Add) and tl == tr_ == "v":
                return f"(V3.add {a} {b})"
            if isinstance(e.op, ast.Sub) and tl == tr_ == "v":
                return f"(V3.sub {a} {b})"
        raise Untranslatable(f"vector expression {ast.dump(e)[:80]}")


def translate_vec_function(path, qualname, lean_name, split_call="_split"):
    """def <lean_name> (<a> <b> : V3) : M3 — for a function whose body starts with `a, b = _split(arg)`"""
    tree = ast.parse(open(path).read())
    fn = find_function(tree, qualname)
    stmts = [s for s in fn.body if not (isinstance(s, ast.Expr) and isinstance(s.value, ast.Constant))]
    first = stmts[0]
    if not (isinstance(first, ast.Assign) and isinstance(first.targets[0], ast.Tuple) and isinstance(first.value, ast.Call)
            and Tr().dotted(first.value.func) == split_call and len(first.targets[0].elts) == 2):
        raise Untranslatable(f"{qualname}: body does not start with `a, b = {split_call}(x)`")
    ins = [t.id for t in first.targets[0].elts]
    vt = VecTr(ins)
    lines = []
    result = None
    for s in stmts[1:]:
        if isinstance(s, ast.Assign) and len(s.targets) == 1 and isinstance(s.targets[0], ast.Name):
            n = s.targets[0].id
            ty = vt.typ(s.value)
            txt = vt.expr(s.value)
            if ty == "v":
                vt.vecs.add(n)
            else:
                vt.vecs.discard(n)
            lines.append(f"let {lname(n)} : {'V3' if ty == 'v' else 'R'} := {txt}")
        elif isinstance(s, ast.AugAssign) and isinstance(s.target, ast.Name):
            n = s.target.id
            fake = ast.BinOp(left=ast.Name(id=n, ctx=ast.Load()), op=s.op, right=s.value)
            ty = vt.typ(fake)
            lines.append(f"let {lname(n)} : {'V3' if ty == 'v' else 'R'} := {vt.expr(fake)}")
        elif isinstance(s, ast.Return):
            v = s.value
            if isinstance(v, ast.Call) and Tr().dotted(v.func) in ("np.array", "numpy.array"):
                v = v.args[0]
            if not (isinstance(v, (ast.List, ast.Tuple)) and len(v.elts) == 3 and all(vt.typ(x) == "v" for x in v.elts)):
                raise Untranslatable(f"{qualname}: return value is not a stack of three vectors")
            result = "M3.mk " + " ".join(vt.expr(x) for x in v.elts)
            break
        else:
            raise Untranslatable(f"{qualname}: statement {type(s).__name__}")
    if result is None:
        raise Untranslatable(f"{qualname}: no return")
    args = " ".join(lname(i) for i in ins)
    return f"def {lean_name} ({args} : V3) : M3 :=\n{indent(chr(10).join(lines + [result]))}\n"


def _sig(lean_name, inputs):
    args = " ".join(lname(i) for i in inputs)
    return f"def {lean_name} ({args} : R) :=" if inputs else f"def {lean_name} :="


def translate_function(path, qualname, inputs, lean_name, consts=None, funcs=None, ret_index=None, mat3=False):
    """like translate_slice, the result being the expression of the function's (top-level) `return`
    (element `ret_index` of a returned tuple when given)"""
    tree = ast.parse(open(path).read())
    fn = find_function(tree, qualname)
    stmts = [s for s in fn.body if not (isinstance(s, ast.Expr) and isinstance(s.value, ast.Constant))]
    cut = next((i for i, s in enumerate(stmts) if isinstance(s, ast.Return)), None)
    if cut is None:
        raise Untranslatable(f"{qualname}: no top-level return")
    expr = stmts[cut].value
    if ret_index is not None:
        if not isinstance(expr, ast.Tuple):
            raise Untranslatable(f"{qualname}: return value is not a tuple")
        expr = expr.elts[ret_index]
    stmts = stmts[:cut]
    tr = Tr(consts=consts, funcs=funcs, mat3=mat3)
    used = {n.id for n in ast.walk(expr) if isinstance(n, ast.Name)}
    wanted = needed_names(stmts, used, inputs) - set(inputs)
    body = tr.block(stmts, tr.expr(expr), wanted)
    return f"{_sig(lean_name, inputs)}\n{indent(body)}\n"


def translate_attr_assign(path, qualname, attr, inputs, lean_name, consts=None, funcs=None, mat3=False):
    """the value assigned to `self.<attr>` in the function, as a Lean function of `inputs`"""
    tree = ast.parse(open(path).read())
    fn = find_function(tree, qualname)
    for s in ast.walk(fn):
        if isinstance(s, ast.Assign) and len(s.targets) == 1 and isinstance(s.targets[0], ast.Attribute) and s.targets[0].attr == attr:
            tr = Tr(consts=consts, funcs=funcs, mat3=mat3)
            return f"{_sig(lean_name, inputs)}\n{indent(tr.expr(s.value))}\n"
    raise Untranslatable(f"{qualname}: no assignment to .{attr}")


HEADER_F = """/- GENERATED by harness/py2lean.py from {src} — do not edit. Float instantiation (driver). -/
import BeyondVerif.NumFloat
namespace BeyondVerif.F
open BeyondVerif.NumFloat
set_option linter.unusedVariables false

"""
HEADER_R = """/- GENERATED by harness/py2lean.py from {src} — do not edit. Real instantiation (theorems). -/
import BeyondVerif.NumReal
noncomputable section
namespace BeyondVerif.R
open BeyondVerif.NumReal
open Classical
set_option linter.unusedVariables false

"""


def instantiate(lean_root, name, body, src, subdir="Generated", extra_imports=(), imports=()):
    """write <subdir>/<name>F.lean and <subdir>/<name>R.lean; returns list of changed files.
    `extra_imports`: modules of the same subdir; `imports`: dotted names below BeyondVerif (each gets the F / R suffix)"""
    from harness.core import write_if_changed
    changed = []
    # an import name containing a dot (e.g. "Model.Vec3") is taken relative to BeyondVerif, otherwise to <subdir>
    full = [m if "." in m else f"{subdir}.{m}" for m in extra_imports] + list(imports)
    impF = "".join(f"import BeyondVerif.{m}F\n" for m in full)
    impR = "".join(f"import BeyondVerif.{m}R\n" for m in full)
    f = HEADER_F.format(src=src).replace("import BeyondVerif.NumFloat\n", "import BeyondVerif.NumFloat\n" + impF) + body + "\nend BeyondVerif.F\n"
    r = HEADER_R.format(src=src).replace("import BeyondVerif.NumReal\n", "import BeyondVerif.NumReal\n" + impR) + body + "\nend BeyondVerif.R\n"
    if write_if_changed(os.path.join(lean_root, "BeyondVerif", subdir, name + "F.lean"), f):
        changed.append(f"{subdir}/{name}F.lean")
    if write_if_changed(os.path.join(lean_root, "BeyondVerif", subdir, name + "R.lean"), r):
        changed.append(f"{subdir}/{name}R.lean")
    return changed


# ======================================================================================
# Whole-function translation (added for C01; the functions above are unchanged).
#
# Additional Python accepted here: a parameter that is a fixed-length vector (`coord`, bound to
# scalar Lean arguments), tuple-unpacking of a vector, slices `coord[:3]` / constant subscripts `h[2]`,
# `np.cross`, `np.dot`, `np.linalg.norm` on 3-vectors, chained comparisons, `np.sign`, `if/else`
# blocks with branch-local names (only names assigned in both branches or defined before the `if`
# leave it), a final `return np.array([...])` / `return expr`.
# ======================================================================================

class TrFn(Tr):
    def __init__(self, consts=None, funcs=None):
        super().__init__(consts=consts, funcs=funcs)
        self.vecs = {}        # python name -> list of Lean component texts
        self.defined = set()  # python scalar names bound so far

    # ---- vectors
    def vec_of(self, node):
        if isinstance(node, ast.Name) and node.id in self.vecs:
            return list(self.vecs[node.id])
        if isinstance(node, ast.Subscript) and isinstance(node.slice, ast.Slice):
            base = self.vec_of(node.value)
            if base is None:
                return None
            def cv(x):
                if x is None:
                    return None
                if isinstance(x, ast.Constant) and isinstance(x.value, int):
                    return x.value
                raise Untranslatable("non-constant slice")
            if node.slice.step is not None:
                raise Untranslatable("slice step")
            return base[cv(node.slice.lower):cv(node.slice.upper)]
        if isinstance(node, ast.Call):
            d = self.dotted(node.func)
            if d in ("np.cross", "numpy.cross"):
                a, b = self.vec_of(node.args[0]), self.vec_of(node.args[1])
                if a is None or b is None or len(a) != 3 or len(b) != 3:
                    raise Untranslatable("cross of non-3-vectors")
                return [f"(({a[1]} * {b[2]}) - ({a[2]} * {b[1]}))", f"(({a[2]} * {b[0]}) - ({a[0]} * {b[2]}))", f"(({a[0]} * {b[1]}) - ({a[1]} * {b[0]}))"]
            if d in ("np.array", "numpy.array", "np.asarray") and isinstance(node.args[0], (ast.List, ast.Tuple)):
                return [self.expr(x) for x in node.args[0].elts]
        if isinstance(node, (ast.List, ast.Tuple)):
            return [self.expr(x) for x in node.elts]
        return None

    def expr(self, e):
        if isinstance(e, ast.Subscript):
            base = self.vec_of(e.value)
            if base is not None and isinstance(e.slice, ast.Constant) and isinstance(e.slice.value, int):
                return base[e.slice.value]
            raise Untranslatable("subscript")
        if isinstance(e, ast.Call):
            d = self.dotted(e.func)
            if d in ("np.linalg.norm", "numpy.linalg.norm"):
                v = self.vec_of(e.args[0])
                if v is None or len(e.args) != 1 or e.keywords:
                    raise Untranslatable("norm")
                return "(sqrt (" + " + ".join(f"(powi {c} 2)" for c in v) + "))"
            if d in ("np.dot", "numpy.dot"):
                a, b = self.vec_of(e.args[0]), self.vec_of(e.args[1])
                if a is None or b is None or len(a) != len(b):
                    raise Untranslatable("dot")
                return "(" + " + ".join(f"({x} * {y})" for x, y in zip(a, b)) + ")"
            if d in ("np.sign", "numpy.sign", "sign"):
                x = self.expr(e.args[0])
                return f"(if {x} > (0 : R) then (1 : R) else if {x} < (0 : R) then (-(1 : R)) else (0 : R))"
        if isinstance(e, ast.Compare) and len(e.ops) > 1:
            parts = []
            left = e.left
            for op, right in zip(e.ops, e.comparators):
                parts.append(self.expr(ast.Compare(left=left, ops=[op], comparators=[right])))
                left = right
            return "(" + " ∧ ".join(parts) + ")"
        if isinstance(e, ast.Name) and e.id in self.vecs:
            raise Untranslatable(f"vector {e.id} used as a scalar")
        return super().expr(e)

    # ---- statements
    def let_scalar(self, name, text):
        self.defined.add(name)
        self.vecs.pop(name, None)
        return f"let {lname(name)} : R := {text}"

    def stmts(self, body, result_of_return=True):
        """nested lets for a statement list ending in `return`; returns the Lean text"""
        lines = []
        for idx, s in enumerate(body):
            if isinstance(s, ast.Expr) and isinstance(s.value, ast.Constant):
                continue
            if isinstance(s, ast.Return):
                v = self.vec_of(s.value)
                lines.append("[" + ", ".join(v) + "]" if v is not None else self.expr(s.value))
                return "\n".join(lines)
            if isinstance(s, ast.Assign) and len(s.targets) == 1:
                t = s.targets[0]
                if isinstance(t, ast.Name):
                    v = self.vec_of(s.value)
                    if v is not None:
                        comps = []
                        for k, c in enumerate(v):
                            cn = f"{lname(t.id)}_{k}"
                            lines.append(f"let {cn} : R := {c}")
                            comps.append(cn)
                        self.vecs[t.id] = comps
                        self.defined.discard(t.id)
                    else:
                        lines.append(self.let_scalar(t.id, self.expr(s.value)))
                    continue
                if isinstance(t, (ast.Tuple, ast.List)):
                    names = [x.id for x in t.elts if isinstance(x, ast.Name)]
                    if len(names) != len(t.elts):
                        raise Untranslatable("nested tuple target")
                    if isinstance(s.value, (ast.Tuple, ast.List)) and len(s.value.elts) == len(names):
                        new = []
                        for n, vv in zip(names, s.value.elts):
                            v = self.vec_of(vv)
                            new.append((n, v, None if v is not None else self.expr(vv)))
                        for n, v, tx in new:
                            if v is not None:
                                self.vecs[n] = v
                                self.defined.discard(n)
                            else:
                                lines.append(self.let_scalar(n, tx))
                        continue
                    v = self.vec_of(s.value)
                    if v is not None and len(v) == len(names):
                        for n, c in zip(names, v):
                            lines.append(self.let_scalar(n, c))
                        continue
                    raise Untranslatable("tuple assignment")
            if isinstance(s, ast.If):
                before = set(self.defined)
                ba, bo = set(self.assigned(s.body)), set(self.assigned(s.orelse))
                names = sorted((ba & bo) | ((ba | bo) & before))
                if not names:
                    raise Untranslatable("if without common assignments")
                tup = "(" + ", ".join(lname(n) for n in names) + ")" if len(names) > 1 else lname(names[0])
                test = self.expr(s.test)
                sv, sd = dict(self.vecs), set(self.defined)
                a = self._branch(s.body, tup)
                self.vecs, self.defined = dict(sv), set(sd)
                b = self._branch(s.orelse, tup) if s.orelse else tup
                self.vecs, self.defined = sv, sd | set(names)
                ty = " × ".join(["R"] * len(names))
                if len(names) == 1:
                    lines.append(f"let {tup} : {ty} := (if {test} then\n{indent(a)}\nelse\n{indent(b)})")
                else:
                    # projections instead of a pattern-let, so that `if_pos`/`if_neg` rewrite under the binder
                    self.ite_count = getattr(self, "ite_count", 0) + 1
                    tn = f"ite_{self.ite_count}"
                    lines.append(f"let {tn} : {ty} := (if {test} then\n{indent(a)}\nelse\n{indent(b)})")
                    for k, n in enumerate(names):
                        proj = ".2" * k + (".1" if k < len(names) - 1 else "")
                        lines.append(f"let {lname(n)} : R := {tn}{proj}")
                continue
            raise Untranslatable(f"statement {type(s).__name__} at line {getattr(s, 'lineno', '?')}")
        raise Untranslatable("function does not end in return")

    def _branch(self, body, tup):
        marker = ast.Return(value=ast.Name(id="__tuple__", ctx=ast.Load()))
        saved = self.consts
        self.consts = dict(saved)
        self.consts["__tuple__"] = tup
        try:
            return self.stmts(list(body) + [marker])
        finally:
            self.consts = saved


def translate_fn(path, qualname, lean_name, vec_params=None, scalar_params=None, drop_params=("cls", "self"), consts=None,
                       funcs=None, extra_args=(), ret_type=None, tree=None):
    """`def <lean_name> (<extra_args> <params> : R) := …` for the whole body of a straight-line function.
    vec_params: {python parameter: [lean scalar argument names]}"""
    tree = tree or ast.parse(open(path).read())
    fn = find_function(tree, qualname)
    tr = TrFn(consts=consts, funcs=funcs)
    args = list(extra_args)
    for a in fn.args.args:
        if a.arg in drop_params or a.arg in (consts or {}):
            continue
        if vec_params and a.arg in vec_params:
            tr.vecs[a.arg] = list(vec_params[a.arg])
            args += list(vec_params[a.arg])
        elif scalar_params is None or a.arg in scalar_params:
            tr.defined.add(a.arg)
            args.append(lname(a.arg))
    body = tr.stmts(fn.body)
    rt = f" : {ret_type}" if ret_type else ""
    return f"def {lean_name} ({' '.join(args)} : R){rt} :=\n{indent(body)}\n"


def translate_expr(node, consts=None, funcs=None):
    return TrFn(consts=consts, funcs=funcs).expr(node)
