"""A small translator from straight-line numeric Python (as written in galactics/beyond) to Lean 4.

The translated text is neutral in the number type `R`; `instantiate` writes it twice:
  Generated/<Name>F.lean   namespace BeyondVerif.F, `open NumFloat`  (executable, linked into the driver)
  Generated/<Name>R.lean   namespace BeyondVerif.R, `open NumReal`   (noncomputable, what the theorems are about)

Supported: a backward slice of a function body — assignments `name = expr` (also tuple targets with
tuple values), `if/elif/else` blocks that assign the same names in every branch (becoming `if … then …
else …` on tuples), expressions over + - * / ** unary -, comparisons, and/or/not, conditional
expressions, calls of numpy/math scalar functions, np.array / list literals (nested lists), a flat array
literal scaled by scalars (`r * np.array([...]) * AU`, numpy broadcasting), functions defined inside the translated
function by a single `return` (they become auxiliary definitions `<name>_<f>`), constants.  Anything else raises Untranslatable — the check then reports the translator as broken
(which is not by itself a violation, see DESIGN.md).
"""
import ast
import os

LEAN_KEYWORDS = {"λ": "lam", "fun": "fun_", "at": "at_", "from": "from_", "end": "end_", "in": "in_", "then": "then_",
                 "Π": "Pi_", "Σ": "Sigma_", "∑": "Sum_", "open": "open_", "show": "show_", "have": "have_", "by": "by_",
                 "e": "e", "do": "do_", "let": "let_", "if": "if_", "else": "else_", "pi": "pi_v", "sqrt": "sqrt_v", "sin": "sin_v",
                 "cos": "cos_v", "tan": "tan_v", "exp": "exp_v", "log": "log_v", "R": "R_v"}

FUNCS = {
    "cos": "cos", "sin": "sin", "tan": "tan", "sqrt": "sqrt", "arccos": "acos", "arcsin": "asin", "arctan": "atan",
    "arctan2": "atan2", "acos": "acos", "asin": "asin", "atan": "atan", "atan2": "atan2", "cosh": "cosh", "sinh": "sinh",
    "tanh": "tanh", "arcsinh": "asinh", "arctanh": "atanh", "asinh": "asinh", "atanh": "atanh", "exp": "exp", "log": "log",
    "abs": "absR", "fabs": "absR", "floor": "floorR", "radians": "radians", "deg2rad": "radians", "degrees": "degrees", "rad2deg": "degrees",
}


class Untranslatable(Exception):
    pass


def lname(n):
    return LEAN_KEYWORDS.get(n, n)


class Tr:
    def __init__(self, consts=None, funcs=None, int_names=(), local_funcs=None):
        self.consts = consts or {}      # python dotted name -> lean text
        self.funcs = dict(FUNCS)
        self.funcs.update(funcs or {})
        self.int_names = set(int_names)  # names that are Nat-typed (exponents etc.)
        self.local_funcs = local_funcs or {}   # functions defined inside the translated function: plain name -> lean def name

    def arr(self, e):
        """element texts of a flat array-valued expression (list / np.array literal, possibly scaled by scalars with * or /), else None"""
        if isinstance(e, (ast.List, ast.Tuple)):
            if any(isinstance(x, (ast.List, ast.Tuple)) for x in e.elts):
                return None
            return [self.expr(x) for x in e.elts]
        if isinstance(e, ast.Call) and self.dotted(e.func) in ("np.array", "numpy.array", "np.asarray") and len(e.args) == 1:
            return self.arr(e.args[0])
        if isinstance(e, ast.BinOp) and isinstance(e.op, (ast.Mult, ast.Div)):
            left, right = self.arr(e.left), self.arr(e.right)
            op = "*" if isinstance(e.op, ast.Mult) else "/"
            if left is not None and right is None:
                b = self.expr(e.right)
                return [f"({x} {op} {b})" for x in left]
            if left is None and right is not None and op == "*":
                a = self.expr(e.left)
                return [f"({a} * {x})" for x in right]
        return None

    def dotted(self, node):
        if isinstance(node, ast.Name):
            return node.id
        if isinstance(node, ast.Attribute):
            b = self.dotted(node.value)
            return None if b is None else b + "." + node.attr
        return None

    def expr(self, e):
        if isinstance(e, ast.Constant):
            v = e.value
            if isinstance(v, bool):
                return "true" if v else "false"
            if isinstance(v, int):
                return f"({v} : R)"
            if isinstance(v, float):
                r = repr(v)
                if "e" in r or "E" in r:
                    m, ex = r.lower().split("e")
                    if "." not in m:
                        m += ".0"
                    r = f"{m}e{int(ex)}"
                if r in ("inf", "nan", "-inf"):
                    raise Untranslatable("non-finite constant")
                return f"({r} : R)"
            raise Untranslatable(f"constant {v!r}")
        if isinstance(e, ast.Name):
            if e.id in self.consts:
                return self.consts[e.id]
            return lname(e.id)
        if isinstance(e, ast.Attribute):
            d = self.dotted(e)
            if d in self.consts:
                return self.consts[d]
            if d in ("np.pi", "math.pi", "numpy.pi"):
                return "pi"
            raise Untranslatable(f"attribute {d}")
        if isinstance(e, ast.UnaryOp):
            if isinstance(e.op, ast.USub):
                return f"(-{self.expr(e.operand)})"
            if isinstance(e.op, ast.UAdd):
                return self.expr(e.operand)
            if isinstance(e.op, ast.Not):
                return f"(¬ {self.expr(e.operand)})"
        if isinstance(e, ast.BinOp):
            if isinstance(e.op, (ast.Mult, ast.Div)):
                elems = self.arr(e)     # numpy broadcasting of a scalar over a flat array literal
                if elems is not None:
                    return "[" + ", ".join(elems) + "]"
            a = self.expr(e.left)
            if isinstance(e.op, ast.Pow):
                if isinstance(e.right, ast.Constant) and isinstance(e.right.value, int) and e.right.value >= 0:
                    return f"(powi {a} {e.right.value})"
                if isinstance(e.right, ast.UnaryOp) and isinstance(e.right.op, ast.USub) and isinstance(e.right.operand, ast.Constant) and isinstance(e.right.operand.value, int):
                    return f"((1 : R) / powi {a} {e.right.operand.value})"
                return f"(rpow {a} {self.expr(e.right)})"
            b = self.expr(e.right)
            op = {ast.Add: "+", ast.Sub: "-", ast.Mult: "*", ast.Div: "/"}.get(type(e.op))
            if op is None:
                if isinstance(e.op, ast.Mod):
                    return f"(fmod {a} {b})"
                raise Untranslatable(f"operator {type(e.op).__name__}")
            return f"({a} {op} {b})"
        if isinstance(e, ast.Call):
            d = self.dotted(e.func)
            if d is None:
                raise Untranslatable("call of non-name")
            short = d.split(".")[-1]
            if d in self.local_funcs:
                return f"({self.local_funcs[d]} {' '.join(self.expr(a) for a in e.args)})"
            if d in self.funcs or short in self.funcs and d.split(".")[0] in ("np", "math", "numpy", short):
                f = self.funcs.get(d, self.funcs.get(short))
                args = " ".join(self.expr(a) for a in e.args)
                if f == "radians":
                    return f"({self.expr(e.args[0])} * pi / (180 : R))"
                if f == "degrees":
                    return f"({self.expr(e.args[0])} * (180 : R) / pi)"
                return f"({f} {args})"
            if d in ("np.array", "numpy.array", "np.asarray"):
                return self.expr(e.args[0])
            raise Untranslatable(f"call {d}")
        if isinstance(e, (ast.List, ast.Tuple)):
            return "[" + ", ".join(self.expr(x) for x in e.elts) + "]"
        if isinstance(e, ast.IfExp):
            return f"(if {self.expr(e.test)} then {self.expr(e.body)} else {self.expr(e.orelse)})"
        if isinstance(e, ast.Compare) and len(e.ops) == 1:
            op = {ast.Lt: "<", ast.LtE: "≤", ast.Gt: ">", ast.GtE: "≥", ast.Eq: "=", ast.NotEq: "≠"}.get(type(e.ops[0]))
            if op is None:
                raise Untranslatable("comparison")
            return f"({self.expr(e.left)} {op} {self.expr(e.comparators[0])})"
        if isinstance(e, ast.BoolOp):
            op = " ∧ " if isinstance(e.op, ast.And) else " ∨ "
            return "(" + op.join(self.expr(v) for v in e.values) + ")"
        raise Untranslatable(f"expression {ast.dump(e)[:80]}")

    # -------- statements: backward slice ----------------------------------------------------
    def assigned(self, stmts):
        out = []
        for s in stmts:
            if isinstance(s, ast.Assign):
                for t in s.targets:
                    out += self.target_names(t)
            elif isinstance(s, ast.AugAssign):
                out += self.target_names(s.target)
            elif isinstance(s, ast.If):
                out += self.assigned(s.body) + self.assigned(s.orelse)
        return out

    def target_names(self, t):
        if isinstance(t, ast.Name):
            return [t.id]
        if isinstance(t, (ast.Tuple, ast.List)):
            r = []
            for x in t.elts:
                r += self.target_names(x)
            return r
        return []

    def block(self, stmts, result, wanted=None):
        """Translate a statement list into nested `let`s ending in `result` (a Lean expression text).
        Statements that do not assign plain names are skipped when `wanted` is given and they are not needed."""
        lines = []
        for s in stmts:
            if isinstance(s, ast.Assign) and len(s.targets) == 1:
                names = self.target_names(s.targets[0])
                if not names:
                    continue
                if wanted is not None and not (set(names) & wanted):
                    continue
                t = s.targets[0]
                if isinstance(t, ast.Name):
                    lines.append(f"let {lname(t.id)} : R := {self.expr(s.value)}" if not isinstance(s.value, (ast.List, ast.Tuple)) and not self._is_array(s.value) and self.arr(s.value) is None
                                 else f"let {lname(t.id)} := {self.expr(s.value)}")
                else:
                    if isinstance(s.value, (ast.Tuple, ast.List)) and len(s.value.elts) == len(t.elts):
                        for tt, vv in zip(t.elts, s.value.elts):
                            lines.append(f"let {lname(tt.id)} : R := {self.expr(vv)}")
                    else:
                        raise Untranslatable("tuple assignment from non-tuple")
            elif isinstance(s, ast.AugAssign) and isinstance(s.target, ast.Name):
                if wanted is not None and s.target.id not in wanted:
                    continue
                op = {ast.Add: "+", ast.Sub: "-", ast.Mult: "*", ast.Div: "/"}[type(s.op)]
                n = lname(s.target.id)
                lines.append(f"let {n} : R := ({n} {op} {self.expr(s.value)})")
            elif isinstance(s, ast.If):
                names = sorted(set(self.assigned(s.body) + self.assigned(s.orelse)))
                if wanted is not None:
                    names = [n for n in names if n in wanted]
                if not names:
                    continue
                tup = "(" + ", ".join(lname(n) for n in names) + ")" if len(names) > 1 else lname(names[0])
                a = self.block(s.body, tup, wanted)
                b = self.block(s.orelse, tup, wanted) if s.orelse else tup
                ty = " × ".join(["R"] * len(names))
                lines.append(f"let {tup} : {ty} := (if {self.expr(s.test)} then\n{indent(a)}\nelse\n{indent(b)})")
            elif wanted is None:
                raise Untranslatable(f"statement {type(s).__name__}")
        return "\n".join(lines + [result])

    def _is_array(self, v):
        return isinstance(v, ast.Call) and self.dotted(v.func) in ("np.array", "numpy.array")


def indent(s, n=2):
    return "\n".join(" " * n + l for l in s.split("\n"))


def needed_names(stmts, outputs, inputs=()):
    """names needed (transitively) to compute `outputs`, by a backward pass over the statement list"""
    wanted = set(outputs)
    inputs = set(inputs)
    def uses(node):
        return {n.id for n in ast.walk(node) if isinstance(n, ast.Name)}
    changed = True
    tr = Tr()
    while changed:
        changed = False
        def visit(ss):
            nonlocal changed
            for s in ss:
                if isinstance(s, ast.Assign):
                    if (set(n for t in s.targets for n in tr.target_names(t)) - inputs) & wanted:
                        u = uses(s.value)
                        if not u <= wanted:
                            wanted.update(u); changed = True
                elif isinstance(s, ast.AugAssign):
                    if isinstance(s.target, ast.Name) and s.target.id in wanted and s.target.id not in inputs:
                        u = uses(s.value)
                        if not u <= wanted:
                            wanted.update(u); changed = True
                elif isinstance(s, ast.If):
                    if (set(tr.assigned(s.body) + tr.assigned(s.orelse)) - inputs) & wanted:
                        u = uses(s.test)
                        if not u <= wanted:
                            wanted.update(u); changed = True
                    visit(s.body); visit(s.orelse)
        visit(stmts)
    return wanted


def find_function(tree, qualname):
    parts = qualname.split(".")
    body = tree.body
    node = None
    for p in parts:
        node = next((n for n in body if isinstance(n, (ast.FunctionDef, ast.ClassDef)) and n.name == p), None)
        if node is None:
            raise Untranslatable(f"{qualname} not found")
        body = node.body
    return node


def translate_slice(path, qualname, inputs, outputs, lean_name, result_expr=None, consts=None, funcs=None, stop_before=None):
    """def <lean_name> (inputs : R) := let …; result   — result defaults to the tuple/list of outputs"""
    tree = ast.parse(open(path).read())
    fn = find_function(tree, qualname)
    stmts = [s for s in fn.body if not (isinstance(s, ast.Expr) and isinstance(s.value, ast.Constant))]
    if stop_before is not None:
        cut = next((i for i, s in enumerate(stmts) if stop_before(s)), len(stmts))
        stmts = stmts[:cut]
    # functions defined inside the function (single `return <expr>`): translated to auxiliary definitions <lean_name>_<f>
    aux = ""
    local_funcs = {}
    for s in stmts:
        if isinstance(s, ast.FunctionDef):
            fb = [x for x in s.body if not (isinstance(x, ast.Expr) and isinstance(x.value, ast.Constant))]
            if len(fb) == 1 and isinstance(fb[0], ast.Return) and fb[0].value is not None and not s.args.vararg and not s.args.kwonlyargs:
                text = Tr(consts=consts, funcs=funcs).expr(fb[0].value)
                local_funcs[s.name] = f"{lean_name}_{s.name}"
                aux += f"def {lean_name}_{s.name} ({' '.join(lname(a.arg) for a in s.args.args)} : R) : R :=\n  {text}\n\n"
    tr = Tr(consts=consts, funcs=funcs, local_funcs=local_funcs)
    wanted = needed_names(stmts, outputs, inputs) - set(inputs)
    res = result_expr or ("(" + ", ".join(lname(o) for o in outputs) + ")" if len(outputs) > 1 else lname(outputs[0]))
    body = tr.block(stmts, res, wanted)
    args = " ".join(lname(i) for i in inputs)
    return aux + f"def {lean_name} ({args} : R) :=\n{indent(body)}\n"


HEADER_F = """/- GENERATED by harness/py2lean.py from {src} — do not edit. Float instantiation (driver). -/
import BeyondVerif.NumFloat
namespace BeyondVerif.F
open BeyondVerif.NumFloat
set_option linter.unusedVariables false

"""
HEADER_R = """/- GENERATED by harness/py2lean.py from {src} — do not edit. Real instantiation (theorems). -/
import BeyondVerif.NumReal
noncomputable section
namespace BeyondVerif.R
open BeyondVerif.NumReal
open Classical
set_option linter.unusedVariables false

"""


def instantiate(lean_root, name, body, src, subdir="Generated", extra_imports=()):
    """write <subdir>/<name>F.lean and <subdir>/<name>R.lean; returns list of changed files"""
    from harness.core import write_if_changed
    changed = []
    impF = "".join(f"import BeyondVerif.{subdir}.{m}F\n" for m in extra_imports)
    impR = "".join(f"import BeyondVerif.{subdir}.{m}R\n" for m in extra_imports)
    f = HEADER_F.format(src=src).replace("import BeyondVerif.NumFloat\n", "import BeyondVerif.NumFloat\n" + impF) + body + "\nend BeyondVerif.F\n"
    r = HEADER_R.format(src=src).replace("import BeyondVerif.NumReal\n", "import BeyondVerif.NumReal\n" + impR) + body + "\nend BeyondVerif.R\n"
    if write_if_changed(os.path.join(lean_root, "BeyondVerif", subdir, name + "F.lean"), f):
        changed.append(f"{subdir}/{name}F.lean")
    if write_if_changed(os.path.join(lean_root, "BeyondVerif", subdir, name + "R.lean"), r):
        changed.append(f"{subdir}/{name}R.lean")
    return changed
