#!/usr/bin/env python3
"""SEEDED.md: table of the seeded changes and which checks catch them (from seeded/*/meta.json)."""
import json, os
V = os.path.dirname(os.path.dirname(os.path.abspath(__file__)))
rows = ["# Seeded changes: which checks catch which", "",
        "Each change was written by an independent sub-agent that saw only the property text and a scratch worktree of /repo; it was confirmed by "
        "`harness/confirm_mutant.py` (patch applies; full test-suite unchanged at 306 passed / the same 11 baseline failures; demo passes without and fails with it) "
        "and replayed by `harness/run_seeded.py`. `first run` = verdict of the checks as they were when the change arrived; `now` = after strengthening.", "",
        "| change | property | what it does | needs to manifest | first run | now | caught by |", "|---|---|---|---|---|---|---|"]
for n in sorted(os.listdir(os.path.join(V, "seeded"))):
    p = os.path.join(V, "seeded", n, "meta.json")
    if not os.path.exists(p):
        continue
    m = json.load(open(p))
    c = lambda s: str(s or "").replace("|", "/").replace("\n", " ")[:400]
    rows.append(f"| {n} | {m.get('property')} | {c(m.get('summary'))} | {c(m.get('needs_to_manifest'))} | {c(m.get('first_run', 'not yet run'))} | {c(m.get('now', '-'))} | {c(m.get('caught_by', '-'))} |")
open(os.path.join(V, "SEEDED.md"), "w").write("\n".join(rows) + "\n")
print(len(rows) - 8, "rows")
