#!/usr/bin/env python3
"""Development tool: apply every seeded change (/verif/seeded/<name>/patch.diff) to /repo in turn, run the
check of the property it breaks (quick tier), expect a VIOLATION, undo the change.  Also, with
--reverts, temporarily revert each `fix:` commit recorded in known_findings.json and expect the check
of its property to report the violation again.

    harness/run_seeded.py [names…] [--tier quick|thorough] [--reverts]

/repo is always restored (git checkout -- .) even on failure."""
import json
import os
import subprocess
import sys
import time

VERIF = os.path.dirname(os.path.dirname(os.path.abspath(__file__)))
REPO = "/repo"
SCRATCH = os.environ.get("SEED_SCRATCH", "/tmp/seedrepo")   # scratch worktree of /repo the changes are applied to (VERIF_REPO points the checks at it)


def sh(*a, **k):
    return subprocess.run(list(a), capture_output=True, text=True, **k)


def run_check(pid, tier, repo=None):
    t = time.time()
    env = dict(os.environ)
    if repo:
        env["VERIF_REPO"] = repo
        env["PYTHONPATH"] = repo
    p = subprocess.run(["/venv/bin/python", os.path.join(VERIF, "harness", "check.py"), pid, "--tier", tier], cwd=VERIF, timeout=3600,
                       capture_output=True, text=True, env=env)
    out = p.stdout + p.stderr
    viol = [l for l in out.split("\n") if l.startswith("VIOLATION")]
    return p.returncode, viol, round(time.time() - t, 1), out


def clean():
    """(re)create the scratch worktree at /repo's HEAD. With --in-repo the change is applied to /repo itself instead."""
    global TARGET
    if "--in-repo" in sys.argv:
        TARGET = REPO
        assert sh("git", "-C", REPO, "status", "--porcelain", "--untracked-files=no").stdout.strip() == "", "/repo is dirty"
        return
    TARGET = SCRATCH
    if not os.path.isdir(SCRATCH):
        r = sh("git", "-C", REPO, "worktree", "add", "--detach", SCRATCH, "HEAD")
        assert r.returncode == 0, r.stderr
    sh("git", "-C", SCRATCH, "checkout", "--", ".")
    r = sh("git", "-C", SCRATCH, "checkout", "-q", "--detach", sh("git", "-C", REPO, "rev-parse", "HEAD").stdout.strip())
    assert r.returncode == 0, r.stderr


def restore(pids, tier):
    """the checks regenerate lean/BeyondVerif/Generated from the tree they are pointed at: regenerate from /repo afterwards"""
    if TARGET != REPO:
        for pid in pids:
            run_check(pid, "quick")


TARGET = REPO


def main():
    args = [a for a in sys.argv[1:] if not a.startswith("--")]
    tier = "quick"
    if "--tier" in sys.argv:
        tier = sys.argv[sys.argv.index("--tier") + 1]
        args = [a for a in args if a != tier]
    results = []
    touched = set()
    clean()
    sdir = os.path.join(VERIF, "seeded")
    names = sorted(os.listdir(sdir)) if os.path.isdir(sdir) else []
    if "--reverts" not in sys.argv:
        for name in names:
            if args and name not in args:
                continue
            meta = json.load(open(os.path.join(sdir, name, "meta.json")))
            pids = meta.get("checked_by") or [meta["property"]]
            patch = os.path.join(sdir, name, "patch.diff")
            a = sh("git", "-C", TARGET, "apply", patch)
            if a.returncode != 0:
                # the surrounding code may have moved since the change was written (later fix: commits): retry with less context
                a = sh("git", "-C", TARGET, "apply", "-C1", "--recount", patch)
            if a.returncode != 0:
                results.append((name, pids, "patch does not apply: " + a.stderr[:200]))
                continue
            try:
                verdicts = []
                for pid in pids:
                    code, viol, secs, out = run_check(pid, tier, None if TARGET == REPO else TARGET)
                    results.append((name, pid, f"exit={code} {viol[0] if viol else 'NO VIOLATION'} ({secs}s)"))
                    touched.add(pid)
                    v = "missed" if code == 0 else ("error/timeout" if code not in (0, 1) else ("VIOLATION no-failing-input-found" if viol and viol[0].endswith("no-failing-input-found") else "VIOLATION"))
                    verdicts.append(f"{pid}: {v}")
                # record in the meta file: `first_run` once, `now` every time
                mp = os.path.join(sdir, name, "meta.json")
                meta = json.load(open(mp))
                meta.setdefault("first_run", "; ".join(verdicts))
                meta["now"] = "; ".join(verdicts)
                json.dump(meta, open(mp, "w"), indent=1)
            finally:
                sh("git", "-C", TARGET, "checkout", "--", ".")
    else:
        known = json.load(open(os.path.join(VERIF, "known_findings.json")))["findings"]
        for k in known:
            if k.get("status") != "fixed" or (args and k["id"] not in args):
                continue
            r = sh("git", "-C", REPO, "diff", f"{k['commit']}~1", k["commit"])
            a = subprocess.run(["git", "-C", TARGET, "apply", "-R"], input=r.stdout, capture_output=True, text=True)
            if a.returncode != 0:
                results.append((k["id"], k["property"], "revert does not apply: " + a.stderr[:200]))
                continue
            try:
                pids = k.get("checked_by") or [k["property"]]
                for pid in pids:
                    if not os.path.exists(os.path.join(VERIF, "harness", "props", pid + ".py")):
                        results.append((k["id"], pid, "no check yet"))
                        continue
                    code, viol, secs, out = run_check(pid, tier, None if TARGET == REPO else TARGET)
                    results.append((k["id"], pid, f"exit={code} {viol[0] if viol else 'NO VIOLATION'} ({secs}s)"))
                    touched.add(pid)
            finally:
                sh("git", "-C", TARGET, "checkout", "--", ".")
    restore(sorted(touched), tier)
    for r in results:
        print(*r, sep=" | ")


if __name__ == "__main__":
    main()
