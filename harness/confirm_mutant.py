#!/usr/bin/env python3
"""confirm_mutant.py <worktree of /repo> <mutant dir with patch.diff, demo.py, meta.json> <seeded name>

Confirms independently (in the scratch worktree, never in /repo): the patch applies, the full test-suite result
is unchanged (306 passed, the same 11 baseline failures), demo.py passes on the unchanged tree and fails on the
changed one.  On success copies the three files to /verif/seeded/<name>/ with the confirmation record."""
import json
import os
import shutil
import subprocess
import sys

wt, mdir, name = sys.argv[1:4]
VERIF = os.path.dirname(os.path.dirname(os.path.abspath(__file__)))


def sh(cmd, **k):
    return subprocess.run(cmd, shell=True, capture_output=True, text=True, **k)


def suite():
    p = sh(f"cd {wt} && PYTHONPATH={wt} /venv/bin/python -m pytest -q -p no:cacheprovider --timeout=900 --continue-on-collection-errors 2>&1 | tail -15")
    failed = sorted(l.split(" - ")[0] for l in p.stdout.split("\n") if l.startswith("FAILED"))
    summary = [l for l in p.stdout.split("\n") if " passed" in l]
    return failed, summary[-1] if summary else p.stdout[-300:]


base = json.load(open("/root/.vp/BASELINE.json"))
expect_fail = sorted("FAILED " + t.replace(".", "/", t.count(".") - 0).replace("::", ".py::", 1) for t in [])
assert sh(f"git -C {wt} status --porcelain --untracked-files=no").stdout.strip() == "", "worktree dirty"
sh(f"git -C {wt} checkout -q --detach $(git -C /repo rev-parse HEAD)")
rec = {"repo_head": sh("git -C /repo rev-parse --short HEAD").stdout.strip()}
d0 = sh(f"PYTHONPATH={wt} /venv/bin/python {mdir}/demo.py")
rec["demo_unchanged"] = {"exit": d0.returncode, "tail": d0.stdout.strip()[-200:]}
a = sh(f"git -C {wt} apply {mdir}/patch.diff")
if a.returncode != 0:
    print("patch does not apply:", a.stderr)
    sys.exit(1)
try:
    d1 = sh(f"PYTHONPATH={wt} /venv/bin/python {mdir}/demo.py")
    rec["demo_changed"] = {"exit": d1.returncode, "tail": d1.stdout.strip()[-300:]}
    failed, summary = suite()
    rec["suite_changed"] = {"summary": summary.strip(), "n_failed": len(failed)}
    always = set(base["always_fail"])
    got = set(f.replace("FAILED ", "").replace("/", ".").replace(".py::", "::") for f in failed)
    rec["suite_same_as_baseline"] = (got == always) and (" 306 passed" in " " + summary)
finally:
    sh(f"git -C {wt} checkout -- .")
ok = rec["demo_unchanged"]["exit"] == 0 and rec["demo_changed"]["exit"] != 0 and rec["suite_same_as_baseline"]
print(json.dumps(rec, indent=1))
if ok:
    dst = os.path.join(VERIF, "seeded", name)
    os.makedirs(dst, exist_ok=True)
    for f in ("patch.diff", "demo.py"):
        shutil.copy(os.path.join(mdir, f), dst)
    meta = json.load(open(os.path.join(mdir, "meta.json")))
    meta["confirmed"] = rec
    meta["what_i_ran"] = "harness/confirm_mutant.py: git apply in a scratch worktree of /repo HEAD; full pytest suite (306 passed / same 11 baseline failures); demo.py exit 0 on the unchanged tree, non-zero on the changed one"
    json.dump(meta, open(os.path.join(dst, "meta.json"), "w"), indent=1)
    print("KEPT", name)
else:
    print("REJECTED", name)
    sys.exit(1)
