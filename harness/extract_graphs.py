"""Record every `Node.__add__` executed while the beyond package is imported, in a fresh
interpreter, and emit lean/BeyondVerif/Generated/Graphs.lean.

Run as:  python extract_graphs.py   (prints JSON: {"links":[[a,b],...]} in execution order)
"""
import json
import os
import sys

REPO = os.environ.get("VERIF_REPO", "/repo")
sys.path.insert(0, REPO)

import beyond.utils.node as node  # noqa: E402

links = []
_orig = node.Node.__add__


def _add(self, other):
    links.append((self.name, other.name))
    return _orig(self, other)


node.Node.__add__ = _add

import beyond.orbits.forms  # noqa: E402,F401
import beyond.dates.date  # noqa: E402,F401
import beyond.frames.orient  # noqa: E402,F401
import beyond.frames.frames  # noqa: E402,F401

node.Node.__add__ = _orig
print(json.dumps({"links": links}))
