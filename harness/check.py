#!/venv/bin/python
"""check.py <property id> [--tier quick|thorough]   — the MANIFEST commands"""
import importlib
import os
import sys

sys.path.insert(0, os.path.dirname(os.path.dirname(os.path.abspath(__file__))))
os.environ.setdefault("PYTHONWARNINGS", "ignore")
import warnings
warnings.filterwarnings("ignore")

from harness import core  # noqa: E402

if __name__ == "__main__":
    pid = sys.argv[1]
    mod = importlib.import_module(f"harness.props.{pid}")
    core.run(mod, sys.argv[2:])
