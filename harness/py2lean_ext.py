"""Extensions of harness/py2lean.py used by C07 (kept in a separate module so that py2lean.py itself is unchanged):

* `Rename`: attribute chains used as plain variables (`self._init.C1`, `_i.C1`, `self.gravity.j2`) become names;
* `XTr.block2`: whole statement lists (no slicing: every statement must be translated or be on an explicit skip list),
  with numpy 3-vectors expanded componentwise (`np.array([...])`, broadcasting `* + -`, `np.concatenate`) and
  `for _ in range(N): A; if c: break; B` loops turned into a top-level structural recursion on a fuel argument that also
  reports whether the loop was left through `break`;
* `chunks`: a function body cut into consecutive pieces, each a Lean `def` from its free variables to the list of the
  variables later pieces need, plus the composition — so that theorems can talk about one piece at a time.
"""
import ast

from harness.py2lean import Tr, Untranslatable, lname, indent


class Rename(ast.NodeTransformer):
    def __init__(self, prefixes):
        self.prefixes = prefixes      # dotted prefix -> name prefix

    def visit_Attribute(self, node):
        d = dotted(node)
        if d is not None:
            for p, repl in self.prefixes.items():
                if d.startswith(p + ".") and "." not in d[len(p) + 1:]:
                    return ast.copy_location(ast.Name(id=repl + d[len(p) + 1:], ctx=node.ctx), node)
        return self.generic_visit(node)


def dotted(node):
    if isinstance(node, ast.Name):
        return node.id
    if isinstance(node, ast.Attribute):
        b = dotted(node.value)
        return None if b is None else b + "." + node.attr
    return None


def names_used(node):
    return [n.id for n in ast.walk(node) if isinstance(n, ast.Name) and isinstance(n.ctx, ast.Load)]


class XTr(Tr):
    def __init__(self, **kw):
        super().__init__(**kw)
        self.vecs = {}        # python name -> number of components
        self.helpers = []     # top-level defs generated for loops
        self.loop_names = {}  # id(For node) -> lean name
        self.global_names = set()   # names that are top-level Lean defs (not parameters of the pieces)

    # ---- vectors -------------------------------------------------------------------------
    def vexpr(self, e):
        """returns a list of Lean scalar texts if `e` is vector-valued, else None"""
        if isinstance(e, ast.Name) and e.id in self.vecs:
            return [f"{lname(e.id)}_{k}" for k in range(self.vecs[e.id])]
        if isinstance(e, ast.Call):
            d = self.dotted(e.func)
            if d in ("np.array", "numpy.array") and isinstance(e.args[0], (ast.List, ast.Tuple)):
                return [self.expr(x) for x in e.args[0].elts]
            if d in ("np.concatenate", "numpy.concatenate") and isinstance(e.args[0], (ast.List, ast.Tuple)):
                out = []
                for x in e.args[0].elts:
                    v = self.vexpr(x)
                    if v is None:
                        raise Untranslatable("concatenate of a scalar")
                    out += v
                return out
        if isinstance(e, ast.BinOp) and type(e.op) in (ast.Add, ast.Sub, ast.Mult, ast.Div):
            a, b = self.vexpr(e.left), self.vexpr(e.right)
            if a is None and b is None:
                return None
            op = {ast.Add: "+", ast.Sub: "-", ast.Mult: "*", ast.Div: "/"}[type(e.op)]
            n = len(a) if a is not None else len(b)
            if a is not None and b is not None and len(a) != len(b):
                raise Untranslatable("vector length mismatch")
            sa = None if a is not None else self.expr(e.left)
            sb = None if b is not None else self.expr(e.right)
            return [f"({a[k] if a is not None else sa} {op} {b[k] if b is not None else sb})" for k in range(n)]
        if isinstance(e, ast.UnaryOp) and isinstance(e.op, ast.USub):
            a = self.vexpr(e.operand)
            return None if a is None else [f"(-{x})" for x in a]
        return None

    # ---- statements ----------------------------------------------------------------------
    def block2(self, stmts, result):
        lines = []
        for s in stmts:
            lines += self.stmt(s)
        return "\n".join(lines + [result])

    def stmt(self, s):
        if isinstance(s, ast.Assign) and len(s.targets) == 1 and isinstance(s.targets[0], ast.Name):
            t = s.targets[0].id
            v = self.vexpr(s.value)
            if v is not None:
                self.vecs[t] = len(v)
                return [f"let {lname(t)}_{k} : R := {x}" for k, x in enumerate(v)]
            self.vecs.pop(t, None)
            return [f"let {lname(t)} : R := {self.expr(s.value)}"]
        if isinstance(s, ast.AugAssign) and isinstance(s.target, ast.Name):
            op = {ast.Add: "+", ast.Sub: "-", ast.Mult: "*", ast.Div: "/"}[type(s.op)]
            n = lname(s.target.id)
            return [f"let {n} : R := ({n} {op} {self.expr(s.value)})"]
        if isinstance(s, ast.If):
            names = sorted(set(self.assigned(s.body) + self.assigned(s.orelse)))
            if not names:
                raise Untranslatable("if without assignments")
            tup = "(" + ", ".join(lname(n) for n in names) + ")" if len(names) > 1 else lname(names[0])
            a = self.block2(s.body, tup)
            b = self.block2(s.orelse, tup) if s.orelse else tup
            ty = " × ".join(["R"] * len(names))
            return [f"let {tup} : {ty} := (if {self.expr(s.test)} then\n{indent(a)}\nelse\n{indent(b)})"]
        if isinstance(s, ast.For):
            return self.for_loop(s)
        raise Untranslatable(f"statement {ast.unparse(s)[:60]}")

    def for_loop(self, s):
        """for _ in range(N): A…; if c: break; B…   with A, B plain assignments"""
        if not (isinstance(s.iter, ast.Call) and self.dotted(s.iter.func) == "range" and len(s.iter.args) == 1
                and isinstance(s.iter.args[0], ast.Constant) and isinstance(s.iter.args[0].value, int) and not s.orelse):
            raise Untranslatable("for loop shape")
        count = s.iter.args[0].value
        brk = [k for k, x in enumerate(s.body) if isinstance(x, ast.If) and len(x.body) == 1 and isinstance(x.body[0], ast.Break) and not x.orelse]
        if len(brk) != 1:
            raise Untranslatable("for loop without a single `if c: break`")
        k = brk[0]
        A, cond, B = s.body[:k], s.body[k].test, s.body[k + 1:]
        if not all(isinstance(x, ast.Assign) and len(x.targets) == 1 and isinstance(x.targets[0], ast.Name) for x in A + B):
            raise Untranslatable("for loop body")
        assigned_A = [x.targets[0].id for x in A]
        carried = []
        for x in B:
            t = x.targets[0].id
            if t not in carried:
                carried.append(t)
        if len(carried) != 1:
            raise Untranslatable("for loop with other than one carried variable")
        c = carried[0]
        free = []
        for x in A + [cond] + B:
            for n in names_used(x):
                if n not in free and n not in assigned_A and n != c and n not in self.funcs and n not in ("np", "abs") and n not in self.global_names:
                    free.append(n)
        name = self.loop_names.get(id(s), f"loop{len(self.helpers)}")
        bodyA = "\n".join(l for x in A for l in self.stmt(x))
        bodyB = "\n".join(l for x in B for l in self.stmt(x))
        args = " ".join(lname(n) for n in free)
        text = (f"/-- `for … in range({count})` loop of the source: fuel, carried variable ↦ (carried variable at exit, left through `break`) -/\n"
                f"def {name} ({args} : R) : Nat → R → R × Bool\n"
                f"  | 0, {lname(c)} => ({lname(c)}, false)\n"
                f"  | fuel + 1, {lname(c)} =>\n{indent(bodyA, 4)}\n"
                f"    if {self.expr(cond)} then ({lname(c)}, true)\n    else\n{indent(bodyB, 6)}\n      {name} {args} fuel {lname(c)}\n")
        self.helpers.append(text)
        self.loop_info = {"name": name, "free": free, "carried": c, "count": count}
        return [f"let {lname(c)} : R := ({name} {args} {count} {lname(c)}).1"]


def free_and_assigned(tr, stmts):
    """(free variables in order of first use, assigned names in order) of a statement list"""
    free, assigned = [], []

    def use(node):
        for n in names_used(node):
            if n not in assigned and n not in free and n not in ("np", "abs", "range") and n not in tr.funcs and n not in tr.global_names:
                free.append(n)

    def visit(ss):
        for s in ss:
            if isinstance(s, ast.Assign):
                use(s.value)
                for t in s.targets:
                    for n in tr.target_names(t):
                        if n not in assigned:
                            assigned.append(n)
            elif isinstance(s, ast.AugAssign):
                use(s.value)
                use(ast.Name(id=s.target.id, ctx=ast.Load()))
                if s.target.id not in assigned:
                    assigned.append(s.target.id)
            elif isinstance(s, ast.Break):
                pass
            elif isinstance(s, ast.If):
                use(s.test)
                # a name assigned only conditionally keeps its previous value on the other path: it is also *used*
                for n in set(tr.assigned(s.body) + tr.assigned(s.orelse)):
                    use(ast.Name(id=n, ctx=ast.Load()))
                visit(s.body)
                visit(s.orelse)
            elif isinstance(s, ast.For):
                visit(s.body)
            else:
                raise Untranslatable(f"statement {ast.unparse(s)[:60]}")
    visit(stmts)
    return free, assigned


def chunks(tr, stmts, cuts, names, final_outputs, compose_name, compose_inputs, doc="", keep=(), compose_result=None):
    """Cut `stmts` before the first statement assigning each name in `cuts`; piece k becomes
    `def names[k] (free…) : List R := …; [outs…]`, outs = what later pieces (or `final_outputs`) read, plus the names in
    `keep` a piece assigns.  `final_outputs` may name vectors (expanded).  With `compose_result` (Lean text over the names
    the pieces have output) the composition matches on the last piece too and returns that expression.
    Returns (text, info)."""
    idx = [0]
    for c in cuts:
        k = next((i for i, s in enumerate(stmts) if isinstance(s, ast.Assign) and c in tr.target_names(s.targets[0])), None)
        if k is None:
            raise Untranslatable(f"cut point {c} not found")
        idx.append(k)
    idx.append(len(stmts))
    pieces = [stmts[idx[k]:idx[k + 1]] for k in range(len(idx) - 1)]
    fa = [free_and_assigned(tr, p) for p in pieces]
    texts, info = [], []
    for k, p in enumerate(pieces):
        later_need = set()
        for j in range(k + 1, len(pieces)):
            later_need |= set(fa[j][0])
        outs = [n for n in fa[k][1] if n in later_need or n in keep or (k == len(pieces) - 1 and n in final_outputs)]
        body_lines = []
        for s in p:
            body_lines += tr.stmt(s)
        out_txt = []
        for n in outs:
            out_txt += [f"{lname(n)}_{c}" for c in range(tr.vecs[n])] if n in tr.vecs else [lname(n)]
        args = " ".join(lname(n) for n in fa[k][0])
        texts.append(f"def {names[k]} ({args} : R) : List R :=\n{indent(chr(10).join(body_lines + ['[' + ', '.join(out_txt) + ']']))}\n")
        info.append({"name": names[k], "free": fa[k][0], "outs": out_txt})
    # composition
    lines = []
    avail = set(compose_inputs)
    depth = 1
    comp = [f"def {compose_name} ({' '.join(lname(n) for n in compose_inputs)} : R) : List R :="]
    for k, inf in enumerate(info):
        missing = [n for n in inf["free"] if n not in avail]
        if missing:
            raise Untranslatable(f"piece {inf['name']} needs {missing}")
        call = f"{inf['name']} {' '.join(lname(n) for n in inf['free'])}"
        if k == len(info) - 1 and compose_result is None:
            comp.append("  " * depth + call)
        else:
            comp.append("  " * depth + f"match {call} with")
            comp.append("  " * depth + "| [" + ", ".join(inf["outs"]) + "] =>")
            depth += 1
            avail |= set(inf["outs"]) | {o for o in fa[k][1]}
    if compose_result is not None:
        comp.append("  " * depth + compose_result)
    for d in range(depth - 1, 0, -1):
        comp.append("  " * d + "| _ => []")
    return "\n".join(tr.helpers) + "\n" + "\n".join(texts) + "\n" + (f"/-- {doc} -/\n" if doc else "") + "\n".join(comp) + "\n", info
