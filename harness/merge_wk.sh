#!/bin/bash
# merge_wk.sh <ID> [message]: merge the builder branch wk2-<ID> into main; derived files are regenerated, never merged by hand.
# Conflicts in generated / per-run files (evidence, Generated, seeded meta) are resolved to the branch's version; anything else stops.
set -e
cd "$(dirname "$0")/.."
ID=$1; MSG=${2:-"merge wk2-$ID"}
git config merge.ours.driver true
git checkout -- evidence 2>/dev/null || true
git merge wk2-$ID -m "merge wk2-$ID" || true
for f in $(git diff --name-only --diff-filter=U); do
  case "$f" in
    evidence/*|lean/BeyondVerif/Generated/*|seeded/*/meta.json|known_findings.json|MANIFEST.json|STATUS.md|SEEDED.md|FINDINGS.md)
      git checkout --theirs -- "$f"; git add "$f";;
    *) echo "UNRESOLVED CONFLICT in $f"; exit 1;;
  esac
done
python3 harness/merge_findings.py >/dev/null
python3 harness/manifest_gen.py >/dev/null
/venv/bin/python harness/instantiate.py >/dev/null
if grep -rlE '^(<<<<<<<|>>>>>>>) ' lean/BeyondVerif harness seeded known_findings.d 2>/dev/null | grep -v merge_wk.sh; then echo "CONFLICT MARKERS LEFT"; exit 1; fi
git add -A
git commit -qm "$MSG: manifest, findings" || true
git log --oneline -1
