"""C10 — event detection is sound, complete w.r.t. sampling, ordered and sharp."""
import math
import os

from harness import core
from harness.core import Outcome

ID = "C10"
LEAN_TARGETS = []
THEOREMS = []
LEVEL_TEXT = ""
LEVEL_NOTE = ""
TECHNIQUE = ""
TRUSTED = []
ASSUMPTIONS = []
NOT_COVERED = []
OPEN = []
RULE = ""

US = None  # timedelta(microseconds=1), set by _setup


def _setup():
    """beyond is imported only here (core has put REPO first on sys.path)"""
    global US
    import warnings
    warnings.filterwarnings("ignore")
    from beyond.config import config
    config.set("eop", "missing_policy", "pass")
    from datetime import timedelta
    US = timedelta(microseconds=1)


# =====================================================================================
#                               oracle on the real API
# =====================================================================================

_station_counter = [0]


def make_station(rng, orb=None, mask=False):
    """a ground station under (roughly) the ground track so that passes exist"""
    import numpy as np
    from beyond.frames.stations import create_station
    _station_counter[0] += 1
    name = f"C10S{os.getpid()}x{_station_counter[0]}"
    if orb is not None:
        inc = float(orb.copy(form="keplerian").i)
        latmax = min(inc, math.pi - inc)
        lat = math.degrees(rng.uniform(-1, 1) * min(latmax, math.radians(70)))
    else:
        lat = rng.uniform(-60, 60)
    lon = rng.uniform(-180, 180)
    m = None
    if mask:
        k = rng.randint(3, 8)
        az = sorted(rng.uniform(0.05, 6.2) for _ in range(k)) + [2 * math.pi]
        el = [rng.uniform(0.0, 0.35) for _ in range(k + 1)]
        m = [az, el]
    return create_station(name, (lat, lon, rng.uniform(0, 2000)), mask=m)


def make_orbit(rng, kind):
    """random Keplerian orbit of the given class; returns (Orbit, class name)"""
    import numpy as np
    from beyond.dates import Date
    from beyond.orbits import Orbit
    Re = 6378136.3
    if kind == "leo":
        rp = Re + rng.uniform(300e3, 1200e3)
        e = rng.uniform(0.001, 0.03)
        inc = rng.uniform(10, 170)
        argp = rng.uniform(0, 360)
    elif kind == "meo":
        rp = Re + rng.uniform(5000e3, 20000e3)
        e = rng.uniform(0.001, 0.3)
        inc = rng.uniform(10, 120)
        argp = rng.uniform(0, 360)
    elif kind == "gto":
        rp = Re + rng.uniform(250e3, 600e3)
        ra = 42164e3 + rng.uniform(-500e3, 500e3)
        e = (ra - rp) / (ra + rp)
        inc = rng.uniform(5, 30)
        argp = rng.uniform(0, 360)
    else:  # molniya
        e = rng.uniform(0.70, 0.74)
        rp = 26600e3 * (1 - e)
        inc = rng.uniform(62, 64.5)
        argp = rng.uniform(260, 290)
    a = rp / (1 - e)
    date = Date(2015 + rng.randrange(8), rng.randint(1, 12), rng.randint(1, 28), rng.randrange(24), rng.randrange(60), rng.randrange(60), rng.randrange(10**6))
    orb = Orbit([a, e, math.radians(inc), math.radians(rng.uniform(0, 360)), math.radians(argp), math.radians(rng.uniform(0, 360))],
                date, "keplerian", "EME2000", "Kepler")
    return orb


def period(orb):
    return float(orb.infos.period.total_seconds())


def _sign(x):
    return int(x > 0) - int(x < 0)


def guard_of(L):
    """the listener's own visibility condition, re-implemented independently of Listener.check"""
    from beyond.propagators import listeners as LS
    if isinstance(L, LS.StationMaskListener):
        return lambda o: o.copy(frame=L.station, form="spherical").phi > 0
    if isinstance(L, LS.StationMaxListener):
        def g(o):
            s = o.copy(frame=L.station, form="spherical")
            return s.phi > 0 and not s.phi_dot > 0
        return g
    if isinstance(L, LS.RadialVelocityListener):
        if L.sight:
            return lambda o: o.copy(frame=L.frame, form="spherical").phi > 0
        return lambda o: True
    if isinstance(L, LS.AnomalyListener):
        return lambda o: abs(L(o)) < 2
    return lambda o: True


def lname(L):
    from beyond.propagators import listeners as LS
    n = type(L).__name__.replace("Listener", "")
    if isinstance(L, LS.LightListener):
        n += "-" + L.type
    if isinstance(L, LS.AnomalyListener):
        n += "-" + L.anomaly
    return n


def up_label(L):
    """(label when the watched quantity goes from negative to positive in the direction of time, label for the opposite)"""
    from beyond.propagators import listeners as LS
    if isinstance(L, LS.LightListener):
        t = "Umbra" if L.type == L.UMBRA else "Penumbra"
        return (t + " exit", t + " entry")
    if isinstance(L, LS.NodeListener):
        return ("Asc Node", "Desc Node")
    if isinstance(L, LS.ApsideListener):
        return ("Periapsis", "Apoapsis")
    if isinstance(L, LS.StationSignalListener):  # includes the mask listener
        return ("AOS", "LOS")
    if isinstance(L, LS.TerminatorListener):
        # cos(sun, sat) going from negative to positive: the satellite enters the day side
        return ("Day Terminator", "Night Terminator")
    return None


def describe(orb, pkind, kw, listeners):
    k = orb.copy(form="keplerian")
    d = {"orbit": [float(x) for x in k], "epoch": str(orb.date), "propagator": pkind,
         "listeners": [lname(L) for L in listeners]}
    for a, b in kw.items():
        if a != "listeners":
            d[a] = str(b) if not isinstance(b, list) else f"{len(b)} dates"
    return d


def run_stream(out, src, pkind, listeners, kw, desc, forward=True, propagate=None, sharp_us=5, fam_prefix=""):
    """iterate `src.iter(listeners=…, **kw)` and check the generic clauses of the property.
    Returns the list of (orb) of the stream.  `propagate(date)` re-evaluates the trajectory (for sharpness)."""
    from beyond.propagators import listeners as LS
    stream = list(src.iter(listeners=listeners, **kw))
    samples = [o for o in stream if not o.event]
    dirn = 1 if forward else -1
    fp = fam_prefix + pkind + ":"
    # ---- chronological order of the whole stream
    for a, b in zip(stream, stream[1:]):
        if dirn * (b.date._mjd - a.date._mjd) < 0:
            fam = fp + ("order" if forward else "backward-order")
            out.fail(fam, "output stream is not in chronological order (in the direction of the iteration)",
                     dict(desc, at=[str(a.date), str(b.date)], events=[str(a.event.info) if a.event else None, str(b.event.info) if b.event else None]),
                     observed=f"{a.date} before {b.date}")
            break
    # ---- blocks: events between two consecutive samples
    blocks = []
    cur = []
    for o in stream:
        if o.event:
            cur.append(o)
        else:
            blocks.append((cur, o))
            cur = []
    if cur:
        out.fail(fp + "trailing-event", "events after the last sample", desc, observed=[str(o.date) for o in cur])
    if blocks and blocks[0][0]:
        out.fail(fp + "leading-event", "events before the first sample", desc, observed=[str(o.date) for o in blocks[0][0]])
    vals = {id(L): [L(s) for s in samples] for L in listeners}
    guards = {id(L): guard_of(L) for L in listeners}
    nev = 0
    for k in range(1, len(blocks)):
        evs, s1 = blocks[k]
        s0 = blocks[k - 1][1]
        for L in listeners:
            v0, v1 = vals[id(L)][k - 1], vals[id(L)][k]
            expected = _sign(v0) != _sign(v1) and bool(guards[id(L)](s1))
            mine = [o for o in evs if o.event.listener is L]
            ln = lname(L)
            out.tally(f"pair:{ln}:{'event' if expected else 'none'}")
            if expected != (len(mine) == 1) or len(mine) > 1:
                out.fail(fp + ln + (":missed" if expected else ":spurious"),
                         "event emitted iff the watched quantity changes sign between two samples (and the guard holds)",
                         dict(desc, listener=ln, samples=[str(s0.date), str(s1.date)], values=[float(v0), float(v1)]),
                         observed=[str(o.date) + " " + str(o.event.info) for o in mine], expected=int(expected))
                continue
            if not mine:
                continue
            nev += 1
            ev = mine[0]
            # ---- between the samples
            lo, hi = (s0, s1) if forward else (s1, s0)
            inside = (lo.date._mjd < ev.date._mjd <= hi.date._mjd) if forward else (lo.date._mjd <= ev.date._mjd < hi.date._mjd)
            if not inside:
                out.fail(fp + ln + ":outside", "event date is not between the two samples", dict(desc, listener=ln),
                         observed=str(ev.date), expected=[str(s0.date), str(s1.date)])
            # ---- sharp: the quantity changes sign within sharp_us microseconds before the event (iteration direction)
            if propagate is not None:
                before = propagate(ev.date - dirn * sharp_us * US)
                fb, fe = L(before), L(ev)
                if not fb * fe <= 0:
                    out.fail(fp + ln + ":not-sharp", f"watched quantity does not change sign within {sharp_us} us of the event",
                             dict(desc, listener=ln, event=str(ev.date)), observed=[float(fb), float(fe)])
                # the event is on the new-sample side: same sign as the new sample (or zero)
                if _sign(fe) not in (0, _sign(v1)):
                    out.fail(fp + ln + ":wrong-side", "event state is not on the side of the newer sample", dict(desc, listener=ln, event=str(ev.date)),
                             observed=[float(fe), float(v1)])
            # ---- label matches the direction of the crossing (in the direction of time)
            lab = up_label(L)
            if lab is not None and v0 != 0 and v1 != 0:
                going_up = (v0 < 0) == forward
                want = lab[0] if going_up else lab[1]
                if ev.event.info != want:
                    fam = fp + ln + (":label" if forward else ":backward-label")
                    out.fail(fam, "event label does not match the direction of the crossing",
                             dict(desc, listener=ln, event=str(ev.date), values=[float(v0), float(v1)]), observed=ev.event.info, expected=want)
    out.count(key=(pkind, desc["epoch"], tuple(desc["listeners"]), desc.get("step")), nontrivial=nev > 0, kind=fam_prefix + pkind,
              events=min(nev, 9))
    return stream, blocks


# ------------------------------------------------------------------ closed forms (Keplerian motion)

def kepler_times(orb, kind, value, t0s, t1s):
    """seconds after orb.date in [t0s, t1s] at which the anomaly of the given kind equals value (mod 2π)"""
    k = orb.copy(form="keplerian")
    a, e, w, nu0 = float(k.a), float(k.e), float(k.ω), float(k.ν)
    n = float(orb.infos.n)

    def nu2M(nu):
        E = 2 * math.atan2(math.sqrt(1 - e) * math.sin(nu / 2), math.sqrt(1 + e) * math.cos(nu / 2))
        return E - e * math.sin(E)
    M0 = nu2M(nu0)
    if kind == "true":
        M = nu2M(value)
    elif kind == "mean":
        M = value
    elif kind == "eccentric":
        M = value - e * math.sin(value)
    elif kind == "aol":
        M = nu2M(value - w)
    else:
        raise ValueError(kind)
    base = ((M - M0) % (2 * math.pi)) / n
    P = 2 * math.pi / n
    res = []
    j = math.floor((t0s - base) / P) - 1
    while True:
        t = base + j * P
        if t > t1s:
            break
        if t >= t0s:
            res.append(t)
        j += 1
    return res


def check_closed_form(out, orb, blocks, L, kind, value, label, desc, tol=1e-3, forward=True):
    """events of listener L with the given label == closed-form crossing times of the Keplerian motion"""
    samples = [b[1] for b in blocks]
    ts = [(s.date - orb.date).total_seconds() for s in samples]
    lo, hi = min(ts), max(ts)
    exp = kepler_times(orb, kind, value, lo, hi)
    got = sorted((o.date - orb.date).total_seconds() for b in blocks for o in b[0] if o.event.listener is L and (label is None or o.event.info == label))
    ln = lname(L)
    # crossings within tol of a sample (or of the ends) may legitimately fall on either side
    def near_sample(t):
        return any(abs(t - s) < 10 * tol for s in ts)
    e2 = [t for t in exp if not near_sample(t)]
    g2 = [t for t in got if not near_sample(t)]
    ok = len(e2) == len(g2) and all(abs(x - y) <= tol for x, y in zip(e2, g2))
    out.tally(f"closed-form:{ln}:{label}")
    if not ok:
        extra = [t for t in g2 if not any(abs(t - x) <= tol for x in e2)]
        miss = [t for t in e2 if not any(abs(t - x) <= tol for x in g2)]
        fam = f"closed-form:{ln}:" + ("spurious" if extra else "missed")
        out.fail(fam, f"reported {label or ln} events differ from the closed-form crossing times of the Keplerian motion (tol {tol} s)",
                 dict(desc, listener=ln, value=value), observed=g2[:8], expected=e2[:8], extra=extra[:4], missing=miss[:4])


# ------------------------------------------------------------------ independent shadow model

def shadow_state(o, sun_body):
    """0 = full light, 1 = penumbra (Sun partially hidden), 2 = umbra (Sun fully hidden), from apparent discs seen from the
    satellite: angular radii a (Sun), b (Earth), separation c."""
    import numpy as np
    c = o.copy(form="cartesian")
    r = np.array(c[:3], dtype=float)
    s = np.array(sun_body.propagate(o.date).copy(frame=c.frame, form="cartesian")[:3], dtype=float)
    Re = c.frame.center.body.r
    Rs = sun_body.r
    d = s - r
    nd, nr = np.linalg.norm(d), np.linalg.norm(r)
    a = math.asin(Rs / nd)
    b = math.asin(Re / nr)
    cosc = float(d @ (-r)) / (nd * nr)
    cc = math.acos(max(-1.0, min(1.0, cosc)))
    if cc <= b - a:
        return 2
    if cc < a + b:
        return 1
    return 0


def check_shadow(out, blocks, L, propagate, desc):
    from datetime import timedelta
    from beyond.env.solarsystem import get_body
    sun = get_body("Sun")
    umbra = L.type == L.UMBRA
    tol = 0.01 if umbra else 0.5
    ind = (lambda o: shadow_state(o, sun) == 2) if umbra else (lambda o: shadow_state(o, sun) >= 1)
    for evs, _ in blocks:
        for o in evs:
            if o.event.listener is not L:
                continue
            a = ind(propagate(o.date - timedelta(seconds=tol)))
            b = ind(propagate(o.date + timedelta(seconds=tol)))
            out.tally(f"shadow:{L.type}")
            entry = "entry" in o.event.info
            if a == b or (b != entry):
                out.fail(f"shadow:{L.type}", f"{o.event.info} does not agree with the independent conical shadow computation within {tol} s",
                         dict(desc, event=str(o.date), label=o.event.info), observed=[a, b], expected=[not entry, entry])


# ------------------------------------------------------------------ the sweep

def std_listeners(rng, orb, with_station=True):
    from beyond.propagators import listeners as LS
    Ls = [LS.NodeListener(), LS.ApsideListener(), LS.LightListener(), LS.LightListener(LS.LightListener.PENUMBRA)]
    kind = rng.choice(["true", "mean", "eccentric", "aol"])
    Ls.append(LS.AnomalyListener(rng.uniform(0, 2 * math.pi), kind))
    sta = None
    if with_station:
        sta = make_station(rng, orb, mask=rng.random() < 0.5)
        Ls.extend(LS.stations_listeners(sta))
        Ls.append(LS.RadialVelocityListener(sta, sight=rng.random() < 0.5))
    rng.shuffle(Ls)
    return Ls, sta


def pick_step(rng, orb):
    """sampling step in seconds: between 1/200 and 1/25 of a period (anomaly listener guard needs < ~1.1 rad per step)"""
    P = period(orb)
    return round(rng.uniform(P / 200, P / 25), rng.choice([0, 3, 6]))


def oracle_analytical(out, rng, kind, widen):
    from datetime import timedelta
    from beyond.propagators import listeners as LS
    orb = make_orbit(rng, kind)
    Ls, sta = std_listeners(rng, orb)
    P = period(orb)
    step = pick_step(rng, orb)
    span = P * rng.uniform(1.0, 1.6)
    start = orb.date + timedelta(seconds=rng.uniform(-0.5, 0.5) * P)
    kw = dict(start=start, stop=timedelta(seconds=span), step=timedelta(seconds=step))
    desc = describe(orb, "kepler-" + kind, kw, Ls)
    stream, blocks = run_stream(out, orb, "analytical", Ls, kw, desc, propagate=orb.propagate)
    # closed forms
    for L in Ls:
        if isinstance(L, LS.NodeListener):
            check_closed_form(out, orb, blocks, L, "aol", 0.0, "Asc Node", desc)
            check_closed_form(out, orb, blocks, L, "aol", math.pi, "Desc Node", desc)
        elif isinstance(L, LS.ApsideListener):
            check_closed_form(out, orb, blocks, L, "mean", 0.0, "Periapsis", desc)
            check_closed_form(out, orb, blocks, L, "mean", math.pi, "Apoapsis", desc)
        elif isinstance(L, LS.AnomalyListener):
            check_closed_form(out, orb, blocks, L, L.anomaly, L.value, None, desc)
        elif isinstance(L, LS.LightListener):
            check_shadow(out, blocks, L, orb.propagate, desc)
    # reuse of the same listener objects: identical stream
    stream2 = list(orb.iter(listeners=Ls, **kw))
    sig = lambda st: [(o.date._mjd, o.event.info if o.event else None) for o in st]
    out.count(key=("reuse", desc["epoch"]), kind="reuse")
    if sig(stream) != sig(stream2):
        out.fail("analytical:reuse", "a second iteration with the same listener objects gives a different stream", desc,
                 observed=len(stream2), expected=len(stream))
    return orb, Ls, kw, desc


def oracle_backward(out, rng, kind):
    from datetime import timedelta
    from beyond.propagators import listeners as LS
    orb = make_orbit(rng, kind)
    Ls, sta = std_listeners(rng, orb, with_station=False)
    P = period(orb)
    step = pick_step(rng, orb)
    kw = dict(start=orb.date, stop=-timedelta(seconds=P * 1.3), step=-timedelta(seconds=step))
    desc = describe(orb, "kepler-" + kind, kw, Ls)
    run_stream(out, orb, "analytical", Ls, kw, desc, forward=False, propagate=orb.propagate)


def oracle_ephem(out, rng, kind):
    from datetime import timedelta
    orb = make_orbit(rng, kind)
    P = period(orb)
    estep = P / rng.uniform(60, 120)
    eph = orb.ephem(start=orb.date, stop=timedelta(seconds=1.5 * P), step=timedelta(seconds=estep))
    Ls, sta = std_listeners(rng, orb)
    mode = rng.choice(["nostep", "step", "dates"])
    start = orb.date + timedelta(seconds=8 * estep)
    stop = orb.date + timedelta(seconds=1.5 * P - 8 * estep)
    if mode == "nostep":
        kw = dict(start=start, stop=stop)
    elif mode == "step":
        kw = dict(start=start, stop=stop, step=timedelta(seconds=pick_step(rng, orb)))
    else:
        from beyond.dates import Date
        kw = dict(dates=list(Date.range(start, stop, timedelta(seconds=pick_step(rng, orb)))))
    desc = describe(orb, f"ephem-{mode}-" + kind, kw, Ls)
    run_stream(out, eph, "ephem", Ls, kw, desc, propagate=eph.propagate)


def oracle_numerical(out, rng, kind):
    from datetime import timedelta
    from beyond.propagators.keplernum import KeplerNum
    from beyond.env.solarsystem import get_body
    orb = make_orbit(rng, kind)
    P = period(orb)
    orb.propagator = KeplerNum(timedelta(seconds=P / 150), get_body("Earth"))
    Ls, sta = std_listeners(rng, orb, with_station=False)
    kw = dict(start=orb.date, stop=timedelta(seconds=1.2 * P), step=timedelta(seconds=pick_step(rng, orb)))
    desc = describe(orb, "keplernum-" + kind, kw, Ls)
    # the internal interpolating ephemeris is not reachable afterwards: sharpness is not re-evaluated here (it is for
    # analytical and ephemeris sources); soundness/completeness/order/labels are
    run_stream(out, orb, "numerical", Ls, kw, desc, propagate=None)


def oracle_visibility(out, rng, kind):
    """TopocentricFrame.visibility: exactly the above-horizon samples plus AOS/LOS/MAX (and mask) events"""
    from datetime import timedelta
    from beyond.propagators import listeners as LS
    orb = make_orbit(rng, kind)
    sta = make_station(rng, orb, mask=rng.random() < 0.5)
    P = period(orb)
    step = timedelta(seconds=round(rng.uniform(20, 120), 3))
    kw = dict(start=orb.date, stop=timedelta(seconds=P * rng.uniform(3, 6)), step=step)
    desc = describe(orb, "visibility-" + kind, kw, [])
    desc["station"] = [float(x) for x in sta.latlonalt]
    got = list(sta.visibility(orb, events=True, **kw))
    # reference: all samples and all events from an explicit iteration with fresh station listeners
    Ls = LS.stations_listeners(sta)
    ref = list(orb.iter(listeners=Ls, **kw))
    exp = []
    for o in ref:
        s = o.copy(frame=sta, form="spherical")
        if o.event or not s.phi < 0:
            exp.append((o.date._mjd, o.event.info if o.event else None))
    obs = [(o.date._mjd, o.event.info if o.event else None) for o in got]
    nev = sum(1 for x in obs if x[1])
    out.count(key=("vis", desc["epoch"]), nontrivial=nev > 0, kind="visibility", events=min(nev, 9))
    if obs != exp:
        out.fail("visibility:stream", "visibility stream differs from (above-horizon samples + AOS/LOS/MAX events)", desc,
                 observed=len(obs), expected=len(exp))
    for o in got:
        if not o.event:
            continue
        if o.event.info in ("AOS", "LOS") and type(o.event) is LS.SignalEvent:
            rate = abs(o.phi_dot) + 1e-5
            if abs(o.phi) > rate * 1e-5:     # zero within 10 us of motion
                out.fail("visibility:aos-los-elevation", "elevation at AOS/LOS is not zero", dict(desc, event=str(o.date)), observed=float(o.phi))
        if o.event.info == "MAX":
            if abs(o.phi_dot) > 1e-8:
                out.fail("visibility:max-rate", "elevation rate at MAX is not zero", dict(desc, event=str(o.date)), observed=float(o.phi_dot))
    # a caller-owned listeners list, used twice
    mine = [LS.NodeListener()]
    kw2 = dict(kw, stop=timedelta(seconds=P * 2))
    a = [(o.date._mjd, o.event.info if o.event else None) for o in sta.visibility(orb, events=True, listeners=mine, **kw2)]
    b = [(o.date._mjd, o.event.info if o.event else None) for o in sta.visibility(orb, events=True, listeners=mine, **kw2)]
    out.count(key=("vis-reuse", desc["epoch"]), nontrivial=any(x[1] for x in a), kind="visibility-reuse")
    if a != b:
        out.fail("visibility:reuse-listeners-list", "calling visibility twice with the same caller-owned listeners list gives a different stream",
                 dict(desc, listeners_after=len(mine)), observed=len(b), expected=len(a))


def oracle(ctx, widened):
    _setup()
    out = Outcome()
    rng = ctx.rng
    big = widened or ctx.thorough
    kinds = ["leo", "leo", "meo", "gto", "molniya"]
    for i in range(40 if big else 5):
        oracle_analytical(out, rng, kinds[i % len(kinds)], big)
    for i in range(20 if big else 2):
        oracle_backward(out, rng, kinds[i % len(kinds)])
    for i in range(20 if big else 3):
        oracle_ephem(out, rng, kinds[(i + 1) % len(kinds)])
    for i in range(10 if big else 1):
        oracle_numerical(out, rng, kinds[i % len(kinds)])
    for i in range(20 if big else 3):
        oracle_visibility(out, rng, "leo")
    return out


def replay(f):
    return Outcome()
